#!/usr/bin/env python3
"""verify_benign.py <candidate_dir> <id>
Confirms a property-preserving change in a scratch worktree (its demonstration passes without AND with the patch, the existing
suite still passes with it), then stores it as /verif/benign/<id>/ (patch.diff, demo.py, meta.json)."""
import json, os, shutil, subprocess, sys, re
cand, sid = sys.argv[1], sys.argv[2]
wt = f"/tmp/bv_{sid}"
def sh(cmd, **k):
    return subprocess.run(cmd, shell=True, capture_output=True, text=True, **k)
sh(f"git -C /repo worktree remove --force {wt}")
r = sh(f"git -C /repo worktree add -q --detach {wt} HEAD"); assert r.returncode == 0, r.stderr
try:
    env = dict(os.environ, PYTHONPATH=wt)
    d0 = subprocess.run(["/venv/bin/python", os.path.join(cand, "demo.py")], cwd="/tmp", env=env, capture_output=True, text=True, timeout=300)
    a = sh(f"git -C {wt} apply {cand}/patch.diff"); assert a.returncode == 0, a.stderr
    d1 = subprocess.run(["/venv/bin/python", os.path.join(cand, "demo.py")], cwd="/tmp", env=env, capture_output=True, text=True, timeout=300)
    t = sh(f"cd {wt} && /venv/bin/python -m pytest -q -p no:cacheprovider --timeout=900 --continue-on-collection-errors 2>&1 | tail -3")
    m = re.search(r"(\d+) passed", t.stdout)
    passed = int(m.group(1)) if m else -1
    ok = d0.returncode == 0 and d1.returncode == 0 and passed == 181
    print(sid, "demo_without", d0.returncode, "demo_with", d1.returncode, "tests_passed", passed, "OK" if ok else "REJECTED")
    if ok:
        dst = f"/verif/benign/{sid}"
        os.makedirs(dst, exist_ok=True)
        shutil.copy(f"{cand}/patch.diff", dst); shutil.copy(f"{cand}/demo.py", dst)
        meta = json.load(open(f"{cand}/meta.json"))
        meta.update({"id": sid, "verified": {"demo_exit_without_patch": d0.returncode, "demo_exit_with_patch": d1.returncode, "suite_passed_with_patch": passed}})
        json.dump(meta, open(f"{dst}/meta.json", "w"), indent=1)
finally:
    sh(f"git -C /repo worktree remove --force {wt}")
