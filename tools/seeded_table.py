#!/usr/bin/env python3
"""Regenerates the seeded-change table of DESIGN.md (between the SEEDED-TABLE markers) from seeded/*/meta.json and
seeded/RESULTS.json (written by tools/run_seeded.py)."""
import json, os, re
root = os.path.dirname(os.path.dirname(os.path.abspath(__file__)))
res = json.load(open(f"{root}/seeded/RESULTS.json"))
rows = ["| id | change (one line) | caught by | via (failing input found on the real code) |", "|----|-------------------|-----------|---------------------------------------------|"]
for sid in sorted(d for d in os.listdir(f"{root}/seeded") if os.path.isdir(f"{root}/seeded/{d}")):
    meta = json.load(open(f"{root}/seeded/{sid}/meta.json"))
    summ = re.sub(r"\s+", " ", meta["summary"]).replace("|", "/")
    if len(summ) > 170:
        summ = summ[:167].rsplit(" ", 1)[0] + " …"
    hits = [(k.split(":")[1], v) for k, v in res.items() if k.startswith(sid + ":")]
    caught = ", ".join(p for p, v in hits if v["caught"]) or "**missed**"
    via = []
    for p, v in hits:
        for fi in v["failing_inputs"][:2]:
            w = f"{fi.get('kind')} @ {fi.get('where')}" if fi.get("where") else str(fi.get("kind"))
            if fi.get("broken"):
                w += f"; corr. {fi['broken'][0]}"
            via.append(w.replace("|", "/"))
    rows.append(f"| {sid} | {summ} | {caught} | {'; '.join(dict.fromkeys(via))[:260]} |")
table = "\n".join(rows)
p = f"{root}/DESIGN.md"
s = open(p).read()
if "SEEDED_TABLE" in s:
    s = s.replace("SEEDED_TABLE", "<!-- SEEDED-TABLE-BEGIN -->\n" + table + "\n<!-- SEEDED-TABLE-END -->")
else:
    s = re.sub(r"<!-- SEEDED-TABLE-BEGIN -->.*?<!-- SEEDED-TABLE-END -->", lambda m: "<!-- SEEDED-TABLE-BEGIN -->\n" + table + "\n<!-- SEEDED-TABLE-END -->", s, flags=re.S)
open(p, "w").write(s)
print(len(rows) - 2, "rows")
