#!/usr/bin/env python3
"""check_statements.py <skeleton.lean> <proved.lean>: every theorem statement of the skeleton must occur verbatim
(up to whitespace) in the proved file."""
import re, sys
def stmts(path):
    s = open(path).read()
    out = {}
    for m in re.finditer(r"^theorem\s+(\S+)(.*?):=", s, re.S | re.M):
        name = m.group(1); body = m.group(2)
        out[name] = re.sub(r"\s+", " ", body).strip()
    return out
a, b = stmts(sys.argv[1]), stmts(sys.argv[2])
bad = 0
for n, t in a.items():
    if n not in b: print("MISSING", n); bad += 1
    elif b[n] != t: print("CHANGED", n, "\n  skeleton:", t[:300], "\n  proved:  ", b[n][:300]); bad += 1
print(f"{len(a)} skeleton statements, {bad} problems; defs changed?")
import difflib
defs = lambda p: re.findall(r"^(?:def|abbrev|structure|inductive)\s.*?(?=^\S|\Z)", open(p).read(), re.S | re.M)
da, db = defs(sys.argv[1]), defs(sys.argv[2])
for d in da:
    if d.strip() not in [x.strip() for x in db]: print("DEF CHANGED/MISSING:", d[:200]); bad += 1
sys.exit(1 if bad else 0)
