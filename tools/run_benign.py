#!/usr/bin/env python3
"""run_benign.py [id ...] — applies each property-preserving change of /verif/benign to a tree (SEEDED_REPO, default /repo), runs the
quick check of its property, undoes it.  Verdicts: PASS (exit 0), CORR-ONLY (exit 1, every VIOLATION line ends with
no-failing-input-found: the model no longer matches the code, as the protocol prescribes for a rewrite the proofs do not cover),
FALSE-ALARM (exit 1 with a failing input reported although the property holds), INFRA (exit 2)."""
import json, os, subprocess, sys, time
REPO = os.environ.get("SEEDED_REPO", "/repo")
ids = sys.argv[1:] or sorted(d for d in os.listdir("/verif/benign") if os.path.isdir(f"/verif/benign/{d}"))
assert subprocess.run(f"git -C {REPO} status --short", shell=True, capture_output=True, text=True).stdout.strip() == "", f"{REPO} not clean"
res = {}
for sid in ids:
    d = f"/verif/benign/{sid}"
    meta = json.load(open(f"{d}/meta.json"))
    pf = f"{d}/patch_rebased.diff" if os.path.exists(f"{d}/patch_rebased.diff") else f"{d}/patch.diff"     # rebased after a later fix: commit
    a = subprocess.run(f"git -C {REPO} apply {pf}", shell=True, capture_output=True, text=True)
    if a.returncode:
        print(sid, "patch does not apply", a.stderr[-200:]); continue
    try:
        t = time.time()
        r = subprocess.run(["/venv/bin/python", "check.py", meta["property"]], cwd="/verif", capture_output=True, text=True, env=dict(os.environ, PLATYPUS_REPO=REPO))
        v = [l for l in r.stdout.split("\n") if l.startswith("VIOLATION")]
        if r.returncode == 0:
            verdict = "PASS"
        elif r.returncode == 1 and v and all(l.rstrip().endswith("no-failing-input-found") for l in v):
            verdict = "CORR-ONLY"
        elif r.returncode == 1:
            verdict = "FALSE-ALARM"
        else:
            verdict = "INFRA"
        info = {"exit": r.returncode, "verdict": verdict, "violation_lines": v[:3], "what": []}
        for line in v[:3]:
            try:
                rp = json.load(open("/verif/" + line.split("replay=")[1].split()[0]))
                fl = rp.get("failure") or {}
                info["what"].append({"kind": fl.get("kind", rp.get("kind")), "where": fl.get("where"), "broken": (rp.get("broken") or rp.get("no_longer_checks") or [])[:2]})
            except Exception as e:
                info["what"].append({"kind": "unreadable replay", "where": str(e)[:80]})
        print(f"{sid:12s} {meta['property']} exit={r.returncode} {verdict} {time.time()-t:.0f}s {info['what'][:1] if verdict != 'PASS' else ''} {r.stderr[-200:] if verdict == 'INFRA' else ''}")
        res[sid] = info
    finally:
        subprocess.run(f"git -C {REPO} reset -q --hard HEAD && find {REPO} -name __pycache__ -prune -exec rm -rf {{}} +", shell=True)
out = "/verif/benign/RESULTS.json"
import fcntl
with open(out + ".lock", "w") as lk:
    fcntl.flock(lk, fcntl.LOCK_EX)
    old = json.load(open(out)) if os.path.exists(out) else {}
    old.update(res)
    json.dump(old, open(out, "w"), indent=1, sort_keys=True)
os.remove(out + ".lock") if os.path.exists(out + ".lock") else None
