import json,sys
p='/verif/lean/obligations.json'
o=json.load(open(p))
prop=sys.argv[1]
for l in sys.stdin:
    l=l.strip()
    if not l: continue
    n,e=l.split("|",1)
    o["Platypus."+n.strip()]={"property":prop,"english":e.strip()}
json.dump(o,open(p,'w'),indent=1)
