#!/usr/bin/env python3
"""run_seeded.py [seed_id ...]  — applies each seeded patch to /repo, runs the quick check of its property
(and optionally of extra properties), undoes it; prints caught / MISSED."""
import json, os, subprocess, sys, time
REPO = os.environ.get("SEEDED_REPO", "/repo")     # a scratch worktree can be used instead of /repo (the checks then get PLATYPUS_REPO)
ids = sys.argv[1:] or sorted(d for d in os.listdir("/verif/seeded") if os.path.isdir(f"/verif/seeded/{d}"))
res = {}
assert subprocess.run(f"git -C {REPO} status --short", shell=True, capture_output=True, text=True).stdout.strip() == "", f"{REPO} not clean"
for sid in ids:
    d = f"/verif/seeded/{sid}"
    meta = json.load(open(f"{d}/meta.json"))
    props = [meta["property"]] + meta.get("also_run", [])
    pf = f"{d}/patch_rebased.diff" if os.path.exists(f"{d}/patch_rebased.diff") else f"{d}/patch.diff"
    a = subprocess.run(f"git -C {REPO} apply {pf}", shell=True, capture_output=True, text=True)
    if a.returncode:   # the tree has moved on (fix: commits): 3-way merge of the seeded change onto the current HEAD
        a = subprocess.run(f"git -C {REPO} apply --3way {pf} && git -C {REPO} reset -q", shell=True, capture_output=True, text=True)
        if a.returncode or "<<<<<<<" in subprocess.run(f"git -C {REPO} diff", shell=True, capture_output=True, text=True).stdout:
            print(sid, "patch does not apply (even 3-way)", a.stderr[-200:]); subprocess.run(f"git -C {REPO} reset -q --hard HEAD", shell=True); continue
    try:
        for prop in props:
            t = time.time()
            r = subprocess.run(["/venv/bin/python", "check.py", prop], cwd="/verif", capture_output=True, text=True, env=dict(os.environ, PLATYPUS_REPO=REPO))
            v = [l for l in r.stdout.split("\n") if l.startswith("VIOLATION")]
            print(f"{sid:12s} {prop} exit={r.returncode} {'CAUGHT' if r.returncode == 1 and v else 'MISSED'} {time.time()-t:.0f}s {v[0] if v else r.stderr[-200:]}")
            info = {"exit": r.returncode, "caught": bool(r.returncode == 1 and v), "violation_lines": len(v), "failing_inputs": []}
            for line in v[:5]:
                try:
                    rp = json.load(open("/verif/" + line.split("replay=")[1].split()[0]))
                    fl = rp.get("failure", {})
                    info["failing_inputs"].append({"kind": fl.get("kind", rp.get("kind")), "where": fl.get("where"),
                                                   "broken": (rp.get("broken") or rp.get("no_longer_checks") or [])[:2]})
                except Exception as e:
                    info["failing_inputs"].append({"kind": "unreadable replay", "where": str(e)[:80]})
            res[sid + ":" + prop] = info
    finally:
        subprocess.run(f"git -C {REPO} reset -q --hard HEAD && find {REPO} -name __pycache__ -prune -exec rm -rf {{}} +", shell=True)
out = "/verif/seeded/RESULTS.json" if not os.environ.get("VERIF_SEED") else f"/verif/seeded/RESULTS.seed{os.environ['VERIF_SEED']}.json"
import fcntl
with open(out + ".lock", "w") as lk:          # several runs (other worktrees, other id subsets) may finish at the same time
    fcntl.flock(lk, fcntl.LOCK_EX)
    old = json.load(open(out)) if os.path.exists(out) else {}
    old.update(res)
    json.dump(old, open(out, "w"), indent=1, sort_keys=True)
os.remove(out + ".lock") if os.path.exists(out + ".lock") else None
