#!/usr/bin/env python3
"""Regenerates MANIFEST.json from the table below (kept as code so that it is always valid)."""
import json, os
HERE = os.path.dirname(os.path.abspath(__file__))
PY = "/venv/bin/python"
CLAIMED = {
 "C17": dict(text="Lean theorems for all widths/values/bit strings (round trip, range, surjectivity, inverse conversions); exhaustive correspondence of the real codecs with the model on small widths plus boundary widths for the bit count",
             note="math.log(w,2) truncation is tied to floor(log2 w) only at the sampled/boundary widths; model adequacy by correspondence",
             tech="Lean 4 proof (induction on bit lists) + exhaustive model/implementation correspondence", ref="§5 C17"),
}
PENDING = {}
def main():
    props = [json.loads(l) for l in open(os.path.join(HERE, "properties.jsonl"))]
    checks, na = [], []
    for p in props:
        i = p["id"]
        if i in CLAIMED:
            c = CLAIMED[i]
            checks.append({
                "property_id": i,
                "quick_cmd": f"{PY} check.py {i} --tier quick",
                "thorough_cmd": f"{PY} check.py {i} --tier thorough",
                "evidence_file": f"evidence/{i}.json",
                "replay_cmd_template": f"{PY} check.py {i} --replay {{path}}",
                "engine": "lean4-model+correspondence",
                "level_claimed": {"category": "proof", "text": c["text"], "design_ref": c["ref"]},
                "level_note": c["note"],
                "technique": c["tech"],
            })
        else:
            na.append({"property_id": i, "reason": PENDING.get(i, "check not built yet in this tree (planned in DESIGN.md §8 staging); not claimed until its Lean obligations and correspondence run")})
    m = {
        "version": 1,
        "setup_cmd": "cd lean && lake build",
        "hooks": {"guard": "PLATYPUS_VERIF", "enable": "no source hooks: the harness instruments Platypus from outside (wrapping/subclassing) and imports /repo's working tree directly",
                  "baseline_off_cmd": "cd /repo && /venv/bin/python -m pytest -ra -q -p no:cacheprovider --timeout=900 --continue-on-collection-errors",
                  "source_commits": [], "add_only": True},
        "engines": [{"name": "lean4-model+correspondence", "path": "lean/ harness/ check.py",
                     "serves_properties": [c["property_id"] for c in checks],
                     "kind_free_text": "hand-written executable Lean 4 model with kernel-checked theorems; Python harness runs the real Platypus code and the compiled Lean driver on the same inputs and diffs; independent oracle searches the real code for a failing input when a proof or the correspondence breaks"}],
        "checks": checks,
        "not_applicable": na,
        "notes": "Every check rebuilds the Lean targets it needs (incremental lake build), audits #print axioms, and imports Platypus from /repo's working tree.",
    }
    json.dump(m, open(os.path.join(HERE, "MANIFEST.json"), "w"), indent=1)
if __name__ == "__main__":
    main()
