#!/usr/bin/env python3
"""Regenerates MANIFEST.json from the table below (kept as code so that it is always valid)."""
import json, os
HERE = os.path.dirname(os.path.abspath(__file__))
PY = "/venv/bin/python"
CLAIMED = {
 "C17": dict(text="Lean theorems for all widths/values/bit strings (round trip, range, surjectivity, inverse conversions); exhaustive correspondence of the real codecs with the model on small widths plus boundary widths for the bit count",
             note="math.log(w,2) truncation is tied to floor(log2 w) only at the sampled/boundary widths; model adequacy by correspondence",
             tech="Lean 4 proof (induction on bit lists) + exhaustive model/implementation correspondence", ref="§5 C17"),
 "C02": dict(text="Lean theorems: compare = -1/1/0 exactly per the constraint-first Better relation, for every linear order, length and direction assignment; antisymmetry, irreflexivity, twins, transitivity. Exact (rational, +-inf) correspondence with the real ParetoDominance on exhaustive small grids and random special doubles, through fresh and shared comparator instances",
             note="NaN objectives excluded (no linear order); model adequacy by correspondence", tech="Lean 4 proof (induction over the flag loop) + exact model/implementation correspondence", ref="§5 C02"),
 "C03": dict(text="Lean theorem archive_eq_filter: after ANY insertion history the archive, as a list, equals the offered list filtered by 'no offered solution dominates me', for any antisymmetric transitive comparator (instantiated with the proved Pareto comparator); accept-iff, reject-unchanged, mutual non-dominance, coverage, permutation invariance. Trace correspondence of add/append/extend/+= histories incl. exhaustive short histories",
             note="model adequacy by correspondence (identity-based membership modelled by ids)", tech="Lean 4 proof (induction over the insertion history) + trace correspondence", ref="§5 C03"),
 "C11": dict(text="Lean theorems over any linearly ordered commutative ring: violation = 0 iff relation, > 0 otherwise, monotone away from the feasible side, total = sum |.|, feasible iff all relations hold, feasible beats infeasible; the expression grammar (regex + operator table) modelled and proved to accept every operator/whitespace/token combination and reject malformed ones. Float wire bit-exact + exact wire on dyadic cases, exhaustive over the grammar",
             note="Python float() literal grammar and float rounding of |x-y|+delta are parameters (exercised, not proved); sum() is CPython's",
             tech="Lean 4 proof (case analysis per operator; list lemmas for the regex matcher) + bit-exact correspondence", ref="§5 C11"),
 "C05": dict(text="Lean theorems over any linearly ordered field with floor: same_box / compare characterised by box-index vectors (floor(value/eps) per objective, last eps reused) and squared corner distance; never contradicts Pareto dominance; for every insertion history: one per box, incomparable boxes, coverage of everything offered, within-one-epsilon, improvement counter step law. Float instance bit-exact on arbitrary doubles + exact instance on dyadic lattices",
             note="float rounding of o/eps and of the corner distances is outside the theorems (the same-box rounding tie that contradicts Pareto dominance is a recorded known finding)",
             tech="Lean 4 proof (induction over objectives and over the history) + bit-exact/exact correspondence", ref="§5 C05"),
 "C04": dict(text="Lean theorems for any antisymmetric transitive comparator: rank 0 iff non-dominated, rank r+1 iff all dominators have rank <= r and one has rank r, termination of peeling, contiguous ranks; truncation by any total transitive key returns exactly min(k,n) distinct members and never keeps worse-than-discarded (rank, then crowding); split/prune specifications. Correspondence: ranks exact, crowding distance Float bit-exact, ids of every cut for all k",
             note="numeric value of the crowding distance is tied by bit-exact correspondence and an exact-fraction oracle, not by a theorem (partial for that clause)",
             tech="Lean 4 proof (induction over peeling rounds / merge sort lemmas) + correspondence", ref="§5 C04"),
 "C14": dict(text="Lean invariant theorem for the adaptive grid archive as a state machine, generic in the cell arithmetic: in every reachable state size <= capacity, members mutually non-dominated, reported occupancy of every cell = number of members in that cell; dominated newcomer unchanged, fitting newcomer added with exactly its dominated members leaving, overflow drops exactly one from a cell of maximal occupancy; size lemmas for sort-and-truncate survival. State-machine correspondence (flag, members, bounds, density after every add) incl. exhaustive short histories; population/swarm/leader sizes checked at every step of real runs",
             note="find_index arithmetic is a parameter of the theorems (tied by the Float instance of the driver); population-size clauses for algorithms other than sort-and-truncate ones are checked on traces only",
             tech="Lean 4 proof (state-machine invariant by induction over histories) + state-machine correspondence + run traces", ref="§5 C14"),
 "C08": dict(text="Lean theorems about the run loop for any state/step with >= 1 counted evaluation per step: terminates within N steps, stops exactly at the first step reaching the budget (overshoot < one step), zero budget evaluates nothing, consecutive calls get a fresh budget and compose; evaluate_all bookkeeping (calls = unevaluated members <= counter increment). Trace refinement: per-step counter increments and batches of real runs of all 16 algorithm configurations replayed through the model loop",
             note="MaxTime / user conditions out of scope; the per-algorithm fact 'every step counts >= 1 evaluation' is observed on traces, not proved per algorithm",
             tech="Lean 4 proof (induction over the loop) + trace refinement of real runs", ref="§5 C08"),
 "C01": dict(text="Lean theorem C01_invariant about the abstract machine (Problem.__call__, evaluate_all with copy-back, exposure): in every accepted trace every exposed solution is evaluated and carries exactly the record the problem yields for its own decoded variables, for any world and any evaluator; the machine's own evaluate_all is shown to satisfy the contract. Trace refinement: full observable traces (batches before/after, every exposed collection at every step) of real runs of 16 algorithm configurations x 5 variable types x evaluators (serial, pickled copies, thread submit, apply-async, process pool) replayed through the Lean acceptor; oracle re-derives every exposed record",
             note="partial: the theorem is about the abstract machine; pickling / real process pools and user-supplied operators are covered by the correspondence only; the harness problems are deterministic pure functions",
             tech="Lean 4 proof (invariant over event traces) + trace refinement of real runs through a Lean acceptor", ref="§5 C01"),
 "C07": dict(text="Lean theorems: in every accepted trace every argument submitted to the user's function is valid for the declared types; any bit string of the declared length decodes inside [min,max] (from C17); clamps/clips stay in the box. Same instrumented runs as C01 (every argument validated by the logging problem and re-validated by the Lean acceptor), default-operator registry per type, exhaustive decode probes, generator draws",
             note="partial: user-supplied operators, generators and injected populations are assumptions; CMA-ES rejection sampling is proved safe, not terminating",
             tech="Lean 4 proof (trace invariant + producer lemmas) + trace refinement", ref="§5 C07"),
 "C06": dict(text="Lean theorems for every shipped operator model, for all parents, all kernels (arithmetic) and all draw tapes: offspring valid for the declared types (reals via clip incl. a NaN order model, bit lengths, permutations incl. termination of PMX's replacement chain, duplicate-free subsets), evaluated discipline, symmetry of SBX/HUX/PMX/SSX, combinators preserve validity; parents immutable by construction. Correspondence: each real operator under a scripted random stream with extreme draws, recorded tape replayed by the model: offspring bit-exact, flags, tape consumption, error kinds; exhaustive small permutation/subset domains",
             note="partial for 'returns without error' of real-valued kernels (overflow/underflow of intermediates is covered by extreme-draw correspondence only); Multimethod is checked by the oracle only",
             tech="Lean 4 proof (induction over variables / chain-termination argument) + scripted-random bit-exact correspondence", ref="§5 C06"),
 "C09": dict(text="Lean theorems: rank-first truncation keeps all of front 0 if it fits else only front-0 members (NSGA-II, NSGA-III's fitting fronts), GDE3 pairwise step keeps every non-dominated solution and only drops dominated ones, prune elitist, SPEA2 raw fitness 0 iff non-dominated and truncation elitist for any crowding choice, archive results monotone (Pareto and epsilon), GA/ES best never worse. Per-generation trace refinement: the model's NSGA-II and GDE3 survival functions reproduce the observed next population exactly; front retention, archive monotonicity and best-so-far judged by an independent oracle on real runs",
             note="partial: NSGA-III reference-point niching and SPEA2 k-th neighbour distances are floating point and only constrained (relation check), not reproduced",
             tech="Lean 4 proof (sorting/permutation lemmas, archive coverage) + per-step trace refinement", ref="§5 C09"),
 "C13": dict(text="Lean theorems: consecutive run calls compose into the single-call run; resuming from a faithfully saved state equals continuing; the pinned Replace depended on set order (witness). Differential runs of the real code: same seed twice, in fresh interpreters under several PYTHONHASHSEED values, save at several step boundaries / resume in another process after RNG use / compare with the uninterrupted continuation, split run calls vs one call, process-history pairs through the shared default operators",
             note="partial: pickle fidelity, Mersenne-Twister state capture and hash randomisation are runtime facts checked by the differential runs, not theorems",
             tech="Lean 4 proof (composition of the run loop) + differential runs across interpreter processes", ref="§5 C13"),
 "C10": dict(text="Lean theorems for all solution sets, lengths and flipped subsets of objectives: Pareto and epsilon-box comparisons, Pareto archives, non-dominated fronts/ranks and (exact arithmetic, repaired code) the hypervolume are unchanged when a maximised objective is replaced by the minimised negation; generic 'commutes with any comparison-preserving relabelling' lemmas. Metamorphic correspondence on the real code with every subset of objectives flipped (comparisons, archives, sorting, crowding, every indicator), model run on both sides of each pair",
             note="partial: GD/IGD/spacing/epsilon-indicator flip invariance and whole-run invariance are established on the real code by the metamorphic check (exact equality under exact-representable negation), not by a theorem; float normalisation 1-n is exact only up to rounding and compared with a stated tolerance",
             tech="Lean 4 proof (induction over objectives / generic relabelling lemmas) + metamorphic correspondence", ref="§5 C10"),
 "C12": dict(text="Lean theorems: chunking partitions the job list in order for every chunk size; map/submit/apply evaluators return results in job order for every completion order; the MPI pool as a labelled transition system: for every schedule, every number of workers >= 1 and every number of tasks, when the master returns results = map f tasks, no reachable non-final configuration is stuck, no worker runs a task before it has the function; experiment results filed per (algorithm, problem) in job order. Correspondence: the real MPIPool on a simulated communicator under a controlled scheduler, every action replayed through the Lean LTS, small configurations enumerated over ALL schedules; real thread/process pools with reversed completion order",
             note="partial: real mpi4py / OS scheduling is replaced by a simulated communicator with MPI's non-overtaking semantics (assumption); process-pool pickling is exercised, not proved",
             tech="Lean 4 proof (LTS invariant, induction over schedules) + schedule replay / exhaustive schedule enumeration", ref="§5 C12"),
 "C15": dict(text="Lean theorem calcInternal_eq_hvRec for every dimension, every point set and every array state: the imperative slicing algorithm (in-place swaps, filter_nondominated, recursion over the last objective) computes the slicing (Fubini) specification of the dominated volume; the specification is >= 0, <= 1 on the unit cube, permutation/duplicate/dominated-point invariant and monotone under adding solutions. Float wire bit-exact on arbitrary doubles and exact rational wire on dyadic lattices against the real Hypervolume; independent inclusion-exclusion oracle in Fractions",
             note="float rounding of the real code relative to the exact volume is bounded only by the oracle's stated tolerance (not a theorem); normalisation uses the reference set's bounds as in the code",
             tech="Lean 4 proof (induction over dimension and array prefix) + bit-exact/exact correspondence + exact oracle", ref="§5 C15"),
 "C16": dict(text="Lean theorems over ordered fields with sqrt/pow parameters: GD, IGD, spacing >= 0; GD and additive epsilon of a set against itself are 0; no feasible member gives +infinity; making members worse in their declared directions never decreases the additive epsilon; normalisation of flipped objectives. Float wire bit-exact (CPython's compensated sum mirrored in the model) for GD/IGD/epsilon/spacing/hypervolume against the real indicator classes; exact-arithmetic textbook oracle",
             note="partial: 'equals the textbook value' is exact for the model over exact arithmetic and within 1e-9 relative for the float code (oracle), sqrt/pow are parameters",
             tech="Lean 4 proof (list inductions over min/max folds) + bit-exact correspondence + exact oracle", ref="§5 C16"),
 "C18": dict(text="Lean theorems over any ordered field with trig functions satisfying cos^2+sin^2=1 (instantiated at the reals): for every number of objectives and variables DTLZ2-4 satisfy sum f^2 = (1+g)^2 >= 1, DTLZ1 sum f = (1+g)/2 >= 1/2, g >= 0, ZDT g >= 1 and the ZDT2-shaped front bound, samplers with optimal distance variables satisfy the front equation, points on one front simplex/sphere/ellipsoid are mutually non-dominated, the reference functions return as many values as declared, and FixedLengthArray slice assignment stores scalars iff the value has the slice's length. Correspondence: all 43 classes x supported sizes x in-bounds points incl. corners/boundaries: arity and finiteness, published front inequalities, ZDT1-6 and DTLZ1-4,7 against the Lean reference implementations (written from the papers), DTLZ/WFG samplers (bounds, front equation, non-dominance), FixedLengthArray against its model",
             note="partial: the theorems are about the reference implementations over exact reals; the float code is tied to them within 1e-9 relative; WFG/UF/CF have no Lean reference (arity, finiteness and front inequalities only). DTLZ7 and WFG2 samplers are recorded known findings",
             tech="Lean 4 proof (telescoping inductions over the objective index) + reference-implementation correspondence", ref="§5 C18"),
 "C19": dict(text="Lean theorems about the model of the JSON decoder (document-order object_hook with threaded decoder state) and encoder: plain values pass through; a saved solution decodes to the same variables/objectives/constraints with the violation recomputed for the decoder's problem; round trips of lists/archives with supplied or inferred problem keep values and order; a file written from a live algorithm restores shape, directions and constraints (repaired hook), and the pinned hook provably lost them. Correspondence: real files (lists, archives, algorithms; all variable types; adversarial doubles) loaded by the real code and decoded by the model, compared bit for bit",
             note="partial: text <-> double conversion (repr/float, json module) is CPython's and only exercised; non-JSON-native variable elements are out of scope of the property",
             tech="Lean 4 proof (mutual structural induction over JSON values) + decoded-structure correspondence", ref="§5 C19"),
 "C20": dict(text="Lean theorems: over any linearly ordered field whatever lsolve returns satisfies A x = b exactly, a matrix with a non-trivial kernel is reported singular, every pivot used exceeded EPSILON; for tql2: the sub-diagonal scan returns the first negligible entry at or after the current row (the pinned scan provably could skip one), deflation soundness, plane rotations preserve orthonormality. Float wire bit-exact (solutions, eigenvalues, eigenvectors, error kinds) for lsolve/tred2/tql2 against the real code; exact rational wire for lsolve; residual oracle",
             note="partial: convergence and accuracy of the floating-point QL iteration (eigenpair residuals) are checked by the oracle with stated tolerances, not proved",
             tech="Lean 4 proof (induction over elimination steps; algebraic rotation lemma) + bit-exact/exact correspondence", ref="§5 C20"),
}
PENDING = {}
def main():
    props = [json.loads(l) for l in open(os.path.join(HERE, "properties.jsonl"))]
    checks, na = [], []
    for p in props:
        i = p["id"]
        if i in CLAIMED:
            c = CLAIMED[i]
            checks.append({
                "property_id": i,
                "quick_cmd": f"{PY} check.py {i} --tier quick",
                "thorough_cmd": f"{PY} check.py {i} --tier thorough",
                "evidence_file": f"evidence/{i}.json",
                "replay_cmd_template": f"{PY} check.py {i} --replay {{path}}",
                "engine": "lean4-model+correspondence",
                "level_claimed": {"category": "proof", "text": c["text"], "design_ref": c["ref"]},
                "level_note": c["note"],
                "technique": c["tech"],
            })
        else:
            na.append({"property_id": i, "reason": PENDING.get(i, "check not built yet in this tree (planned in DESIGN.md §8 staging); not claimed until its Lean obligations and correspondence run")})
    m = {
        "version": 1,
        "setup_cmd": "cd lean && lake build",
        "hooks": {"guard": "PLATYPUS_VERIF", "enable": "no source hooks: the harness instruments Platypus from outside (wrapping/subclassing) and imports /repo's working tree directly",
                  "baseline_off_cmd": "cd /repo && /venv/bin/python -m pytest -ra -q -p no:cacheprovider --timeout=900 --continue-on-collection-errors",
                  "source_commits": [], "add_only": True},
        "engines": [{"name": "lean4-model+correspondence", "path": "lean/ harness/ check.py",
                     "serves_properties": [c["property_id"] for c in checks],
                     "kind_free_text": "hand-written executable Lean 4 model with kernel-checked theorems; Python harness runs the real Platypus code and the compiled Lean driver on the same inputs and diffs; independent oracle searches the real code for a failing input when a proof or the correspondence breaks"}],
        "checks": checks,
        "not_applicable": na,
        "notes": "Every check rebuilds the Lean targets it needs (incremental lake build), audits #print axioms, and imports Platypus from /repo's working tree.",
    }
    json.dump(m, open(os.path.join(HERE, "MANIFEST.json"), "w"), indent=1)
if __name__ == "__main__":
    main()
