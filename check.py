#!/venv/bin/python
"""Entry point: check.py <Cxx> [--tier quick|thorough] [--replay FILE]

exit 0: property held on everything explored; exit 1: VIOLATION line printed; exit 2: infrastructure."""
import argparse
import importlib
import os
import sys
import traceback

HERE = os.path.dirname(os.path.abspath(__file__))
sys.path.insert(0, os.path.join(HERE, "harness"))
sys.path.insert(0, os.environ.get("PLATYPUS_REPO", "/repo"))
os.environ.setdefault("PLATYPUS_VERIF", "1")

import common  # noqa: E402


def main():
    ap = argparse.ArgumentParser()
    ap.add_argument("prop")
    ap.add_argument("--tier", default=os.environ.get("VERIF_TIER", "quick"), choices=["quick", "thorough"])
    ap.add_argument("--replay")
    a = ap.parse_args()
    seed = int(os.environ.get("VERIF_SEED", "20260930"))
    ctx = common.Ctx(a.prop, a.tier, seed)
    try:
        mod = importlib.import_module("corr_" + a.prop)
        if a.replay:
            return replay(a, mod)
        aud = common.audit(a.prop)
        drv = common.Driver()
        ctx.model_ok = drv.ok
        if a.tier == "thorough" and aud["build_ok"]:
            ok, log = common.leanchecker(a.prop)
            ctx.notes.append("leanchecker: " + ("ok" if ok else "FAILED " + log[-300:]))
            if not ok:
                aud["undischarged"].append(("leanchecker", log[-300:]))
        try:
            mod.run(ctx, drv)
        except common.Infra:
            raise
        except Exception:
            # The harness tripped over what the implementation returned.  If the oracle had already found failing
            # inputs on the real code, those stand and are reported (the crash is downstream of them); a crash with
            # nothing found is an infrastructure error (exit 2), never a violation.
            if not ctx.failures:
                raise
            ctx.notes.append("harness aborted after recording failures: " + traceback.format_exc()[-400:])
        integrity(ctx)
        ctx.stats["driver_request_lines"] = drv.lines
        return common.finish(ctx, aud, getattr(mod, "extra_coverage", lambda c: None)(ctx))
    except common.Infra as e:
        print(f"[{a.prop}] infrastructure error: {e}", file=sys.stderr)
        return 2
    except Exception:
        traceback.print_exc()
        return 2


def integrity(ctx):
    """library code must never change a solution the harness built behind its back (a copy that shares storage with its
    original would): every harness-built solution still carries the values it was given"""
    try:
        import plat
    except Exception:
        return
    for b in plat.integrity_failures():
        ctx.fail("solution-values-changed-behind-its-back", b, b["now_objectives"], "the values the solution was given",
                 "core.Solution.__deepcopy__ / core.FixedLengthArray (a copy shares storage with its original)")


def replay(a, mod):
    """Re-establish a recorded violation against the CURRENT tree: show the recorded failing input (and what the per-property
    replay routine observes for it now), then re-run the whole check with the recorded seed and tier — every generator is
    derived from that one seed, so the same inputs are produced — and report whether a failure of the same kind at the same
    call site (or the same broken theorem / correspondence) is found again.  exit 1 = reproduced, 0 = not reproduced."""
    import json
    rec = json.load(open(a.replay))
    seed, tier = int(rec.get("seed", 20260930)), rec.get("tier", "quick")
    print(f"[replay {a.prop}] recorded with seed={seed} tier={tier}: kind={rec.get('kind')}")
    try:
        mod.replay(common.Ctx(a.prop, tier, seed), a.replay)
    except Exception as e:          # display only; the verdict comes from the re-run below
        print(f"[replay {a.prop}] per-property replay routine raised {type(e).__name__}: {e}")
    ctx = common.Ctx(a.prop, tier, seed)
    aud = common.audit(a.prop)
    drv = common.Driver()
    ctx.model_ok = drv.ok
    try:
        mod.run(ctx, drv)
    except common.Infra:
        raise
    except Exception:
        if not ctx.failures:
            raise
    integrity(ctx)
    fl = rec.get("failure")
    if fl:
        same = [f for f in ctx.failures if f.get("kind") == fl.get("kind") and f.get("where") == fl.get("where")]
        print(f"[replay {a.prop}] failures of kind {fl.get('kind')!r} at {fl.get('where')!r} on the current tree: {len(same)}"
              f" (all failures found: {len(ctx.failures)}, correspondence disagreements: {len(ctx.disagreements)})")
        if same:
            print("  first one now:", json.dumps({k: same[0].get(k) for k in ("input", "observed", "expected")}, default=str)[:1500])
            print(f"VIOLATION property={a.prop} replay={a.replay}")
            return 1
        return 0
    broken_then = set(rec.get("no_longer_checks", []))
    broken_now = {f"theorem {n}: {why}" for n, why in aud["undischarged"]} | {"correspondence " + d["correspondence"] for d in ctx.disagreements}
    if not ctx.model_ok:
        broken_now.add("driver/model did not build")
    again = sorted(broken_then & broken_now) or (sorted(broken_now) if broken_then and broken_now else [])
    print(f"[replay {a.prop}] no longer checking now: {sorted(broken_now)[:5]}")
    if again:
        print(f"VIOLATION property={a.prop} replay={a.replay} no-failing-input-found")
        return 1
    return 0


if __name__ == "__main__":
    try:
        rc = main()
    finally:
        # scratch directories of this check (a harness stopped by a failing tree leaves them behind otherwise)
        import glob, shutil
        for d in glob.glob(os.path.join(os.environ.get("TMPDIR", "/tmp"), "c1[39]_*")):
            try:
                if os.path.exists(os.path.join(d, f".owner{os.getpid()}")):
                    shutil.rmtree(d, ignore_errors=True)
            except OSError:
                pass
    sys.stdout.flush()
    sys.stderr.flush()
    os._exit(rc)        # worker threads stuck in non-terminating library code must not keep the check alive
