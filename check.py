#!/venv/bin/python
"""Entry point: check.py <Cxx> [--tier quick|thorough] [--replay FILE]

exit 0: property held on everything explored; exit 1: VIOLATION line printed; exit 2: infrastructure."""
import argparse
import importlib
import os
import sys
import traceback

HERE = os.path.dirname(os.path.abspath(__file__))
sys.path.insert(0, os.path.join(HERE, "harness"))
sys.path.insert(0, os.environ.get("PLATYPUS_REPO", "/repo"))
os.environ.setdefault("PLATYPUS_VERIF", "1")

import common  # noqa: E402


def main():
    ap = argparse.ArgumentParser()
    ap.add_argument("prop")
    ap.add_argument("--tier", default=os.environ.get("VERIF_TIER", "quick"), choices=["quick", "thorough"])
    ap.add_argument("--replay")
    a = ap.parse_args()
    seed = int(os.environ.get("VERIF_SEED", "20260930"))
    ctx = common.Ctx(a.prop, a.tier, seed)
    try:
        mod = importlib.import_module("corr_" + a.prop)
        if a.replay:
            return mod.replay(ctx, a.replay)
        aud = common.audit(a.prop)
        drv = common.Driver()
        ctx.model_ok = drv.ok
        if a.tier == "thorough" and aud["build_ok"]:
            ok, log = common.leanchecker(a.prop)
            ctx.notes.append("leanchecker: " + ("ok" if ok else "FAILED " + log[-300:]))
            if not ok:
                aud["undischarged"].append(("leanchecker", log[-300:]))
        try:
            mod.run(ctx, drv)
        except common.Infra:
            raise
        except Exception:
            # The harness tripped over what the implementation returned.  If the oracle had already found failing
            # inputs on the real code, those stand and are reported (the crash is downstream of them); a crash with
            # nothing found is an infrastructure error (exit 2), never a violation.
            if not ctx.failures:
                raise
            ctx.notes.append("harness aborted after recording failures: " + traceback.format_exc()[-400:])
        ctx.stats["driver_request_lines"] = drv.lines
        return common.finish(ctx, aud, getattr(mod, "extra_coverage", lambda c: None)(ctx))
    except common.Infra as e:
        print(f"[{a.prop}] infrastructure error: {e}", file=sys.stderr)
        return 2
    except Exception:
        traceback.print_exc()
        return 2


if __name__ == "__main__":
    rc = main()
    sys.stdout.flush()
    sys.stderr.flush()
    os._exit(rc)        # worker threads stuck in non-terminating library code must not keep the check alive
