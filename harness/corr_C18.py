"""C18 — benchmark problems.  ZDT1-6, DTLZ1-4/7, WFG1-9, UF1-10, CF1-10 (objectives and constraints): compared with
the independent reference implementations of the Lean model (Float instance; tolerance 1e-9 relative, the
operation order of a reference written from the papers is not that of the library).  All 43 classes: arity / finiteness of what `evaluate` stores; published front
inequalities; Pareto samplers of DTLZ / WFG."""
import itertools
import math

from common import wf, wlist, wbits, bits2f
from plat import call

import platypus
from platypus import problems as P
from platypus import core as C

ALL = ["DTLZ1", "DTLZ2", "DTLZ3", "DTLZ4", "DTLZ7"] + [f"WFG{i}" for i in range(1, 10)] + [f"UF{i}" for i in range(1, 14)] + \
      [f"CF{i}" for i in range(1, 11)] + [f"ZDT{i}" for i in range(1, 7)]
TOL = 1e-9


def _mk(cls, *a, **k):
    p = cls(*a, **k)
    p._ctor = (a, k)           # how to build another instance of the same problem
    return p


def instances(name, rng, quick):
    cls = getattr(P, name)
    if name.startswith("DTLZ") or name.startswith("WFG"):
        extra = {"DTLZ2": [(3, 5), (2, 4), (3, 2)], "DTLZ3": [(2, 4), (3, 2)]}.get(name, [])
        return [_mk(cls, m) for m in ((2, 3) if quick else (2, 3, 4, 5))] + [_mk(cls, m, n) for m, n in extra]
    # default size, plus other numbers of variables (odd and even): the CEC 2009 index sets J1 / J2 / J3 depend on the parity
    import inspect
    if "nvars" in inspect.signature(cls.__init__).parameters:
        dflt = cls().nvars
        return [_mk(cls)] + [_mk(cls, nvars=n_) for n_ in sorted({5, 6, 7, 11, dflt + 1} - {dflt})][: (2 if quick else 5)]
    return [_mk(cls)]


def points(p, rng, n):
    """in-bounds decision vectors: random, corners, boundary / special values"""
    bounds = []
    for t in p.types:
        if isinstance(t, platypus.Real):
            bounds.append((t.min_value, t.max_value))
        else:
            bounds.append(None)
    out = []

    def mk(f):
        v = []
        for t, b in zip(p.types, bounds):
            if b is None:
                v.append(t.rand())
            else:
                v.append(f(b))
        return v
    out.append(mk(lambda b: b[0]))
    out.append(mk(lambda b: b[1]))
    out.append(mk(lambda b: (b[0] + b[1]) / 2))
    for _ in range(n):
        r = rng.random()
        if r < 0.5:
            out.append(mk(lambda b: rng.uniform(b[0], b[1])))
        elif r < 0.75:
            out.append(mk(lambda b: rng.choice([b[0], b[1], rng.uniform(b[0], b[1])])))
        else:
            special = [0.0, 0.25, 0.5, 0.75, 1.0, 0.35]
            out.append(mk(lambda b: min(b[1], max(b[0], b[0] + (b[1] - b[0]) * rng.choice(special)))))
    if len(bounds) <= 12 and all(b is not None for b in bounds):
        corners = list(itertools.product(*[(b[0], b[1]) for b in bounds]))
        rng.shuffle(corners)
        out += [list(c) for c in corners[:64]]
    return out


def front_check(name, p, f):
    """published front inequality; returns (ok, description) or None when none is listed for the class"""
    m = len(f)
    if name == "DTLZ1":
        return sum(f) >= 0.5 - TOL, "sum f >= 0.5"
    if name in ("DTLZ2", "DTLZ3", "DTLZ4"):
        return sum(x * x for x in f) >= 1 - TOL, "sum f^2 >= 1"
    if name in ("WFG4", "WFG5", "WFG6", "WFG7", "WFG8", "WFG9"):
        return sum((f[i] / (2.0 * (i + 1))) ** 2 for i in range(m)) >= 1 - 1e-9, "sum (f_i/2i)^2 >= 1"
    if name in ("ZDT1", "ZDT4", "UF1", "UF2", "UF3"):
        return f[0] < 0 or f[1] >= 1 - math.sqrt(max(f[0], 0.0)) - TOL, "f2 >= 1 - sqrt(f1)"
    if name in ("ZDT2", "UF4"):
        return f[1] >= 1 - f[0] ** 2 - TOL, "f2 >= 1 - f1^2"
    if name == "ZDT3":
        return f[1] >= 1 - math.sqrt(f[0]) - f[0] * math.sin(10 * math.pi * f[0]) - TOL, "f2 >= 1 - sqrt(f1) - f1 sin(10 pi f1)"
    if name == "ZDT6":
        return f[1] >= 1 - f[0] ** 2 - TOL, "f2 >= 1 - f1^2"
    if name == "ZDT5":
        return f[1] >= 10.0 / f[0] - TOL, "f2 >= 10 / f1"
    if name == "UF7":
        return f[1] >= 1 - f[0] - TOL, "f2 >= 1 - f1"
    return None


def is_real_scalar(x):
    return isinstance(x, (int, float)) and not isinstance(x, bool) and math.isfinite(x)


def close(a, b):
    return a == b or abs(a - b) <= TOL * max(1.0, abs(a), abs(b))


def _r_again(name, nobjs, nvars):
    import random as _random
    return _random.Random(f"{name}-{nobjs}-{nvars}")


def _wfg1_front(p, z):
    """the point of WFG1's Pareto front that belongs to the position variables of z (Huband et al. 2006: distance-related
    parameter 0); independent of the library's transformation and shape code"""
    k, M = p.k, p.m
    t = [min(1.0, max(0.0, math.pow(z[i] / (2.0 * (i + 1)), 0.02))) for i in range(k)]
    g = k // (M - 1)
    x = []
    for i in range(M - 1):
        idx = list(range(i * g, (i + 1) * g))
        w = [2.0 * (j + 1) for j in idx]
        x.append(sum(wj * t[j] for wj, j in zip(w, idx)) / sum(w))
    h = []
    for m in range(1, M):
        v = 1.0
        for i in range(M - m):
            v *= 1.0 - math.cos(x[i] * math.pi / 2)
        if m > 1:
            v *= 1.0 - math.sin(x[M - m] * math.pi / 2)
        h.append(v)
    h.append(1.0 - x[0] - math.cos(10 * math.pi * x[0] + math.pi / 2) / (10 * math.pi))
    return [2.0 * (m + 1) * h[m] for m in range(M)]


def run(ctx, drv):
    rng = ctx.rng
    ctx.nontrivial_rule = ("all 43 problem classes x supported numbers of objectives (DTLZ / WFG: 2-3 quick, 2-5 thorough) x in-bounds decision "
                           "vectors (random, up to 64 corners, boundary and special values 0, .25, .35, .5, .75, 1 of every range); samplers: "
                           "40 draws per instance. non-trivial = not all variables at a bound; distinct by (class, vector) + non-default numbers of variables for UF / CF / ZDT, Solution objects re-used for several points, FixedLengthArray slice assignment against its model; every class: the same vectors again later on the same problem object and on a fresh instance")
    reqs, post = [], []

    def ask(line, fn):
        reqs.append(line); post.append(fn)
    per = 25 if ctx.quick() else 400
    for name in ALL:
        for p in instances(name, rng, ctx.quick()):
            desc = f"{name}(nobjs={p.nobjs}, nvars={p.nvars})"
            s = None
            held = {}
            for pi, x in enumerate(points(p, rng, per)):
                # every other point re-uses the previous Solution object (new variables, evaluated again): evaluation is a
                # function of the variables it is given now, not of what the object held before
                if s is None or pi % 2 == 0 or pi == 1:      # (the very first solution of a problem object is kept, not re-used)
                    s = C.Solution(p)
                s.variables[:] = x
                r = call(s.evaluate)
                inp = {"problem": desc, "variables": x if not isinstance(x[0], list) else [wbits(v) for v in x]}
                if isinstance(r, str):
                    undefined = name in ("CF8", "CF9", "CF10") and r == "err:zerodiv"      # (1 - f3^2) = 0: the definition is undefined there
                    if not undefined:
                        ctx.fail("evaluate-raises", inp, r, "objective values", f"problems.{name}.evaluate")
                        ctx.failures[-1]["input_class"] = f"{name}:{r}"
                    continue
                objs, cons = list(s.objectives), list(s.constraints)
                held[id(s)] = (s, inp, repr(objs), repr(cons))
                if len(objs) != p.nobjs or not all(is_real_scalar(o) for o in objs):
                    ctx.fail("objectives-not-declared-number-of-finite-reals", inp, repr(objs)[:200], f"{p.nobjs} finite real values", f"problems.{name}.evaluate")
                    ctx.failures[-1]["input_class"] = f"{name}:objective-arity"
                    continue
                if len(cons) != p.nconstrs or not all(is_real_scalar(c) for c in cons):
                    ctx.fail("constraints-not-declared-number-of-finite-reals", inp, repr(cons)[:200], f"{p.nconstrs} finite real values", f"problems.{name}.evaluate")
                    continue
                fc = front_check(name, p, objs)
                if fc is not None and not fc[0]:
                    ctx.fail("below-published-front", dict(inp, objectives=objs), objs, fc[1], f"problems.{name}.evaluate")
                # reference implementations
                if name.startswith("ZDT") and name != "ZDT5":
                    ask(f"zdt {name[3]} {wlist(x, wf)}", lambda g, objs=objs, inp=inp, name=name: cmp_ref(ctx, g, objs, inp, name))
                elif name == "ZDT5":
                    ask(f"zdt5 {len(x)} " + " ".join(wbits(v) for v in x),
                        lambda g, objs=objs, inp=inp: None if (lambda t: close(objs[0], float(t[1])) and close(objs[1], float(t[2]) / float(t[3])))(g.split())
                        else ctx.disagree("ZDT5 reference implementation", inp, objs, g))
                elif name.startswith("UF") and int(name[2:]) <= 10:
                    ask(f"uf {name[2:]} {wlist(x, wf)}", lambda g, objs=objs, inp=inp, name=name: cmp_ref(ctx, g, objs, inp, name))
                elif name in ("UF11", "UF12"):   # CEC 2009 rotated DTLZ2 / DTLZ3; the rotation tables are data
                    cls_ = type(p)
                    ask(f"ufrot {int(name == 'UF12')} {p.nobjs} {len(cls_.M)} " + " ".join(wlist([float(v) for v in row], wf) for row in cls_.M)
                        + " " + wlist([float(v) for v in cls_.LAM], wf) + " " + wlist(x, wf),
                        lambda g, objs=objs, inp=inp, name=name: cmp_ref(ctx, g, objs, inp, name))
                elif name == "UF13":          # CEC 2009: WFG1 with 5 objectives, k = 8, l = 22
                    ask(f"wfg 1 8 5 {wlist(x, wf)}", lambda g, objs=objs, inp=inp, name=name: cmp_ref(ctx, g, objs, inp, name))
                elif name.startswith("CF"):
                    ask(f"cf {name[2:]} {wlist(x, wf)}", lambda g, vals=objs + cons, inp=inp, name=name: cmp_ref(ctx, g, vals, inp, name))
                elif name.startswith("WFG"):
                    ask(f"wfg {name[3]} {p.k} {p.nobjs} {wlist(x, wf)}", lambda g, objs=objs, inp=inp, name=name: cmp_ref(ctx, g, objs, inp, name))
                elif name.startswith("DTLZ"):
                    ask(f"dtlz {name[4]} {p.nobjs} {wlist(x, wf)}", lambda g, objs=objs, inp=inp, name=name: cmp_ref(ctx, g, objs, inp, name))
                interior = not all(v in (t.min_value, t.max_value) for v, t in zip(x, p.types) if isinstance(t, platypus.Real)) if not isinstance(x[0], list) else True
                ctx.case((desc, repr(x)), interior, dict(inp, objectives=objs) if len(ctx.samples) < 3 and name in ("DTLZ2", "WFG4", "CF1") and interior else None)
            ctx.count("points_" + name[:3])
            # ---------------- evaluation is a function of the decision vector: the first vectors again, on this problem object
            # (which has evaluated many others since) and on a freshly constructed instance of the same class
            pts_again = points(p, _r_again(name, p.nobjs, p.nvars), 3)
            try:
                fresh_p = type(p)(*p._ctor[0], **p._ctor[1])
            except Exception:
                fresh_p = None
            first_vals = []
            for x in pts_again:
                s1 = C.Solution(p); s1.variables[:] = x
                r1 = call(s1.evaluate)
                first_vals.append(None if isinstance(r1, str) else (list(s1.objectives), list(s1.constraints)))
            for x in points(p, rng, 5):              # other work in between
                s_ = C.Solution(p); s_.variables[:] = x
                call(s_.evaluate)
            for x, v1 in zip(pts_again, first_vals):
                if v1 is None:
                    continue
                for tag, prob in (("same problem object, later", p), ("fresh instance", fresh_p)):
                    if prob is None:
                        continue
                    s2 = C.Solution(prob); s2.variables[:] = x
                    r2 = call(s2.evaluate)
                    v2 = None if isinstance(r2, str) else (list(s2.objectives), list(s2.constraints))
                    if v2 != v1:
                        ctx.fail("evaluation-depends-on-history", {"problem": desc, "variables": x if not isinstance(x[0], list) else [wbits(v) for v in x], "second_evaluation_on": tag},
                                 v2, v1, f"problems.{name}.evaluate")
                        break
            ctx.count("repeat_evaluations", 6)
            # ---------------- and what a solution was given stays with it: every solution evaluated above still holds the values of
            # its own evaluation after all the later evaluations on the same problem object
            for s_h, inp_h, o_h, c_h in held.values():
                if repr(list(s_h.objectives)) != o_h or repr(list(s_h.constraints)) != c_h:
                    ctx.fail("values-of-an-evaluated-solution-changed-by-later-evaluations", dict(inp_h, held_after_its_evaluation=[o_h, c_h]),
                             [repr(list(s_h.objectives)), repr(list(s_h.constraints))], "unchanged", f"problems.{name}.evaluate / core.Problem.__call__")
                    break
            # ---------------- Pareto samplers
            if hasattr(p, "random") and (name.startswith("DTLZ") or name.startswith("WFG")):
                import random as _random
                sols = []
                for k in range(80 if ctx.quick() else 400):
                    if k == 0:
                        _random.seed(0)                       # fixed stream first: listed findings reproduce on every seed
                    elif k == 40:
                        _random.seed(rng.randrange(2 ** 31))
                    s = call(p.random)
                    if isinstance(s, str):
                        ctx.fail("sampler-raises", {"problem": desc}, s, "a solution", f"problems.{name}.random")
                        break
                    sols.append(s)
                bad = False
                for s in sols:
                    v = list(s.variables)
                    if not all(t.min_value - 1e-12 <= a <= t.max_value + 1e-12 for a, t in zip(v, p.types)):
                        ctx.fail("sampler-out-of-bounds", {"problem": desc, "variables": v}, v, "in bounds", f"problems.{name}.random")
                        bad = True
                        break
                    f = list(s.objectives)
                    eq = None
                    if name == "DTLZ1":
                        eq = abs(sum(f) - 0.5) <= 1e-9
                    elif name in ("DTLZ2", "DTLZ3", "DTLZ4"):
                        eq = abs(sum(a * a for a in f) - 1.0) <= 1e-9
                    elif name in ("WFG4", "WFG5", "WFG6", "WFG7", "WFG8", "WFG9"):
                        eq = abs(sum((f[i] / (2.0 * (i + 1))) ** 2 for i in range(len(f))) - 1.0) <= 1e-9
                    cls_ = f"{name}:sampler-off-front"
                    if name == "WFG1":
                        # WFG1's front: distance-related parameter x_M = 0, i.e. f_m = 2m * shape_m(x_1 .. x_{M-1}) with the position-
                        # related x_i computed from the position variables alone (independent re-implementation of b_poly,
                        # r_sum, convex and mixed shapes)
                        fs = _wfg1_front(p, v)
                        off = [a - b for a, b in zip(f, fs)]
                        eq = all(abs(d_) <= 1e-9 * max(1.0, abs(b)) for d_, b in zip(off, fs))
                        if not eq and max(off) - min(off) <= 1e-9 and 0 < off[0] <= 0.2:
                            cls_ = "WFG1:sampler-uniformly-above-front"       # every objective too large by the same x_M
                    if eq is False:
                        ctx.fail("sampled-point-off-the-front", {"problem": desc, "variables": v, "objectives": f}, f, "front equation", f"problems.{name}.random")
                        ctx.failures[-1]["input_class"] = cls_
                        bad = True
                        break
                has_eq = name in ("DTLZ1", "DTLZ2", "DTLZ3", "DTLZ4", "WFG4", "WFG5", "WFG6", "WFG7", "WFG8", "WFG9")
                if not bad and has_eq:
                    # points of the non-negative orthant that satisfy the front equation (simplex / sphere / ellipsoid) are
                    # mutually non-dominated (theorems C18.simplex_nondominated, C18.sphere_nondominated); the equation was
                    # checked above, what is left is non-negativity.  A pairwise test on the rounded doubles would be wrong
                    # here: DTLZ4's x^100 makes cos(..) round to exactly 1.0 for many distinct draws.
                    for s in sols:
                        if any(a < -1e-12 for a in s.objectives):
                            ctx.fail("sampled-point-off-the-front", {"problem": desc, "objectives": list(s.objectives)}, list(s.objectives), "non-negative objectives",
                                     f"problems.{name}.random")
                            ctx.failures[-1]["input_class"] = f"{name}:sampler-off-front"
                            break
                if not bad and not has_eq and len(sols) > 1:
                    # mutual non-dominance up to rounding: no worse in every objective (exactly, as doubles) and better by more
                    # than rounding in one
                    def dominates(a, b):
                        return all(x <= y for x, y in zip(a, b)) and any(x < y - 1e-9 * max(1, abs(y)) for x, y in zip(a, b))
                    F = [list(s.objectives) for s in sols]
                    for i in range(len(F)):
                        j = next((j for j in range(len(F)) if j != i and dominates(F[j], F[i])), None)
                        if j is not None:
                            ctx.fail("sampled-points-not-mutually-nondominated", {"problem": desc, "dominated": F[i], "by": F[j]}, F[i], "mutually non-dominated samples",
                                     f"problems.{name}.random")
                            ctx.failures[-1]["input_class"] = f"{name}:sampler-dominated"
                            break
                ctx.count("samplers")
    # ---------------- FixedLengthArray slice assignment (core.py) against the model's sliceAssign
    def pv(v):
        if isinstance(v, list):
            return f"l {len(v)} " + " ".join(pv(e) for e in v)
        return f"s {v}"

    def show(v):
        if isinstance(v, list):
            return "[" + ",".join(show(e) for e in v) + "]"
        return f"s{v}"
    for _ in range(300 if ctx.quick() else 5000):
        n = rng.randrange(0, 6)
        data = [rng.randrange(100) for _ in range(n)]
        kind = rng.random()
        if kind < 0.3:
            start, stop = 0, n
        else:
            start = rng.randrange(0, n + 2); stop = rng.randrange(0, n + 3)
        cnt = max(0, min(stop, n) - start)
        r = rng.random()
        if r < 0.35:
            val = [rng.randrange(100, 200) for _ in range(cnt)]
        elif r < 0.7:
            val = [rng.randrange(100, 200) for _ in range(rng.randrange(0, 6))]
        elif r < 0.85:
            val = rng.randrange(100, 200)
        else:
            val = [[rng.randrange(5)] * rng.randrange(0, 3) for _ in range(rng.choice([cnt, cnt + 1]))]
        arr = C.FixedLengthArray(n)
        for i_, v_ in enumerate(data):         # filled through the public single-index assignment
            arr[i_] = v_
        arr[start:stop] = val
        got = " ".join(show(arr[i_]) for i_ in range(n))
        inp = {"data": data, "start": start, "stop": stop, "value": val}
        ask(f"fla {len(data)} " + " ".join(pv(e) for e in data) + f" {start} {stop} {pv(val)}",
            lambda g, got=got, inp=inp: None if g.split(" ", 1)[1:] == ([got] if got else []) or g == "a " + got or (g.strip() == "a" and got == "")
            else ctx.disagree("FixedLengthArray slice assignment", inp, got, g))
        ctx.case(("fla", repr(inp)), cnt > 0)
    ctx.count("slice_assignments", 300 if ctx.quick() else 5000)
    if drv.ok:
        out = drv.batch(reqs)
        for g, fn in zip(out, post):
            fn(g)


def cmp_ref(ctx, g, objs, inp, name):
    ref = [bits2f(t) for t in g.split()[1:]]
    if len(ref) != len(objs) or not all(close(a, b) for a, b in zip(objs, ref)):
        ctx.disagree(f"{name} reference implementation (published formula)", inp, objs, ref)
        ctx.fail("differs-from-published-formula", dict(inp, reference=ref), objs, ref, f"problems.{name}.evaluate")


def replay(ctx, path):
    import json
    r = json.load(open(path))
    print(json.dumps(r.get("failure", r), indent=1)[:3000])
    return 0
