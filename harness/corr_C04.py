"""C04 — non-dominated sorting, crowding distance, truncate / split / prune.
Ranks on the exact wire; crowding distance Float bit-exact; ids returned by the cuts; oracle from the
statement (domination depth DP, monotone cuts, crowding formula in Fractions on grids)."""
import math
from fractions import Fraction

from common import wf, wq, wlist, bits2f
import plat
from plat import mk_problem, mk_sol, sol_q, dirs_w, call

from platypus import core as C


def gen_population(rng, small):
    n = rng.randrange(1, 5)
    dirs = tuple(rng.random() < 0.35 for _ in range(n))
    constrained = rng.random() < 0.3
    p = mk_problem(n, dirs, constrained)
    size = rng.randrange(0, 9 if small else 31)
    mode = rng.random()
    grid = list(range(0, rng.choice([2, 3, 5, 8])))
    offs = [rng.choice([1e6, float(2 ** 40), -1e9, 1e3, 0.0]) for _ in range(n)]
    steps = [rng.choice([1e-4, 1.0, 2.0 ** -10, 1e-3]) for _ in range(n)]
    sols = []
    for _ in range(size):
        if sols and rng.random() < 0.15:
            objs = list(rng.choice(sols).objectives)          # duplicate objective vector (another object)
        elif mode < 0.6:
            objs = [float(rng.choice(grid)) for _ in range(n)]
        elif mode < 0.75:
            # a front far from the origin whose spread is tiny relative to its magnitude (still far above EPSILON)
            objs = [offs[j] + rng.choice(grid) * steps[j] for j in range(n)]
        else:
            objs = [rng.uniform(-1, 1) * 10 ** rng.randrange(-2, 3) if rng.random() < 0.9 else rng.choice([0.0, -0.0, 1e-320, 1e300]) for _ in range(n)]
        cv = float(rng.choice([0, 0, 0, 1, 1, 2])) if constrained else 0.0
        sols.append(mk_sol(p, objs, cv))
    return n, dirs, constrained, p, sols


def depth_ranks(constrained, dirs, sols):
    """domination depth from the statement: rank 0 = non-dominated; rank r = 1 + max rank of dominators"""
    n = len(sols)
    dom = [[plat.better(constrained, dirs, list(sols[j].objectives), sols[j].constraint_violation,
                        list(sols[i].objectives), sols[i].constraint_violation) for j in range(n)] for i in range(n)]   # dom[i][j]: j dominates i
    rank = [None] * n
    import sys
    sys.setrecursionlimit(10000)

    def rk(i):
        if rank[i] is None:
            ds = [rk(j) for j in range(n) if dom[i][j]]
            rank[i] = 1 + max(ds) if ds else 0
        return rank[i]
    return [rk(i) for i in range(n)]


def cd_reference(front):
    """crowding distance of the statement on one front, exact arithmetic; None = infinite"""
    n = len(front)
    if n == 0:
        return []
    nobjs = len(front[0])
    seen, uniq = set(), []
    for i, o in enumerate(front):
        k = tuple(o)
        if k not in seen:
            seen.add(k); uniq.append(i)
    res = [Fraction(0)] * n
    if len(uniq) < 3:
        for i in uniq:
            res[i] = None
        return res
    for k in range(nobjs):
        order = sorted(uniq, key=lambda i: front[i][k])
        lo, hi = front[order[0]][k], front[order[-1]][k]
        for i in (order[0], order[-1]):
            res[i] = None
        for a in range(1, len(order) - 1):
            i = order[a]
            if res[i] is None:
                continue
            if hi - lo < 2.220446049250313e-16:
                res[i] = None
            else:
                res[i] += (Fraction(front[order[a + 1]][k]) - Fraction(front[order[a - 1]][k])) / (Fraction(hi) - Fraction(lo))
    return res


def run(ctx, drv):
    rng = ctx.rng
    ctx.nontrivial_rule = ("populations of 0..30 distinct solution objects, 1-4 objectives on grids of 2-8 values (15% duplicated "
                           "vectors) or random doubles, mixed directions, 30% constrained; for each, all target sizes k = 0..n+2 for "
                           "truncate / split / prune. non-trivial = >= 2 fronts and >= 1 front with >= 3 distinct vectors; "
                           "distinct by request line + call sequences on overlapping populations (survivors, deep copies, newcomers), the same object listed twice")
    reqs, post = [], []

    def ask(line, fn):
        reqs.append(line); post.append(fn)

    npop = 1200 if ctx.quick() else 20000
    for t in range(npop):
        n, dirs, constrained, p, sols = gen_population(rng, small=(t % 3 == 0))
        inp = {"maximise": list(dirs), "constrained": constrained, "population": [[list(s.objectives), s.constraint_violation] for s in sols]}
        work = list(sols)
        r = call(C.nondominated_sort, work)
        if isinstance(r, str):
            ctx.fail("sort-raises", inp, r, "ranks", "core.nondominated_sort")
            continue
        ranks = [getattr(s, "rank", None) for s in sols]
        cds = [getattr(s, "crowding_distance", None) for s in sols]
        # ---------------- ranks: model (exact wire) + oracle (depth)
        ask(f"nsort {int(constrained)} {dirs_w(dirs)} {len(sols)} " + " ".join(sol_q(i, s) for i, s in enumerate(sols)),
            lambda g, ranks=ranks, inp=inp: None if g.split()[1:] == [str(r) for r in ranks]
            else ctx.disagree("nondominated_sort ranks (peelFronts)", inp, ranks, g.split()[1:]))
        exp = depth_ranks(constrained, dirs, sols)
        if ranks != exp:
            ctx.fail("rank-not-domination-depth", inp, ranks, exp, "core.nondominated_sort")
            continue
        nfronts = (max(ranks) + 1) if ranks else 0
        big = False
        # ---------------- crowding distance per front
        for r_ in range(nfronts):
            idx = [i for i in range(len(sols)) if ranks[i] == r_]
            front = [list(map(float, sols[i].objectives)) for i in idx]
            got = [cds[i] for i in idx]
            ask(f"crowdF {n} {len(front)} " + " ".join(wlist(o, wf) for o in front),
                lambda g, got=got, front=front: None if [bits2f(x) for x in g.split()[1:]] == [float(v) for v in got]
                else ctx.disagree("crowding_distance Float instance", {"front": front}, got, [bits2f(x) for x in g.split()[1:]]))
            # the generic crowding model (the one the theorems of Props/C04Crowding are about) at Float, bit for bit ...
            ask(f"crowdG {n} {len(front)} " + " ".join(wlist(o, wf) for o in front),
                lambda g, got=got, front=front: None if [bits2f(x) for x in g.split()[1:]] == [float(v) for v in got]
                else ctx.disagree("crowding_distance: generic model (crowdingG) at Float", {"front": front}, got, [bits2f(x) for x in g.split()[1:]]))
            ref = cd_reference(front)
            # ... and at Rat against the exact oracle (exact-arithmetic meaning of the same definition)
            # (skipped when the collapsed-range test `max - min < EPSILON` is decided differently by double and by exact subtraction)
            eps_ = 2.220446049250313e-16
            cols = list(zip(*front)) if front else []
            threshold_is_rounding_sensitive = any(((max(c) - min(c)) < eps_) != ((Fraction(max(c)) - Fraction(min(c))) < Fraction(eps_)) for c in cols)
            if threshold_is_rounding_sensitive or not all(math.isfinite(v) for o in front for v in o):
                ctx.count("crowdQ_skipped_rounding_sensitive_threshold")
            else:
              ask(f"crowdQ {n} {len(front)} " + " ".join(wlist(o, wq) for o in front),
                  lambda g, ref=ref, front=front: None if [None if x == "inf" else Fraction(x) for x in g.split()[1:]] == ref
                  else ctx.disagree("crowding_distance: generic model (crowdingG) at Rat vs exact oracle", {"front": front}, [None if r_ is None else str(r_) for r_ in ref], g[:300]))
            if len({tuple(o) for o in front}) >= 3:
                big = True
            for v, rv, o in zip(got, ref, front):
                if rv is None:
                    if v != math.inf:
                        ctx.fail("crowding-extreme-not-infinite", {"front": front, "member": o}, v, "inf", "core.crowding_distance")
                        break
                elif v is None or not math.isfinite(v) or abs(Fraction(v) - rv) > Fraction(1, 10 ** 9) * max(1, abs(rv)):
                    ctx.fail("crowding-value-wrong", {"front": front, "member": o}, v, float(rv), "core.crowding_distance")
                    break
        # ---------------- cuts for every k
        for k in range(0, len(sols) + 3):
            # the population as a list, a tuple, or (truncate sorts its argument once, so any iterable will do) a one-shot
            # iterator / generator: the same solutions, the same answer
            form = (k + len(sols)) % 5
            targ = iter(list(sols)) if form == 1 else ((s_ for s_ in list(sols)) if form == 3 else (tuple(sols) if form == 4 else list(sols)))
            tr = call(C.nondominated_truncate, targ, k)
            sp = call(C.nondominated_split, tuple(sols) if form == 2 else list(sols), k)
            # prune recomputes crowding distances (side effect on attributes): restore afterwards
            saved = [(s.crowding_distance) for s in sols]
            pr = call(C.nondominated_prune, list(sols), k)
            for s, v in zip(sols, saved):
                s.crowding_distance = v
            pos = {id(s): i for i, s in enumerate(sols)}
            kin = dict(inp, k=k, ranks=ranks, population_given_to_truncate_as=["list", "iterator", "list", "generator", "tuple"][form])
            if isinstance(tr, str) or isinstance(sp, str) or isinstance(pr, str):
                ctx.fail("cut-raises", kin, [x for x in (tr, sp, pr) if isinstance(x, str)][0], "a list", "core.nondominated_truncate/split/prune")
                break
            tri, pri = [pos[id(s)] for s in tr], [pos[id(s)] for s in pr]
            spi = ([pos[id(s)] for s in sp[0]], [pos[id(s)] for s in sp[1]])
            ask(f"ntrunc {len(sols)} " + " ".join(f"{i} {ranks[i]} {wf(cds[i])}" for i in range(len(sols))) + f" {k}",
                lambda g, tri=tri, kin=kin: None if g.split()[1:] == ([str(i) for i in tri] or ["-"])
                else ctx.disagree("nondominated_truncate ids", kin, tri, g.split()[1:]))
            ask(f"nsplit {len(sols)} " + " ".join(f"{i} {ranks[i]}" for i in range(len(sols))) + f" {k}",
                lambda g, spi=spi, kin=kin: None if g[2:] == f"{' '.join(map(str, spi[0])) or '-'} | {' '.join(map(str, spi[1])) or '-'}"
                else ctx.disagree("nondominated_split ids", kin, spi, g))
            ask(f"nprune {n} {len(sols)} " + " ".join(f"{i} {ranks[i]} {wlist(list(map(float, sols[i].objectives)), wf)}" for i in range(len(sols))) + f" {k}",
                lambda g, pri=pri, kin=kin: None if g.split()[1:] == ([str(i) for i in pri] or ["-"])
                else ctx.disagree("nondominated_prune ids", kin, pri, g.split()[1:]))
            # oracle: sizes, distinct members, rank monotone, crowding monotone in the cut front, split shape
            m = min(k, len(sols))
            for name, ids_ in (("truncate", tri), ("prune", pri)):
                if len(ids_) != m or len(set(ids_)) != len(ids_):
                    ctx.fail(f"{name}-size-or-duplicates", kin, ids_, f"{m} distinct members", f"core.nondominated_{name}")
                    break
                kept = set(ids_)
                worst_kept = max((ranks[i] for i in kept), default=-1)
                best_drop = min((ranks[i] for i in range(len(sols)) if i not in kept), default=10 ** 9)
                if worst_kept > best_drop:
                    ctx.fail(f"{name}-keeps-worse-rank", kin, ids_, "no kept solution of larger rank than a discarded one", f"core.nondominated_{name}")
                    break
                if name == "truncate":
                    cut = worst_kept
                    kc = [cds[i] for i in kept if ranks[i] == cut]
                    dc = [cds[i] for i in range(len(sols)) if i not in kept and ranks[i] == cut]
                    if kc and dc and min(kc) < max(dc):
                        ctx.fail("truncate-discards-larger-crowding", kin, ids_, "within the cut front no discarded member has larger crowding distance", "core.nondominated_truncate")
                        break
            # split: fronts that fit + the front that must be cut
            acc, r_ = [], 0
            exp_last = []
            while len(acc) < k:
                fr = [i for i in range(len(sols)) if ranks[i] == r_]
                if not fr:
                    break
                if len(acc) + len(fr) <= k:
                    acc += fr
                else:
                    exp_last = fr
                    break
                r_ += 1
            if (sorted(spi[0]), sorted(spi[1])) != (sorted(acc), sorted(exp_last)):
                ctx.fail("split-shape", kin, spi, [acc, exp_last], "core.nondominated_split")
        ctx.case(reqs[-1] if reqs else t, nfronts >= 2 and big,
                 {"maximise": list(dirs), "population": inp["population"][:6], "ranks": ranks[:6], "crowding": [str(c) for c in cds[:6]]} if t < 2 else None)
        ctx.count("populations")
        ctx.count("fronts", nfronts)

    # the same object listed twice (identity-based removal)
    for t in range(100 if ctx.quick() else 1000):
        n, dirs, constrained, p, sols = gen_population(rng, small=True)
        if len(sols) < 2:
            continue
        sols.append(sols[rng.randrange(len(sols))])
        ids = plat.Ids()
        r = call(C.nondominated_sort, list(sols))
        if isinstance(r, str):
            ctx.fail("sort-raises", {"repeat": True}, r, "ranks", "core.nondominated_sort")
            continue
        ranks = [getattr(s, "rank", None) for s in sols]
        if None in ranks:
            ctx.fail("solution-without-rank", {"repeat": True, "maximise": list(dirs), "population": [[list(map(float, s.objectives)), float(s.constraint_violation)] for s in sols]},
                     ranks, "every solution ranked", "core.nondominated_sort")
            continue
        ask(f"nsort {int(constrained)} {dirs_w(dirs)} {len(sols)} " + " ".join(sol_q(ids(s), s) for s in sols),
            lambda g, ranks=ranks: None if g.split()[1:] == [str(r) for r in ranks]
            else ctx.disagree("nondominated_sort ranks with a repeated object", {"n": len(ranks)}, ranks, g.split()[1:]))
        ctx.case(reqs[-1], True)

    # call sequences: the same solution objects are sorted again as part of another population (what every generational
    # algorithm does with parents + offspring, whose copies also inherit attributes); ranks left by an earlier call must not matter
    import copy as _copy
    for t in range(150 if ctx.quick() else 2000):
        n, dirs, constrained, p, sols = gen_population(rng, small=True)
        if len(sols) < 2:
            continue
        pool = list(sols)
        for call_no in range(3):
            r = call(C.nondominated_sort, list(pool))
            inp = {"maximise": list(dirs), "constrained": constrained, "call": call_no,
                   "population": [[list(map(float, s.objectives)), float(s.constraint_violation)] for s in pool],
                   "ranks_before_call": None}
            if isinstance(r, str):
                ctx.fail("sort-raises", inp, r, "ranks", "core.nondominated_sort")
                break
            ranks = [getattr(s, "rank", None) for s in pool]
            exp = depth_ranks(constrained, dirs, pool)
            if ranks != exp:
                ctx.fail("rank-not-domination-depth", dict(inp, note="population overlaps with one sorted before"), ranks, exp, "core.nondominated_sort")
                break
            ctx.case(("seq", t, call_no, repr(inp["population"])), call_no > 0 and max(exp, default=0) >= 1)
            # next population: some survivors (objects with their old ranks), deep copies of some (attributes inherited), newcomers
            keep = [s for s in pool if rng.random() < 0.6]
            kids = [_copy.deepcopy(s) for s in pool if rng.random() < 0.3]
            _, _, _, _, fresh = gen_population(rng, small=True)
            fresh = [mk_sol(p, [float(rng.choice([0, 1, 2, 3])) for _ in range(n)], float(rng.choice([0, 0, 1])) if constrained else 0.0) for _ in range(rng.randrange(1, 5))]
            pool = keep + kids + fresh
            rng.shuffle(pool)
    ctx.count("call_sequences", 150 if ctx.quick() else 2000)

    if drv.ok:
        out = drv.batch(reqs)
        for g, fn in zip(out, post):
            fn(g)


def replay(ctx, path):
    import json
    r = json.load(open(path))
    fl = r.get("failure")
    print(json.dumps(fl or r, indent=1)[:3000])
    if not fl or "population" not in fl["input"]:
        return 0
    i = fl["input"]
    p = mk_problem(len(i["maximise"]), i["maximise"], i["constrained"])
    sols = [mk_sol(p, o, cv) for o, cv in i["population"]]
    C.nondominated_sort(list(sols))
    ranks = [s.rank for s in sols]
    exp = depth_ranks(i["constrained"], i["maximise"], sols)
    print("current tree ranks:", ranks, "depth:", exp)
    return 0 if ranks == exp else 1
