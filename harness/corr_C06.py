"""C06 — variation operators.  Each real operator runs under a scripted random stream (recorded draw tape with
extreme outcomes); the Lean model replays the tape.  Compared: error kind or offspring (reals bit-exact,
discrete exact), evaluated flags, tape consumption.  Oracle from the statement: validity per declared type,
parents untouched, evaluated discipline, symmetry of two-parent crossovers."""
import copy
import itertools
from fractions import Fraction
import math

import tracer
from common import wf, wlist, bits2f, f2bits, wbits
from plat import call, call_guarded
from scripted import ScriptedRandom

from platypus import core as C
from platypus import operators as O
from platypus import types as T


# --------------------------------------------------------------------------- problems / parents

def make_types(rng, kind, nvars):
    ts = []
    for _ in range(nvars):
        if kind == "real":
            lo = rng.choice([0.0, -5.0, 0.25, 1e-3, -1e6, 2.0])
            # (ranges whose width hi - lo is not a finite double are out of scope: the library cannot even draw an initial value for
            # them -- Real.rand() = random.uniform(lo, hi) returns inf or NaN --, see DESIGN.md 9.5)
            if rng.random() < 0.2:
                # bounds that are no short decimals (a child clipped onto them must stay on them: nothing may re-round it) and boxes far
                # below 1 in size and position
                lo_, hi_ = rng.choice([(math.pi - 1, math.pi), (1 / 3, 2 / 3), (-math.sqrt(2), math.e), (1e-15, 1e-13), (-2 / 3, -1 / 7), (0.1 + 0.2, 0.7)])
                ts.append(("real", lo_, hi_))
                continue
            ts.append(("real", lo, lo + rng.choice([1e-9, 1e-3, 0.5, 1.0, 3.0, 1e6, 1e300])))
        elif kind == "binary":
            ts.append(("binary", rng.choice([1, 2, 5, 8])))
        elif kind == "int":
            lo = rng.choice([0, 3, -4])
            ts.append(("int", lo, lo + rng.choice([1, 3, 5, 7, 8, 15])))
        elif kind == "perm":
            ts.append(("perm", rng.choice([1, 2, 3, 5, 6])))
        elif kind == "subset":
            n = rng.choice([2, 4, 6, 7])
            ts.append(("subset", n, rng.randrange(1, n + 1)))
    return ts


def build_problem(ts):
    p = C.Problem(len(ts), 1)
    for i, t in enumerate(ts):
        p.types[i] = {"real": lambda: T.Real(t[1], t[2]), "binary": lambda: T.Binary(t[1]), "int": lambda: T.Integer(t[1], t[2]),
                      "perm": lambda: T.Permutation(range(t[1])), "subset": lambda: T.Subset(range(t[1]), t[2])}[t[0]]()
    return p


def rand_value(rng, t, ptype, like=None):
    if like is not None and rng.random() < 0.3:
        return copy.deepcopy(like)
    if t[0] == "real":
        lo, hi = t[1], t[2]
        if not math.isfinite(hi - lo):
            # the width is not a finite double: ordinary finite in-bounds parents (never computed through hi - lo)
            c = [v for v in (0.0, 1.0, -3.5, 2.5, 1e300, -1e300, 1e308, -1e308, 123456.789, -0.25) if lo <= v <= hi]
            return rng.choice(c)
        return rng.choice([lo, hi, lo + (hi - lo) * rng.random(), lo + (hi - lo) * rng.random(), (lo + hi) / 2,
                           math.nextafter(lo, hi), math.nextafter(hi, lo)])
    if t[0] == "binary":
        return [rng.random() < 0.5 for _ in range(t[1])]
    if t[0] == "int":
        return [rng.random() < 0.5 for _ in range(ptype.nbits)]
    if t[0] == "perm":
        x = list(range(t[1])); rng.shuffle(x); return x
    x = list(range(t[1])); rng.shuffle(x); return x[:t[2]]


def make_parents(rng, p, ts, k, special=None):
    ps = []
    for j in range(k):
        s = C.Solution(p)
        s.variables[:] = [rand_value(rng, t, p.types[i], like=(ps[0].variables[i] if ps else None)) for i, t in enumerate(ts)]
        s.objectives[:] = [float(j)]
        s.evaluated = True
        ps.append(s)
    if special == "identical":
        for s in ps[1:]:
            s.variables[:] = copy.deepcopy(list(ps[0].variables))
    if special == "centroid" and all(t[0] == "real" for t in ts) and k >= 3:
        for i in range(len(ts)):
            vals = [q.variables[i] for q in ps[:-1]]
            # last parent exactly at the centroid of all k parents: x_k = mean of the others
            ps[-1].variables[i] = sum(vals) / len(vals) if math.isfinite(sum(vals)) else vals[0]
    return ps


def types_wire(p, ts):
    out = []
    for i, t in enumerate(ts):
        if t[0] == "real":
            out.append(f"r {wf(t[1])} {wf(t[2])}")
        elif t[0] == "binary":
            out.append(f"b {t[1]}")
        elif t[0] == "int":
            out.append(f"b {p.types[i].nbits}")
        elif t[0] == "perm":
            out.append(f"p {t[1]}")
        else:
            out.append(f"s {t[1]} {t[2]}")
    return f"{len(out)} " + " ".join(out)


def var_wire(t, v):
    if t[0] == "real":
        return wf(v)
    if t[0] in ("binary", "int"):
        return wbits(v)
    return wlist(v)


def sol_wire(ts, s):
    return f"{int(bool(s.evaluated))} " + " ".join(var_wire(t, v) for t, v in zip(ts, s.variables))


def show_var(t, v):
    try:
        if t[0] == "real":
            return "r" + str(f2bits(float(v)))
        if t[0] in ("binary", "int"):
            return "b" + wbits(v)
        return ("p" if t[0] == "perm" else "s") + (",".join(str(int(x)) for x in v) or "-")
    except Exception:
        return "?" + repr(v)[:40]


def show_sol(ts, s):
    return f"{int(bool(s.evaluated))}|" + ";".join(show_var(t, v) for t, v in zip(ts, s.variables))


# --------------------------------------------------------------------------- operator zoo

def fw(x):
    return wf(float(x))


def pi(x):
    return f"{fw(x)} {int(isinstance(x, int) and not isinstance(x, bool))}"


def op_expr(op):
    n = type(op).__name__
    if n == "PM":
        return f"PM {pi(op.probability)} {fw(op.distribution_index)}"
    if n == "UM":
        return f"UM {pi(op.probability)}"
    if n == "UniformMutation":
        return f"UniformMutation {fw(op.probability)} {fw(op.perturbation)}"
    if n == "NonUniformMutation":
        return f"NonUniformMutation {fw(op.probability)} {fw(op.perturbation)} {fw(op.algorithm.nfe)} {fw(op.algorithm.swarm_size)} {fw(op.max_iterations)}"
    if n == "SBX":
        return f"SBX {fw(op.probability)} {fw(op.distribution_index)} 1"
    if n == "DifferentialEvolution":
        return f"DE {fw(op.crossover_rate)} {fw(op.step_size)}"
    if n == "PCX":
        return f"PCX {op.nparents} {op.noffspring} {fw(op.eta)} {fw(op.zeta)}"
    if n == "UNDX":
        return f"UNDX {op.nparents} {op.noffspring} {fw(op.zeta)} {fw(op.eta)}"
    if n == "SPX":
        return f"SPX {op.nparents} {op.noffspring} {fw(op.expansion)}"
    if n == "BitFlip":
        return f"BitFlip {pi(op.probability)}"
    if n in ("HUX", "Swap", "Insertion", "PMX", "Replace", "SSX"):
        return f"{n} {fw(op.probability)}"
    if n == "GAOperator":
        return f"GAOperator {op_expr(op.variation)} {op_expr(op.mutation)}"
    if n == "CompoundMutation":
        return f"CompoundMutation {len(op.mutators)} " + " ".join(op_expr(m) for m in op.mutators)
    if n == "CompoundOperator":
        return f"CompoundOperator {len(op.variators)} " + " ".join(op_expr(v) for v in op.variators)
    raise KeyError(n)


class FakeAlg:
    def __init__(self, nfe, swarm):
        self.nfe, self.swarm_size = nfe, swarm


def zoo(rng, kind):
    """(operator, arity) candidates for a variable kind"""
    pr = lambda: rng.choice([1.0, 0.9, 0.5, 0.3, 0.0])
    if kind == "real":
        return rng.choice([
            lambda: O.PM(rng.choice([1, 1, 2, 0.5, 1.0, 0.0]), rng.choice([20.0, 5.0, 0.5, 100.0])),
            lambda: O.SBX(pr(), rng.choice([15.0, 2.0, 0.5, 50.0])),
            lambda: O.DifferentialEvolution(rng.choice([0.1, 0.5, 1.0, 0.0]), rng.choice([0.5, 1.0, 2.0])),
            lambda: O.UM(rng.choice([1, 0.5, 1.0])),
            lambda: O.UniformMutation(pr(), rng.choice([0.5, 2.0, 1e6])),
            lambda: O.NonUniformMutation(pr(), rng.choice([0.5, 2.0, 1.0]), rng.choice([3, 10]), FakeAlg(rng.choice([0, 5, 30, 31, 200]), rng.choice([1, 10]))),
            lambda: O.PCX(rng.choice([2, 3, 4]), rng.choice([1, 2, 3]), rng.choice([0.1, 0.5]), rng.choice([0.1, 0.5])),
            lambda: O.UNDX(rng.choice([2, 3, 4]), rng.choice([1, 2]), rng.choice([0.5, 0.1]), rng.choice([0.35, 0.1])),
            lambda: O.SPX(rng.choice([2, 3, 4]), rng.choice([1, 2]), rng.choice([None, 1.0, 3.0])),
            lambda: O.GAOperator(O.SBX(1.0, 15.0), O.PM(1, 20.0)),
            lambda: O.GAOperator(O.PCX(3, 2), O.PM(1, 20.0)),
            lambda: O.GAOperator(O.DifferentialEvolution(0.5, 0.5), O.UM(1)),
            lambda: O.CompoundOperator(O.SBX(), O.PM(), O.UM()),
            lambda: O.CompoundOperator(O.SBX(), O.DifferentialEvolution()),      # arity mismatch -> PlatypusError
            lambda: O.CompoundMutation(O.PM(1), O.UniformMutation(0.5, 0.5)),
        ])()
    if kind in ("binary", "int"):
        return rng.choice([lambda: O.BitFlip(rng.choice([1, 2, 0.5, 0.0, 1.0])), lambda: O.HUX(pr()),
                           lambda: O.GAOperator(O.HUX(1.0), O.BitFlip(1)), lambda: O.CompoundOperator(O.HUX(0.9), O.BitFlip(0.3))])()
    if kind == "perm":
        return rng.choice([lambda: O.Swap(pr()), lambda: O.Insertion(pr()), lambda: O.PMX(pr()),
                           lambda: O.GAOperator(O.PMX(1.0), O.Swap(0.5)), lambda: O.CompoundOperator(O.PMX(0.9), O.Insertion(0.5), O.Swap(0.5)),
                           lambda: O.CompoundMutation(O.Swap(0.7), O.Insertion(0.7))])()
    return rng.choice([lambda: O.Replace(pr()), lambda: O.SSX(pr()), lambda: O.GAOperator(O.SSX(1.0), O.Replace(0.6))])()


REAL_ONLY = {"DifferentialEvolution", "UniformMutation", "NonUniformMutation", "PCX", "UNDX", "SPX"}


def op_names(op):
    out = {type(op).__name__}
    for attr in ("variators", "mutators"):
        for sub in getattr(op, attr, []) or []:
            out |= op_names(sub)
    for attr in ("variation", "mutation"):
        sub = getattr(op, attr, None)
        if sub is not None and not isinstance(sub, (int, float, str)):
            out |= op_names(sub)
    return out


# --------------------------------------------------------------------------- oracle

def valid_var(t, ptype, v):
    if t[0] == "real":
        return isinstance(v, (int, float)) and not isinstance(v, bool) and v == v and t[1] <= v <= t[2]
    if t[0] == "binary":
        return isinstance(v, list) and len(v) == t[1] and all(type(b) is bool for b in v)
    if t[0] == "int":
        return isinstance(v, list) and len(v) == ptype.nbits and all(type(b) is bool for b in v)
    if t[0] == "perm":
        return sorted(v) == list(range(t[1]))
    return len(v) == t[2] and len(set(v)) == len(v) and set(v) <= set(range(t[1]))


def snapshot(ps):
    return [(copy.deepcopy(list(s.variables)), copy.deepcopy(list(s.objectives)), s.evaluated, s.constraint_violation) for s in ps]


def apply_op(op, parents):
    if isinstance(op, C.Mutation):
        r = op.evolve(parents[0]) if False else op.mutate(parents[0])
        return [r]
    return op.evolve(list(parents))


def run_case(ctx, ask, rng, kind, op, ts, p, parents, note=""):
    import plat
    if plat.TIMEOUTS >= 3:        # library code stopped returning: already a recorded failure, do not burn the time budget
        return
    name = type(op).__name__
    sr = ScriptedRandom(rng.randrange(2 ** 31), extreme=rng.choice([0.0, 0.1, 0.3]))
    before = snapshot(parents)
    plist = list(parents)
    with tracer.patched_random(sr):
        kids = call_guarded(apply_op, op, plist)
    after = snapshot(parents)
    expr = op_expr(op)
    inp = {"operator": expr, "types": [list(t) for t in ts], "parents": [show_sol(ts, s) for s in parents], "tape": sr.tape_wire()[:600], "note": note}
    where = f"operators.{name}"
    impl_out = None
    # ---------------- oracle
    if isinstance(kids, str):
        expected_refusal = name == "CompoundOperator" and kids == "err:platypus" and any(
            v.arity not in (1, len(parents)) for v in op.variators)
        if not expected_refusal:
            ctx.fail("operator-raises", inp, kids, "offspring", where)
            ctx.failures[-1]["input_class"] = f"{name}:{kids}"
        impl_out = kids
    elif not isinstance(kids, list) or not all(isinstance(c, C.Solution) for c in kids):
        ctx.fail("offspring-not-a-list-of-solutions", inp, repr(kids)[:200], "a list of Solution objects", where)
        impl_out = "err:not-solutions"
        kids = "err:not-solutions"
    else:
        if before != after:
            ctx.fail("parent-modified", inp, "parents differ after the call", "parents unchanged", where)
        bad = None
        for c in kids:
            for i, t in enumerate(ts):
                if not valid_var(t, p.types[i], c.variables[i]):
                    bad = (i, repr(c.variables[i])[:120])
                    break
            if bad:
                break
        if bad:
            ctx.fail("invalid-offspring", dict(inp, variable=bad[0]), bad[1], f"valid {ts[bad[0]]}", where)
        else:
            for c in kids:
                # an offspring still marked evaluated must carry the objective values of a parent with exactly its variables
                # (equal variables alone are not enough: the values it carries came from the parent it was copied from)
                if c.evaluated and not any(list(c.variables) == list(q.variables) and list(c.objectives) == list(q.objectives) for q in parents):
                    ctx.fail("changed-offspring-still-marked-evaluated", dict(inp, offspring_objectives=list(c.objectives), parent_objectives=[list(q.objectives) for q in parents]),
                             show_sol(ts, c), "evaluated == False", where)
                    break
        impl_out = f"ok {getattr(op, 'arity', 1)} 0 " + " ".join(show_sol(ts, c) for c in kids)
        # symmetry of two-parent crossovers on one-variable problems
        if len(parents) == 2 and len(ts) == 1 and name in ("SBX", "HUX", "PMX", "SSX") and not bad:
            sr2 = ScriptedRandom(0, extreme=0.0, replay=sr.tape)
            with tracer.patched_random(sr2):
                kids2 = call_guarded(apply_op, op, [parents[1], parents[0]])
            if isinstance(kids2, str):
                ctx.fail("operator-raises", dict(inp, note="parents exchanged"), kids2, "offspring", where)
            else:
                a = sorted(show_var(ts[0], c.variables[0]) for c in kids)
                b = sorted(show_var(ts[0], c.variables[0]) for c in kids2)
                if a != b:
                    ctx.fail("crossover-not-symmetric", inp, {"(p1,p2)": a, "(p2,p1)": b}, "same offspring values", where)
            ctx.count("symmetry_checks")
    # ---------------- model
    try:
        line = f"oper {types_wire(p, ts)} {expr} {len(parents)} " + " ".join(sol_wire(ts, s) for s in parents) + " " + sr.tape_wire()
    except Exception as e:       # an operator outside the modelled set
        ctx.count("unmodelled_" + name)
        line = None
    if line:
        def cmp(g, impl_out=impl_out, inp=inp):
            if impl_out.startswith("err"):
                if not g.startswith("err") or (g != impl_out and not {g, impl_out} <= {"err:domain", "err:TypeError", "err:OverflowError"}):
                    ctx.disagree(f"{inp['operator'].split()[0]} model vs implementation (error kind)", inp, impl_out, g)
            elif g != impl_out:
                ctx.disagree(f"{inp['operator'].split()[0]} model vs implementation (offspring / flags / tape)", inp, impl_out, g[:500])
        ask(line, cmp)
    ctx.count("op_" + name)
    if isinstance(kids, list):
        changed = any(list(c.variables) not in [list(s.variables) for s in parents] for c in kids)
    else:
        changed = False
    ctx.case((expr, tuple(inp["parents"]), inp["tape"]), changed, dict(inp, offspring=impl_out[:300]) if len(ctx.samples) < 4 and changed else None)


# --------------------------------------------------------------------------- Multimethod (adaptive operator selection)

class MMAlg:
    """the algorithm a Multimethod looks at: an archive and / or a recency list whose members may carry an operator tag"""


def mm_counts(alg, n):
    counts = [1] * n
    for attr in ("archive", "recency_list"):
        for s in getattr(alg, attr, []):
            if hasattr(s, "operator"):
                counts[s.operator] += 1
    return counts


def mm_state(mm):
    return f"{mm.next_variator} {mm.last_update} {len(mm.probabilities)} " + " ".join(fw(x) for x in mm.probabilities)


def run_multimethod(ctx, ask, rng, nhist):
    """histories of Multimethod.evolve calls: each call is compared with the model's step from the state before it; the oracle
    checks offspring validity, the tag, the state invariants (index in range, probabilities a distribution over the variators,
    arity that of the selected variator) and that parents are untouched"""
    ncalls = 0
    for h in range(nhist):
        kind = rng.choice(["real", "real", "binary", "perm", "subset"])
        ts = make_types(rng, kind, rng.randrange(1, 4))
        p = build_problem(ts)
        nv = rng.choice([1, 2, 2, 3, 3, 4, 6, 7, 10, 13])
        vs = []
        while len(vs) < nv:
            v = zoo(rng, kind)
            if (type(v).__name__ == "CompoundOperator" and any(type(x).__name__ == "DifferentialEvolution" for x in v.variators)):
                continue
            vs.append(v)
        alg = MMAlg()
        members = []
        if rng.random() < 0.8:
            alg.archive = members_a = []
        else:
            members_a = None
        if rng.random() < 0.5:
            alg.recency_list = members_r = []
        else:
            members_r = None
        freq = rng.choice([1, 1, 2, 3, 5, 100])
        sr = ScriptedRandom(rng.randrange(2 ** 31), extreme=rng.choice([0.0, 0.3, 0.6]))
        with tracer.patched_random(sr):
            mm = call_guarded(lambda: O.Multimethod(alg, vs, freq))
        inp0 = {"variators": [op_expr(v) for v in vs], "update_frequency": freq, "tape": sr.tape_wire()}
        if isinstance(mm, str):
            ctx.fail("operator-raises", inp0, mm, "a Multimethod", "operators.Multimethod.__init__")
            continue
        ask(f"mminit {nv} {freq} {nv} " + " ".join("1" for _ in range(nv)) + " " + sr.tape_wire(),
            lambda g, exp="ok 0 " + mm_state(mm), inp0=inp0: None if g == exp else ctx.disagree("Multimethod.__init__ model vs implementation (selected index / counter / probabilities / tape)", inp0, exp, g))
        for step in range(rng.randrange(2, 9)):
            # what the surrounding algorithm does between calls: survivors enter / leave its archive and recency list
            for lst in (members_a, members_r):
                if lst is None:
                    continue
                for _ in range(rng.randrange(0, 3)):
                    if members and rng.random() < 0.8:
                        lst.append(rng.choice(members))
                    elif lst:
                        lst.pop(rng.randrange(len(lst)))
                if rng.random() < 0.2:
                    u = C.Solution(p)          # an untagged member (e.g. from the initial population)
                    lst.append(u)
            if type(mm.next_variator) is not int or not (0 <= mm.next_variator < nv):
                ctx.fail("selected-variator-out-of-range", dict(inp0, after="construction" if step == 0 else f"call {step - 1}"), repr(mm.next_variator), f"0..{nv - 1}", "operators.Multimethod")
                break
            arity = mm.arity
            parents = make_parents(rng, p, ts, arity, rng.choice([None, None, "identical"]))
            before = snapshot(parents)
            state_w = mm_state(mm)
            nx0 = mm.next_variator
            counts = mm_counts(alg, nv)
            sr = ScriptedRandom(rng.randrange(2 ** 31), extreme=rng.choice([0.0, 0.3, 0.6]))
            with tracer.patched_random(sr):
                kids = call_guarded(mm.evolve, list(parents))
            inp = {"variators": [op_expr(x) for x in vs], "update_frequency": freq, "state_before": state_w, "counts": counts,
                   "types": [list(t) for t in ts], "parents": [show_sol(ts, s) for s in parents], "tape": sr.tape_wire()[:600], "call": step}
            where = "operators.Multimethod"
            ncalls += 1
            if isinstance(kids, str):
                expected_refusal = False
                ctx.fail("operator-raises", inp, kids, "offspring", where)
                ctx.failures[-1]["input_class"] = f"Multimethod:{kids}"
                impl_out = kids
            else:
                if snapshot(parents) != before:
                    ctx.fail("parent-modified", inp, "parents differ after the call", "parents unchanged", where)
                bad = None
                for c in kids:
                    for i, t in enumerate(ts):
                        if not valid_var(t, p.types[i], c.variables[i]):
                            bad = (i, repr(c.variables[i])[:120])
                    if getattr(c, "operator", None) != nx0:
                        ctx.fail("offspring-tag-not-the-applied-variator", inp, getattr(c, "operator", None), nx0, where)
                        break
                if bad:
                    ctx.fail("invalid-offspring", dict(inp, variable=bad[0]), bad[1], f"valid {ts[bad[0]]}", where)
                pr = list(mm.probabilities)
                if not (0 <= mm.next_variator < nv) or type(mm.next_variator) is not int:
                    ctx.fail("selected-variator-out-of-range", inp, mm.next_variator, f"0..{nv - 1}", where)
                elif mm.arity != vs[mm.next_variator].arity:
                    ctx.fail("arity-not-that-of-the-selected-variator", inp, mm.arity, vs[mm.next_variator].arity, where)
                if len(pr) != nv or any(not (0.0 < x <= 1.0) for x in pr) or abs(sum(pr) - 1.0) > 1e-9:
                    ctx.fail("probabilities-not-a-distribution", inp, pr, "positive, summing to 1, one per variator", where)
                elif mm.last_update == 0:
                    want = [Fraction(c, sum(counts)) for c in counts]
                    if any(abs(Fraction(x) - w) > Fraction(1, 10 ** 12) for x, w in zip(pr, want)):
                        ctx.fail("probabilities-not-proportional-to-surviving-offspring", inp, pr, [float(w) for w in want], where)
                if not (0 <= mm.last_update < max(freq, 1)):
                    ctx.fail("update-counter-out-of-range", inp, mm.last_update, f"0..{freq - 1}", where)
                members.extend(kids)
                impl_out = f"ok 0 {nx0} {mm.arity} {mm_state(mm)} | " + " ".join(show_sol(ts, c) for c in kids)
            line = (f"mm {types_wire(p, ts)} {nv} " + " ".join(op_expr(x) for x in vs) + f" {state_w.split(' ', 2)[0]} {state_w.split(' ', 2)[1]} {freq} "
                    + state_w.split(" ", 2)[2] + f" {nv} " + " ".join(str(c) for c in counts) + f" {len(parents)} " + " ".join(sol_wire(ts, s) for s in parents) + " " + sr.tape_wire())

            def cmp(g, impl_out=impl_out, inp=inp):
                if impl_out.startswith("err"):
                    if not g.startswith("err") or (g != impl_out and not {g, impl_out} <= {"err:domain", "err:TypeError", "err:OverflowError"}):
                        ctx.disagree("Multimethod model vs implementation (error kind)", inp, impl_out, g)
                elif g != impl_out:
                    ctx.disagree("Multimethod model vs implementation (offspring / tag / next state / tape)", inp, impl_out, g[:600])
            ask(line, cmp)
            ctx.count("op_Multimethod")
            changed = isinstance(kids, list) and any(list(c.variables) not in [list(s.variables) for s in parents] for c in kids)
            ctx.case(("mm", line), changed and nv >= 2, None)
            if isinstance(kids, str):
                break
    ctx.count("multimethod_calls", ncalls)
    # ---- the selection primitive on its own: n equally weighted variators, n = 1..20, draws at and next to the ends of
    # uniform(0, sum(p)) (sum(p) is compensated, the running total in roulette is not: they differ in the last bit for some n)
    for n in range(1, 21):
        for rep in range(6 if nhist < 1000 else 40):
            sr = ScriptedRandom(rng.randrange(2 ** 31), extreme=0.8)
            alg = MMAlg()
            with tracer.patched_random(sr):
                mm = call_guarded(lambda: O.Multimethod(alg, [O.PM() for _ in range(n)], rng.choice([1, 100])))
            inp0 = {"variators": n, "tape": sr.tape_wire()}
            if isinstance(mm, str):
                ctx.fail("operator-raises", inp0, mm, "a Multimethod", "operators.Multimethod.__init__ / _math.roulette")
                ctx.failures[-1]["input_class"] = f"Multimethod:{mm}"
                continue
            if not (0 <= mm.next_variator < n):
                ctx.fail("selected-variator-out-of-range", inp0, mm.next_variator, f"0..{n - 1}", "_math.roulette")
            ask(f"mminit {n} {mm.update_frequency} {n} " + " ".join("1" for _ in range(n)) + " " + sr.tape_wire(),
                lambda g, exp="ok 0 " + mm_state(mm), inp0=inp0: None if g == exp else ctx.disagree("Multimethod.__init__ model vs implementation (selected index / counter / probabilities / tape)", inp0, exp, g))
            ctx.case(("roulette", n, sr.tape_wire()), n >= 2)
    ctx.count("roulette_end_draws", 20 * (6 if nhist < 1000 else 40))


def run(ctx, drv):
    rng = ctx.rng
    ctx.nontrivial_rule = ("operator calls: every shipped operator and combinator x applicable variable types x 1-3 variables; parents valid "
                           "(on the bounds, identical, last parent at the centroid, widths 1e-9..1e6); scripted random stream with 0-30% "
                           "extreme outcomes (end points of uniform incl. the upper end, first/last index, +-8 sigma); exhaustive: all "
                           "permutations of <= 4 elements x all position pairs for Swap/Insertion/PMX, all subsets for SSX/Replace of "
                           "<= 5 elements. non-trivial = some offspring differs from every parent; distinct by (operator, parents, tape) + mixed-type problems for every type-aware operator and the documented compound recipes; clip against the model including NaN and infinities; Multimethod: histories of evolve calls over 1-4 variators with a changing archive / recency list, every call against the model's step")
    reqs, post = [], []

    def ask(line, fn):
        reqs.append(line); post.append(fn)
    n = 6000 if ctx.quick() else 120000
    kinds = ["real", "real", "real", "binary", "int", "perm", "subset"]
    for k in range(n):
        kind = kinds[k % len(kinds)]
        op = zoo(rng, kind)
        ts = make_types(rng, kind, rng.randrange(1, 4))
        p = build_problem(ts)
        arity = 1 if isinstance(op, C.Mutation) else op.arity
        special = rng.choice([None, None, None, "identical", "centroid"])
        parents = make_parents(rng, p, ts, arity, special)
        run_case(ctx, ask, rng, kind, op, ts, p, parents, note=special or "")
    # ---- mixed-type problems: an operator written for one variable type applied to solutions that also carry variables of
    # other types (copies must be deep for every variable, not only for those the operator looks at)
    allk = ["real", "binary", "int", "perm", "subset"]
    for k in range(n // 4):
        kind = allk[k % len(allk)]
        others = [x for x in allk if x != kind]
        r = rng.random()
        # every operator is paired with a problem that has at least one variable of each type it acts on (PM with an integer
        # probability divides by the number of Real variables; PCX & co. treat every variable as a real): anything else is a
        # misuse outside the property's "valid parents"
        if r < 0.2:
            op = O.CompoundOperator(O.SBX(rng.choice([1.0, 0.5])), O.HUX(rng.choice([1.0, 0.5])), O.PM(1), O.BitFlip(rng.choice([1, 0.5])))
            ts = make_types(rng, "real", rng.randrange(1, 3)) + make_types(rng, "binary", 1) + make_types(rng, rng.choice(["int", "perm", "subset"]), rng.randrange(0, 2))
            rng.shuffle(ts)
        elif r < 0.3:
            op = O.CompoundOperator(O.PMX(1.0), O.SSX(1.0), O.Swap(0.7), O.Replace(0.7))
            ts = make_types(rng, "perm", 1) + make_types(rng, "subset", 1) + make_types(rng, rng.choice(["real", "binary", "int"]), rng.randrange(0, 2))
            rng.shuffle(ts)
        else:
            op = zoo(rng, kind)
            while REAL_ONLY & op_names(op):       # these treat every variable as a real: not applicable to mixed problems
                op = zoo(rng, kind)
            pre = make_types(rng, rng.choice(others), rng.randrange(0, 2)) if rng.random() < 0.7 else []
            post_ = [t for kk in rng.sample(others, rng.randrange(1, 3)) for t in make_types(rng, kk, 1)]
            ts = pre + make_types(rng, kind, rng.randrange(1, 3)) + post_
        p = build_problem(ts)
        arity = 1 if isinstance(op, C.Mutation) else op.arity
        parents = make_parents(rng, p, ts, arity, rng.choice([None, None, "identical"]))
        run_case(ctx, ask, rng, kind, op, ts, p, parents, note="mixed-types")
    ctx.count("mixed_type_cases", n // 4)
    # ---- Multimethod: histories of adaptive selection
    run_multimethod(ctx, ask, rng, 150 if ctx.quick() else 3000)
    # ---- exhaustive discrete sub-domains (stream enumerated through the scripted tape with extreme rate 0.3)
    nex = 0
    for nperm in (1, 2, 3, 4):
        ts = [("perm", nperm)]
        p = build_problem(ts)
        for a in itertools.permutations(range(nperm)):
            for b in itertools.permutations(range(nperm)):
                for mk in (lambda: O.PMX(1.0), lambda: O.Swap(1.0), lambda: O.Insertion(1.0)):
                    op = mk()
                    ps = []
                    for v in ((a, b) if isinstance(op, O.PMX) else (a,)):
                        s = C.Solution(p); s.variables[:] = [list(v)]; s.objectives[:] = [0.0]; s.evaluated = True
                        ps.append(s)
                    for _ in range(2 if nperm < 4 else 1):
                        run_case(ctx, ask, rng, "perm", op, ts, p, ps, note="exhaustive")
                        nex += 1
    for nn in (2, 3, 4, 5):
        for kk in range(1, nn + 1):
            ts = [("subset", nn, kk)]
            p = build_problem(ts)
            subs = list(itertools.permutations(range(nn), kk))
            for a in subs[:: max(1, len(subs) // 12)]:
                for b in subs[:: max(1, len(subs) // 12)]:
                    for mk in (lambda: O.SSX(1.0), lambda: O.Replace(1.0)):
                        op = mk()
                        ps = []
                        for v in ((a, b) if isinstance(op, O.SSX) else (a,)):
                            s = C.Solution(p); s.variables[:] = [list(v)]; s.objectives[:] = [0.0]; s.evaluated = True
                            ps.append(s)
                        run_case(ctx, ask, rng, "subset", op, ts, p, ps, note="exhaustive")
                        nex += 1
    ctx.count("exhaustive_discrete_cases", nex)
    # ---- the shared helper every real-valued operator ends with: clip(value, lo, hi) with Python's min / max, also for the values
    # that only arise from overflowing intermediates (NaN, infinities): NaN is mapped to the lower bound
    from platypus import _math as M_
    from common import wf as _wf, bits2f as _b2f
    specials = [float("nan"), float("inf"), -float("inf"), 0.0, -0.0, 1.0, -1.0, 5e-324, 1e308, -1e308, 0.5, 2.5]
    for _ in range(400 if ctx.quick() else 5000):
        lo = rng.choice(specials[1:] + [rng.uniform(-5, 5)])
        hi = rng.choice([lo, lo + 1.0, rng.choice(specials[1:])])
        v = rng.choice(specials + [rng.uniform(-10, 10), lo, hi])
        got = call(M_.clip, v, lo, hi)
        inp = {"value": repr(v), "lo": repr(lo), "hi": repr(hi)}
        ask(f"clipF {_wf(v)} {_wf(lo)} {_wf(hi)}", lambda g, got=got, inp=inp: None if (isinstance(got, float) and (_b2f(g.split()[1]) == got or (got != got and _b2f(g.split()[1]) != _b2f(g.split()[1])))
                                                                                      and (got != 0 or math.copysign(1, got) == math.copysign(1, _b2f(g.split()[1]))))
            else ctx.disagree("_math.clip vs pyClip (Python min / max semantics, NaN to the lower bound)", inp, repr(got), g))
        if isinstance(got, float) and lo <= hi and got == got and not (lo <= got <= hi):
            ctx.fail("clip-outside-bounds", inp, got, f"in [{lo}, {hi}]", "_math.clip")
        if isinstance(got, float) and got != got and lo == lo:
            ctx.fail("clip-returns-nan", inp, repr(got), "a bound (never NaN for non-NaN bounds)", "_math.clip")
            ctx.failures[-1]["input_class"] = "clip-nan"
    ctx.count("clip_cases", 400 if ctx.quick() else 5000)
    if drv.ok:
        out = drv.batch([r for r in reqs])
        for g, fn in zip(out, post):
            fn(g)


def replay(ctx, path):
    import json
    r = json.load(open(path))
    print(json.dumps(r.get("failure", r), indent=1)[:4000])
    return 0
