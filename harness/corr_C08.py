"""C08 — run(N) stops on budget; honest counter.  Trace refinement: the per-step counter increments logged
from real runs are replayed through the model's loop (`runOnIncs`), batch bookkeeping through `evalAll`;
oracle from the statement on the same traces."""
import runs
from common import wlist


def run(ctx, drv):
    rng = ctx.rng
    ctx.nontrivial_rule = ("real runs of all 16 algorithm configurations x applicable variable types, sizes 4-12, budgets "
                           "{0,1,s-1,s,s+1,2s,2s+1,3s-1} relative to the population/swarm size s, 1-3 consecutive run() calls, default "
                           "and explicit operators, map and pickling evaluators. one case = one run() call; non-trivial = budget > 0 "
                           "and >= 2 steps; distinct by (algorithm, problem, seed, budgets) + budgets given as ints, fresh or re-used MaxEvaluations objects; runs seeded with already evaluated injected populations; converging single-objective runs of several thousand evaluations under a watchdog")
    reqs, post = [], []

    def ask(line, fn):
        reqs.append(line); post.append(fn)
    ncfg = 220 if ctx.quick() else 2500
    cfgs = runs.gen_configs(rng, ncfg, evaluators=("map", "map", "pickle"), extreme=0.0 if ctx.quick() else 0.01)
    # runs with adaptive time continuation (short windows: a restart every few iterations), long enough for several restarts; their
    # own generator, so that the stream of the other runs is what it was.  Replayed through Model/Restart.lean (`erun`).
    import random as _rnd
    rrng = _rnd.Random(ctx.seed * 7919 + 8)
    rcfgs = runs.gen_configs(rrng, 14 if ctx.quick() else 160, names=["NSGAII+restarts"], sizes=(5, 6, 8, 11), evaluators=("map",))
    for c_ in rcfgs:
        c_["restart_budgets"] = [rrng.choice([6, 10, 15]) * c_["size"]] + [rrng.choice([1, 2 * c_["size"], 5 * c_["size"]]) for _ in range(rrng.choice([0, 1]))]
    cfgs = list(cfgs) + rcfgs
    for k, cfg in enumerate(cfgs):
        s = cfg["size"]
        pool = [0, 1, s - 1, s, s + 1, 2 * s, 2 * s + 1, 3 * s - 1, 2]
        if "restart_budgets" in cfg:
            budgets = cfg.pop("restart_budgets")
            tr, alg, err = runs.execute(cfg, budgets, collect_steps=True)
            inp = runs.describe(cfg, budgets=budgets)
            if err is not None:
                runs.note_aborted(ctx, cfg, err)
                continue
            ctx.count("runs_with_forced_restarts")
            segs = runs.segments(tr)
            runs.genstep_replay(ctx, ask, alg, segs, inp)
            for j, sg in enumerate(segs):
                nfes = [st["nfe"] for st in sg["steps"]]
                N, n0 = sg["N"], sg["nfe_before"]
                sinp = dict(inp, run_index=j, N=N, nfe_at_start=n0, nfe_after_each_iteration=nfes[:60])
                where = "core.Algorithm.run (NSGAII + AdaptiveTimeContinuationExtension)"
                incs = [b - a for a, b in zip([n0] + nfes, nfes)]
                if any(i < 1 for i in incs):
                    ctx.fail("counter-not-strictly-increasing", sinp, incs[:60], "every iteration adds >= 1", where)
                elif N > 0 and (not nfes or nfes[-1] - n0 < N):
                    ctx.fail("stops-before-budget", sinp, (nfes[-1] - n0) if nfes else 0, f">= {N}", where)
                elif any(x - n0 >= N for x in nfes[:-1]):
                    ctx.fail("step-started-after-budget-met", sinp, nfes[:60], f"stop at first iteration reaching {N}", where)
                for st in sg["steps"]:
                    for b in st["batches"]:
                        if b["calls"] > b["nfe_after"] - b["nfe_before"]:
                            ctx.fail("counter-smaller-than-real-calls", sinp, b["nfe_after"] - b["nfe_before"], f">= {b['calls']}", "core.Algorithm.evaluate_all")
                ctx.case((cfg["name"], cfg["seed"], tuple(budgets), j), N > 0 and len(nfes) >= 2, None)
            continue
        budgets = [rng.choice(pool) for _ in range(rng.choice([1, 1, 2, 3]))]
        if k % 9 == 0:
            budgets = [0] + budgets
        budget_as = rng.choice(["int", "int", "object", "reused-object"])
        if budget_as == "reused-object" and len(budgets) >= 2 and rng.random() < 0.7:
            budgets[1] = budgets[0]               # the same condition object on consecutive calls
        # a run seeded with solutions evaluated earlier, enough of them to fill the initial population
        seeded = k % 11 == 5
        if seeded:
            cfg = dict(cfg, injected=cfg["size"] + rng.choice([0, 0, 2]))
        tr, alg, err = runs.execute(cfg, budgets, collect_steps=False, budget_as=budget_as, injected_evaluated=seeded)
        inp = runs.describe(cfg, budgets=budgets, budget_given_as=budget_as, injected_solutions_already_evaluated=seeded)
        if err is not None:
            if err.startswith("RunTimeout"):
                ctx.fail("run-does-not-terminate", inp, err[:200], "run(N) returns", f"core.Algorithm.run ({cfg['name']})")
            else:
                runs.note_aborted(ctx, cfg, err)
            continue
        ctx.count("runs_" + cfg["name"])
        if getattr(tr, "inits", 0) > 1:
            # "calling run again continues from the current state": the initial state is built once, by the first step of the first call
            ctx.fail("initialised-more-than-once", inp, getattr(tr, "inits", 0), "the initial population / swarm is built once", f"algorithms.{cfg['name']}.step")
        if seeded and any(t[0] == "real" for t in cfg["spec"].types):
            # the injected solutions were evaluated by the user before the run: while the initial population is set up, the problem
            # function must not be called again with exactly their variables (a real-valued variable makes coincidences impossible)
            pre, phase = [], 0
            for e in tr.events:
                if e[0] == "run" and phase == 0:
                    phase = 1
                elif e[0] == "step" and phase == 1:
                    phase = 2
                elif e[0] == "call":
                    if phase == 0:
                        pre.append(e[1])
                    elif phase == 1 and e[1] in pre:
                        ctx.fail("evaluated-solution-evaluated-again", dict(inp, argument=repr(e[1])[:200]), "called again during initialisation",
                                 "not evaluated again", f"operators.InjectedPopulation / core.Algorithm.evaluate_all ({cfg['name']})")
                        ctx.failures[-1]["input_class"] = "injected-evaluated"
                        break
            ctx.count("seeded_runs_checked_for_re_evaluation")
        segs = runs.segments(tr)
        runs.genstep_replay(ctx, ask, alg, segs, inp)
        prev_after = 0
        for j, sg in enumerate(segs):
            N, n0 = sg["N"], sg["nfe_before"]
            nfes = [st["nfe"] for st in sg["steps"]]
            incs = [b - a for a, b in zip([n0] + nfes, nfes)]
            where = f"core.Algorithm.run ({cfg['name']})"
            sinp = dict(inp, run_index=j, N=N, nfe_at_start=n0, nfe_after_each_step=nfes)
            # ---------------- oracle (statement)
            if n0 != prev_after:
                ctx.fail("second-run-does-not-continue", sinp, n0, prev_after, where)
            prev_after = sg["nfe_after"]
            if any(i < 1 for i in incs):
                ctx.fail("counter-not-strictly-increasing", sinp, incs, "every step adds >= 1", where)
            elif N == 0 and (nfes or any(st["batches"] for st in sg["steps"])):
                ctx.fail("zero-budget-evaluates", sinp, nfes, "no step", where)
            elif N > 0 and (not nfes or nfes[-1] - n0 < N):
                ctx.fail("stops-before-budget", sinp, (nfes[-1] - n0) if nfes else 0, f">= {N}", where)
            elif any(x - n0 >= N for x in nfes[:-1]):
                ctx.fail("step-started-after-budget-met", sinp, nfes, f"stop at first step reaching {N}", where)
            if sg["nfe_after"] != (nfes[-1] if nfes else n0):
                ctx.fail("counter-changed-outside-steps", sinp, sg["nfe_after"], nfes[-1] if nfes else n0, where)
            for st in sg["steps"]:
                calls = sum(b["calls"] for b in st["batches"])
                counted = sum(b["nfe_after"] - b["nfe_before"] for b in st["batches"])
                for b in st["batches"]:
                    flags = [ev for (_, ev, _) in b["members"]]
                    binp = dict(inp, batch_flags=flags)
                    if b["calls"] > b["nfe_after"] - b["nfe_before"]:
                        ctx.fail("counter-smaller-than-real-calls", binp, b["nfe_after"] - b["nfe_before"], f">= {b['calls']}", "core.Algorithm.evaluate_all")
                    if b["calls"] > flags.count(False):
                        # more calls than members that needed one: somebody already evaluated was evaluated again.  (Fewer calls than
                        # unevaluated members is not against this property -- identical decision vectors may share one call; whether
                        # every member then carries the right values is C01 -- it only breaks the model of the bookkeeping below.)
                        ctx.fail("evaluated-solution-evaluated-again", binp, b["calls"], flags.count(False), "core.Algorithm.evaluate_all")
                    ask("evalall " + wlist(flags, lambda f: "1" if f else "0"),
                        lambda g, b=b, binp=binp: None if g == f"{b['calls']} {b['nfe_after'] - b['nfe_before']}"
                        else ctx.disagree("evaluate_all bookkeeping (calls, counter increment)", binp, f"{b['calls']} {b['nfe_after'] - b['nfe_before']}", g))
            # ---------------- model: the loop over the observed increments
            ask(f"runinc {N} {wlist(incs)}",
                lambda g, incs=incs, sinp=sinp: None if g == f"{len(incs)} {sum(incs)} 0"
                else ctx.disagree("Algorithm.run loop over observed step increments (runOnIncs)", sinp, f"{len(incs)} {sum(incs)} 0", g))
            ctx.case((cfg["name"], cfg["seed"], tuple(budgets), j), N > 0 and len(nfes) >= 2,
                     dict(algorithm=cfg["name"], size=s, N=N, nfe_at_start=n0, nfe_after_each_step=nfes) if len(ctx.samples) < 4 and len(nfes) >= 2 else None)
    # ---- long runs that converge (step size collapses on a smooth single-objective problem): every step must still count
    # evaluations and the run must stop on its budget, generation 5 and generation 500 alike
    import random as _random
    import signal
    import plat
    from platypus import Problem, Real, algorithms as A
    from platypus import operators as O_
    for name, mk, budget in (("CMAES", lambda p: A.CMAES(p, offspring_size=10), 4000), ("CMAES", lambda p: A.CMAES(p, offspring_size=6), 3000),
                             ("GeneticAlgorithm", lambda p: A.GeneticAlgorithm(p, population_size=10, offspring_size=10), 3000),
                             ("EvolutionaryStrategy", lambda p: A.EvolutionaryStrategy(p, population_size=6, offspring_size=6), 3000),
                             # the smallest sizes: a steady-state GA (one offspring per step), populations of one and two, a variator
                             # whose arity exceeds the number of offspring wanted
                             ("GeneticAlgorithm(offspring_size=1)", lambda p: A.GeneticAlgorithm(p, population_size=6, offspring_size=1), 40),
                             ("GeneticAlgorithm(population_size=1)", lambda p: A.GeneticAlgorithm(p, population_size=1, offspring_size=1), 12),
                             ("EvolutionaryStrategy(1+1)", lambda p: A.EvolutionaryStrategy(p, population_size=1, offspring_size=1), 25),
                             ("GeneticAlgorithm(PCX 10 parents, 4 offspring wanted)", lambda p: A.GeneticAlgorithm(p, population_size=8, offspring_size=4, variator=O_.PCX(nparents=10, noffspring=2)), 60)):
        p = Problem(2, 1, function=lambda x: [sum((v - 0.25) ** 2 for v in x)])
        p.types[:] = Real(-1, 1)
        _random.seed(rng.randrange(2 ** 31))
        alg = mk(p)
        nfes = []

        def go():
            with plat.watchdog(20, on_fire=lambda: TimeoutError("run exceeded the watchdog")):
                alg.run(budget, callback=lambda a: nfes.append(a.nfe))
        inp = {"algorithm": name, "problem": "sphere in 2 variables", "budget": budget}
        try:
            go()
            err = None
        except TimeoutError as e:
            err = str(e)
        except Exception as e:
            err = f"{type(e).__name__}: {e}"
        if err is not None and "watchdog" in err:
            ctx.fail("run-does-not-terminate", dict(inp, nfe_when_stopped=alg.nfe, steps=len(nfes)), err, "run(N) returns", f"core.Algorithm.run ({name})")
            continue
        if err is not None:
            ctx.notes.append(f"long run aborted: {name}: {err}")
            continue
        incs = [b - a for a, b in zip([0] + nfes, nfes)]
        if any(i <= 0 for i in incs):
            ctx.fail("counter-not-strictly-increasing", dict(inp, step=[i for i, v in enumerate(incs) if v <= 0][0]), incs[:5], "every step counts >= 1 evaluation",
                     f"core.Algorithm.run ({name})")
        elif alg.nfe < budget or (len(nfes) >= 2 and nfes[-2] >= budget):
            ctx.fail("stops-before-budget" if alg.nfe < budget else "steps-after-budget-reached", inp, alg.nfe, f">= {budget}, first step reaching it is the last", f"core.Algorithm.run ({name})")
        ctx.case(("long-converging", name, budget), True)
    ctx.count("long_converging_and_tiny_runs", 8)
    # ---- documented constructor options combined: MOEA/D with and without utility-based search x weight generators x numbers of
    # objectives (tiny weight sets included), NSGA-III with inner divisions, archives and selectors on the generational algorithms.
    # Every such configuration is a shipped algorithm with a population size; the budget clauses must hold for each
    from platypus.weights import normal_boundary_weights, random_weights
    from platypus import core as C_

    def conflicting(nobjs):
        def f(x):
            return [sum(((v - 1.0) if j == i else v) ** 2 for j, v in enumerate(x)) for i in range(nobjs)]
        pr = Problem(nobjs + 1, nobjs, function=f)
        pr.types[:] = Real(-1, 2)
        return pr
    optcfgs = []
    for nobjs in (2, 3):
        for uu in (None, 1, 2):
            for wname, wg, wkw in (("random_weights, population_size=5", random_weights, {"population_size": 5}),
                                   ("random_weights, population_size=9", random_weights, {"population_size": 9}),
                                   ("normal_boundary_weights, divisions_outer=2", normal_boundary_weights, {"divisions_outer": 2}),
                                   ("normal_boundary_weights, divisions_outer=3", normal_boundary_weights, {"divisions_outer": 3}),
                                   ("normal_boundary_weights, divisions_outer=4", normal_boundary_weights, {"divisions_outer": 4}),
                                   ("normal_boundary_weights, divisions_outer=3, divisions_inner=1", normal_boundary_weights, {"divisions_outer": 3, "divisions_inner": 1})):
                optcfgs.append((f"MOEAD(update_utility={uu}, {wname}) on {nobjs} objectives",
                                lambda p, wg=wg, wkw=wkw, uu=uu: A.MOEAD(p, neighborhood_size=2, weight_generator=wg, update_utility=uu, **wkw), nobjs))
                if nobjs == 2 and uu is not None:
                    # the same, started from a spread of mutually non-dominated solutions: no member is best in every objective, so
                    # no stored fitness is exactly 0 and the utility update (which divides by it) does not abort the run
                    def spread(p):
                        out_ = []
                        for i_ in range(20):
                            s_ = C_.Solution(p)
                            s_.variables[:] = [(i_ + 0.5) / 20.0, 0.0, 0.0]
                            out_.append(s_)
                        return O_.InjectedPopulation(out_)
                    optcfgs.append((f"MOEAD(update_utility={uu}, {wname}, generator=InjectedPopulation(non-dominated spread)) on {nobjs} objectives",
                                    lambda p, wg=wg, wkw=wkw, uu=uu, spread=spread: A.MOEAD(p, neighborhood_size=2, weight_generator=wg, update_utility=uu, generator=spread(p), **wkw), nobjs))
        optcfgs.append((f"NSGAIII(divisions_outer=3, divisions_inner=1) on {nobjs} objectives", lambda p: A.NSGAIII(p, divisions_outer=3, divisions_inner=1), nobjs))
        optcfgs.append((f"NSGAII(archive=EpsilonBoxArchive, selector=TournamentSelector(3)) on {nobjs} objectives",
                        lambda p: A.NSGAII(p, population_size=6, archive=C_.EpsilonBoxArchive([0.1]), selector=O_.TournamentSelector(3)), nobjs))
        optcfgs.append((f"SPEA2(k=2, dominance=EpsilonDominance) on {nobjs} objectives", lambda p: A.SPEA2(p, population_size=6, k=2, dominance=C_.EpsilonDominance([0.05])), nobjs))
        optcfgs.append((f"GDE3(population_size=5) on {nobjs} objectives", lambda p: A.GDE3(p, population_size=5), nobjs))
        optcfgs.append((f"PESA2(divisions=2, capacity=3) on {nobjs} objectives", lambda p: A.PESA2(p, population_size=5, divisions=2, capacity=3), nobjs))
    nopt = 0
    for name, mk, nobjs in optcfgs:
        _random.seed(rng.randrange(2 ** 31))
        try:
            alg = mk(conflicting(nobjs))
        except Exception as e:
            ctx.notes.append(f"option run not constructed: {name}: {type(e).__name__}: {e}"[:200]) if len(ctx.notes) < 16 else None
            continue
        nfes, marks = [], []
        budgets = [rng.choice([1, 7, 20]), rng.choice([1, 13, 30])]
        inp = {"algorithm": name, "problem": f"{nobjs} conflicting quadratic objectives in {nobjs + 1} real variables", "budgets": budgets}
        err = None
        try:
            with plat.watchdog(8, on_fire=lambda: TimeoutError("run exceeded the watchdog")):
                for N in budgets:
                    marks.append((N, alg.nfe, len(nfes)))
                    alg.run(N, callback=lambda a: nfes.append(a.nfe))
        except TimeoutError as e:
            err = str(e)
        except Exception as e:
            err = f"{type(e).__name__}: {e}"
        if err is not None and "watchdog" in err:
            ctx.fail("run-does-not-terminate", dict(inp, nfe_when_stopped=alg.nfe, steps=len(nfes), last_counter_values=nfes[-4:]), err, "run(N) returns",
                     f"core.Algorithm.run ({name.split('(')[0]})")
            continue
        if err is not None:
            ctx.count("option_runs_aborted_by_exception")
            if len(ctx.notes) < 16:
                ctx.notes.append(f"option run aborted (not judged by this property): {name}: {err}"[:220])
            continue
        nopt += 1
        marks.append((None, alg.nfe, len(nfes)))
        for (N, n0, k0), (_, n1, k1) in zip(marks, marks[1:]):
            seg = nfes[k0:k1]
            incs = [b - a for a, b in zip([n0] + seg, seg)]
            sinp = dict(inp, N=N, nfe_at_start=n0, nfe_after_each_step=seg[:12])
            where = f"core.Algorithm.run ({name.split('(')[0]})"
            if any(i < 1 for i in incs):
                ctx.fail("counter-not-strictly-increasing", sinp, incs[:8], "every step adds >= 1", where)
            elif not seg or seg[-1] - n0 < N:
                ctx.fail("stops-before-budget", sinp, (seg[-1] - n0) if seg else 0, f">= {N}", where)
            elif any(x - n0 >= N for x in seg[:-1]):
                ctx.fail("step-started-after-budget-met", sinp, seg[:12], f"stop at first step reaching {N}", where)
            if n1 != (seg[-1] if seg else n0):
                ctx.fail("counter-changed-outside-steps", sinp, n1, seg[-1] if seg else n0, where)
            ctx.case(("option-run", name, N, n0), len(seg) >= 2)
    ctx.count("option_combination_runs", nopt)
    if drv.ok:
        out = drv.batch(reqs)
        for g, fn in zip(out, post):
            fn(g)


def replay(ctx, path):
    import json
    r = json.load(open(path))
    print(json.dumps(r.get("failure", r), indent=1)[:3000])
    print("replay: re-run `check.py C08` with VERIF_SEED=%s; the failing configuration is regenerated deterministically" % r.get("seed"))
    return 0
