"""Helpers that build real Platypus objects for the correspondence checks."""
import math

from common import wq, wf, wlist

from platypus import core as C

INF = float("inf")
SPECIAL = [-INF, -1e308, -1.0, -0.0, 0.0, 5e-324, 1.0, 1e308, INF]


def mk_problem(nobjs, dirs=None, constrained=False, nvars=1):
    p = C.Problem(nvars, nobjs, 1 if constrained else 0)
    if dirs is not None:
        p.directions[:] = [C.Direction.MAXIMIZE if d else C.Direction.MINIMIZE for d in dirs]
    return p


def mk_sol(problem, objs, cv=0.0):
    s = C.Solution(problem)
    s.objectives[:] = list(objs)
    s.constraint_violation = cv
    s.feasible = cv == 0.0
    s.evaluated = True
    return s


class Ids:
    """Python object identity -> small integer in order of first appearance"""

    def __init__(self):
        self.m = {}
        self.keep = []

    def __call__(self, s):
        k = id(s)
        if k not in self.m:
            self.m[k] = len(self.m)
            self.keep.append(s)
        return self.m[k]


def sol_q(i, s):
    return f"{i} {wq(s.constraint_violation)} {wlist(list(s.objectives), wq)}"


def sol_f(i, s):
    return f"{i} {wf(s.constraint_violation)} {wlist(list(s.objectives), wf)}"


def dirs_w(dirs):
    return wlist(dirs, lambda d: "1" if d else "0")


def rand_value(rng, grid=None, special=0.15):
    r = rng.random()
    if grid is not None and r > special:
        return float(rng.choice(grid))
    if r < special:
        return rng.choice(SPECIAL)
    if r < 0.6:
        return float(rng.randrange(-3, 4))
    return rng.uniform(-10, 10) * 10 ** rng.randrange(-3, 4)


def better(constrained, dirs, a_objs, a_cv, b_objs, b_cv):
    """'first is better' written from the statement of C02 (independent of the model and of the code)"""
    if constrained and a_cv != b_cv:
        return a_cv < b_cv
    no_worse = all((x >= y) if d else (x <= y) for d, x, y in zip(dirs, a_objs, b_objs))
    strictly = any((x > y) if d else (x < y) for d, x, y in zip(dirs, a_objs, b_objs))
    return no_worse and strictly


def expected_cmp(constrained, dirs, a, b):
    if better(constrained, dirs, list(a.objectives), a.constraint_violation, list(b.objectives), b.constraint_violation):
        return -1
    if better(constrained, dirs, list(b.objectives), b.constraint_violation, list(a.objectives), a.constraint_violation):
        return 1
    return 0


class CallTimeout(Exception):
    pass


def call(f, *a, **k):
    """run implementation code; exceptions become observations"""
    try:
        return f(*a, **k)
    except ZeroDivisionError:
        return "err:zerodiv"
    except IndexError:
        return "err:index"
    except (ValueError, OverflowError) as e:
        return "err:domain"
    except C.PlatypusError:
        return "err:platypus"
    except CallTimeout:
        raise
    except Exception as e:
        return "err:" + type(e).__name__


TIMEOUTS = 0


def call_guarded(f, *a, seconds=2, **k):
    """like `call`, with a watchdog: library code that does not return becomes the observation err:timeout"""
    import signal

    def on_alarm(signum, frame):
        raise CallTimeout()
    old = signal.signal(signal.SIGALRM, on_alarm)
    signal.alarm(seconds)
    try:
        return call(f, *a, **k)
    except CallTimeout:
        global TIMEOUTS
        TIMEOUTS += 1
        return "err:timeout"
    finally:
        signal.alarm(0)
        signal.signal(signal.SIGALRM, old)
