"""Helpers that build real Platypus objects for the correspondence checks."""
import math

from common import wq, wf, wlist

from platypus import core as C

INF = float("inf")
SPECIAL = [-INF, -1e308, -1.0, -0.0, 0.0, 5e-324, 1.0, 1e308, INF]


_DECL = [0]


def declare_directions(p, dirs, style):
    """the ways a user can declare optimisation directions; all of them mean the same"""
    E = [C.Direction.MAXIMIZE if d else C.Direction.MINIMIZE for d in dirs]
    I = [C.Problem.MAXIMIZE if d else C.Problem.MINIMIZE for d in dirs]
    S = ["maximize" if d else "MINIMIZE" for d in dirs]
    if style == 0:
        p.directions[:] = E
    elif style == 1:
        for i, e in enumerate(E):
            p.directions[i] = e
    elif style == 2:
        for i, e in enumerate(I):
            p.directions[i] = e
    elif style == 3:
        for i, e in enumerate(S):
            p.directions[i] = e
    elif style == 4:
        p.directions[:] = I
    elif style == 5:
        p.directions[:] = S
    elif style == 6:
        p.directions[:] = tuple(E)
    else:
        p.directions[:] = C.Direction.MINIMIZE
        for i, d in enumerate(dirs):
            if d:
                p.directions[i:i + 1] = C.Problem.MAXIMIZE


def mk_problem(nobjs, dirs=None, constrained=False, nvars=1):
    p = C.Problem(nvars, nobjs, 1 if constrained else 0)
    if dirs is not None:
        _DECL[0] += 1
        declare_directions(p, dirs, _DECL[0] % 8)       # every spelling of the declaration, in turn
    return p


# every solution built by the harness is remembered with the values it was given: library code must never change
# them behind the harness's back (aliasing between a solution and its copies would)
_MADE = {}
_LAST = {}
_CLONE = [0]


def mk_sol(problem, objs, cv=0.0):
    """a solution with the given objectives; every third one is produced the way variation operators produce
    offspring: a deep copy of an earlier solution of the same problem whose values are then overwritten"""
    _CLONE[0] += 1
    prev = _LAST.get(id(problem))
    if prev is not None and _CLONE[0] % 3 == 0 and len(prev.objectives) == len(objs):
        import copy
        s = copy.deepcopy(prev)
    elif _CLONE[0] % 5 == 0 and problem.function is None and isinstance(cv, (int, float)) and 0 <= cv < INF and len(objs) == problem.nobjs:
        s = _evaluated(problem, objs, cv)
    else:
        s = C.Solution(problem)
    s.objectives[:] = list(objs)
    s.constraint_violation = cv
    if prev is not None:
        _verify(prev)           # writing into a copy must not have written into the solution it was copied from
    if _CLONE[0] % 2 == 0 or _CLONE[0] % 5 == 0:
        s.feasible = cv == 0.0
    elif "feasible" in s.__dict__:
        # a hand-built solution as the library's own tests build it: only `constraint_violation` is assigned; the `feasible` flag
        # is something evaluation adds, and nothing that judges feasibility may rely on it being there
        del s.__dict__["feasible"]
    s.evaluated = True
    _LAST[id(problem)] = s
    if len(_MADE) < 200000:
        import weakref
        _MADE[id(s)] = (weakref.ref(s), [o for o in objs], cv)     # weak: the registry must not keep objects (and their problems) alive
    return s


def _evaluated(problem, objs, cv):
    """every fifth solution is produced the way algorithms produce them: evaluated through Problem.__call__ by a function that
    returns the wanted values (whatever the library attaches to a solution at evaluation time is then present)"""
    from platypus.types import Real
    try:
        if problem.nvars and problem.types[0] is None:
            problem.types[:] = Real(0, 1)
        o = list(objs)
        problem.function = (lambda v: (list(o), [cv] * problem.nconstrs)) if problem.nconstrs > 0 else (lambda v: list(o))
        s = C.Solution(problem)
        s.variables[:] = [0.5] * problem.nvars
        s.evaluate()
    except Exception:
        s = C.Solution(problem)
    finally:
        problem.function = None
    return s


def changed_on_purpose(s):
    """the harness itself edited `s` after building it: record the new values"""
    if id(s) in _MADE:
        import weakref
        _MADE[id(s)] = (weakref.ref(s), [s.objectives[i] for i in range(len(s.objectives))], s.constraint_violation)


_TRIPPED = []


def _verify(s):
    """is `s` still what the harness made it?  a difference is recorded once (and the record brought up to date)"""
    rec = _MADE.get(id(s))
    if rec is None or rec[0]() is not s:
        return True
    _, objs, cv = rec
    try:
        now = [s.objectives[i] for i in range(len(objs))]
    except Exception:
        now = None
    same = now is not None and all((a == b) or (a != a and b != b) for a, b in zip(now, objs)) and \
        (s.constraint_violation == cv or (cv != cv and s.constraint_violation != s.constraint_violation))
    if not same:
        if len(_TRIPPED) < 50:
            _TRIPPED.append({"given_objectives": [repr(o) for o in objs], "given_violation": cv,
                             "now_objectives": None if now is None else [repr(o) for o in now], "now_violation": repr(getattr(s, "constraint_violation", None))})
        changed_on_purpose(s)
    return same


def integrity_failures(limit=3):
    """solutions whose objectives / violation are no longer what the harness gave them: those noticed while building copies of
    them, and those still alive at the end of the run"""
    for ref, _, _ in list(_MADE.values()):
        s = ref()
        if s is not None:
            _verify(s)
        if len(_TRIPPED) >= limit:
            break
    return _TRIPPED[:limit]


class Ids:
    """Python object identity -> small integer in order of first appearance"""

    def __init__(self):
        self.m = {}
        self.keep = []

    def __call__(self, s):
        k = id(s)
        if k not in self.m:
            self.m[k] = len(self.m)
            self.keep.append(s)
        return self.m[k]


def sol_q(i, s):
    return f"{i} {wq(s.constraint_violation)} {wlist(list(s.objectives), wq)}"


def sol_f(i, s):
    return f"{i} {wf(s.constraint_violation)} {wlist(list(s.objectives), wf)}"


def dirs_w(dirs):
    return wlist(dirs, lambda d: "1" if d else "0")


BIG = [2 ** 53, 2 ** 53 + 1, float(2 ** 53), 2 ** 53 - 1, -(2 ** 53) - 1, -float(2 ** 53), 2 ** 60 + 1, float(2 ** 60), 10 ** 17 + 1, 1e17, 3, -2, 0]


def rand_value(rng, grid=None, special=0.15):
    r = rng.random()
    if r < 0.04 and special > 0:
        return rng.choice(BIG)          # exact Python ints next to the doubles they round to (objectives need not be floats)
    if grid is not None and r > special:
        return float(rng.choice(grid))
    if r < special:
        return rng.choice(SPECIAL)
    if r < 0.6:
        return float(rng.randrange(-3, 4))
    return rng.uniform(-10, 10) * 10 ** rng.randrange(-3, 4)


def better(constrained, dirs, a_objs, a_cv, b_objs, b_cv):
    """'first is better' written from the statement of C02 (independent of the model and of the code)"""
    if constrained and a_cv != b_cv:
        return a_cv < b_cv
    no_worse = all((x >= y) if d else (x <= y) for d, x, y in zip(dirs, a_objs, b_objs))
    strictly = any((x > y) if d else (x < y) for d, x, y in zip(dirs, a_objs, b_objs))
    return no_worse and strictly


def expected_cmp(constrained, dirs, a, b):
    if better(constrained, dirs, list(a.objectives), a.constraint_violation, list(b.objectives), b.constraint_violation):
        return -1
    if better(constrained, dirs, list(b.objectives), b.constraint_violation, list(a.objectives), a.constraint_violation):
        return 1
    return 0


class CallTimeout(Exception):
    pass


def call(f, *a, **k):
    """run implementation code; exceptions become observations"""
    try:
        return f(*a, **k)
    except ZeroDivisionError:
        return "err:zerodiv"
    except IndexError:
        return "err:index"
    except (ValueError, OverflowError) as e:
        return "err:domain"
    except C.PlatypusError:
        return "err:platypus"
    except CallTimeout:
        raise
    except Exception as e:
        return "err:" + type(e).__name__


TIMEOUTS = 0


class watchdog:
    """stop library code that does not return.  Two timers: CPU time consumed by this process (`cpu` seconds: code that spins; a
    machine that is merely busy with other work does not trip it) and wall time (`wall`, ten times longer by default: code
    that blocks without computing).  `on_fire` builds the exception raised inside the watched code."""

    def __init__(self, cpu, wall=None, on_fire=None):
        self.cpu, self.wall = cpu, wall if wall is not None else 10 * cpu
        self.on_fire = on_fire or (lambda: CallTimeout())

    def __enter__(self):
        import signal

        def fire(signum, frame):
            raise self.on_fire()
        self.old = (signal.signal(signal.SIGVTALRM, fire), signal.signal(signal.SIGALRM, fire))
        signal.setitimer(signal.ITIMER_VIRTUAL, self.cpu)
        signal.setitimer(signal.ITIMER_REAL, self.wall)
        return self

    def __exit__(self, *exc):
        import signal
        signal.setitimer(signal.ITIMER_VIRTUAL, 0)
        signal.setitimer(signal.ITIMER_REAL, 0)
        signal.signal(signal.SIGVTALRM, self.old[0])
        signal.signal(signal.SIGALRM, self.old[1])
        return False


def call_guarded(f, *a, seconds=3, **k):
    """like `call`, with a watchdog: library code that does not return becomes the observation err:timeout"""
    global TIMEOUTS
    try:
        with watchdog(seconds):
            return call(f, *a, **k)
    except CallTimeout:
        TIMEOUTS += 1
        return "err:timeout"
