"""C07 — the user's function only ever sees in-domain arguments.  Same instrumented runs as C01 (the
logging problem validates every argument it receives; the Lean acceptor re-validates what was submitted),
plus the library's default-operator registry checked type by type, and direct probes of the argument
producers (type generators, decode of arbitrary bit strings)."""
import itertools

import corr_C01
import tracer

import platypus
from platypus import PlatypusConfig
from platypus import types as T


def describe_op(op):
    n = type(op).__name__
    if n == "GAOperator":
        return f"GAOperator({type(op.variation).__name__},{type(op.mutation).__name__})/{op.arity}"
    if n in ("CompoundOperator",):
        return f"CompoundOperator({','.join(type(v).__name__ for v in op.variators)})/{op.arity}"
    if n == "CompoundMutation":
        return f"CompoundMutation({','.join(type(v).__name__ for v in op.mutators)})/{op.arity}"
    return f"{n}/{op.arity}"


# what each type needs from its default operators: operators that act on that representation
ACCEPTABLE = {
    "Real": {"SBX", "PM", "UM", "DifferentialEvolution", "PCX", "UNDX", "SPX", "UniformMutation"},
    "Binary": {"HUX", "BitFlip"},
    "Integer": {"HUX", "BitFlip"},
    "Permutation": {"PMX", "Insertion", "Swap"},
    "Subset": {"SSX", "Replace"},
}


def leaf_names(op):
    n = type(op).__name__
    if n == "GAOperator":
        return leaf_names(op.variation) | leaf_names(op.mutation)
    if n == "CompoundOperator":
        return set().union(*[leaf_names(v) for v in op.variators])
    if n == "CompoundMutation":
        return set().union(*[leaf_names(v) for v in op.mutators])
    return {n}


def run(ctx, drv):
    corr_C01.run(ctx, drv, prop="C07")
    ctx.nontrivial_rule = ("as C01 (real runs of all algorithm configurations x variable types x evaluators x default/explicit operators), "
                           "every argument passed to the problem function validated against the declared types; + default operator "
                           "registry per type; + exhaustive decode of all bit strings for Integer ranges of width 1..40 with assorted "
                           "lower bounds; + 2000 generator draws per type")
    # ---- the declared types of a problem object changed between two optimisations (default operators are process-wide objects):
    # the second optimisation must respect the types as declared now
    import random as _random
    import plat
    from platypus import Problem, Real, Integer, algorithms as A
    rng = ctx.rng
    for name in ("NSGAII", "GeneticAlgorithm", "EvolutionaryStrategy", "SMPSO", "SPEA2"):
        for first, second in (((-10.0, 10.0), (0.0, 0.5)), ((0.0, 1.0), (5.0, 6.0)), ((-1.0, 1.0), (-1.0, -0.999))):
            seen = []
            single = name in ("GeneticAlgorithm", "EvolutionaryStrategy")
            fn = (lambda x: (seen.append(list(x)) or [sum(v * v for v in x)])) if single else (lambda x: (seen.append(list(x)) or [sum(v * v for v in x), sum((v - 1) ** 2 for v in x)]))
            p = Problem(3, 1 if single else 2, function=fn)
            p.types[:] = Real(*first)
            _random.seed(rng.randrange(2 ** 31))
            mk = (lambda: A.SMPSO(p, swarm_size=8, leader_size=8)) if name == "SMPSO" else (lambda: getattr(A, name)(p, population_size=8))
            r1 = plat.call(lambda: mk().run(120))
            p.types[:] = Real(*second)
            del seen[:]
            r2 = plat.call(lambda: mk().run(160))
            inp = {"algorithm": name, "first_declared": list(first), "then_declared": list(second), "operators": "library defaults"}
            if isinstance(r1, str) or isinstance(r2, str):
                ctx.notes.append(f"re-declared-types run aborted: {name}: {r1 if isinstance(r1, str) else r2}")
                continue
            bad = [x for x in seen if not all(second[0] <= v <= second[1] for v in x)]
            if bad:
                ctx.fail("invalid-argument-to-problem-function", dict(inp, argument=bad[0]), bad[0], f"every variable in [{second[0]}, {second[1]}]",
                         f"algorithms.{name} (operators / types)")
            ctx.case(("redeclared-types", name, first, second), True)
    ctx.count("redeclared_type_runs", 15)
    # ---- ... and changed after the algorithm object was built but before it runs (the declaration that counts is the one in force
    # when the problem function is called)
    for name in ("NSGAII", "SMPSO", "OMOPSO", "GDE3", "CMAES", "PAES"):
        for first, second in (((0.0, 1.0), (2.0, 3.0)), ((-10.0, 10.0), (-1.0, 0.5))):
            seen = []
            p = Problem(3, 2, function=lambda x: (seen.append(list(x)) or [sum(v * v for v in x), sum((v - 1) ** 2 for v in x)]))
            p.types[:] = Real(*first)
            _random.seed(rng.randrange(2 ** 31))
            mk = {"SMPSO": lambda: A.SMPSO(p, swarm_size=8, leader_size=8), "OMOPSO": lambda: A.OMOPSO(p, epsilons=[0.05], swarm_size=8, leader_size=8),
                  "CMAES": lambda: A.CMAES(p, offspring_size=8), "PAES": lambda: A.PAES(p)}.get(name, lambda: getattr(A, name)(p, population_size=8))
            alg = plat.call(mk)
            inp = {"algorithm": name, "declared_when_constructed": list(first), "declared_before_run": list(second), "operators": "library defaults"}
            if isinstance(alg, str):
                ctx.notes.append(f"types-declared-after-construction run aborted: {name}: {alg}")
                continue
            p.types[:] = Real(*second)
            r = plat.call_guarded(lambda: alg.run(160), seconds=30)
            if isinstance(r, str):
                ctx.notes.append(f"types-declared-after-construction run aborted: {name}: {r}")
                continue
            bad = [x for x in seen if not all(second[0] <= v <= second[1] for v in x)]
            if bad:
                ctx.fail("invalid-argument-to-problem-function", dict(inp, argument=bad[0]), bad[0], f"every variable in [{second[0]}, {second[1]}]",
                         f"algorithms.{name} (bounds remembered from construction time)")
                ctx.failures[-1]["input_class"] = "types-declared-after-construction"
            ctx.case(("types-after-construction", name, first, second), len(seen) > 0)
    ctx.count("types_declared_after_construction_runs", 12)
    # ---- CMA-ES in moderate dimension with boxes that are narrow relative to its step size (sampling has to repair / resample often)
    for widths, seed_, sigma_, budget_ in (([(-1.0, 1.0)] * 10 + [(0.0, 0.5)] * 4, 7, None, 1500), ([(-1.0, 1.0)] * 8 + [(0.0, 0.5)] * 3, rng.randrange(2 ** 31), None, 1500),
                                           ([(2.0, 4.0)] * 9 + [(-0.5, 0.0)] * 3, rng.randrange(2 ** 31), None, 1500),
                                           # a box a hundred times narrower than the step size, and a step size twenty times the box:
                                           # every value of the very first generation needs hundreds of draws
                                           ([(0.0, 0.01), (0.0, 1.0)], rng.randrange(2 ** 31), None, 96), ([(0.0, 1.0), (0.0, 1.0)], rng.randrange(2 ** 31), 20.0, 60),
                                           ([(5.0, 5.02)], rng.randrange(2 ** 31), None, 96),
                                           # started from a corner of the box supplied by the user (initial_search_point)
                                           ([(0.0, 1.0)] * 8, 1, "corner", 200), ([(-2.0, -1.0)] * 6, rng.randrange(2 ** 31), "corner", 200)):
        seen = []
        nv = len(widths)
        p = Problem(nv, 1, function=lambda x: (seen.append(list(x)) or [sum((v - 0.1) ** 2 for v in x)]))
        p.types[:] = [Real(lo, hi) for lo, hi in widths]
        _random.seed(seed_)
        if sigma_ == "corner":
            kw_, off_ = {"initial_search_point": [lo for lo, hi in widths]}, 20
        else:
            kw_, off_ = ({"sigma": sigma_} if sigma_ else {}), 12
        r = plat.call_guarded(lambda: A.CMAES(p, offspring_size=off_, **kw_).run(budget_), seconds=60)
        inp = {"algorithm": "CMAES", "declared": [list(w) for w in widths], "seed": seed_, "offspring_size": 12, "sigma": sigma_}
        if isinstance(r, str):
            ctx.fail("run-raises", inp, r, "a completed run", "algorithms.CMAES")
            continue
        bad = [(x, i) for x in seen for i, (v, (lo, hi)) in enumerate(zip(x, widths)) if not (lo <= v <= hi)]
        if bad:
            ctx.fail("invalid-argument-to-problem-function", dict(inp, argument=bad[0][0], variable=bad[0][1]), bad[0][0][bad[0][1]],
                     f"in {list(widths[bad[0][1]])}", "algorithms.CMAES.sample")
        ctx.case(("cmaes-narrow", nv, seed_), len(seen) >= 12)
    ctx.count("cmaes_narrow_box_runs", 8)
    # ---- registry
    for tname, cls in (("Real", T.Real), ("Binary", T.Binary), ("Integer", T.Integer), ("Permutation", T.Permutation), ("Subset", T.Subset)):
        for what, getter in (("variator", PlatypusConfig.default_variator), ("mutator", PlatypusConfig.default_mutator)):
            try:
                op = getter(cls)
            except Exception as e:
                ctx.fail("no-default-operator", {"type": tname, "kind": what}, repr(e), "an operator", "config.PlatypusConfig")
                continue
            bad = leaf_names(op) - ACCEPTABLE[tname]
            if bad:
                ctx.fail("default-operator-for-wrong-representation", {"type": tname, "kind": what, "operator": describe_op(op)}, sorted(bad),
                         f"operators acting on {tname}", "platypus.__init__ (registry)")
            ctx.case(("registry", tname, what), True, {"type": tname, what: describe_op(op)} if tname in ("Integer", "Subset") else None)
    # ---- producers: decode of every bit string, generator draws
    rng = ctx.rng
    for w in range(1, 41 if ctx.quick() else 300):
        for lo in (0, 3, -4, 10, 1):
            t = T.Integer(lo, lo + w)
            if t.nbits <= 10:
                for bits in itertools.product([False, True], repeat=t.nbits):
                    v = t.decode(list(bits))
                    if not (lo <= v <= lo + w):
                        ctx.fail("decoded-integer-out-of-range", {"min": lo, "max": lo + w, "bits": "".join("1" if b else "0" for b in bits)}, v,
                                 f"in [{lo},{lo + w}]", "types.Integer.decode")
                        break
            ctx.case(("decode", w, lo), True)
    with tracer.patched_random(tracer.ExtremeRandom(ctx.seed, 0.05)):
        for k in range(2000 if ctx.quick() else 20000):
            kind = tracer_kinds[k % 5]
            spec = tracer.Spec(kind, 1, 1, 0, [False], rng)
            p = tracer.TracedProblem(spec)
            v = p.types[0].decode(p.types[0].rand())
            why = spec.valid([v])
            if why:
                ctx.fail("generator-produces-invalid-value", {"type": spec.describe()["types"][0]}, why, "valid value", f"types.{type(p.types[0]).__name__}.rand")
        ctx.count("generator_draws", 2000 if ctx.quick() else 20000)


tracer_kinds = ["real", "int", "binary", "perm", "subset"]


def replay(ctx, path):
    return corr_C01.replay(ctx, path)
