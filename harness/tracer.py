"""Instrumented runs of the real Platypus algorithms (no source hooks: subclassing Problem, wrapping
Algorithm.evaluate_all on the instance, the run() callback).  Produces a trace of observable events:

  ("run", N, nfe_before)                       a call of algorithm.run(N) begins
  ("batch", [(sid, evaluated_before)...])      Algorithm.evaluate_all(solutions) was entered
  ("call", args)                               the user function was called (in-process evaluators)
  ("batch_end", [(sid, snapshot)...], nfe)     evaluate_all returned
  ("step", nfe, {collection: [snapshot...]})   after every step (callback)
  ("run_end", nfe)

snapshot = (sid, decoded variables, objectives, constraints, violation, feasible, evaluated)
sid = small integer per Python object (all objects are kept alive, so ids are never reused).
"""
import copy
import math
import pickle
import random as _random

import platypus
from platypus import core as C
from platypus import algorithms as A
from platypus import operators as O
from platypus import types as T
from platypus import evaluator as E

MODULES_WITH_RANDOM = ["operators", "types", "algorithms", "_math", "weights", "problems"]


class ExtremeRandom(_random.Random):
    """seeded stream with a small rate of extreme outcomes of each primitive (all within the documented ranges)"""

    def __init__(self, seed, rate=0.0):
        super().__init__(seed)
        self.rate = rate
        self._aux = _random.Random(seed ^ 0x5EED)

    def uniform(self, a, b):
        if self.rate and self._aux.random() < self.rate:
            super().random()
            return self._aux.choice([a, b, a + (b - a) * 0.5, math.nextafter(b, a), math.nextafter(a, b)])
        return super().uniform(a, b)

    def gauss(self, mu=0.0, sigma=1.0):
        if self.rate and self._aux.random() < self.rate:
            super().random()
            return mu + sigma * self._aux.choice([0.0, 6.0, -6.0, 1e-300])
        return super().gauss(mu, sigma)


class patched_random:
    """make every Platypus module draw from `rng` instead of the global module"""

    def __init__(self, rng):
        self.rng = rng

    def __enter__(self):
        import importlib
        import functools
        self.saved = []
        for m in MODULES_WITH_RANDOM:
            mod = importlib.import_module("platypus." + m)
            if hasattr(mod, "random"):
                self.saved.append((mod, mod.random))
                mod.random = self.rng
        m = importlib.import_module("platypus._math")
        self.rv_defaults = m.random_vector.__defaults__
        m.random_vector.__defaults__ = (functools.partial(self.rng.gauss, 0.0, 1.0),)
        return self.rng

    def __exit__(self, *a):
        import importlib
        for mod, r in self.saved:
            mod.random = r
        importlib.import_module("platypus._math").random_vector.__defaults__ = self.rv_defaults


# --------------------------------------------------------------------------- test problems

class Spec:
    """a small deterministic problem: objectives / constraints are integer-weighted sums of the flattened
    decoded variables, accumulated left to right in doubles (mirrored exactly by the Lean model)"""

    def __init__(self, kind, nvars, nobjs, nconstrs, dirs, rng, elements="int"):
        self.kind, self.nvars, self.nobjs, self.nconstrs, self.dirs = kind, nvars, nobjs, nconstrs, list(dirs)
        self.types = []
        # "mixed": a Real variable first, then variables of other types (at least one list-encoded)
        kinds_ = [kind] * nvars if kind != "mixed" else (["real"] + [rng.choice(["binary", "int", "perm", "subset"]) for _ in range(max(1, nvars - 1))])
        self.nvars = nvars = len(kinds_)
        for i in range(nvars):
            kind = kinds_[i]
            if kind == "real":
                lo = rng.choice([0.0, -1.0, -5.0, 2.0, 0.25])
                self.types.append(("real", lo, lo + rng.choice([1.0, 0.5, 3.0, 10.0])))
            elif kind == "int":
                lo = rng.choice([0, 0, 3, -4, 10, 1])
                self.types.append(("int", lo, lo + rng.choice([1, 3, 5, 7, 10, 15, 8])))
            elif kind == "binary":
                self.types.append(("binary", rng.choice([1, 3, 5, 8])))
            elif kind == "perm":
                self.types.append(("perm", rng.choice([2, 4, 6]), elements))
            elif kind == "subset":
                n = rng.choice([3, 5, 7])
                self.types.append(("subset", n, rng.randrange(1, n + 1), elements))
        kind = self.kind
        flat = self.flat_len()
        self.form = "quadratic" if (kind == "real" and rng.random() < 0.6) or (kind != "real" and rng.random() < 0.25) else "linear"
        self.w = [[rng.randrange(-2, 4) for _ in range(flat)] for _ in range(nobjs)]
        self.cw = [[rng.randrange(-1, 3) for _ in range(flat)] for _ in range(nconstrs)]
        self.cthr = [float(rng.randrange(-2, 6)) for _ in range(nconstrs)]
        self.cops = [rng.choice(["<=0", ">=0", "==0", "<0", ">0", "!=0", "<=2", ">=-1.5"]) for _ in range(nconstrs)]

    def flat_len(self):
        n = 0
        for t in self.types:
            n += {"real": 1, "int": 1}.get(t[0], None) or (t[1] if t[0] in ("binary", "perm") else t[2])
        return n

    # text labels that read like numbers (part numbers, zip codes, version strings): elements are labels, whatever they look like
    NUMSTR = ["007", "10", "4.0", "1e3", "-0", " 12", "1_000", "inf", "NaN ", "0x1F"]

    def elem(self, t, k):
        return k if t[-1] == "int" else (self.NUMSTR[k] if t[-1] == "numstr" else f"e{k}")

    def elem_index(self, t, e):
        return e if t[-1] == "int" else (self.NUMSTR.index(e) if t[-1] == "numstr" else int(e[1:]))

    def flatten(self, decoded):
        z = []
        for t, v in zip(self.types, decoded):
            if t[0] in ("real", "int"):
                z.append(float(v))
            elif t[0] == "binary":
                z.extend(1.0 if b else 0.0 for b in v)
            else:
                z.extend(float(self.elem_index(t, e)) * (i + 1) for i, e in enumerate(v))
        return z

    def F(self, decoded):
        z = self.flatten(decoded)
        objs = []
        for row in self.w:
            acc = 0.0
            for wi, zi in zip(row, z):
                acc = (acc + (zi - float(wi)) * (zi - float(wi))) if self.form == "quadratic" else (acc + wi * zi)
            objs.append(acc)
        cons = []
        for row, thr in zip(self.cw, self.cthr):
            acc = 0.0
            for wi, zi in zip(row, z):
                acc = acc + wi * zi
            cons.append(acc - thr)
        return objs, cons

    def valid(self, decoded):
        """C07: is this argument valid for the declared types?  (written from the property statement)"""
        if not hasattr(decoded, "__len__") or len(decoded) != self.nvars:
            return "wrong number of variables"
        for i, (t, v) in enumerate(zip(self.types, decoded)):
            if t[0] == "real":
                if isinstance(v, bool) or not isinstance(v, (int, float)) or v != v or not (t[1] <= v <= t[2]):
                    return f"variable {i}: real {v!r} outside [{t[1]},{t[2]}]"
            elif t[0] == "int":
                if not isinstance(v, int) or isinstance(v, bool) or not (t[1] <= v <= t[2]):
                    return f"variable {i}: integer {v!r} outside [{t[1]},{t[2]}]"
            elif t[0] == "binary":
                if len(v) != t[1] or any(type(b) is not bool for b in v):
                    return f"variable {i}: not a list of {t[1]} booleans: {v!r}"
            elif t[0] == "perm":
                if sorted(map(str, v)) != sorted(str(self.elem(t, k)) for k in range(t[1])) or len(v) != t[1]:
                    return f"variable {i}: not a permutation of the declared elements: {v!r}"
            elif t[0] == "subset":
                decl = {self.elem(t, k) for k in range(t[1])}
                if len(v) != t[2] or len(set(v)) != len(v) or not set(v) <= decl:
                    return f"variable {i}: not a duplicate-free subset of size {t[2]}: {v!r}"
        return None

    def describe(self):
        return {"kind": self.kind, "form": self.form, "types": [list(map(str, t)) for t in self.types], "nobjs": self.nobjs, "constraints": self.cops,
                "maximise": [bool(d) for d in self.dirs]}


class TracedProblem(C.Problem):
    def __init__(self, spec, trace=None):
        super().__init__(spec.nvars, spec.nobjs, spec.nconstrs)
        self.spec = spec
        self.trace = trace
        for i, t in enumerate(spec.types):
            if t[0] == "real":
                self.types[i] = T.Real(t[1], t[2])
            elif t[0] == "int":
                self.types[i] = T.Integer(t[1], t[2])
            elif t[0] == "binary":
                self.types[i] = T.Binary(t[1])
            elif t[0] == "perm":
                self.types[i] = T.Permutation([spec.elem(t, k) for k in range(t[1])])
            elif t[0] == "subset":
                self.types[i] = T.Subset([spec.elem(t, k) for k in range(t[1])], t[2])
        self.directions[:] = [C.Direction.MAXIMIZE if d else C.Direction.MINIMIZE for d in spec.dirs]
        if spec.nconstrs:
            self.constraints[:] = list(spec.cops)
        self.ncalls = 0

    def evaluate(self, solution):
        args = copy.deepcopy(list(solution.variables[:]))
        self.ncalls += 1
        if self.trace is not None:
            self.trace.events.append(("call", args))
        objs, cons = self.spec.F(solution.variables[:])
        solution.objectives[:] = objs
        solution.constraints[:] = cons

    def __getstate__(self):       # picklable for process pools: the trace stays in the parent
        d = dict(self.__dict__)
        d["trace"] = None
        return d


class Trace:
    def __init__(self):
        self.events = []
        self.keep = []
        self.ids = {}

    def sid(self, s):
        k = id(s)
        if k not in self.ids:
            self.ids[k] = len(self.ids)
            self.keep.append(s)
        return self.ids[k]

    def snap(self, s):
        p = s.problem
        try:
            dec = [p.types[i].decode(s.variables[i]) for i in range(p.nvars)]
        except Exception as e:
            dec = "undecodable:" + type(e).__name__
        return (self.sid(s), copy.deepcopy(dec), list(s.objectives[:]), list(s.constraints[:]), s.constraint_violation,
                getattr(s, "feasible", None), s.evaluated)


COLLECTIONS = ["result", "population", "archive", "particles", "leaders", "local_best"]


def exposed(alg):
    out = {}
    for name in COLLECTIONS:
        c = getattr(alg, name, None)
        if c is None:
            continue
        try:
            out[name] = list(c)
        except TypeError:
            continue
    f = getattr(alg, "fittest", None)
    if f is not None:
        out["fittest"] = [f]
    return out


# --------------------------------------------------------------------------- evaluators

def pickling_map(f, jobs):
    """an evaluator that evaluates pickled copies and returns the copies (what process pools do), in-process"""
    out = []
    for j in jobs:
        c = pickle.loads(pickle.dumps(j))
        out.append(f(c))
    return out


class PicklingProblemProxy:
    pass


def make_evaluator(kind, trace):
    if kind == "map":
        return E.MapEvaluator(), None
    if kind == "pickle":
        # copies lose the trace link (TracedProblem.__getstate__), so calls are counted on the copy's problem;
        # we re-attach a call logger by evaluating through a wrapper
        def pm(f, jobs):
            out = []
            for j in jobs:
                c = pickle.loads(pickle.dumps(j))
                c.solution.problem.trace = trace
                out.append(f(c))
            return out
        return E.MapEvaluator(pm), None
    if kind == "thread":
        from concurrent.futures import ThreadPoolExecutor
        ex = ThreadPoolExecutor(4)
        return E.SubmitEvaluator(ex.submit), (lambda: ex.shutdown(wait=False, cancel_futures=True))
    if kind == "apply":
        from multiprocessing.pool import ThreadPool
        pool = ThreadPool(3)
        return E.ApplyEvaluator(pool.apply_async), pool.terminate
    if kind == "process":
        ev = E.ProcessPoolEvaluator(2)

        def close_hard():
            procs = list(getattr(ev.executor, "_processes", {}).values())
            ev.executor.shutdown(wait=False, cancel_futures=True)
            for pr in procs:
                try:
                    pr.terminate()
                except Exception:
                    pass
        return ev, close_hard
    raise ValueError(kind)


# --------------------------------------------------------------------------- algorithms

ALGOS = {
    # name: (constructor, needs) ; needs: "single" objective, "real" variables only
    "GA": (lambda p, n, kw: A.GeneticAlgorithm(p, population_size=n, offspring_size=kw.pop("offspring", n), **kw), {"single"}),
    "ES": (lambda p, n, kw: A.EvolutionaryStrategy(p, population_size=n, offspring_size=kw.pop("offspring", n), **kw), {"single"}),
    "NSGAII": (lambda p, n, kw: A.NSGAII(p, population_size=n, **kw), set()),
    "NSGAII+archive": (lambda p, n, kw: A.NSGAII(p, population_size=n, archive=C.Archive(), **kw), set()),
    "NSGAIII": (lambda p, n, kw: A.NSGAIII(p, divisions_outer=max(2, n // 3), **kw), {"multi"}),
    "EpsMOEA": (lambda p, n, kw: A.EpsMOEA(p, epsilons=[0.5], population_size=n, **kw), set()),
    "EpsNSGAII": (lambda p, n, kw: A.EpsNSGAII(p, epsilons=[0.5], population_size=n, **kw), set()),
    "GDE3": (lambda p, n, kw: A.GDE3(p, population_size=max(n, 5), **{k: v for k, v in kw.items() if k != "variator" or isinstance(v, O.DifferentialEvolution)}), {"real"}),
    "SPEA2": (lambda p, n, kw: A.SPEA2(p, population_size=n, **kw), set()),
    "MOEAD": (lambda p, n, kw: A.MOEAD(p, population_size=max(n, 4), neighborhood_size=3, **kw), {"multi"}),
    "IBEA": (lambda p, n, kw: A.IBEA(p, population_size=n, **kw), {"unconstrained", "multi"}),
    "PAES": (lambda p, n, kw: A.PAES(p, divisions=3, capacity=max(2, n), **kw), set()),
    "PESA2": (lambda p, n, kw: A.PESA2(p, population_size=n, divisions=3, capacity=max(2, n), **kw), set()),
    "OMOPSO": (lambda p, n, kw: A.OMOPSO(p, epsilons=[kw.pop("eps", 0.5)], swarm_size=n, leader_size=kw.pop("leader", max(2, n // 2)), max_iterations=3,
                                         **{k: v for k, v in kw.items() if k != "variator"}), {"real"}),
    "SMPSO": (lambda p, n, kw: A.SMPSO(p, swarm_size=n, leader_size=kw.pop("leader", max(2, n // 2)), max_iterations=3,
                                       **{k: v for k, v in kw.items() if k != "variator"}), {"real"}),
    "CMAES": (lambda p, n, kw: A.CMAES(p, offspring_size=max(n, 4), **{k: v for k, v in kw.items() if k != "variator"}), {"real"}),
}
MUTATION_ONLY = {"ES", "PAES"}          # these take a Mutation as variator


def _with_restarts(alg):
    """NSGA-II with an epsilon-box archive and a user-added time-continuation extension with short windows (documented public
    API: Algorithm.add_extension): a restart -- archive members mutated, evaluated and injected -- is forced every few steps"""
    from platypus import extensions as X
    alg.add_extension(X.AdaptiveTimeContinuationExtension(window_size=3, max_window_size=6, population_ratio=2.0,
                                                          min_population_size=4, max_population_size=12))
    return alg


# configurations that are only used where a check asks for them by name (not part of the default round-robin)
EXTRA_ALGOS = {
    "NSGAII+restarts": (lambda p, n, kw: _with_restarts(A.NSGAII(p, population_size=n, archive=C.EpsilonBoxArchive([0.3]), **kw)), set()),
}
ALL_ALGOS = dict(ALGOS, **EXTRA_ALGOS)


def applicable(name, spec):
    needs = ALL_ALGOS[name][1]
    if "single" in needs and spec.nobjs != 1:
        return False
    if "multi" in needs and spec.nobjs < 2:
        return False
    if "real" in needs and spec.kind != "real":
        return False
    if "unconstrained" in needs and spec.nconstrs:
        return False
    if name in ("GDE3",) and spec.nvars < 1:
        return False
    return True


def explicit_variator(name, spec, rng):
    """an explicitly supplied operator appropriate for the variable type (None = library default)"""
    k = spec.kind
    if name == "GDE3":
        # GDE3 is built around differential evolution: any crossover rate, step sizes below and above 1
        return O.DifferentialEvolution(rng.choice([0.1, 0.5, 1.0]), rng.choice([0.5, 1.0, 1.5, 2.0]))
    if k == "mixed":
        # the documented recipe for mixed types: one compound operator made of the per-type operators
        if name in MUTATION_ONLY:
            return O.CompoundMutation(O.PM(1, 20.0), O.BitFlip(0.3), O.Swap(0.7), O.Replace(0.7))
        # (float probabilities for BitFlip: the integer shorthand divides by the number of bits, and there may be no bit string)
        if rng.random() < 0.5:
            return O.CompoundOperator(O.SBX(1.0, 15.0), O.HUX(0.9), O.PMX(0.9), O.SSX(0.9), O.PM(1, 20.0), O.BitFlip(0.3), O.Swap(0.5), O.Replace(0.5))
        # the per-type crossovers in any order and with any rates, followed by none, some or all of the per-type mutations (rarely
        # firing ones included): whatever one operator of the chain leaves behind is what the next one and evaluate_all see
        xs = [O.SBX(rng.choice([1.0, 0.6]), 15.0), O.HUX(rng.choice([0.9, 0.3])), O.PMX(rng.choice([0.9, 0.3])), O.SSX(rng.choice([0.9, 0.5, 0.1]))]
        rng.shuffle(xs)
        ms = [m for m in (O.PM(rng.choice([0.05, 0.5]), 20.0), O.BitFlip(rng.choice([0.02, 0.3])), O.Swap(rng.choice([0.05, 0.5])), O.Replace(rng.choice([0.05, 0.5])))
              if rng.random() < 0.5]
        return O.CompoundOperator(*(xs + ms))
    mut = {"real": lambda: rng.choice([O.PM(1, 20.0), O.PM(0.5, 5.0), O.UM(1), O.UniformMutation(0.5, 0.5)]),
           "int": lambda: O.BitFlip(1), "binary": lambda: O.BitFlip(2),
           "perm": lambda: rng.choice([O.Swap(0.9), O.Insertion(0.9), O.CompoundMutation(O.Swap(0.5), O.Insertion(0.5))]),
           "subset": lambda: O.Replace(0.9)}[k]
    if name in MUTATION_ONLY:
        return mut()
    var = {"real": lambda: rng.choice([O.GAOperator(O.SBX(1.0, 15.0), O.PM(1, 20.0)), O.SBX(0.9, 2.0),
                                       O.GAOperator(O.PCX(3, 2), O.PM(1, 20.0)), O.GAOperator(O.UNDX(3, 2), O.PM(1)),
                                       O.GAOperator(O.SPX(3, 2), O.PM(1)), O.GAOperator(O.DifferentialEvolution(0.5, 0.5), O.PM(1)),
                                       O.GAOperator(O.DifferentialEvolution(0.3, 1.5), O.PM(1)), O.GAOperator(O.DifferentialEvolution(1.0, 2.0), O.UM(0.3)),
                                       O.CompoundOperator(O.SBX(), O.PM(), O.UM())]),
           "int": lambda: O.GAOperator(O.HUX(1.0), O.BitFlip(1)), "binary": lambda: O.GAOperator(O.HUX(0.8), O.BitFlip(1)),
           "perm": lambda: rng.choice([O.GAOperator(O.PMX(1.0), O.Swap(0.5)), O.CompoundOperator(O.PMX(0.9), O.Insertion(0.5), O.Swap(0.3))]),
           "subset": lambda: O.GAOperator(O.SSX(1.0), O.Replace(0.5))}[k]
    return var()


class RunTimeout(Exception):
    pass


def _alarm(signum, frame):
    raise RunTimeout("run exceeded the per-run watchdog")


RUN_WATCHDOG_S = 15
TIMEOUTS = 0


class _CountingVariator:
    """delegates everything to the algorithm's variator; records the number of offspring of every evolve() call"""

    def __init__(self, base, trace):
        self.__dict__["_base"], self.__dict__["_trace"] = base, trace

    def evolve(self, parents):
        out = self._base.evolve(parents)
        try:
            self._trace.events.append(("evolve", len(out)))
        except TypeError:
            self._trace.events.append(("evolve", None))
        return out

    def __getattr__(self, attr):
        return getattr(self.__dict__["_base"], attr)

    def __setattr__(self, attr, value):
        setattr(self.__dict__["_base"], attr, value)


def run_traced(name, spec, seed, size, budgets, evaluator="map", explicit=False, extreme=0.0, op_rng=None, log_frequency=None,
               injected=0, collect_steps=True, extra_kw=None, injected_evaluated=False, budget_as="int"):
    """returns (trace, algorithm, error or None)"""
    tr = Trace()
    prob = TracedProblem(spec, tr)
    rng = ExtremeRandom(seed, extreme)
    ev, closer = make_evaluator(evaluator, tr)
    err = None
    alg = None
    import plat as _plat
    wd = _plat.watchdog(RUN_WATCHDOG_S, on_fire=lambda: RunTimeout(f"run exceeded {RUN_WATCHDOG_S} s of CPU time (or {10 * RUN_WATCHDOG_S} s of wall time)"))
    wd.__enter__()
    # time continuation (platypus/extensions.py): record, from outside, every restart of *this* algorithm -- the size of the
    # archive it starts from and the extension's public parameters -- the input of Model/Restart.lean
    import platypus.extensions as _px
    _orig_restart = _px.AdaptiveTimeContinuationExtension.restart

    def _traced_restart(self_, algorithm, _orig=_orig_restart):
        if algorithm is alg:
            tr.events.append(("restart", len(algorithm.archive), self_.population_ratio, self_.min_population_size,
                              self_.max_population_size, getattr(getattr(self_, "mutator", None), "arity", None)))
        return _orig(self_, algorithm)
    _px.AdaptiveTimeContinuationExtension.restart = _traced_restart
    _orig_check = _px.AdaptiveTimeContinuationExtension.check

    def _traced_check(self_, algorithm, _orig=_orig_check):
        r_ = _orig(self_, algorithm)
        if algorithm is alg:
            tr.events.append(("check", len(algorithm.population), len(algorithm.archive), bool(r_), self_.frequency, self_.max_window_size,
                              self_.population_ratio, self_.min_population_size, self_.max_population_size, type(self_).__name__))
        return r_
    _px.AdaptiveTimeContinuationExtension.check = _traced_check
    with patched_random(rng):
        try:
            kw = {"evaluator": ev}
            kw.update(extra_kw or {})
            if log_frequency is not None:
                kw["log_frequency"] = log_frequency
            if explicit:
                kw["variator"] = explicit_variator(name, spec, op_rng or _random.Random(seed))
            if injected:
                gen_sols = []
                for _ in range(injected):
                    s = C.Solution(prob)
                    s.variables[:] = [t.rand() for t in prob.types]
                    if injected_evaluated:
                        s.evaluate()            # a user seeding the run with solutions evaluated earlier
                    gen_sols.append(s)
                kw["generator"] = O.InjectedPopulation(gen_sols)
            alg = ALL_ALGOS[name][0](prob, size, kw)
            orig = alg.evaluate_all

            def traced_evaluate_all(solutions, _orig=orig):
                sols = list(solutions)
                tr.events.append(("batch", [(tr.sid(s), bool(s.evaluated), tr.snap(s)) for s in sols], alg.nfe))
                _orig(solutions)
                tr.events.append(("batch_end", [tr.snap(s) for s in sols], alg.nfe))
            alg.evaluate_all = traced_evaluate_all
            if name == "NSGAIII" and hasattr(alg, "_reference_point_truncate"):
                # record what NSGA-III's environmental selection saw and drew in every generation: the population handed in (in
                # order), the ideal point before and after, and the outcomes of its random.choice calls (choice(seq) is
                # seq[randrange(len(seq))] on the same generator: the run itself is unchanged)
                import platypus.algorithms as _pa
                tr.n3 = []
                orig_trunc = alg._reference_point_truncate

                class _ChoiceRecorder:
                    def __init__(self, base, tape):
                        self._base, self._tape = base, tape

                    def choice(self, seq):
                        k = self._base.randrange(len(seq))
                        self._tape.append((len(seq), k))
                        return seq[k]

                    def __getattr__(self, attr):
                        return getattr(self._base, attr)

                def traced_truncate(solutions, size, _orig=orig_trunc):
                    sols = list(solutions)
                    rec = {"ids": [tr.sid(s_) for s_ in sols], "objs": [[float(o) for o in s_.objectives] for s_ in sols],
                           "cv": [float(s_.constraint_violation) for s_ in sols], "size": size,
                           "ideal_before": [float(v) for v in alg.ideal_point], "tape": []}
                    base = _pa.random
                    _pa.random = _ChoiceRecorder(base, rec["tape"])
                    try:
                        out = _orig(solutions, size)
                    finally:
                        _pa.random = base
                    rec["ideal_after"] = [float(v) for v in alg.ideal_point]
                    rec["survivors"] = [tr.sid(s_) for s_ in out]
                    tr.n3.append(rec)
                    return out
                alg._reference_point_truncate = traced_truncate
            orig_init = alg.initialize

            def traced_initialize(_orig=orig_init):
                tr.inits = getattr(tr, "inits", 0) + 1          # how often the algorithm (re)built its initial state
                r_ = _orig()
                # from now on record how many offspring every call of the variator returns (the input of the generational
                # step model, Model/GenStep.lean); the default variator only exists after initialize()
                v_ = getattr(alg, "variator", None)
                if v_ is not None and callable(getattr(v_, "evolve", None)) and not isinstance(v_, _CountingVariator):
                    # a delegating stand-in on this algorithm only: the library's default operators are shared objects
                    alg.variator = _CountingVariator(v_, tr)
                return r_
            alg.initialize = traced_initialize

            def cb(a):
                ex = exposed(a) if collect_steps else {}
                tr.events.append(("step", a.nfe, {k: [tr.snap(s) for s in v] for k, v in ex.items()},
                                  {k: len(v) for k, v in ex.items()}, len(getattr(a, "population", None) or getattr(a, "particles", None) or []),
                                  getattr(a, "population_size", None)))
            conds = {}
            for N in budgets:
                tr.events.append(("run", N, alg.nfe))
                # the budget as an int, as a fresh MaxEvaluations object per call, or as one MaxEvaluations object per
                # distinct N that is passed again on later calls: all three mean "N more evaluations from now"
                if budget_as == "object":
                    arg = C.MaxEvaluations(N)
                elif budget_as == "reused-object":
                    arg = conds.setdefault(N, C.MaxEvaluations(N))
                else:
                    arg = N
                alg.run(arg, callback=cb)
                tr.events.append(("run_end", alg.nfe))
        except Exception as e:      # an observation, judged by the caller
            import traceback
            if isinstance(e, RunTimeout):
                global TIMEOUTS
                TIMEOUTS += 1
            err = f"{type(e).__name__}: {e} @ " + traceback.format_exc().strip().split("\n")[-3].strip()
        finally:
            _px.AdaptiveTimeContinuationExtension.restart = _orig_restart
            _px.AdaptiveTimeContinuationExtension.check = _orig_check
            wd.__exit__(None, None, None)
            if closer:
                closer()
    return tr, alg, err
