"""C14 — adaptive grid archive (state machine correspondence, Float wire) + size bookkeeping of the
algorithms (trace check).  Oracle from the statement on the real code."""
import itertools
import math

from common import wf, wlist, bits2f
import plat
from plat import mk_problem, mk_sol, sol_f, dirs_w, call, Ids

from platypus import core as C


def cell_of(nobjs, divisions, lo, hi, objs):
    idx = 0
    for i in range(nobjs):
        v = objs[i]
        if v < lo[i] or v > hi[i]:
            return -1
        v = (v - lo[i]) / (hi[i] - lo[i]) if hi[i] > lo[i] else 0
        t = int(divisions * v)
        if t == divisions:
            t -= 1
        idx += t * divisions ** i
    return idx


def bounds(nobjs, sols):
    return ([min(s.objectives[i] for s in sols) for i in range(nobjs)], [max(s.objectives[i] for s in sols) for i in range(nobjs)])


def check_density(ctx, arch, inp, where="core.AdaptiveGridArchive.add"):
    """the occupancy it reports for every cell == number of members lying in that cell of its current grid"""
    cnt = {}
    for m in list(arch):
        c = call(arch.find_index, m)
        cnt[c] = cnt.get(c, 0) + 1
    if -1 in cnt or any(isinstance(k, str) for k in cnt):
        ctx.fail("member-outside-own-grid", inp, str(cnt), "every member inside the grid", where)
        return False
    rep = list(arch.density)
    for c in range(len(rep)):
        if rep[c] != cnt.get(c, 0):
            ctx.fail("density-not-member-count", dict(inp, cell=c), rep[c], cnt.get(c, 0), where)
            return False
    return True


def burst_history(rng):
    """a front between two extreme points that pin the grid, some of its members clustered in one cell, others alone in theirs, then
    one newcomer *inside* the grid that dominates several of them at once (the grid is not re-adapted for the newcomer itself; what
    happens to the cells of the members that leave is the point), then a few more offers"""
    V = rng.choice([12, 30, 120])
    capacity, divisions = rng.randrange(5, 11), rng.randrange(2, 5)
    mid = []
    for _ in range(rng.randrange(2, 7)):
        a = rng.randrange(V // 3, 2 * V // 3 + 1)
        mid.append([float(a), float(V + rng.randrange(V // 6, V // 3 + 1) - a)])
    rng.shuffle(mid)
    pts = [[0.0, float(V)], [float(V), 0.0]] + mid
    if rng.random() < 0.5:
        rng.shuffle(pts)
    lo = [min(q[0] for q in mid), min(q[1] for q in mid)]
    pts.append([float(max(1, int(lo[0]) - rng.randrange(0, 3) + rng.randrange(0, V // 6 + 1))), float(max(1, int(lo[1]) - rng.randrange(0, 3) + rng.randrange(0, V // 6 + 1)))])
    for _ in range(rng.randrange(0, 4)):
        pts.append([float(rng.randrange(0, V + 1)), float(rng.randrange(0, V + 1))])
    return capacity, divisions, pts


def run_history(ctx, ask, rng, exhaustive_objs=None, cfg=None):
    if cfg == "burst":
        n, dirs, constrained = 2, (False, False), False
        capacity, divisions, objs_ = burst_history(rng)
        p = mk_problem(n, dirs, constrained)
        sols = [mk_sol(p, o, 0.0) for o in objs_]
        ctx.count("burst_histories")
    elif cfg is None:
        n = rng.randrange(2, 4)
        dirs = tuple(rng.random() < 0.25 for _ in range(n))
        constrained = rng.random() < 0.15
        capacity = rng.randrange(1, 7)
        divisions = rng.randrange(1, 5)
        L = rng.randrange(0, 61) if rng.random() < 0.7 else rng.randrange(0, 8)
        vmax = rng.choice([3, 7, 7, 15])
        lattice = rng.random() < 0.7
        tenths = rng.random() < 0.35
        if rng.random() < 0.1:
            vmax = rng.choice([94, 100, 127])          # wide integer ranges: the cell arithmetic is exact only for small ones
        p = mk_problem(n, dirs, constrained)
        sols = []
        for _ in range(L):
            if lattice and tenths:
                objs = [rng.randrange(0, vmax + 1) / 10.0 for _ in range(n)]     # decimal fractions: values that sit on cell boundaries up to rounding
            elif lattice:
                objs = [float(rng.randrange(0, vmax + 1)) for _ in range(n)]
            else:
                objs = [rng.uniform(0, 1) if rng.random() < 0.9 else rng.choice([0.0, 1.0, 0.5]) for _ in range(n)]
            if n >= 2 and rng.random() < 0.5:      # bias towards trade-off fronts so that the archive fills up
                objs[1] = ((vmax / 10.0 - objs[0]) if tenths else float(vmax - objs[0]) + rng.choice([0, 0, 1, -1])) if lattice else 1 - objs[0] + rng.uniform(-.1, .1)
            if sols and rng.random() < 0.07:
                sols.append(rng.choice(sols))          # the same solution object offered again (it may be a current member)
            else:
                sols.append(mk_sol(p, objs, float(rng.choice([0, 0, 1])) if constrained else 0.0))
    else:
        n, dirs, constrained, capacity, divisions = cfg
        p = mk_problem(n, dirs, constrained)
        sols = [mk_sol(p, o) for o in exhaustive_objs]
    arch = C.AdaptiveGridArchive(capacity, n, divisions)
    ids = Ids()
    for s in sols:
        ids(s)
    trace = []
    inp = {"capacity": capacity, "nobjs": n, "divisions": divisions, "maximise": list(dirs), "constrained": constrained,
           "history": [[list(s.objectives), s.constraint_violation] for s in sols]}
    ok = True
    nrej = nevict = nover = 0
    for step, s in enumerate(sols):
        before = list(arch)
        old_bounds = (list(arch.minimum), list(arch.maximum))
        r = call(arch.add, s)
        after = list(arch)
        hin = dict(inp, upto=step)
        if isinstance(r, str):
            ctx.fail("add-raises", hin, r, "True/False", "core.AdaptiveGridArchive.add"); ok = False; break
        trace.append(f"{int(bool(r))}:{','.join(str(ids(m)) for m in after) or '-'}:{','.join(wf(x) for x in arch.minimum)}:"
                     f"{','.join(wf(x) for x in arch.maximum)}:{','.join(str(int(d)) for d in arch.density)}")
        # ---------- oracle
        dom = lambda y, x: plat.better(constrained, dirs, list(y.objectives), y.constraint_violation, list(x.objectives), x.constraint_violation)
        if len(after) > capacity:
            ctx.fail("capacity-exceeded", hin, len(after), f"<= {capacity}", "core.AdaptiveGridArchive.add"); ok = False; break
        if any(dom(a, b) for a in after for b in after):
            ctx.fail("members-not-mutually-nondominated", hin, [ids(m) for m in after], "mutually non-dominated", "core.AdaptiveGridArchive.add"); ok = False; break
        if not check_density(ctx, arch, hin):
            ok = False; break
        if any(dom(m, s) for m in before):
            nrej += 1
            if r or [id(m) for m in after] != [id(m) for m in before]:
                ctx.fail("dominated-newcomer-changed-archive", hin, [r, [ids(m) for m in after]], [False, [ids(m) for m in before]], "core.AdaptiveGridArchive.add"); ok = False; break
            continue
        kept = [m for m in before if not dom(s, m)]
        nevict += len(kept) < len(before)
        T = kept + [s]
        if len(T) <= capacity:
            if not r or [id(m) for m in after] != [id(m) for m in T]:
                ctx.fail("fitting-newcomer-not-added-or-wrong-evictions", hin, [r, [ids(m) for m in after]], [True, [ids(m) for m in T]], "core.AdaptiveGridArchive.add"); ok = False; break
        else:
            nover += 1
            # as multisets of references: the same object may be listed more than once
            from collections import Counter
            cT, cA = Counter(id(m) for m in T), Counter(id(m) for m in after)
            byid = {id(m): m for m in T + after}
            dropped = [byid[i] for i, c in (cT - cA).items() for _ in range(c)]
            extra = [byid[i] for i, c in (cA - cT).items() for _ in range(c)]
            if len(dropped) != 1 or extra or (r is False) != (dropped[0] is s):
                ctx.fail("overflow-not-exactly-one-dropped", hin, [r, [ids(m) for m in after]], f"{[ids(m) for m in T]} minus exactly one", "core.AdaptiveGridArchive.add"); ok = False; break
            pdrop = dropped[0]
            good = False
            cands = [old_bounds, bounds(n, T)] + ([bounds(n, kept)] if kept else [])
            for lo, hi in cands:
                cells = [cell_of(n, divisions, lo, hi, m.objectives) for m in T]
                if -1 in cells:
                    continue
                occ = {c: cells.count(c) for c in cells}
                if occ[cells[[id(m) for m in T].index(id(pdrop))]] == max(occ.values()):
                    good = True
            if not good:
                ctx.fail("overflow-drop-not-from-densest-cell", hin, ids(pdrop), "a member of a cell of maximal occupancy", "core.AdaptiveGridArchive.add"); ok = False; break
    if ok:
        ask(f"gridF {capacity} {n} {divisions} 1 {int(constrained)} {dirs_w(dirs)} {len(sols)} " + " ".join(sol_f(ids(s), s) for s in sols),
            lambda g, trace=trace, inp=inp: cmp_trace(ctx, g, trace, inp))
    ctx.case((capacity, n, divisions, tuple(tuple(s.objectives) for s in sols)), nrej > 0 and nevict > 0 and nover > 0,
             {"capacity": capacity, "divisions": divisions, "history": inp["history"][:6], "final": trace[-1] if trace else "-"} if len(ctx.samples) < 2 else None)
    if nover:
        ctx.count("histories_with_overflow")
    if nevict:
        ctx.count("histories_with_eviction")
    return ok


def cmp_trace(ctx, g, trace, inp):
    model = [] if g == "-" else g.split(" ")
    for k, (a, b) in enumerate(zip(trace, model)):
        if a != b:
            ctx.disagree("AdaptiveGridArchive state machine (flag, members, bounds, density) after every add", dict(inp, step=k), a, b)
            return
    if len(model) != len(trace):
        ctx.disagree("AdaptiveGridArchive trace length", inp, len(trace), len(model))


def run(ctx, drv):
    rng = ctx.rng
    ctx.nontrivial_rule = ("insertion histories (<= 60) into AdaptiveGridArchive over 2-3 objectives on lattices 0..3/7/15 (70%) or random "
                           "doubles, capacity 1-6, divisions 1-4, mixed directions; exhaustive: all histories of length <= L over a 4x4 "
                           "lattice with capacity 2-3, divisions 2. non-trivial = history with a rejection, an eviction and an overflow; "
                           "distinct by (config, history) + re-offers of the same object, decimal-fraction and wide integer lattices; survival functions on merged populations with duplicated objective vectors return exactly min(N, n) members")
    reqs, post = [], []

    def ask(line, fn):
        reqs.append(line); post.append(fn)
    nh = 1500 if ctx.quick() else 25000
    for _ in range(nh):
        run_history(ctx, ask, rng)
    import random as _rnd
    brng = _rnd.Random(ctx.seed * 7919 + 1414)        # its own generator: the streams above stay what they were
    for _ in range(600 if ctx.quick() else 12000):
        run_history(ctx, ask, brng, cfg="burst")
    L = 3 if ctx.quick() else 4
    pts = [(float(a), float(b)) for a in range(4) for b in range(4)]
    nex = 0
    for cap in (2, 3):
        for l in range(0, L + 1):
            for h in itertools.product(pts, repeat=l):
                run_history(ctx, ask, rng, exhaustive_objs=h, cfg=(2, (False, False), False, cap, 2))
                nex += 1
    ctx.count("exhaustive_histories", nex)
    ctx.exhaustive = True
    ctx.notes.append(f"exhaustive: all histories of length <= {L} over the 4x4 lattice, capacity 2 and 3, 2 divisions")

    # ---- every way of offering solutions is the same history of `add` calls: `+=` and `extend` with whole lists, chunks and
    # generators, `append` (the initial archives of PAES / PESA2 are filled with `+=`)
    for t in range(250 if ctx.quick() else 4000):
        n = rng.choice([2, 2, 3])
        dirs = tuple(rng.random() < 0.3 for _ in range(n))
        capacity, divisions = rng.randrange(2, 7), rng.randrange(2, 5)
        p = mk_problem(n, dirs, False)
        pts = []
        for _ in range(rng.randrange(1, 16)):
            w = [rng.random() + 0.01 for _ in range(n)]
            tot = sum(w)
            q = [(x / tot) + (rng.choice([0.0, 0.0, 0.2]) if rng.random() < 0.3 else 0.0) for x in w]
            pts.append([(-x if d else x) for x, d in zip(q, dirs)])
            if rng.random() < 0.25:
                pts.append(list(pts[-1]))          # another solution object with the same objective vector, in the same batch
        sols = [mk_sol(p, q, 0.0) for q in pts]
        ref = C.AdaptiveGridArchive(capacity, n, divisions)
        for s_ in sols:
            call(ref.add, s_)
        how = rng.choice(["+= list", "extend list", "+= chunks", "+= generator", "append each", "extend tuple"])
        other = C.AdaptiveGridArchive(capacity, n, divisions)

        def feed():
            nonlocal other
            if how == "+= list":
                other += list(sols)
            elif how == "extend list":
                other.extend(list(sols))
            elif how == "extend tuple":
                other.extend(tuple(sols))
            elif how == "+= generator":
                other += (x for x in sols)
            elif how == "append each":
                for x in sols:
                    other.append(x)
            else:
                k = rng.randrange(1, 5)
                for j in range(0, len(sols), k):
                    other += sols[j:j + k]
        r = call(feed)
        inp = {"capacity": capacity, "nobjs": n, "divisions": divisions, "maximise": list(dirs), "constrained": False, "offered_by": how,
               "history": [[list(s_.objectives), 0.0] for s_ in sols]}
        if isinstance(r, str):
            ctx.fail("add-raises", inp, r, "the archive after the same add calls", "core.AdaptiveGridArchive / core.Archive.__iadd__ / extend / append")
            continue
        a_ids, b_ids = [[i for i, x in enumerate(sols) if x is m][0] for m in ref], [[i for i, x in enumerate(sols) if x is m][0] for m in other]
        # what the statement says about the archive after this insertion history, whatever order the entry point offers its items in:
        where_ = "core.Archive.__iadd__ / extend / append on AdaptiveGridArchive"
        dom_ = lambda y, x: plat.better(False, dirs, list(y.objectives), 0.0, list(x.objectives), 0.0)
        mem_ = list(other)
        if len(mem_) > capacity:
            ctx.fail("capacity-exceeded", inp, len(mem_), f"<= {capacity}", where_)
        elif any(dom_(y, x) for x in mem_ for y in mem_ if x is not y):
            ctx.fail("members-not-mutually-nondominated", inp, b_ids, "mutually non-dominated members", where_)
        elif not check_density(ctx, other, inp, where=where_):
            pass
        elif len(sols) <= capacity:
            # nothing overflows: every offered solution that no other offered solution dominates is a member (clones included)
            want = [i for i, x in enumerate(sols) if not any(dom_(y, x) for y in sols)]
            if sorted(b_ids) != want:
                ctx.fail("non-dominated-newcomer-that-fits-not-added", inp, sorted(b_ids), want, where_)
        # and, as a model of these entry points: the same as offering the items one by one, in order
        if a_ids != b_ids or list(other.density) != list(ref.density) or list(other.minimum) != list(ref.minimum) or list(other.maximum) != list(ref.maximum):
            ctx.disagree("+= / extend / append on a grid archive = repeated add in order (members, bounds, density)", inp,
                         {"members": b_ids, "density": [int(d) for d in other.density]}, {"members": a_ids, "density": [int(d) for d in ref.density]})
        ctx.case(("entry", how, tuple(map(tuple, pts)), capacity, divisions), len(sols) > capacity)
    ctx.count("entry_point_histories", 250 if ctx.quick() else 4000)

    try:
        import corr_sizes
    except ImportError:
        corr_sizes = None
    if corr_sizes is not None:
        corr_sizes.run(ctx, ask=lambda line, fn: (reqs.append(line), post.append(fn)))

    if drv.ok:
        out = drv.batch(reqs)
        for g, fn in zip(out, post):
            fn(g)


def replay(ctx, path):
    import json
    r = json.load(open(path))
    fl = r.get("failure")
    print(json.dumps(fl or r, indent=1)[:3000])
    if not fl or "history" not in fl["input"]:
        return 0
    i = fl["input"]
    p = mk_problem(i["nobjs"], i["maximise"], i["constrained"])
    arch = C.AdaptiveGridArchive(i["capacity"], i["nobjs"], i["divisions"])
    for o, cv in i["history"][: i.get("upto", len(i["history"])) + 1]:
        arch.add(mk_sol(p, o, cv))
    okd = check_density(ctx, arch, i)
    print("current tree: members", [list(m.objectives) for m in arch], "density", arch.density, "density consistent:", okd)
    return 0 if okd else 1
