"""A scripted replacement for the `random` module as seen by Platypus: records every primitive call (the draw
tape) and answers from a seeded stream with a configurable rate of extreme outcomes, or replays a tape."""
import math
import random as _random

from common import wf


class ScriptedRandom:
    def __init__(self, seed, extreme=0.15, replay=None):
        self.rng = _random.Random(seed)
        self.extreme = extreme
        self.tape = []          # (kind, args..., outcome)
        self.replay = list(replay) if replay is not None else None
        self.pos = 0

    # ---- helpers
    def _next(self, kind, make):
        if self.replay is not None:
            if self.pos < len(self.replay) and self.replay[self.pos][0] == kind:
                v = self.replay[self.pos][-1]
                self.pos += 1
                return v
            self.pos += 1
        return make()

    def _x(self):
        return self.extreme and self.rng.random() < self.extreme

    # ---- primitives used by Platypus
    def uniform(self, a, b):
        a, b = float(a), float(b)

        def make():
            if self._x():
                # the upper end is reachable only through rounding of a + (b-a)*random(); never for (0.0, 1.0)
                ends = [a, math.nextafter(b, a), math.nextafter(a, b), a + (b - a) * 0.5] + ([] if (a, b) == (0.0, 1.0) else [b])
                return self.rng.choice(ends)
            return a + (b - a) * self.rng.random()
        v = self._next("u", make)
        self.tape.append(("u", a, b, v))
        return v

    def random(self):
        return self.uniform(0.0, 1.0)

    def gauss(self, mu=0.0, sigma=1.0):
        mu, sigma = float(mu), float(sigma)

        def make():
            if self._x():
                return mu + sigma * self.rng.choice([0.0, 8.0, -8.0, 1e-300, 1.0])
            return self.rng.gauss(mu, sigma)
        v = self._next("g", make)
        self.tape.append(("g", mu, sigma, v))
        return v

    def randrange(self, start, stop=None):
        if stop is None:
            n = start
            if n <= 0:
                raise ValueError("empty range for randrange()")

            def make():
                if self._x():
                    return self.rng.choice([0, n - 1])
                return self.rng.randrange(n)
            k = self._next("r", make)
            self.tape.append(("r", n, k))
            return k
        return start + self.randrange(stop - start)

    def randint(self, a, b):
        return a + self.randrange(b - a + 1)

    def getrandbits(self, k):
        assert k == 1
        b = self._next("b", lambda: self.rng.getrandbits(1))
        self.tape.append(("b", b))
        return b

    def choice(self, seq):
        return seq[self.randrange(len(seq))]

    def shuffle(self, x):
        for i in reversed(range(1, len(x))):
            j = self.randrange(i + 1)
            x[i], x[j] = x[j], x[i]

    def sample(self, population, k):
        pool = list(population)
        out = []
        for _ in range(k):
            out.append(pool.pop(self.randrange(len(pool))))
        return out

    # ---- wire
    def tape_wire(self):
        parts = [str(len(self.tape))]
        for d in self.tape:
            if d[0] == "u":
                parts.append(f"u {wf(d[1])} {wf(d[2])} {wf(d[3])}")
            elif d[0] == "g":
                parts.append(f"g {wf(d[1])} {wf(d[2])} {wf(d[3])}")
            elif d[0] == "r":
                parts.append(f"r {d[1]} {d[2]}")
            else:
                parts.append(f"b {int(d[1])}")
        return " ".join(parts)
