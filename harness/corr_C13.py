"""C13 — seeded runs repeat; a saved state resumes exactly; run calls compose.
Differential runs of the real code (in-process and in subprocesses with several PYTHONHASHSEED values).
The model side contributes which runs must be equal (composition / resume theorems)."""
import json
import os
import random
import subprocess
import sys
import tempfile
from concurrent.futures import ThreadPoolExecutor

import tracer
import c13_worker

HERE = os.path.dirname(os.path.abspath(__file__))


def sub(cfg, hashseed):
    env = dict(os.environ, PYTHONHASHSEED=str(hashseed))
    p = subprocess.run(["/venv/bin/python", os.path.join(HERE, "c13_worker.py"), json.dumps(cfg)], capture_output=True, text=True, env=env, timeout=300)
    for line in p.stdout.splitlines():
        if line.startswith("FP "):
            return json.loads(line[3:])
        if line.startswith("ERR "):
            return {"error": json.loads(line[4:])}
    return {"error": "no output: " + p.stderr[-300:]}


def inproc(cfg):
    try:
        return c13_worker.main(cfg)
    except Exception as e:
        return {"error": f"{type(e).__name__}: {e}"}


def gen_cfg(rng, name, kind, elements="int"):
    needs = tracer.ALGOS[name][1]
    nobjs = 1 if "single" in needs else rng.choice([2, 2, 3])
    ncon = 0 if "unconstrained" in needs else rng.choice([0, 0, 1])
    dirs = [False] * nobjs if name in ("MOEAD", "NSGAIII") else [rng.random() < 0.3 for _ in range(nobjs)]
    return {"name": name, "kind": "real" if "real" in needs else kind, "nvars": rng.randrange(2, 4), "nobjs": nobjs, "ncon": ncon, "dirs": dirs,
            "spec_seed": rng.randrange(2 ** 31), "elements": elements, "seed": rng.randrange(2 ** 31), "size": rng.choice([4, 6, 8]),
            "explicit": rng.random() < 0.3, "op_seed": rng.randrange(2 ** 31)}


def first_diff(a, b):
    if a.get("error") or b.get("error"):
        return {"a": a.get("error"), "b": b.get("error")}
    if a["nfe"] != b["nfe"]:
        return {"nfe": [a["nfe"], b["nfe"]]}
    for i, (x, y) in enumerate(zip(a["result"], b["result"])):
        if x != y:
            return {"index": i, "a": x, "b": y}
    if len(a["result"]) != len(b["result"]):
        return {"len": [len(a["result"]), len(b["result"])]}
    ca, cb = a.get("collections"), b.get("collections")
    if ca is not None and cb is not None:
        diff = sorted(k for k in set(ca) | set(cb) if ca.get(k) != cb.get(k))
        if diff:
            return {"collections_that_differ": diff}
    return None


def run(ctx, drv):
    rng = ctx.rng
    ctx.nontrivial_rule = ("differential runs: every shipped algorithm x variable types (incl. subsets / permutations of string elements), "
                           "(i) same seed twice in process, (ii) same seed in separate interpreters with PYTHONHASHSEED in {0,1,2,random}, "
                           "(iii) save at a step boundary, resume in another process whose RNG was used in between, compare with the "
                           "uninterrupted continuation, for several boundaries, (iv) run calls split at step boundaries vs one call "
                           "(eps-NSGA-II excluded). one case = one pair of runs; non-trivial = the run has >= 3 steps; distinct by configuration + canonical state digests (every attribute + RNG state) right after save and right after load, binary and JSON state formats, a Gaussian left pending before half of the checkpoints, late checkpoints for grid-archive algorithms, two long eps-NSGA-II runs in one interpreter")
    names = list(tracer.ALGOS)
    kinds = ["real", "int", "binary", "perm", "subset"]
    jobs = []          # (description, thunk-a, thunk-b, kind-of-check)
    tmp = tempfile.mkdtemp(prefix="c13_", dir=os.environ.get("TMPDIR", "/tmp"))
    open(os.path.join(tmp, f".owner{os.getpid()}"), "w").close()
    nbase = 16 if ctx.quick() else 120
    cfgs = []
    for i in range(nbase):
        name = names[i % len(names)]
        kind = kinds[(i // len(names) + i) % len(kinds)]
        cfgs.append(gen_cfg(rng, name, kind, elements=rng.choice(["int", "str"]) if kind in ("perm", "subset") else "int"))
    for name in ("PESA2", "PAES", "PESA2"):
        c = gen_cfg(rng, name, "real")
        c["kind"], c["nobjs"], c["dirs"], c["ncon"], c["size"] = "real", 2, [False, rng.random() < 0.3], 0, rng.choice([4, 6])
        cfgs.append(c)
    # string-element subsets / permutations through the library's default operators, several algorithms
    for name in ("NSGAII", "GA", "SPEA2", "EpsMOEA", "PAES", "IBEA") if ctx.quick() else names:
        for kind in ("subset", "perm"):
            c = gen_cfg(rng, name, kind, elements="str")
            if c["kind"] == kind:
                c["explicit"] = False
                cfgs.append(c)
    # process history: the library's shared default operator instances first see a problem of another shape
    hist = []
    for name in (("NSGAII", "ES", "SPEA2", "PAES") if ctx.quick() else ("NSGAII", "ES", "SPEA2", "PAES", "GA", "EpsMOEA", "IBEA", "MOEAD", "PESA2", "NSGAIII")):
        for kind in ("real", "binary"):
            first = gen_cfg(rng, name, kind)
            second = gen_cfg(rng, name, kind)
            if first["kind"] != kind:
                continue
            first["explicit"] = second["explicit"] = False
            first["nvars"], second["nvars"] = 2, 5
            hist.append((first, second))
    # algorithms that carry long-lived helper objects (time-continuation extension of eps-NSGA-II: restarts are decided on
    # generation counters): two long runs in one interpreter
    for _ in range(1 if ctx.quick() else 3):
        first = gen_cfg(rng, "EpsNSGAII", "real")
        second = gen_cfg(rng, "EpsNSGAII", "real")
        for c_ in (first, second):
            c_["explicit"], c_["size"], c_["nobjs"], c_["dirs"], c_["ncon"], c_["budget"] = False, 12, 2, [False, False], 0, 12 * 720
        hist.append((first, second))
    # the same with one objective: the archive then has a single member, no size-ratio restart can intervene, and the only restart
    # is the one forced after max_window_size generations *of this run* (600 + 600 generations: none in a fresh interpreter)
    first = gen_cfg(rng, "EpsNSGAII", "real")
    second = gen_cfg(rng, "EpsNSGAII", "real")
    for c_ in (first, second):
        c_["explicit"], c_["size"], c_["nobjs"], c_["dirs"], c_["ncon"], c_["budget"] = False, 12, 1, [False], 0, 12 * 600
    hist.append((first, second))
    results = []
    with ThreadPoolExecutor(12) as ex:
        futs = []
        inproc_jobs = []      # the global random module is process-wide state: in-process runs are strictly sequential
        for ci, c in enumerate(cfgs):
            s = c["size"]
            total = [s * 4]
            base = dict(c, mode="run", budgets=total)
            # (i) twice in process
            inproc_jobs.append(("same-seed-in-process", c, None, (lambda b=base: (inproc(b), inproc(b)))))
            # (ii) other interpreters, hash seeds
            hs = [0, 1, 2, "random"] if (not ctx.quick() or c["elements"] == "str") else [0, "random"]
            futs.append(("same-seed-other-process-hashseeds", c, hs, ex.submit(lambda b=base, hs=hs: [sub(b, h) for h in hs])))
            # (iii) save / resume at boundaries
            for k in ([1, 2] if ctx.quick() else [1, 2, 3, 5]):
                f = os.path.join(tmp, f"state_{ci}_{k}.bin")
                js = (k + ci) % 3 == 0           # the human-readable JSON state format as well as the binary one
                # the continuation after the checkpoint is one run call or several (a restored object is used like any other)
                cont, sa = ([s * 3], {}) if (k + ci) % 4 < 2 else ([s * 2, s], {"save_after": 1})
                sv = dict(c, mode="save", budgets=[s * k] + cont, file=f, gauss_pending=(k + ci) % 2 == 0, json=js, **sa)
                rs = dict(c, mode="resume", budgets=[s * k] + cont, file=f, scramble=7 + k, json=js, **sa)
                # (iii-c) writing a checkpoint is an observation: the run that was checkpointed continues exactly like the same
                # sequence of run calls without the save_state call in between
                pl = dict(c, mode="run", budgets=[s * k] + cont, gauss_pending=(k + ci) % 2 == 0, **sa)
                futs.append(("save-resume", c, k, ex.submit(lambda sv=sv, rs=rs, pl=pl: (sub(sv, 0), sub(rs, 0), sub(pl, 0)))))
            # (iii-b) algorithms whose state contains lazily maintained structures (adaptive grid bounds / densities, which only
            # go stale once the archive has been full for a while): late boundaries as well
            if c["name"] in ("PESA2", "PAES"):
                for k in ([5, 9, 14, 20, 27] if ctx.quick() else [5, 9, 14, 20, 27, 35, 50, 70]):
                    f = os.path.join(tmp, f"state_{ci}_late{k}.bin")
                    js = k % 2 == 1
                    sv = dict(c, mode="save", budgets=[s * k, s * 2], file=f, json=js)
                    rs = dict(c, mode="resume", budgets=[s * k, s * 2], file=f, scramble=3 + k, json=js)
                    futs.append(("save-resume", c, k, ex.submit(lambda sv=sv, rs=rs: (sub(sv, 0), sub(rs, 0)))))
            # (iv) composition
            if c["name"] != "EpsNSGAII":
                def comp(c=c, s=s):
                    a = inproc(dict(c, mode="run", budgets=[s * 2, s * 2]))
                    if a.get("error"):
                        return a, a
                    b = inproc(dict(c, mode="run", budgets=[a["nfe"]]))
                    return a, b
                inproc_jobs.append(("split-run-calls-vs-one-call", c, None, comp))
        class _Now:
            def __init__(self, fn):
                self.fn = fn

            def result(self):
                return self.fn()
        hist_futs = [(f1, f2, ex.submit(lambda b=dict(f2, mode="run", budgets=[f2.get("budget", f2["size"] * 4)]): sub(b, 0))) for f1, f2 in hist]
        fresh = {}
        subs = [(k_, c_, e_, fu_) for (k_, c_, e_, fu_) in futs]
        for _, _, _, fu_ in subs:
            try:
                fu_.result()          # let all subprocess work finish before touching the global RNG in this process
            except Exception:
                pass
        for kind, c, extra, fu in subs + [(k_, c_, e_, _Now(fn)) for (k_, c_, e_, fn) in inproc_jobs]:
            try:
                r = fu.result()
            except Exception as e:
                ctx.notes.append(f"infrastructure: {kind} {c['name']}: {e}")
                continue
            desc = {k: v for k, v in c.items() if k not in ("mode", "budgets", "file")}
            if kind == "same-seed-other-process-hashseeds":
                base = r[0]
                fresh[json.dumps({k2: v2 for k2, v2 in c.items()}, sort_keys=True)] = base
                for h, x in zip(extra[1:], r[1:]):
                    d = first_diff(base, x)
                    if d and not _benign(d):
                        ctx.fail("seeded-run-differs-across-interpreters", dict(desc, hashseeds=[extra[0], h]), d, "identical results",
                                 f"algorithms.{c['name']} / operators (hash-order dependence)")
                        break
                ctx.case((kind, json.dumps(desc, sort_keys=True)), not base.get("error") and len(base.get("result", [])) > 0,
                         {"check": kind, "algorithm": c["name"], "kind": c["kind"], "elements": c["elements"], "hashseeds": extra,
                          "nfe": base.get("nfe")} if len(ctx.samples) < 2 else None)
            else:
                a, b = r[0], r[1]
                if len(r) == 3:
                    a_ = {k_: v_ for k_, v_ in a.items() if k_ != "state"}
                    d3 = first_diff(a_, r[2])
                    if d3 and not _benign(d3):
                        ctx.fail("checkpointing-changes-the-run", dict(desc, boundary=extra), d3, "the same results as the same run calls without save_state", "io.save_state")
                    ctx.count("checkpointed-vs-plain-runs")
                if kind == "same-seed-in-process":
                    # the same seeded run in this long-lived process (which ran other problems before) and in a fresh interpreter
                    fr = fresh.get(json.dumps({k2: v2 for k2, v2 in c.items()}, sort_keys=True))
                    if fr is not None:
                        d2 = first_diff(a, fr)
                        if d2 and not _benign(d2):
                            ctx.fail("seeded-run-depends-on-process-history", desc, d2, "identical results in a fresh interpreter", f"algorithms.{c['name']} / operators (shared default instances)")
                        ctx.count("in-process-vs-fresh-interpreter")
                if kind == "save-resume" and isinstance(a.get("state"), dict) and isinstance(b.get("state"), dict):
                    # the state handed back by load_state is the state that was saved (attribute by attribute, and the RNG)
                    diff_attrs = sorted(k_ for k_ in set(a["state"]) | set(b["state"]) if a["state"].get(k_) != b["state"].get(k_))
                    if diff_attrs:
                        ctx.fail("restored-state-differs-from-saved-state", dict(desc, boundary=extra), diff_attrs, "every attribute of the algorithm and the RNG state restored exactly",
                                 "io.save_state / io.load_state")
                    ctx.count("state-digests-compared")
                a = {k_: v_ for k_, v_ in a.items() if k_ != "state"}
                b = {k_: v_ for k_, v_ in b.items() if k_ != "state"}
                d = first_diff(a, b)
                if d and not _benign(d):
                    where = {"same-seed-in-process": f"algorithms.{c['name']}", "save-resume": "io.save_state / io.load_state",
                             "split-run-calls-vs-one-call": "core.Algorithm.run"}[kind]
                    ctx.fail({"same-seed-in-process": "seeded-run-not-repeatable", "save-resume": "resumed-run-differs-from-continuation",
                              "split-run-calls-vs-one-call": "split-run-calls-do-not-compose"}[kind], dict(desc, boundary=extra), d, "identical results", where)
                ctx.case((kind, extra, json.dumps(desc, sort_keys=True)), not a.get("error"),
                         {"check": kind, "algorithm": c["name"], "kind": c["kind"], "boundary_step": extra, "nfe": a.get("nfe")} if len(ctx.samples) < 5 and kind == "save-resume" else None)
            ctx.count(kind)
        for f1, f2, fu in hist_futs:
            fr = fu.result()
            inproc(dict(f1, mode="run", budgets=[f1.get("budget", f1["size"] * 3)]))
            here = inproc(dict(f2, mode="run", budgets=[f2.get("budget", f2["size"] * 4)]))
            d = first_diff(here, fr)
            if d and not _benign(d):
                ctx.fail("seeded-run-depends-on-process-history", {"first_problem": {k: v for k, v in f1.items()}, "then": {k: v for k, v in f2.items()}}, d,
                         "identical results in a fresh interpreter", f"algorithms.{f2['name']} / operators (shared default instances)")
            ctx.case(("history", f2["name"], f2["kind"]), True)
            ctx.count("process-history-pairs")
    import shutil
    shutil.rmtree(tmp, ignore_errors=True)


def _benign(d):
    """both runs refused / crashed identically (judged by other properties)"""
    return "a" in d and "b" in d and isinstance(d["a"], str) and d["a"] == d["b"]


def replay(ctx, path):
    r = json.load(open(path))
    print(json.dumps(r.get("failure", r), indent=1)[:3000])
    return 0
