"""C05 — epsilon-box dominance / archive.  Float wire bit-exact on arbitrary doubles, exact (Q) wire on
dyadic lattices where no rounding occurs; oracle from the statement on the real code."""
import math
from fractions import Fraction

from common import wf, wq, wlist
import plat
from plat import mk_problem, mk_sol, sol_f, sol_q, dirs_w, call, Ids

from platypus import core as C

LAT_EPS = [1.0, 0.5, 0.25, 2.0, 0.75, 1.5]


def eps_at(eps, i):
    return float(eps[i if i < len(eps) else -1])


def box(dirs, eps, s):
    """box index vector with the arithmetic of the statement carried out in doubles"""
    return tuple(math.floor((-o if d else o) / eps_at(eps, i)) for i, (d, o) in enumerate(zip(dirs, s.objectives)))


def box_exact(dirs, eps, s):
    return tuple(math.floor(Fraction(-o if d else o) / Fraction(eps_at(eps, i))) for i, (d, o) in enumerate(zip(dirs, s.objectives)))


def gen_problem(rng, lattice):
    n = rng.randrange(1, 5)
    dirs = tuple(rng.random() < 0.4 for _ in range(n))
    constrained = rng.random() < 0.3
    pool = LAT_EPS if lattice else [0.1, 0.25, 0.3, 1.0, 0.05, 1e-3, 7.0, 1 / 3]
    k = rng.choice([1, 1, n, max(1, n - 1), n + 1])
    eps = [rng.choice(pool) for _ in range(k)]
    return n, dirs, constrained, eps, mk_problem(n, dirs, constrained)


def gen_value(rng, e, lattice):
    if lattice:
        return rng.randrange(-40, 41) / 8.0
    r = rng.random()
    k = rng.randrange(-6, 7)
    if r < 0.3:
        return k * e                        # exact multiple of epsilon (as computed in doubles)
    if r < 0.45:
        return math.nextafter(k * e, rng.choice([-math.inf, math.inf]))
    if r < 0.9:
        return rng.uniform(-3, 3) * e
    return rng.choice([1e-300, -1e-300, 5e-324, 1e15, -1e15, 0.0, -0.0])


def gen_sol(rng, p, n, eps, constrained, lattice, near=None):
    if near is not None and rng.random() < 0.5:
        objs = [o if rng.random() < 0.5 else gen_value(rng, eps_at(eps, i), lattice) for i, o in enumerate(near.objectives)]
    else:
        objs = [gen_value(rng, eps_at(eps, i), lattice) for i in range(n)]
    cv = float(rng.choice([0, 0, 0, 1, 2])) if constrained else 0.0
    return mk_sol(p, objs, cv)


def pareto_better(constrained, dirs, a, b):
    return plat.better(constrained, dirs, list(a.objectives), a.constraint_violation, list(b.objectives), b.constraint_violation)


def run(ctx, drv):
    rng = ctx.rng
    ctx.nontrivial_rule = ("pairs and insertion histories (<= 60) over 1-4 objectives, epsilons shared / per objective / shorter or "
                           "longer than nobjs, values = exact multiples of epsilon, their float neighbours, negatives, tiny and huge; "
                           "mixed directions; 30% constrained. lattice stream (values k/8, eps in {1,.5,.25,2,.75,1.5}) is sent to "
                           "both the Float and the exact instance. non-trivial pair = same box or comparable boxes; non-trivial "
                           "history = >= 1 rejection, >= 1 eviction and >= 1 same-box replacement; distinct by request line + archives built by algorithm constructors from their epsilons argument; extend / += with lists, generators and other archives (same or other epsilons) against repeated add")
    reqs, post = [], []

    def ask(line, fn):
        reqs.append(line); post.append(fn)

    shared = {}
    # ------------------------------------------------------------------ pairs
    npairs = 12000 if ctx.quick() else 150000
    for k in range(npairs):
        lattice = k % 3 == 0
        n, dirs, constrained, eps, p = gen_problem(rng, lattice)
        a = gen_sol(rng, p, n, eps, constrained, lattice)
        b = gen_sol(rng, p, n, eps, constrained, lattice, near=a)
        if k % 10 == 7 and n >= 2:
            # two solutions inside ONE box whose sides differ by orders of magnitude (per-objective epsilons such as 0.125 and 8):
            # which of them is nearer the box's ideal corner is decided by the distances in objective units
            lattice = False                       # (these values are not on the k/8 lattice: judged with the off-lattice margins)
            eps = [rng.choice([0.125, 8.0, 1e-3, 100.0, 0.5]) for _ in range(n)]
            ks_ = [rng.randrange(-3, 4) for _ in range(n)]

            def inside(j):
                v = (ks_[j] + rng.choice([0.0625, 0.125, 0.25, 0.375, 0.5, 0.75, 0.9375])) * eps[j]
                return -v if dirs[j] else v
            cv_ = float(rng.choice([0, 1])) if constrained else 0.0
            a, b = mk_sol(p, [inside(j) for j in range(n)], cv_), mk_sol(p, [inside(j) for j in range(n)], cv_)
        key = tuple(eps)
        dom = shared.setdefault(key, C.EpsilonDominance(list(eps))) if k % 2 else C.EpsilonDominance(list(eps) if len(eps) > 1 or k % 4 else eps[0])
        r = call(dom.compare, a, b)
        sb = call(dom.same_box, a, b)
        r2 = call(dom.compare, b, a)
        obs = f"{r} {int(sb) if not isinstance(sb, str) else sb}"
        inp = {"maximise": list(dirs), "constrained": constrained, "epsilons": eps, "a": list(a.objectives), "cv_a": a.constraint_violation,
               "b": list(b.objectives), "cv_b": b.constraint_violation}
        hdr = f"{int(constrained)} {dirs_w(dirs)}"
        ask(f"epsF {hdr} {wlist(eps, wf)} {sol_f(0, a)} {sol_f(1, b)}",
            lambda g, obs=obs, inp=inp: None if g == obs else ctx.disagree("epsCompare/sameBox Float instance", inp, obs, g))
        if lattice:
            ask(f"epsQ {hdr} {wlist(eps, wq)} {sol_q(0, a)} {sol_q(1, b)}",
                lambda g, obs=obs, inp=inp: None if g == obs else ctx.disagree("epsCompare/sameBox exact instance on a lattice case", inp, obs, g))
            ctx.count("lattice_pairs")
        # ---- oracle (statement) on the real answers
        if isinstance(r, str) or isinstance(sb, str):
            ctx.fail("compare-raises", inp, [r, sb], "an answer", "core.EpsilonDominance.compare")
            continue
        ba, bb = (box_exact if lattice else box)(dirs, eps, a), (box_exact if lattice else box)(dirs, eps, b)
        cveq = (not constrained) or a.constraint_violation == b.constraint_violation
        exp_same = cveq and ba == bb
        if sb != exp_same:
            ctx.fail("same-box-wrong", inp, sb, exp_same, "core.EpsilonDominance.same_box")
        if cveq:
            le_ab = all(x <= y for x, y in zip(ba, bb)); le_ba = all(y <= x for x, y in zip(ba, bb))
            if ba != bb:
                exp = -1 if le_ab else (1 if le_ba else 0)
                if r != exp:
                    ctx.fail("box-dominance-wrong", dict(inp, boxes=[ba, bb]), r, exp, "core.EpsilonDominance.compare")
            else:
                # exact squared distances to the box's ideal corner (finite values only)
                try:
                    da = sum((Fraction(-o if d else o) - i * Fraction(eps_at(eps, j))) ** 2 for j, (d, o, i) in enumerate(zip(dirs, a.objectives, ba)))
                    db = sum((Fraction(-o if d else o) - i * Fraction(eps_at(eps, j))) ** 2 for j, (d, o, i) in enumerate(zip(dirs, b.objectives, bb)))
                except (TypeError, ValueError, OverflowError):
                    da = db = None
                if r == 0 and (da is None or da != db):
                    # the statement demands a preference when one of the two is nearer the corner; on an exact tie it leaves the
                    # answer open (the archive clauses are judged on the histories)
                    ctx.fail("zero-in-same-box", inp, r, "-1 or 1", "core.EpsilonDominance.compare")
                elif da is not None and da != db and (lattice or (abs(da - db) > Fraction(1, 10 ** 6) * max(da, db) and Fraction(1, 10 ** 200) < max(da, db) < 10 ** 200)):
                    # (off the lattice the code's distances are rounded doubles: judged only when the exact distances differ clearly and
                    # their squares neither underflow nor overflow)
                    exp = -1 if da < db else 1
                    if r != exp:
                        ctx.fail("corner-preference-wrong", dict(inp, dist=[str(da), str(db)]), r, exp, "core.EpsilonDominance.compare")
        else:
            exp = -1 if a.constraint_violation < b.constraint_violation else 1
            if r != exp:
                ctx.fail("violation-first-wrong", inp, r, exp, "core.EpsilonDominance.compare")
        # never contradicts Pareto dominance
        check_pareto(ctx, constrained, dirs, eps, a, b, r, r2, inp)
        nontriv = cveq and (ba == bb or all(x <= y for x, y in zip(ba, bb)) or all(y <= x for x, y in zip(ba, bb)))
        ctx.case(reqs[-1], nontriv, dict(inp, compare=r, same_box=sb) if k < 2 else None)
        if ba == bb:
            ctx.count("pairs_same_box")

    # adversarial same-box pairs whose corner distances round to equal
    for k in range(300 if ctx.quick() else 3000):
        n = rng.randrange(1, 3)
        dirs = tuple(False for _ in range(n))
        p = mk_problem(n, dirs, False)
        e = rng.choice([1.0, 0.5, 0.1])
        t = rng.choice([1e-300, 1e-200, 3e-162, 1e-170, 5e-324])
        a = mk_sol(p, [t * rng.randrange(1, 4) for _ in range(n)])
        b = mk_sol(p, [o * rng.randrange(2, 5) for o in a.objectives])
        dom = C.EpsilonDominance([e])
        r, r2 = call(dom.compare, a, b), call(dom.compare, b, a)
        inp = {"maximise": list(dirs), "constrained": False, "epsilons": [e], "a": list(a.objectives), "cv_a": 0.0, "b": list(b.objectives), "cv_b": 0.0}
        ask(f"epsF 0 {dirs_w(dirs)} 1 {wf(e)} {sol_f(0, a)} {sol_f(1, b)}",
            lambda g, obs=f"{r} {int(dom.same_box(a, b))}", inp=inp: None if g == obs else ctx.disagree("epsCompare/sameBox Float instance", inp, obs, g))
        check_pareto(ctx, False, dirs, [e], a, b, r, r2, inp)
        ctx.case(reqs[-1], True)
        ctx.count("adversarial_tiny_pairs")

    # same-box pairs one ulp apart at exact decimal multiples of epsilon: floor(o/eps)*eps can round ABOVE o there, so the
    # in-box offset is slightly negative and its square is not monotone; the Pareto-better one must still never lose
    kmax = 120 if ctx.quick() else 1500
    for e in (0.1, 0.01, 0.05, 0.2, 0.3):
        for kk in range(-kmax, kmax + 1):
            for mx in (False, True):
                dirs = (mx, False)
                p = mk_problem(2, dirs, False)
                o = kk * e if kk % 2 else float(repr(round(kk * e, 10)))       # the product and the decimal literal
                other = rng.choice([0.5, 0.25, e * 3])
                a = mk_sol(p, [o, other])
                b = mk_sol(p, [math.nextafter(o, math.inf if not mx else -math.inf), other])     # one ulp worse in objective 0
                dom = C.EpsilonDominance([e])
                r, r2 = call(dom.compare, a, b), call(dom.compare, b, a)
                inp = {"maximise": list(dirs), "constrained": False, "epsilons": [e], "a": list(a.objectives), "cv_a": 0.0, "b": list(b.objectives), "cv_b": 0.0}
                ask(f"epsF 0 {dirs_w(dirs)} 1 {wf(e)} {sol_f(0, a)} {sol_f(1, b)}",
                    lambda g, obs=f"{r} {int(dom.same_box(a, b))}", inp=inp: None if g == obs else ctx.disagree("epsCompare/sameBox Float instance", inp, obs, g))
                check_pareto(ctx, False, dirs, [e], a, b, r, r2, inp)
                ctx.case(reqs[-1], True)
                ctx.count("decimal_multiple_ulp_pairs")

    # error branches: Python raises, the driver must answer with the same error kind
    for eps, objs, kind in [([], [1.0], "err:index"), ([0.0], [1.0], "err:zerodiv"), ([0.5], [math.inf], "err:domain"), ([0.5], [-math.inf], "err:domain")]:
        p = mk_problem(1, (False,), False)
        a, b = mk_sol(p, objs), mk_sol(p, [2.0])
        r = call(C.EpsilonDominance(list(eps)).compare, a, b) if eps else call(lambda: C.EpsilonDominance([]).compare(a, b))
        ask(f"epsF 0 {dirs_w((False,))} {wlist(eps, wf)} {sol_f(0, a)} {sol_f(1, b)}",
            lambda g, r=r, eps=eps, objs=objs: None if g == str(r) else ctx.disagree("epsCompare error branch", {"epsilons": eps, "a": objs}, str(r), g))
        ctx.case(("err", tuple(eps), tuple(objs)), True)

    # ------------------------------------------------------------------ histories
    nh = 700 if ctx.quick() else 12000
    for k in range(nh):
        lattice = k % 3 == 0
        n, dirs, constrained, eps, p = gen_problem(rng, lattice)
        L = rng.randrange(0, 61) if k % 4 else rng.randrange(0, 8)
        sols, prev = [], None
        for _ in range(L):
            if sols and rng.random() < 0.08:
                s = rng.choice(sols)
            else:
                s = gen_sol(rng, p, n, eps, constrained, lattice, near=prev)
            sols.append(s); prev = s
        plain = k % 5 == 4
        # the archive as a user gets it: built directly, or built by an algorithm's constructor from its `epsilons` argument
        src = rng.choice(["direct", "direct", "algorithm"])
        if src == "algorithm":
            from platypus import algorithms as A_
            mk = rng.choice([lambda: A_.CMAES(p, epsilons=list(eps)).archive, lambda: A_.OMOPSO(p, list(eps)).archive] if plain else
                            [lambda: A_.EpsMOEA(p, list(eps)).archive, lambda: A_.EpsNSGAII(p, list(eps)).archive])
            arch = call(mk)
            if isinstance(arch, str) or arch is None:
                ctx.fail("algorithm-constructor-raises", {"epsilons": eps, "nobjs": n}, arch, "an algorithm with an epsilon archive", "algorithms (epsilons argument)")
                continue
            ctx.count("archives_built_by_algorithm_constructors")
        else:
            arch = C.Archive(C.EpsilonDominance(list(eps))) if plain else C.EpsilonBoxArchive(list(eps))
        ids = Ids()
        trace, before_states = [], []
        for s in sols:
            before_states.append(list(arch))
            fl = call(arch.add, s)
            trace.append((fl, [ids(m) for m in list(arch)], getattr(arch, "improvements", None)))
        for s in sols:
            ids(s)
        inp = {"maximise": list(dirs), "constrained": constrained, "epsilons": eps, "archive": ("Archive(EpsilonDominance)" if plain else "EpsilonBoxArchive") + f" [{src}]",
               "history": [[list(s.objectives), s.constraint_violation, ids(s)] for s in sols]}
        if any(isinstance(t[0], str) for t in trace):
            ctx.fail("add-raises", inp, [t[0] for t in trace if isinstance(t[0], str)][0], "True/False", "core.EpsilonBoxArchive.add")
            continue
        if plain:
            obs = " ".join(f"{int(f)}:{','.join(map(str, m)) or '-'}" for f, m, _ in trace) or "-"
            op = "archiveEpsF"
        else:
            obs = " ".join(f"{int(f)}:{','.join(map(str, m)) or '-'}:{imp}" for f, m, imp in trace) or "-"
            op = "epsArchF"
        hdr = f"{int(constrained)} {dirs_w(dirs)}"
        ask(f"{op} {hdr} {wlist(eps, wf)} {len(sols)} " + " ".join(sol_f(ids(s), s) for s in sols),
            lambda g, obs=obs, inp=inp: None if g.strip() == obs else ctx.disagree("eps archive trace, Float instance", inp, obs[:400], g[:400]))
        if lattice and not plain:
            ask(f"epsArchQ {hdr} {wlist(eps, wq)} {len(sols)} " + " ".join(sol_q(ids(s), s) for s in sols),
                lambda g, obs=obs, inp=inp: None if g.strip() == obs else ctx.disagree("eps archive trace, exact instance on a lattice history", inp, obs[:400], g[:400]))
            ctx.count("lattice_histories")
        # ---- oracle on the real archive
        bx = box_exact if lattice else box
        members = list(arch)
        boxes = [bx(dirs, eps, m) for m in members]
        rej = sum(1 for f, _, _ in trace if not f)
        evi = sum(1 for (f, m, _), b4 in zip(trace, before_states) if f and len(m) <= len(b4))
        okh = True
        for i in range(len(members)):
            for j in range(i + 1, len(members)):
                if members[i] is members[j]:
                    continue
                if constrained and members[i].constraint_violation != members[j].constraint_violation:
                    ctx.fail("members-differ-in-violation", inp, [ids(members[i]), ids(members[j])], "equal violation among members", "core.EpsilonBoxArchive.add"); okh = False
                elif boxes[i] == boxes[j]:
                    ctx.fail("two-members-in-one-box", inp, [ids(members[i]), ids(members[j])], "at most one per box", "core.EpsilonBoxArchive.add"); okh = False
                elif all(x <= y for x, y in zip(boxes[i], boxes[j])) or all(y <= x for x, y in zip(boxes[i], boxes[j])):
                    ctx.fail("member-box-dominates-member", inp, [ids(members[i]), ids(members[j])], "incomparable boxes", "core.EpsilonBoxArchive.add"); okh = False
            if not okh:
                break
        if okh:
            for x in sols:
                bxx = bx(dirs, eps, x)
                if not any((constrained and m.constraint_violation < x.constraint_violation) or
                           (((not constrained) or m.constraint_violation == x.constraint_violation) and all(p_ <= q_ for p_, q_ in zip(bm, bxx)))
                           for m, bm in zip(members, boxes)):
                    ctx.fail("offered-solution-not-covered", dict(inp, uncovered=ids(x)), "no covering member", "some member covers it", "core.EpsilonBoxArchive.add")
                    okh = False
                    break
        if okh and not plain:
            cnt, replaced = 0, 0
            for (f, m, imp), b4, s in zip(trace, before_states, sols):
                if f:
                    occupied = any(((not constrained) or q.constraint_violation == s.constraint_violation) and bx(dirs, eps, q) == bx(dirs, eps, s) for q in b4)
                    cnt += (not occupied)
                    replaced += occupied
                if imp != cnt:
                    ctx.fail("improvement-counter-wrong", inp, imp, cnt, "core.EpsilonBoxArchive.add")
                    break
            nontriv = rej > 0 and evi > 0 and replaced > 0
        else:
            nontriv = rej > 0 and evi > 0
        if nontriv:
            ctx.count("histories_with_rejection_eviction_replacement")
        ctx.case(reqs[-1 - (1 if lattice and not plain else 0)], nontriv,
                 {"epsilons": eps, "maximise": list(dirs), "history_objs": [list(s.objectives) for s in sols[:6]], "final_members": trace[-1][1] if trace else [],
                  "improvements": trace[-1][2] if trace else 0} if k < 2 else None)

    # ------------------------------------------------------------------ the other insertion entry points: extend / += with
    # lists, generators and other archives (with the same or other epsilons) are repeated `add`
    for k in range(300 if ctx.quick() else 5000):
        lattice = k % 3 == 0
        n, dirs, constrained, eps, p = gen_problem(rng, lattice)
        sols = [gen_sol(rng, p, n, eps, constrained, lattice) for _ in range(rng.randrange(1, 25))]
        plain = k % 4 == 3
        mk = (lambda e: C.Archive(C.EpsilonDominance(list(e)))) if plain else (lambda e: C.EpsilonBoxArchive(list(e)))
        eps2 = list(eps) if rng.random() < 0.5 else [rng.choice([0.05, 0.1, 0.25, 1.0]) for _ in range(rng.randrange(1, n + 1))]
        src = mk(eps2)
        for s_ in sols:
            call(src.add, s_)
        how = rng.choice(["+= archive", "+= archive", "+= list", "extend list", "extend generator", "+= generator"])
        items = list(src) if "archive" in how else list(sols)
        dst = mk(eps)
        if rng.random() < 0.3 and sols:
            call(dst.add, sols[0])                      # receiver not empty
        ref = mk(eps)
        for m_ in list(dst):
            ref.add(m_)
        offered_before = list(dst)

        def merge():
            nonlocal dst
            if how == "+= archive":
                dst += src
            elif how == "+= list":
                dst += list(items)
            elif how == "+= generator":
                dst += (x for x in items)
            elif how == "extend list":
                dst.extend(list(items))
            else:
                dst.extend(x for x in items)
        r = call(merge)
        for m_ in items:
            ref.add(m_)
        inp = {"maximise": list(dirs), "constrained": constrained, "epsilons": eps, "source_epsilons": eps2, "how": how,
               "archive": "Archive(EpsilonDominance)" if plain else "EpsilonBoxArchive", "offered": [[list(s_.objectives), s_.constraint_violation] for s_ in items]}
        if isinstance(r, str):
            ctx.fail("add-raises", inp, r, "merged archive", "core.Archive.__iadd__ / extend")
        else:
            # what the statement says about the archive after this insertion history (+= / extend offer their items, in whatever
            # order the implementation likes): one member per box, no member's box dominates another's, every item offered is covered
            members = list(dst)
            bx = lambda s_: box(dirs, eps, s_)
            cvof = lambda s_: s_.constraint_violation if constrained else 0.0
            bad_inv = None
            for i_ in range(len(members)):
                for j_ in range(len(members)):
                    if i_ != j_ and cvof(members[i_]) == cvof(members[j_]) and all(x <= y for x, y in zip(bx(members[i_]), bx(members[j_]))):
                        bad_inv = ("two-members-in-one-box" if bx(members[i_]) == bx(members[j_]) else "member-box-dominates-member", [list(members[i_].objectives), list(members[j_].objectives)])
            if bad_inv is None:
                for o_ in list(items) + offered_before:
                    if not any(cvof(m_) < cvof(o_) or (cvof(m_) == cvof(o_) and all(x <= y for x, y in zip(bx(m_), bx(o_)))) for m_ in members):
                        bad_inv = ("offered-solution-not-covered", list(o_.objectives))
                        break
            if bad_inv is not None:
                ctx.fail(bad_inv[0], inp, bad_inv[1], "the archive invariants after += / extend", "core.Archive.__iadd__ / extend")
            # and, as a model of these entry points: they are the same as offering the items one by one, in order
            a_, b_ = [id(m_) for m_ in dst], [id(m_) for m_ in ref]
            if a_ != b_ or getattr(dst, "improvements", None) != getattr(ref, "improvements", None):
                ctx.disagree("+= / extend = repeated add in order (members and improvement counter)", inp, {"members": len(a_), "improvements": getattr(dst, "improvements", None)},
                             {"members": len(b_), "improvements": getattr(ref, "improvements", None)})
        ctx.case(("merge", k, how), len(items) > 1)
    ctx.count("merge_entry_points", 300 if ctx.quick() else 5000)
    if drv.ok:
        out = drv.batch(reqs)
        for g, fn in zip(out, post):
            fn(g)


def check_pareto(ctx, constrained, dirs, eps, a, b, r, r2, inp):
    if isinstance(r, str) or isinstance(r2, str):
        return
    for (x, y, rr, order) in ((a, b, r, "compare(a,b)"), (b, a, r2, "compare(b,a)")):
        if pareto_better(constrained, dirs, x, y) and rr == 1:
            f = dict(inp, order=order)
            # classify: same box (arithmetic in doubles, as the code does) and the two double corner distances tie
            cls = None
            if box(dirs, eps, x) == box(dirs, eps, y):
                def dist(s):
                    tot = 0.0
                    for j, (d, o) in enumerate(zip(dirs, s.objectives)):
                        o = -o if d else o
                        e = eps_at(eps, j)
                        tot += math.pow(o - math.floor(o / e) * e, 2.0)
                    return tot
                if dist(x) == dist(y):
                    cls = "same-box-corner-distances-round-to-equal"
            ctx.fail("eps-contradicts-pareto", f, rr, "-1 (or 0)", "core.EpsilonDominance.compare")
            ctx.failures[-1]["input_class"] = cls
            return


def replay(ctx, path):
    import json
    r = json.load(open(path))
    fl = r.get("failure")
    print(json.dumps(fl or r, indent=1)[:3000])
    if not fl or "a" not in fl["input"]:
        return 0
    i = fl["input"]
    p = mk_problem(len(i["maximise"]), i["maximise"], i["constrained"])
    a, b = mk_sol(p, i["a"], i["cv_a"]), mk_sol(p, i["b"], i["cv_b"])
    dom = C.EpsilonDominance(i["epsilons"])
    print("current tree: compare(a,b) =", call(dom.compare, a, b), "compare(b,a) =", call(dom.compare, b, a), "same_box =", call(dom.same_box, a, b))
    return 0
