"""C10 — maximising an objective == minimising its negation.  Metamorphic check on the real code (every subset of
objectives flipped), with the Lean model run on both sides of each pair as well (the theorems say the model's
answers coincide; the correspondence says the implementation answers like the model)."""
import itertools
import math
from fractions import Fraction

import indic
import plat
from indic import dirs_w, set_f, close
from common import wf, wlist, bits2f
from plat import mk_problem, mk_sol, call, sol_q, sol_f

from platypus import core as C
from platypus import indicators as I


def flipped(dirs, S, pts):
    nd = tuple((not d) if i in S else d for i, d in enumerate(dirs))
    np_ = [[(-x if i in S else x) for i, x in enumerate(p)] for p in pts]
    return nd, np_


def run(ctx, drv):
    rng = ctx.rng
    ctx.nontrivial_rule = ("solution sets (3-9 members, duplicates and ties, inside and outside the normalisation bounds) in 1-4 objectives, "
                           "every non-empty subset of objectives flipped (negated + direction toggled); compared on the real code: all "
                           "pairwise Pareto and epsilon comparisons and same_box, archive membership, non-dominated ranks, hypervolume "
                           "(>= 2 objectives), GD, IGD, additive epsilon. one case = one (set, flip subset); non-trivial = the set has "
                           "dominated and non-dominated members; distinct by (set, subset) + partial epsilon lists; bounded grid archives (generic values)")
    reqs, post = [], []

    def ask(line, fn):
        reqs.append(line); post.append(fn)
    nsets = 250 if ctx.quick() else 4000
    for t in range(nsets):
        lattice = t % 2 == 0
        nobjs = rng.choice([1, 2, 2, 3, 3, 4])
        dirs = tuple(rng.random() < 0.3 for _ in range(nobjs))
        pts = indic.gen_points(rng, rng.randrange(3, 10), nobjs, lattice, -0.5, 1.5)
        if rng.random() < 0.3:
            pts.append(list(rng.choice(pts)))             # another solution object with the same objective vector
            if rng.random() < 0.3:
                pts.append(list(pts[-1]))
        cvs = [0.0 if rng.random() < 0.85 else float(rng.choice([1, 2])) for _ in pts]
        rpts = indic.gen_points(rng, rng.randrange(2, 6), nobjs, lattice, 0.0, 1.0)
        rpts[0] = [0.0] * nobjs
        rpts[1] = [1.0] * nobjs
        if rng.random() < 0.12:
            # a reference set that is constant in one objective (empty range): whatever the indicators do with it -- refuse it or not --
            # they must do the same on the mirrored instance
            j_ = rng.randrange(nobjs)
            for q_ in rpts:
                q_[j_] = 0.5
            ctx.count("reference_sets_with_an_empty_range")
        eps = [rng.choice([0.25, 0.5, 0.125])] if lattice else [rng.choice([0.1, 0.3, 0.05])]
        if nobjs >= 3 and rng.random() < 0.5:
            # a partial epsilon list (the last value is reused for the remaining objectives) with different values
            eps = [rng.choice([0.25, 0.5, 0.125] if lattice else [0.1, 0.3, 0.05]) for _ in range(rng.randrange(2, nobjs))]
        subsets = [S for r in range(1, nobjs + 1) for S in itertools.combinations(range(nobjs), r)]
        if ctx.quick() and len(subsets) > 5:
            subsets = rng.sample(subsets, 5)

        rng_cap, rng_div = rng.randrange(2, 5), rng.randrange(2, 4)
        pen = (rng.randrange(len(pts)), rng.randrange(nobjs)) if t % 4 == 1 else None
        if pen is not None:
            ctx.count("indicator_sets_with_an_infinite_penalty")

        def evaluate(dr, P, R, reuse=None):
            if reuse is None:
                p = mk_problem(nobjs, dr, constrained=True)
            else:
                # the history "compare -> negate objective k and declare it maximised on the SAME problem object -> compare again"
                p = reuse
                plat.declare_directions(p, dr, rng.randrange(8))
            sols = [mk_sol(p, q, cv) for q, cv in zip(P, cvs)]
            ref = [mk_sol(p, q, 0.0) for q in R]
            out = {}
            pd, ed = C.ParetoDominance(), C.EpsilonDominance(list(eps))
            out["pareto"] = [[call(pd.compare, a, b) for b in sols] for a in sols]
            out["eps"] = [[call(ed.compare, a, b) for b in sols] for a in sols]
            out["same_box"] = [[call(ed.same_box, a, b) for b in sols] for a in sols]
            arch = C.Archive(); arch += sols
            out["archive"] = sorted(sols.index(m) for m in arch)
            ea = C.EpsilonBoxArchive(list(eps))
            for s in sols:
                ea.add(s)
            out["eps_archive"] = sorted(sols.index(m) for m in ea)
            # bounded grid archive (PAES / PESA2): same members whatever the direction encoding, also when cells tie for the densest
            # (generic values only: on a lattice a point can sit exactly on a cell boundary, and the cells are half-open towards the
            # upper side of the raw value, so mirroring moves it to the neighbouring cell -- bookkeeping of C14, not a direction fact)
            if not lattice and all(v * 8 != math.floor(v * 8) for q_ in P for v in q_):       # no coordinate on the k/8 lattice (gen_points mixes a few in)
                ga = C.AdaptiveGridArchive(rng_cap, nobjs, rng_div)
                for s in sols:
                    if s.constraint_violation == 0:
                        call(ga.add, s)
                out["grid_archive"] = sorted(sols.index(m) for m in ga)
            else:
                out["grid_archive"] = None
            work = list(sols)
            C.nondominated_sort(work)
            out["ranks"] = [s.rank for s in sols]
            fresh = lambda L: [mk_sol(p, list(s.objectives), s.constraint_violation) for s in L]
            if pen is not None:
                # one member of the evaluated set carries an infinite penalty in one objective -- on the bad side of that objective's
                # declared direction (+inf when minimised, -inf when maximised): the same set on both sides of the mirror
                def fresh(L, _pen=pen):
                    def objs_(i_, s_):
                        o_ = list(s_.objectives)
                        if L is sols and i_ == _pen[0]:
                            o_[_pen[1]] = -math.inf if dr[_pen[1]] else math.inf
                        return o_
                    return [mk_sol(p, objs_(i_, s_), s_.constraint_violation) for i_, s_ in enumerate(L)]
            out["gd"] = call(lambda: I.GenerationalDistance(fresh(ref)).calculate(fresh(sols)))
            out["igd"] = call(lambda: I.InvertedGenerationalDistance(fresh(ref)).calculate(fresh(sols)))
            out["epsind"] = call(lambda: I.EpsilonIndicator(fresh(ref)).calculate(fresh(sols)))
            if pen is None and all(cv_ == 0 for cv_ in cvs):
                # IBEA's hypervolume-based fitness of every member (normalised within the set itself); feasible sets only: the
                # evaluator has no notion of constraint violations
                fs_ = fresh(sols)
                r_ = call(C.HypervolumeFitnessEvaluator().evaluate, fs_)
                out["ibea_fitness"] = r_ if isinstance(r_, str) else [float(getattr(s_, "fitness", float("nan"))) for s_ in fs_]
            if nobjs >= 2:
                out["hv_ref"] = call(lambda: I.Hypervolume(reference_set=fresh(ref)).calculate(fresh(sols)))
                mn = [min(-x if False else x for x in col) for col in zip(*R)]
                mx = [max(x for x in col) for col in zip(*R)]
                out["hv_bounds"] = call(lambda: I.Hypervolume(minimum=mn, maximum=mx).calculate(fresh(sols)))
            return out, sols, ref
        base, bsols, bref = evaluate(dirs, pts, rpts)
        base_problem = bsols[0].problem if bsols else None
        nd_count = len(base["archive"])
        for S in subsets:
            fd, fp = flipped(dirs, set(S), pts)
            _, fr = flipped(dirs, set(S), rpts)
            reuse_now = base_problem is not None and rng.random() < 0.5
            other, fsols, fref = evaluate(fd, fp, fr, reuse=base_problem if reuse_now else None)
            if reuse_now:
                ctx.count("flips_on_the_same_problem_object")
            inp = {"maximise": list(dirs), "flipped_objectives": list(S), "set": [[p, cv] for p, cv in zip(pts, cvs)], "reference": rpts, "epsilons": eps}
            if pen is not None:
                inp["infinite_penalty_for_the_indicators"] = {"member": pen[0], "objective": pen[1]}
            for key in ("pareto", "eps", "same_box", "archive", "eps_archive", "ranks", "grid_archive"):
                if base[key] != other[key]:
                    cls = None
                    if key in ("eps", "same_box", "eps_archive") and not lattice:
                        cls = "epsilon-box-rounding"      # floor(-x/eps) vs floor(x/eps) off the lattice: boxes are half-open on different sides
                    ctx.fail(f"{key}-changes-under-flip", inp, other[key], base[key], {"pareto": "core.ParetoDominance", "eps": "core.EpsilonDominance",
                             "same_box": "core.EpsilonDominance", "archive": "core.Archive", "eps_archive": "core.EpsilonBoxArchive", "ranks": "core.nondominated_sort",
                             "grid_archive": "core.AdaptiveGridArchive"}[key])
                    ctx.failures[-1]["input_class"] = cls
                    break
            for key in ("gd", "igd", "epsind", "hv_ref", "hv_bounds"):
                if key not in base:
                    continue
                a, b = base[key], other[key]
                same = (a == b) if (isinstance(a, str) or isinstance(b, str)) else (close(a, b, 0.0 if lattice and key.startswith("hv") else 1e-9) or (a != a and b != b))
                if not same:
                    ctx.fail(f"{key}-changes-under-flip", inp, b, a, "indicators")
            fa_, fb_ = base.get("ibea_fitness"), other.get("ibea_fitness")
            if fa_ is not None and fb_ is not None:
                same_ = (fa_ == fb_) if (isinstance(fa_, str) or isinstance(fb_, str)) else (len(fa_) == len(fb_) and all(close(x_, y_, 1e-7) or (x_ != x_ and y_ != y_) for x_, y_ in zip(fa_, fb_)))
                if not same_:
                    ctx.fail("ibea-fitness-changes-under-flip", inp, fb_, fa_, "core.HypervolumeFitnessEvaluator")
            # the model on both sides of the pair (Pareto comparison table on the exact wire)
            for (dr, sl, tag) in ((dirs, bsols, "original"), (fd, fsols, "flipped")):
                for i in range(min(3, len(sl))):
                    for j in range(min(3, len(sl))):
                        exp = str(base["pareto"][i][j])
                        ask(f"pareto 1 {dirs_w(dr)} {sol_q(0, sl[i])} {sol_q(1, sl[j])}",
                            lambda g, exp=exp, inp=inp, tag=tag: None if g == exp else ctx.disagree(f"paretoCompare on the {tag} problem vs implementation on the original", inp, exp, g))
            ctx.case((tuple(map(tuple, pts)), S), 0 < nd_count < len(pts),
                     dict(inp, ranks=base["ranks"], hypervolume=base.get("hv_bounds")) if len(ctx.samples) < 2 and nobjs >= 2 else None)
    # ---- HypervolumeFitnessEvaluator.hypervolume against the model (Model/HVFit.lean, Props/C10Fit.lean: hvFit_flip), bit for bit:
    # normalised coordinates inside and outside [0, 1], any directions, against another solution and against the reference point
    from common import wf as _wf
    ev_ = C.HypervolumeFitnessEvaluator()
    for t in range(300 if ctx.quick() else 5000):
        nobjs = rng.choice([1, 2, 2, 3, 4])
        dirs = tuple(rng.random() < 0.4 for _ in range(nobjs))
        p_ = mk_problem(nobjs, dirs, constrained=False)
        s1_, s2_ = C.Solution(p_), C.Solution(p_)
        s1_.normalized_objectives = [rng.choice([0.0, 1.0, 0.5, rng.random(), rng.uniform(-0.5, 1.5)]) for _ in range(nobjs)]
        s2_.normalized_objectives = [rng.choice([0.0, 1.0, rng.random(), rng.uniform(-0.5, 1.5), s1_.normalized_objectives[j_]]) for j_ in range(nobjs)]
        d_ = rng.randrange(1, nobjs + 1)
        against_ref = rng.random() < 0.3
        got = call(ev_.hypervolume, s1_, None if against_ref else s2_, d_)
        hin = {"maximise": list(dirs), "normalized_1": s1_.normalized_objectives, "normalized_2": None if against_ref else s2_.normalized_objectives, "d": d_, "rho": ev_.rho}
        exp_ = got if isinstance(got, str) else _wf(float(got))
        ask(f"hvfit {_wf(float(ev_.rho))} {wlist(dirs, lambda b_: '1' if b_ else '0')} {wlist(s1_.normalized_objectives, _wf)} {0 if against_ref else 1} {wlist(s2_.normalized_objectives, _wf)} {d_}",
            lambda g, exp_=exp_, hin=hin: None if g == exp_ else ctx.disagree("HypervolumeFitnessEvaluator.hypervolume vs hvFit (Float, bit for bit)", hin, exp_, g))
        ctx.case(("hvfit", tuple(dirs), tuple(s1_.normalized_objectives), tuple(s2_.normalized_objectives), d_, against_ref), any(dirs))
    ctx.count("hvfit_cases", 300 if ctx.quick() else 5000)
    # ---- bounded grid archives driven well past their capacity with mutually non-dominated generic points: truncation happens
    # while several cells tie for the highest density; the members kept must not depend on the direction encoding
    for t in range(200 if ctx.quick() else 4000):
        nobjs = rng.choice([2, 2, 3])
        dirs = tuple(rng.random() < 0.3 for _ in range(nobjs))
        cap, div = rng.randrange(3, 7), rng.randrange(2, 5)
        pts = []
        for _ in range(rng.randrange(cap + 2, cap + 14)):
            w = [rng.random() + 0.01 for _ in range(nobjs)]
            tot = sum(w)
            # on a linear front in "minimise" coordinates, then expressed in the declared directions
            pts.append([(-x / tot if d else x / tot) for x, d in zip(w, dirs)])

        def members(dr, P):
            p = mk_problem(nobjs, dr, constrained=False)
            sols = [mk_sol(p, q, 0.0) for q in P]
            ga = C.AdaptiveGridArchive(cap, nobjs, div)
            for s_ in sols:
                call(ga.add, s_)
            return sorted(sols.index(m) for m in ga)
        base_m = members(dirs, pts)
        for k in range(nobjs):
            fd, fp = flipped(dirs, {k}, pts)
            got = members(fd, fp)
            if got != base_m:
                ctx.fail("grid_archive-changes-under-flip", {"maximise": list(dirs), "flipped_objectives": [k], "capacity": cap, "divisions": div, "set": [[q, 0.0] for q in pts]},
                         got, base_m, "core.AdaptiveGridArchive")
                break
        ctx.case(("gridflip", tuple(map(tuple, pts)), cap, div), len(pts) > cap)
    ctx.count("grid_archive_overflow_histories", 200 if ctx.quick() else 4000)
    if drv.ok:
        out = drv.batch(reqs)
        for g, fn in zip(out, post):
            fn(g)


def replay(ctx, path):
    import json
    r = json.load(open(path))
    print(json.dumps(r.get("failure", r), indent=1)[:3000])
    return 0
