"""C15 — hypervolume = exact dominated volume.  Float wire bit-exact on arbitrary doubles, exact wire on dyadic
lattices; oracle: inclusion-exclusion volume of the union of boxes in Fractions; invariances on the real code."""
import math
from fractions import Fraction

import indic
from indic import dirs_w, set_f, set_q, close
from common import wf, wq, wlist, bits2f
import plat
from plat import mk_problem, mk_sol, call

from platypus import indicators as I


def run(ctx, drv):
    rng = ctx.rng
    ctx.nontrivial_rule = ("solution sets of 0-10 members in 2-5 objectives (duplicates, single-coordinate ties, points on / beyond the "
                           "bounds on both sides, infeasible members, the same object listed twice), all direction assignments, bounds "
                           "given explicitly or through a reference set; lattice stream (coordinates k/8) on the exact wire too. "
                           "non-trivial = >= 2 mutually non-dominated contributing points; distinct by request line + indicator objects re-used across problems and after re-declaring the same problem's directions; every spelling of the direction declaration")
    reqs, post = [], []

    def ask(line, fn):
        reqs.append(line); post.append(fn)
    ncase = 2500 if ctx.quick() else 40000
    hv_pool = {}
    for t in range(ncase):
        lattice = t % 2 == 0
        nobjs = rng.choice([2, 2, 3, 3, 4, 5])
        dirs = tuple(rng.random() < 0.4 for _ in range(nobjs))
        n = rng.randrange(0, 11 if nobjs < 5 else 8)
        pts = indic.gen_points(rng, n, nobjs, lattice)
        p = mk_problem(nobjs, dirs, constrained=True)
        if lattice and t % 6 == 0:
            # objective values as the user's function returned them: Python ints where the value is integral
            pts = [[int(v) if float(v).is_integer() else v for v in q] for q in pts]
            ctx.count("sets_with_int_typed_objectives")
        sols = [mk_sol(p, q, 0.0 if rng.random() < 0.9 else 1.0) for q in pts]
        if sols and rng.random() < 0.1:
            sols.append(rng.choice(sols))                 # the same object twice
        use_ref = rng.random() < 0.3
        if use_ref:
            ref = [mk_sol(p, [float(rng.randrange(0, 9)) / 8 for _ in range(nobjs)], 0.0 if rng.random() < 0.9 else 1.0) for _ in range(rng.randrange(2, 5))]
            ref[0].objectives[:] = [0.0] * nobjs
            ref[1].objectives[:] = [1.0 if rng.random() < 0.7 else 2.0] * nobjs
            ref[0].constraint_violation = ref[1].constraint_violation = 0.0
            plat.changed_on_purpose(ref[0]); plat.changed_on_purpose(ref[1])
            hv = call(lambda: I.Hypervolume(reference_set=ref))
            if isinstance(hv, str):
                ctx.fail("constructor-raises", {"reference": [list(s.objectives) for s in ref]}, hv, "indicator", "indicators.Hypervolume.__init__")
                continue
            mn, mx = list(hv.minimum), list(hv.maximum)
        else:
            mn = [0.0] * nobjs if rng.random() < 0.7 else [rng.choice([-1.0, 0.0, 0.25]) for _ in range(nobjs)]
            mx = [a + rng.choice([1.0, 1.0, 2.0, 0.5]) for a in mn]
            # an indicator object is a function of its bounds only: it is re-used for sets of other problems (other direction
            # assignments) with the same bounds, as a user comparing several problems' results would
            key = (tuple(mn), tuple(mx))
            if key in hv_pool and rng.random() < 0.6:
                hv = hv_pool[key]
                ctx.count("indicator_objects_reused")
            else:
                hv = hv_pool[key] = I.Hypervolume(minimum=list(mn), maximum=list(mx))
        got = call(hv.calculate, list(sols))
        inp = {"maximise": list(dirs), "minimum": mn, "maximum": mx, "set": [[list(s.objectives), s.constraint_violation] for s in sols],
               "same_object_twice": len({id(s) for s in sols}) < len(sols)}
        # ---------------- model (members given once each: a repeated object is the same member)
        uniq = list({id(s): s for s in sols}.values())
        if use_ref:
            ask(f"hvrefF 1 {dirs_w(dirs)} {set_f(ref)} {set_f(uniq)}",
                lambda g, got=got, inp=inp: cmp_f(ctx, "Hypervolume (reference-set bounds) Float instance", g, got, inp))
        else:
            ask(f"hvF 1 {dirs_w(dirs)} {wlist(mn, wf)} {wlist(mx, wf)} {set_f(uniq)}",
                lambda g, got=got, inp=inp: cmp_f(ctx, "Hypervolume Float instance", g, got, inp))
            if lattice:
                ask(f"hvQ 1 {dirs_w(dirs)} {wlist(mn, wq)} {wlist(mx, wq)} {set_q(uniq)}",
                    lambda g, got=got, inp=inp: None if (not isinstance(got, str) and not g.startswith("err") and Fraction(g) == Fraction(got)) or (isinstance(got, str) and g == got)
                    else ctx.disagree("Hypervolume exact instance on a lattice case", inp, str(got), g))
                ctx.count("lattice_cases")
        # ---------------- oracle
        if isinstance(got, str):
            ctx.fail("calculate-raises", inp, got, "a value", "indicators.Hypervolume.calculate")
            continue
        exact = indic.hv_exact(dirs, mn, mx, sols)
        ok = (Fraction(got) == exact) if lattice else close(got, exact)
        if not ok:
            ctx.fail("hypervolume-not-dominated-volume", inp, got, float(exact), "indicators.Hypervolume.calculate")
            cls = []
            if inp["same_object_twice"]:
                cls.append("same-object-twice")
            if any(d and (x < lo or x > hi) for s in sols for d, lo, hi, x in zip(dirs, mn, mx, s.objectives)):
                cls.append("maximised-outside-bounds")
            ctx.failures[-1]["input_class"] = "+".join(cls) or None
            continue
        if not (0.0 <= got <= 1.0 + 1e-12):
            ctx.fail("hypervolume-outside-unit-interval", inp, got, "[0,1]", "indicators.Hypervolume.calculate")
        # invariances on the real code (fresh objects: calculate annotates the solutions it is given)
        feas_members = [s for s in sols if s.constraint_violation == 0]
        if t % 4 == 0 and feas_members:
            fresh = lambda L: [mk_sol(p, list(s.objectives), s.constraint_violation) for s in L]
            sh = fresh(sols); rng.shuffle(sh)
            g2 = call(hv.calculate, sh)
            extra = fresh(sols) + fresh([rng.choice(sols)])
            g3 = call(hv.calculate, extra)
            worse = fresh(sols)
            dom = mk_sol(p, [(x - 0.25 if d else x + 0.25) for d, x in zip(dirs, rng.choice(feas_members).objectives)], 0.0)
            g4 = call(hv.calculate, worse + [dom])
            newp = mk_sol(p, indic.gen_points(rng, 1, nobjs, lattice)[0], 0.0)
            g5 = call(hv.calculate, fresh(sols) + [newp])
            for name, g in (("reordered", g2), ("duplicate-added", g3), ("dominated-added", g4)):
                if isinstance(g, str) or not close(g, got, 1e-12):
                    ctx.fail("hypervolume-changed-by-" + name, inp, g, got, "indicators.Hypervolume.calculate")
            if isinstance(g5, str) or g5 < got - 1e-12:
                ctx.fail("hypervolume-decreased-when-adding-a-solution", dict(inp, added=list(newp.objectives)), g5, f">= {got}", "indicators.Hypervolume.calculate")
        # the same indicator object and the same problem object after the problem's directions were declared anew
        if t % 5 == 2 and not use_ref and sols:
            dirs2 = tuple((not d) if rng.random() < 0.6 else d for d in dirs)
            plat.declare_directions(p, dirs2, rng.randrange(8))
            sols2 = [mk_sol(p, list(s.objectives), s.constraint_violation) for s in uniq]
            got2 = call(hv.calculate, list(sols2))
            exact2 = indic.hv_exact(dirs2, mn, mx, sols2)
            ok2 = (not isinstance(got2, str)) and ((Fraction(got2) == exact2) if lattice else close(got2, exact2))
            if not ok2:
                ctx.fail("hypervolume-not-dominated-volume", dict(inp, maximise=list(dirs2), note="same problem object re-declared from " + str(list(dirs)) + ", same indicator object"),
                         got2, float(exact2), "indicators.Hypervolume.calculate")
                ctx.failures[-1]["input_class"] = "re-declared-directions"
            plat.declare_directions(p, dirs, 0)
        contrib = len({tuple(s.objectives) for s in sols if s.constraint_violation == 0})
        ctx.case(reqs[-1], contrib >= 2 and exact > 0, dict(inp, hypervolume=got) if len(ctx.samples) < 3 and contrib >= 3 else None)
    if drv.ok:
        out = drv.batch(reqs)
        for g, fn in zip(out, post):
            fn(g)


def cmp_f(ctx, what, g, got, inp):
    if isinstance(got, str):
        if g != got:
            ctx.disagree(what + " (error kind)", inp, got, g)
    elif g.startswith("err") or bits2f(g) != float(got):
        ctx.disagree(what, inp, got, g if g.startswith("err") else bits2f(g))


def replay(ctx, path):
    import json
    r = json.load(open(path))
    fl = r.get("failure")
    print(json.dumps(fl or r, indent=1)[:3000])
    if not fl or "set" not in fl["input"]:
        return 0
    i = fl["input"]
    p = mk_problem(len(i["maximise"]), i["maximise"], True)
    sols = [mk_sol(p, o, cv) for o, cv in i["set"]]
    got = I.Hypervolume(minimum=i["minimum"], maximum=i["maximum"]).calculate(sols)
    exact = indic.hv_exact(i["maximise"], i["minimum"], i["maximum"], sols)
    print("current tree:", got, "exact:", float(exact))
    return 0 if close(got, exact) else 1
