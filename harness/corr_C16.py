"""C16 — GD, IGD, additive epsilon, spacing.  Float wire bit-exact (CPython's compensated sum mirrored); oracle:
textbook definitions in exact arithmetic with a 1e-9 relative tolerance (float sums are not exactly the
real-number sums); derived facts on the real code."""
import math
from fractions import Fraction

import indic
from indic import dirs_w, set_f, close
from common import wf, bits2f
import plat
from plat import mk_problem, mk_sol, call

from platypus import indicators as I


def run(ctx, drv):
    rng = ctx.rng
    ctx.nontrivial_rule = ("reference sets (2-8 members, non-degenerate ranges, some infeasible members) and approximation sets (0-8 members "
                           "inside / outside the reference bounds, infeasible members, duplicates) in 1-5 objectives, all direction "
                           "assignments; non-trivial = >= 2 feasible members on both sides; distinct by request line + evaluated sets sharing solution objects with the reference set; reference sets on a placeholder problem (as load_objectives builds it)")
    reqs, post = [], []

    def ask(line, fn):
        reqs.append(line); post.append(fn)
    n = 1500 if ctx.quick() else 25000
    for t in range(n):
        lattice = t % 3 == 0
        nobjs = rng.choice([1, 2, 2, 3, 4, 5])
        dirs = tuple(rng.random() < 0.35 for _ in range(nobjs))
        p = mk_problem(nobjs, dirs, constrained=True)
        rpts = indic.gen_points(rng, rng.randrange(2, 9), nobjs, lattice, 0.0, 1.0)
        rpts[0] = [0.0] * nobjs
        rpts[1] = [rng.choice([1.0, 2.0, 0.5])] * nobjs
        ref = [mk_sol(p, q, 0.0 if (i < 2 or rng.random() < 0.85) else 1.0) for i, q in enumerate(rpts)]
        apts = indic.gen_points(rng, rng.randrange(0, 9), nobjs, lattice, -0.5, 2.5)
        aset = [mk_sol(p, q, 0.0 if rng.random() < 0.85 else 2.0) for q in apts]
        # sharing of solution OBJECTS between the reference set and the evaluated set (the usual workflow scores result sets
        # against a reference set built from the same objects): 0 = distinct objects, 1 = the evaluated set is the reference list
        # itself, 2 = some reference objects followed by distinct ones.  The values, and hence the indicator, are what they are.
        share = rng.choice([0, 0, 1, 2])
        nshared = 0
        if share == 1:
            aset = list(ref)
        elif share == 2:
            nshared = rng.randrange(1, len(ref) + 1)
            aset = list(ref[:nshared]) + aset
        inp = {"maximise": list(dirs), "reference": [[list(s.objectives), s.constraint_violation] for s in ref],
               "set": [[list(s.objectives), s.constraint_violation] for s in aset],
               "objects": {0: "distinct", 1: "set is the reference list itself", 2: f"first {nshared} members of the set are reference objects"}[share]}
        d = rng.choice([2.0, 1.0, 2.0, 3.0])
        fresh = lambda L: [mk_sol(p, list(s.objectives), s.constraint_violation) for s in L]

        # the reference front as read from an objectives file: its solutions belong to a placeholder problem (all objectives
        # minimised, as load_objectives builds it); the evaluated set's problem carries the real declaration
        placeholder = share == 0 and rng.random() < 0.3
        p_ref = mk_problem(nobjs, [False] * nobjs, constrained=True) if placeholder else p
        inp["reference_problem"] = "placeholder (all minimised), as from load_objectives" if placeholder else "the set's problem"

        def pair():
            r_ = [mk_sol(p_ref, list(s.objectives), s.constraint_violation) for s in ref]
            if share == 1:
                return r_, r_
            if share == 2:
                return r_, r_[:nshared] + fresh(aset[nshared:])
            return r_, fresh(aset)

        def with_pair(f):
            r_, a_ = pair()
            return f(r_, a_)
        nfeas = sum(1 for s in aset if s.constraint_violation == 0)
        checks = [
            ("gd", lambda: with_pair(lambda r_, a_: I.GenerationalDistance(r_, d).calculate(a_)), f"gdF {nobjs} {wf(d)} {set_f(ref)} {set_f(aset)}",
             lambda: indic.gd_exact(ref, aset, nobjs, d), "indicators.GenerationalDistance"),
            ("igd", lambda: with_pair(lambda r_, a_: I.InvertedGenerationalDistance(r_, d).calculate(a_)), f"igdF {nobjs} {wf(d)} {set_f(ref)} {set_f(aset)}",
             lambda: indic.gd_exact(ref, aset, nobjs, d, inverted=True), "indicators.InvertedGenerationalDistance"),
            ("eps", lambda: with_pair(lambda r_, a_: I.EpsilonIndicator(r_).calculate(a_)), f"epsiF 1 {dirs_w(dirs)} {set_f(ref)} {set_f(aset)}",
             lambda: indic.eps_exact(dirs, ref, aset, nobjs), "indicators.EpsilonIndicator"),
            ("spacing", lambda: I.Spacing().calculate(fresh(aset)), f"spacingF {set_f(aset)}", lambda: indic.spacing_exact(aset), "indicators.Spacing"),
        ]
        for name, impl, line, exact, where in checks:
            got = call(impl)
            ask(line, lambda g, got=got, name=name, inp=inp: cmp(ctx, name, g, got, inp))
            if isinstance(got, str):
                if name == "igd" and nfeas == 0 and got in ("err:domain", "err:OverflowError"):
                    # IGD of a set without feasible members is +infinity by the statement
                    ctx.fail("no-feasible-member-not-infinity", dict(inp, indicator=name), got, "inf", where)
                    ctx.failures[-1]["input_class"] = "igd-empty-set-raises"
                else:
                    ctx.fail("indicator-raises", dict(inp, indicator=name), got, "a value", where)
                continue
            ex = exact()
            if not close(got, ex):
                ctx.fail("indicator-differs-from-definition", dict(inp, indicator=name, d=d), got, ex, where)
                if name == "eps" and any(dirs):
                    ctx.failures[-1]["input_class"] = "epsilon-indicator-maximised-objective"
                continue
            if name in ("gd", "igd", "spacing") and got < 0:
                ctx.fail("indicator-negative", dict(inp, indicator=name), got, ">= 0", where)
            if name in ("gd", "eps") and nfeas == 0 and got != math.inf:
                ctx.fail("no-feasible-member-not-infinity", dict(inp, indicator=name), got, "inf", where)
        # derived facts on the real code
        if t % 5 == 0:
            for name, mk in (("gd", lambda: I.GenerationalDistance(fresh(ref))), ("igd", lambda: I.InvertedGenerationalDistance(fresh(ref))),
                             ("eps", lambda: I.EpsilonIndicator(fresh(ref)))):
                z = call(lambda: mk().calculate(fresh(ref)))
                if isinstance(z, str) or abs(z) > 1e-12:
                    ctx.fail("indicator-of-reference-set-not-zero", dict(inp, indicator=name), z, 0.0, "indicators")
            if nfeas >= 1:
                worse = fresh(aset)
                for s in worse:
                    k = rng.randrange(nobjs)
                    s.objectives[k] = s.objectives[k] + (-0.25 if dirs[k] else 0.25)
                    plat.changed_on_purpose(s)
                e1 = call(lambda: I.EpsilonIndicator(fresh(ref)).calculate(fresh(aset)))
                e2 = call(lambda: I.EpsilonIndicator(fresh(ref)).calculate(worse))
                if not isinstance(e1, str) and not isinstance(e2, str) and e2 < e1 - 1e-12:
                    ctx.fail("epsilon-decreased-when-set-made-worse", inp, [e1, e2], "non-decreasing", "indicators.EpsilonIndicator")
                    if any(dirs):
                        ctx.failures[-1]["input_class"] = "epsilon-indicator-maximised-objective"
                sh = fresh(aset); rng.shuffle(sh)
                for name, f in (("gd", lambda S: I.GenerationalDistance(fresh(ref)).calculate(S)), ("spacing", lambda S: I.Spacing().calculate(S)),
                                ("eps", lambda S: I.EpsilonIndicator(fresh(ref)).calculate(S))):
                    a, b = call(f, fresh(aset)), call(f, sh)
                    if isinstance(a, str) != isinstance(b, str) or (not isinstance(a, str) and not close(a, b, 1e-9)):
                        ctx.fail("indicator-depends-on-order", dict(inp, indicator=name), [a, b], "equal", "indicators")
        # cross-scoring history: two indicators with different reference sets; the first reference set is itself scored by the
        # second indicator (comparing fronts against each other) between two uses of the first indicator.  The value of the
        # first indicator is defined by its own reference set and the evaluated set alone.
        if t % 3 == 0 and nfeas >= 1:
            for name, mk_i, exact in (("gd", lambda R: I.GenerationalDistance(R, d), lambda: indic.gd_exact(ref, aset, nobjs, d)),
                                      ("igd", lambda R: I.InvertedGenerationalDistance(R, d), lambda: indic.gd_exact(ref, aset, nobjs, d, inverted=True)),
                                      ("eps", lambda R: I.EpsilonIndicator(R), lambda: indic.eps_exact(dirs, ref, aset, nobjs))):
                r1 = [mk_sol(p, list(s_.objectives), s_.constraint_violation) for s_ in ref]
                r2 = [mk_sol(p, [2.0 * o + 0.5 for o in s_.objectives], s_.constraint_violation) for s_ in ref]

                def history():
                    i1, i2 = mk_i(r1), mk_i(r2)
                    first = i1.calculate(fresh(aset))
                    i2.calculate(r1)
                    return first, i1.calculate(fresh(aset))
                got = call(history)
                ctx.count("cross_scoring_histories")
                if isinstance(got, str):
                    continue            # a refusal or crash of a single call is judged by the stream above
                ex = exact()
                hinp = dict(inp, indicator=name, d=d, history="i1 = Ind(R1); i2 = Ind(R2 = 2*R1 + 0.5); i1(set); i2(R1 objects); i1(set)")
                if not close(got[1], ex) or not close(got[0], ex):
                    ctx.fail("indicator-depends-on-earlier-calls", hinp, list(got), [ex, ex], "indicators (reference set normalised once, in the constructor)")
        ctx.case(reqs[-2], nfeas >= 2, dict(inp, d=d) if len(ctx.samples) < 2 and nfeas >= 2 else None)
    if drv.ok:
        out = drv.batch(reqs)
        for g, fn in zip(out, post):
            fn(g)


def cmp(ctx, name, g, got, inp):
    what = f"{name} indicator Float instance"
    if isinstance(got, str):
        if not g.startswith("err"):
            ctx.disagree(what + " (error vs value)", inp, got, bits2f(g))
    elif g.startswith("err"):
        ctx.disagree(what + " (value vs error)", inp, got, g)
    else:
        m = bits2f(g)
        if not (m == float(got) or (m != m and got != got)):
            ctx.disagree(what, inp, got, m)


def replay(ctx, path):
    import json
    r = json.load(open(path))
    print(json.dumps(r.get("failure", r), indent=1)[:3000])
    return 0
