"""C03 — Pareto archive = non-dominated subset of everything offered.
Histories of add / append / extend / += through the real Archive; the flattened history goes to the
Lean model (`archiveOf`), compared at every operation boundary; independent oracle from the statement."""
import itertools

import plat
from plat import mk_problem, mk_sol, sol_q, dirs_w, call, Ids

from platypus import core as C


def gen_history(rng, small=False):
    n = rng.randrange(1, 4) if small else rng.randrange(1, 5)
    dirs = tuple(rng.random() < 0.4 for _ in range(n))
    constrained = rng.random() < 0.35
    p = mk_problem(n, dirs, constrained)
    grid = list(range(0, rng.choice([2, 3, 4])))
    length = rng.randrange(0, 12 if small else 41)
    pool = []
    ops = []
    remaining = length
    while remaining > 0:
        kind = rng.choice(["add", "add", "add", "append", "extend", "iadd", "iadd1"])
        k = 1 if kind in ("add", "append", "iadd1") else rng.randrange(0, min(remaining, 6) + 1)
        items = []
        for _ in range(k):
            if pool and rng.random() < 0.12:
                items.append(rng.choice(pool))          # the same object offered again
            else:
                objs = [plat.rand_value(rng, grid, special=0.05) for _ in range(n)]
                cv = float(rng.choice([0, 0, 1, 2])) if constrained else 0.0
                s = mk_sol(p, objs, cv)
                pool.append(s)
                items.append(s)
        ops.append((kind, items))
        remaining -= max(k, 1)
    return p, dirs, constrained, ops


def exhaustive_histories(maxlen):
    pts = list(itertools.product([0.0, 1.0, 2.0], repeat=2))
    for L in range(0, maxlen + 1):
        for h in itertools.product(range(len(pts)), repeat=L):
            yield [pts[i] for i in h]


def run_impl(p, ops, arch):
    """returns the observation at every op boundary: (kind, flag or None, member objects)"""
    obs = []
    for kind, items in ops:
        flag = None
        if kind == "add":
            flag = call(arch.add, items[0])
        elif kind == "append":
            call(arch.append, items[0])
        elif kind == "extend":
            call(arch.extend, _as_iterable(items))
        elif kind == "iadd":
            arch += _as_iterable(items)
        elif kind == "iadd1":
            arch += items[0]
        obs.append((kind, flag, list(arch)))
    return obs


def check_history(ctx, drv_reqs, p, dirs, constrained, ops, arch, tag, sample=False):
    ids = Ids()
    flat = [s for _, items in ops for s in items]
    obs = run_impl(p, ops, arch)
    # ---- what the implementation showed, canonicalised
    impl_bound = []
    for kind, flag, members in obs:
        impl_bound.append((None if flag is None else (flag if isinstance(flag, str) else int(bool(flag))), [ids(m) for m in members]))
    for s in flat:
        ids(s)
    line = f"archive {int(constrained)} {dirs_w(dirs)} {len(flat)} " + " ".join(sol_q(ids(s), s) for s in flat)
    line = line.rstrip()
    bounds, pos = [], 0
    for kind, items in ops:
        pos += len(items)
        bounds.append(pos)
    drv_reqs.append((line, bounds, impl_bound, tag))
    # ---- independent oracle (statement of C03) on the real code
    offered = []
    rej = evi = 0
    prev_members = []
    for (kind, items), (k2, flag, members) in zip(ops, obs):
        before = list(prev_members)
        offered.extend(items)
        dom = lambda y, x: plat.better(constrained, dirs, list(y.objectives), y.constraint_violation, list(x.objectives), x.constraint_violation)
        expect = [x for x in offered if not any(dom(y, x) for y in offered)]
        inp = {"constrained": constrained, "maximise": list(dirs), "history": [[k, [[list(s.objectives), s.constraint_violation, ids(s)] for s in it]] for k, it in ops], "archive": tag}
        if {id(m) for m in members} != {id(x) for x in expect}:
            ctx.fail("members-not-nondominated-subset", inp, [ids(m) for m in members], [ids(x) for x in expect], "core.Archive.add")
            return
        if kind == "add":
            exp_flag = not any(dom(m, items[0]) for m in before)
            if flag != exp_flag:
                ctx.fail("accept-flag", inp, flag, exp_flag, "core.Archive.add")
                return
            if not exp_flag:
                rej += 1
                if [id(m) for m in members] != [id(m) for m in before]:
                    ctx.fail("reject-changed-archive", inp, [ids(m) for m in members], [ids(m) for m in before], "core.Archive.add")
                    return
        if any(id(m) not in {id(x) for x in members} for m in before):
            evi += 1
        prev_members = members
    nontrivial = rej > 0 and evi > 0
    if nontrivial:
        ctx.count("histories_with_rejection_and_eviction")
    ctx.case(line, nontrivial, {"history": [[k, [[list(s.objectives), s.constraint_violation] for s in it]] for k, it in ops][:8],
                                "maximise": list(dirs), "constrained": constrained,
                                "final_member_ids": impl_bound[-1][1] if impl_bound else []} if sample else None)
    return flat, obs


_FORM = [0]


def _as_iterable(items):
    """the documented argument is "an iterable of solutions": lists, tuples, generators, iterators, map and chain objects in turn"""
    import itertools
    _FORM[0] += 1
    k = _FORM[0] % 6
    items = list(items)
    if k == 0:
        return items
    if k == 1:
        return tuple(items)
    if k == 2:
        return (x for x in items)
    if k == 3:
        return iter(items)
    if k == 4:
        return map(lambda x: x, items)
    return itertools.chain(items[: len(items) // 2], items[len(items) // 2:])


def run(ctx, drv):
    rng = ctx.rng
    ctx.nontrivial_rule = ("insertion histories (add/append/extend/+=list/+=single, lengths 0..40, 1-4 objectives on grids of 2-4 "
                           "values with 5% special doubles, any directions, 35% constrained, 12% re-offers of the same object); "
                           "exhaustive: all histories of length <= L over the 3x3 grid (2 objectives). non-trivial = history "
                           "with >= 1 rejection and >= 1 eviction; distinct by canonical request line + the stand-alone filter nondominated() on its own stream (1-3 objectives, all-infeasible / mixed sets), directions re-declared on a used problem object, objective values that are exact ints next to the doubles they round to")
    reqs = []
    n = 3000 if ctx.quick() else 60000
    shared_dom = C.ParetoDominance()
    for k in range(n):
        p, dirs, constrained, ops = gen_history(rng, small=(k % 3 == 0))
        arch = C.Archive() if k % 2 == 0 else C.Archive(shared_dom)
        r = check_history(ctx, reqs, p, dirs, constrained, ops, arch, "default-dominance" if k % 2 == 0 else "shared-instance", sample=k < 2)
        if r is None:
            continue
        flat, obs = r
        # stand-alone filter and order independence on the real code
        if k % 4 == 0 and flat:
            final = obs[-1][2] if obs else []
            nd = call(C.nondominated, list(flat))
            if isinstance(nd, str) or {id(x) for x in nd} != {id(x) for x in final}:
                ctx.fail("nondominated-differs-from-archive", {"n": len(flat)}, "differs", "same members", "core.nondominated")
            sh = list(flat)
            rng.shuffle(sh)
            a2 = C.Archive()
            a2 += sh
            if {id(x) for x in list(a2)} != {id(x) for x in final}:
                ctx.fail("order-dependent", {"objs": [list(s.objectives) for s in flat], "maximise": list(dirs)},
                         sorted(map(id, list(a2))) and "differs", "same membership", "core.Archive.add")
    # ---- the stand-alone filter nondominated() on its own stream: few objectives (incl. one), all-infeasible and mixed sets,
    # ties; judged against the archive built from the same list and against the definition (nobody offered is better)
    for k in range(1500 if ctx.quick() else 30000):
        nobj = rng.choice([1, 1, 2, 3])
        dirs = tuple(rng.random() < 0.4 for _ in range(nobj))
        constrained = rng.random() < 0.6
        p = mk_problem(nobj, dirs, constrained)
        grid = list(range(0, rng.choice([2, 3, 5])))
        cvs = rng.choice([[0.0], [0.5, 3.0, 0.5, 1.0], [0.0, 0.0, 1.0, 2.0], [2.0]]) if constrained else [0.0]
        sols = [mk_sol(p, [plat.rand_value(rng, grid, special=0.03) for _ in range(nobj)], float(rng.choice(cvs))) for _ in range(rng.randrange(0, 9))]
        nd = call(C.nondominated, _as_iterable(sols))
        arch = C.Archive()
        arch += list(sols)
        want = [s for s in sols if not any(plat.expected_cmp(constrained, dirs, t, s) < 0 for t in sols)]
        inp = {"maximise": list(dirs), "constrained": constrained, "solutions": [[list(map(float, s.objectives)), float(s.constraint_violation)] for s in sols]}
        if isinstance(nd, str):
            ctx.fail("nondominated-raises", inp, nd, "the non-dominated subset", "core.nondominated")
        else:
            # as sets of values: the archive keeps one of several identical twins, so compare value multisets modulo twins
            key = lambda s: (tuple(map(float, s.objectives)), float(s.constraint_violation))
            if {key(s) for s in nd} != {key(s) for s in want}:
                ctx.fail("nondominated-is-not-the-nondominated-subset", inp, sorted(key(s) for s in nd), sorted({key(s) for s in want}), "core.nondominated")
            elif {key(s) for s in nd} != {key(s) for s in list(arch)}:
                ctx.fail("nondominated-differs-from-archive", inp, sorted(key(s) for s in nd), sorted(key(s) for s in list(arch)), "core.nondominated")
        ctx.case(("nd", repr(inp)), len(want) < len(sols))
    ctx.count("standalone_filter_cases", 1500 if ctx.quick() else 30000)
    # ---- one problem object whose directions are declared again between two uses (default-dominance archive and filter)
    for k in range(400 if ctx.quick() else 6000):
        nobj = rng.choice([1, 2, 2, 3])
        constrained = rng.random() < 0.3
        dirs = tuple(rng.random() < 0.5 for _ in range(nobj))
        p = mk_problem(nobj, dirs, constrained)
        for round_ in range(2):
            sols = [mk_sol(p, [float(rng.randrange(4)) for _ in range(nobj)], float(rng.choice([0, 0, 1])) if constrained else 0.0) for _ in range(rng.randrange(2, 8))]
            arch = C.Archive()
            arch += list(sols)
            nd = call(C.nondominated, list(sols))
            key = lambda s: (tuple(map(float, s.objectives)), float(s.constraint_violation))
            want = {key(s) for s in sols if not any(plat.expected_cmp(constrained, dirs, t, s) < 0 for t in sols)}
            inp = {"maximise": list(dirs), "constrained": constrained, "solutions": [[list(map(float, s.objectives)), float(s.constraint_violation)] for s in sols],
                   "problem_object": "fresh" if round_ == 0 else "used before with other directions, then re-declared"}
            if {key(s) for s in list(arch)} != want:
                ctx.fail("members-not-nondominated-subset", inp, sorted(key(s) for s in list(arch)), sorted(want), "core.Archive.add")
                break
            if isinstance(nd, str) or {key(s) for s in nd} != want:
                ctx.fail("nondominated-is-not-the-nondominated-subset", inp, nd if isinstance(nd, str) else sorted(key(s) for s in nd), sorted(want), "core.nondominated")
                break
            dirs = tuple(not d if rng.random() < 0.6 else d for d in dirs)
            plat.declare_directions(p, dirs, rng.randrange(8))
        ctx.case(("redeclared", k), True)
    ctx.count("redeclared_direction_histories", 400 if ctx.quick() else 6000)
    L = 4 if ctx.quick() else 5
    nex = 0
    p = mk_problem(2, (False, False), False)
    pmax = mk_problem(2, (False, True), False)
    for h in exhaustive_histories(L):
        for prob, dirs in ((p, (False, False)), (pmax, (False, True))):
            ops = [("add", [mk_sol(prob, o)]) for o in h]
            check_history(ctx, reqs, prob, dirs, False, ops, C.Archive(), "exhaustive")
            nex += 1
    ctx.count("exhaustive_histories", nex)
    ctx.exhaustive = True
    ctx.notes.append(f"exhaustive: all add-histories of length <= {L} over a 3x3 grid, directions (min,min) and (min,max)")

    if drv.ok:
        out = drv.batch([r[0] for r in reqs])
        for (line, bounds, impl_bound, tag), resp in zip(reqs, out):
            steps = [] if resp == "-" else resp.split(" ")
            model = []
            for st in steps:
                f, ids_ = st.split(":")
                model.append((int(f), [] if ids_ == "-" else [int(x) for x in ids_.split(",")]))
            for b, (iflag, iids) in zip(bounds, impl_bound):
                mflag, mids = model[b - 1] if b > 0 else (None, [])
                if iids != mids or (iflag is not None and iflag != mflag):
                    ctx.disagree("archiveOf trace correspondence (members in order, accept flag)", line, [iflag, iids], [mflag, mids])
                    break


def replay(ctx, path):
    import json
    r = json.load(open(path))
    fl = r.get("failure")
    print(json.dumps(fl or r, indent=1)[:3000])
    if not fl or "history" not in fl["input"]:
        return 0
    i = fl["input"]
    p = mk_problem(len(i["maximise"]), i["maximise"], i["constrained"])
    objs = {}
    ops = []
    for kind, items in i["history"]:
        its = []
        for o, cv, ident in items:
            if ident not in objs:
                objs[ident] = mk_sol(p, o, cv)
            its.append(objs[ident])
        ops.append((kind, its))
    check_history(ctx, [], p, tuple(i["maximise"]), i["constrained"], ops, C.Archive(), "replay")
    print("failures on current tree:", ctx.failures[:2])
    return 1 if ctx.failures else 0
