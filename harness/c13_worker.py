"""Run one seeded configuration with the *global* random module (as a user would) and print a fingerprint.
Used in-process and in subprocesses with different PYTHONHASHSEED values.

modes:
  run      : random.seed(seed); algorithm.run(b) for b in budgets; fingerprint of result
  save     : as run for budgets[:-1], then save_state(file); (the caller continues separately)
  resume   : scramble the RNG, load_state(file), run(budgets[-1]); fingerprint
"""
import json
import os
import random
import struct
import sys

HERE = os.path.dirname(os.path.abspath(__file__))
sys.path.insert(0, HERE)
sys.path.insert(0, os.environ.get("PLATYPUS_REPO", "/repo"))

import tracer  # noqa: E402
import platypus  # noqa: E402


def make_spec(c):
    return tracer.Spec(c["kind"], c["nvars"], c["nobjs"], c["ncon"], c["dirs"], random.Random(c["spec_seed"]), elements=c["elements"])


def build(c):
    spec = make_spec(c)
    prob = tracer.TracedProblem(spec, None)
    kw = {}
    if c.get("explicit"):
        kw["variator"] = tracer.explicit_variator(c["name"], spec, random.Random(c["op_seed"]))
    alg = tracer.ALGOS[c["name"]][0](prob, c["size"], kw)
    return alg


def fingerprint(alg):
    import hashlib
    out = []
    for s in alg.result:
        dec = [alg.problem.types[i].decode(s.variables[i]) for i in range(alg.problem.nvars)]
        out.append([repr(dec), [struct.pack("<d", float(o)).hex() for o in s.objectives], float(s.constraint_violation)])
    # the result alone can be a coarse observable (an epsilon archive with two members): every solution collection the algorithm
    # holds and the state of the global generator are part of where a seeded run "is"
    colls = {}
    for name in tracer.COLLECTIONS:
        v = getattr(alg, name, None)
        if v is not None and name != "result":
            try:
                colls[name] = hashlib.blake2b(json.dumps(canon(list(v), set()), sort_keys=True, default=str).encode(), digest_size=8).hexdigest()
            except TypeError:
                pass
    colls["<random.getstate()>"] = hashlib.blake2b(repr(random.getstate()).encode(), digest_size=8).hexdigest()
    return {"nfe": alg.nfe, "result": out, "collections": colls}


SKIP_ATTRS = {"problem", "evaluator", "algorithm", "function"}


def canon(obj, seen, depth=0):
    """canonical, identity-free dump of an algorithm's state (doubles as bit patterns)"""
    import types
    if obj is None or isinstance(obj, (bool, int, str)):
        return obj
    if isinstance(obj, float):
        return "f" + struct.pack("<d", obj).hex()
    if isinstance(obj, (list, tuple)):
        return [canon(x, seen, depth + 1) for x in obj]
    if isinstance(obj, (set, frozenset)):
        return ["set"] + sorted(json.dumps(canon(x, seen, depth + 1), sort_keys=True, default=str) for x in obj)
    if isinstance(obj, dict):
        return {"dict": sorted((json.dumps(canon(k, seen, depth + 1), default=str), json.dumps(canon(v, seen, depth + 1), sort_keys=True, default=str)) for k, v in obj.items())}
    if isinstance(obj, (types.FunctionType, types.BuiltinFunctionType, types.MethodType, type, types.ModuleType)) or callable(obj) and not hasattr(obj, "__dict__"):
        return "<callable " + getattr(obj, "__name__", type(obj).__name__) + ">"
    if id(obj) in seen or depth > 14:
        return "<seen " + type(obj).__name__ + ">"
    seen.add(id(obj))
    d = getattr(obj, "__dict__", None)
    if d is None:
        return "<" + type(obj).__name__ + ">"
    return {"class": type(obj).__name__, "attrs": {k: canon(v, seen, depth + 1) for k, v in sorted(d.items()) if k not in SKIP_ATTRS}}


def state_digest(alg):
    """per-attribute hashes of the algorithm's state + the global RNG state"""
    import hashlib
    out = {}
    for k, v in sorted(alg.__dict__.items()):
        if k in SKIP_ATTRS:
            continue
        out[k] = hashlib.blake2b(json.dumps(canon(v, set()), sort_keys=True, default=str).encode(), digest_size=8).hexdigest()
    out["<random.getstate()>"] = hashlib.blake2b(repr(random.getstate()).encode(), digest_size=8).hexdigest()
    return out


def main(c):
    mode = c["mode"]
    budgets = c["budgets"]
    n = c.get("save_after", len(budgets) - 1)        # the checkpoint is written after this many run calls
    if mode == "run":
        random.seed(c["seed"])
        alg = build(c)
        for i, b in enumerate(budgets):
            if c.get("gauss_pending") and i == n and i > 0:
                random.gauss(0.0, 1.0)        # the same user draw as in "save" mode, at the same place
            alg.run(b)
        return fingerprint(alg)
    if mode == "save":
        random.seed(c["seed"])
        alg = build(c)
        for b in budgets[:n]:
            alg.run(b)
        if c.get("gauss_pending"):
            random.gauss(0.0, 1.0)        # user code drew one Gaussian between run calls: its twin is now cached inside the generator
        platypus.save_state(c["file"], alg, json=bool(c.get("json")))
        digest = state_digest(alg)
        for b in budgets[n:]:
            alg.run(b)
        return dict(fingerprint(alg), state=digest)
    if mode == "resume":
        random.seed(987654321)
        for _ in range(c.get("scramble", 17)):
            random.random(); random.gauss(0, 1)
        alg = platypus.load_state(c["file"])
        digest = state_digest(alg)
        for b in budgets[n:]:
            alg.run(b)
        return dict(fingerprint(alg), state=digest)
    raise ValueError(mode)


if __name__ == "__main__":
    cfg = json.loads(sys.argv[1])
    try:
        print("FP " + json.dumps(main(cfg)))
    except Exception as e:
        import traceback
        print("ERR " + json.dumps(f"{type(e).__name__}: {e} @ {traceback.format_exc().strip().splitlines()[-3].strip()}"))
