"""Run one seeded configuration with the *global* random module (as a user would) and print a fingerprint.
Used in-process and in subprocesses with different PYTHONHASHSEED values.

modes:
  run      : random.seed(seed); algorithm.run(b) for b in budgets; fingerprint of result
  save     : as run for budgets[:-1], then save_state(file); (the caller continues separately)
  resume   : scramble the RNG, load_state(file), run(budgets[-1]); fingerprint
"""
import json
import os
import random
import struct
import sys

HERE = os.path.dirname(os.path.abspath(__file__))
sys.path.insert(0, HERE)
sys.path.insert(0, os.environ.get("PLATYPUS_REPO", "/repo"))

import tracer  # noqa: E402
import platypus  # noqa: E402


def make_spec(c):
    return tracer.Spec(c["kind"], c["nvars"], c["nobjs"], c["ncon"], c["dirs"], random.Random(c["spec_seed"]), elements=c["elements"])


def build(c):
    spec = make_spec(c)
    prob = tracer.TracedProblem(spec, None)
    kw = {}
    if c.get("explicit"):
        kw["variator"] = tracer.explicit_variator(c["name"], spec, random.Random(c["op_seed"]))
    alg = tracer.ALGOS[c["name"]][0](prob, c["size"], kw)
    return alg


def fingerprint(alg):
    out = []
    for s in alg.result:
        dec = [alg.problem.types[i].decode(s.variables[i]) for i in range(alg.problem.nvars)]
        out.append([repr(dec), [struct.pack("<d", float(o)).hex() for o in s.objectives], float(s.constraint_violation)])
    return {"nfe": alg.nfe, "result": out}


def main(c):
    mode = c["mode"]
    if mode == "run":
        random.seed(c["seed"])
        alg = build(c)
        for b in c["budgets"]:
            alg.run(b)
        return fingerprint(alg)
    if mode == "save":
        random.seed(c["seed"])
        alg = build(c)
        for b in c["budgets"][:-1]:
            alg.run(b)
        platypus.save_state(c["file"], alg)
        alg.run(c["budgets"][-1])
        return fingerprint(alg)
    if mode == "resume":
        random.seed(987654321)
        for _ in range(c.get("scramble", 17)):
            random.random(); random.gauss(0, 1)
        alg = platypus.load_state(c["file"])
        alg.run(c["budgets"][-1])
        return fingerprint(alg)
    raise ValueError(mode)


if __name__ == "__main__":
    cfg = json.loads(sys.argv[1])
    try:
        print("FP " + json.dumps(main(cfg)))
    except Exception as e:
        import traceback
        print("ERR " + json.dumps(f"{type(e).__name__}: {e} @ {traceback.format_exc().strip().splitlines()[-3].strip()}"))
