"""C14 (second half): population / swarm / leader sizes after every step of real runs."""
import runs

EXACT = {"ES", "NSGAII", "NSGAII+archive", "NSGAIII", "SPEA2", "GDE3", "IBEA", "EpsMOEA", "MOEAD", "EpsNSGAII"}


def expected_sizes(name, alg, cfg):
    """what the statement requires, from the configured sizes of the real algorithm object"""
    out = {}
    if name == "GA":
        n, o = alg.population_size, alg.offspring_size
        out["population"] = ("le", n) if o + 1 < n else ("eq", n)
    elif name in EXACT:
        out["population"] = ("eq", alg.population_size)
    if name in ("OMOPSO", "SMPSO"):
        out["particles"] = ("eq", alg.swarm_size)
        out["local_best"] = ("eq", alg.swarm_size)
        out["leaders"] = ("le", alg.leader_size)
    if name in ("PAES", "PESA2"):
        out["archive"] = ("le", alg.archive.capacity)
    return out


def run(ctx):
    rng = ctx.rng
    ncfg = 160 if ctx.quick() else 2000
    cfgs = runs.gen_configs(rng, ncfg, sizes=(3, 4, 5, 6, 7, 9, 11, 12, 13))
    for cfg in cfgs:
        budget = cfg["size"] * rng.choice([3, 5, 8])
        kw = {}
        if cfg["name"] == "GA" and rng.random() < 0.5:
            pass
        tr, alg, err = runs.execute(cfg, [budget], collect_steps=True)
        inp = runs.describe(cfg, budget=budget)
        if err is not None:
            runs.note_aborted(ctx, cfg, err)
            continue
        exp = expected_sizes(cfg["name"], alg, cfg)
        steps = [ev for ev in tr.events if ev[0] == "step"]
        bad = False
        for si, ev in enumerate(steps):
            sizes = ev[3]
            for coll, (rel, n) in exp.items():
                got = sizes.get(coll)
                if got is None:
                    continue
                if (rel == "eq" and got != n) or (rel == "le" and got > n):
                    ctx.fail("size-contract-broken", dict(inp, step=si, collection=coll, sizes_per_step=[e[3].get(coll) for e in steps][:12]),
                             got, f"{'==' if rel == 'eq' else '<='} {n}", f"algorithms.{cfg['name']}")
                    bad = True
                    break
            if bad:
                break
        ctx.count("size_runs_" + cfg["name"])
        ctx.case(("sizes", cfg["name"], cfg["seed"], cfg["size"]), len(steps) >= 3,
                 {"algorithm": cfg["name"], "configured": {k: list(v) for k, v in exp.items()}, "observed_per_step": [e[3] for e in steps[:4]]}
                 if len(ctx.samples) < 5 and cfg["name"] in ("IBEA", "GA", "SMPSO") else None)
