"""C14 (second half): population / swarm / leader sizes after every step of real runs."""
import runs

EXACT = {"ES", "NSGAII", "NSGAII+archive", "NSGAIII", "SPEA2", "GDE3", "IBEA", "EpsMOEA", "MOEAD", "EpsNSGAII"}


def expected_sizes(name, alg, cfg):
    """what the statement requires, from the configured sizes of the real algorithm object"""
    out = {}
    if name == "GA":
        n, o = alg.population_size, alg.offspring_size
        out["population"] = ("le", n) if o + 1 < n else ("eq", n)
    elif name in EXACT:
        out["population"] = ("eq", alg.population_size)
    if name in ("OMOPSO", "SMPSO"):
        out["particles"] = ("eq", alg.swarm_size)
        out["local_best"] = ("eq", alg.swarm_size)
        out["leaders"] = ("le", alg.leader_size)
    if name in ("PAES", "PESA2"):
        out["archive"] = ("le", alg.archive.capacity)
    return out


def run(ctx, ask=None):
    rng = ctx.rng
    ncfg = 160 if ctx.quick() else 2000
    cfgs = runs.gen_configs(rng, ncfg, sizes=(3, 4, 5, 6, 7, 9, 11, 12, 13))
    for cfg in cfgs:
        budget = cfg["size"] * rng.choice([3, 5, 8])
        kw = {}
        if cfg["name"] == "GA" and rng.random() < 0.5:
            pass
        tr, alg, err = runs.execute(cfg, [budget], collect_steps=True)
        inp = runs.describe(cfg, budget=budget)
        if err is not None:
            runs.note_aborted(ctx, cfg, err)
            continue
        if ask is not None:
            runs.genstep_replay(ctx, ask, alg, runs.segments(tr), inp)
        exp = expected_sizes(cfg["name"], alg, cfg)
        steps = [ev for ev in tr.events if ev[0] == "step"]
        bad = False
        for si, ev in enumerate(steps):
            sizes = ev[3]
            for coll, (rel, n) in exp.items():
                got = sizes.get(coll)
                if got is None:
                    continue
                if (rel == "eq" and got != n) or (rel == "le" and got > n):
                    ctx.fail("size-contract-broken", dict(inp, step=si, collection=coll, sizes_per_step=[e[3].get(coll) for e in steps][:12]),
                             got, f"{'==' if rel == 'eq' else '<='} {n}", f"algorithms.{cfg['name']}")
                    bad = True
                    break
            if bad:
                break
        ctx.count("size_runs_" + cfg["name"])
        ctx.case(("sizes", cfg["name"], cfg["seed"], cfg["size"]), len(steps) >= 3,
                 {"algorithm": cfg["name"], "configured": {k: list(v) for k, v in exp.items()}, "observed_per_step": [e[3] for e in steps[:4]]}
                 if len(ctx.samples) < 5 and cfg["name"] in ("IBEA", "GA", "SMPSO") else None)
    # ---- adaptive time continuation: restarts change `population_size`; after every iteration of the run loop the population
    # must have exactly that many members (Model/Restart.lean / Props/C08Restart.lean: rStep_inv), replayed through `erun`
    import random as _rnd
    rrng = _rnd.Random(ctx.seed * 7919 + 14)
    for cfg in runs.gen_configs(rrng, 10 if ctx.quick() else 120, names=["NSGAII+restarts"], sizes=(5, 6, 8, 11)):
        budget = cfg["size"] * rrng.choice([8, 12, 20])
        tr, alg, err = runs.execute(cfg, [budget], collect_steps=True)
        inp = runs.describe(cfg, budget=budget)
        if err is not None:
            runs.note_aborted(ctx, cfg, err)
            continue
        segs = runs.segments(tr)
        if ask is not None:
            runs.genstep_replay(ctx, ask, alg, segs, inp)
        sts = [st for sg in segs for st in sg["steps"]]
        for si, st in enumerate(sts):
            if st["population_size"] != st["population_size_attr"]:
                ctx.fail("size-contract-broken", dict(inp, step=si, collection="population", population_per_step=[x["population_size"] for x in sts][:40],
                                                      population_size_attribute_per_step=[x["population_size_attr"] for x in sts][:40]),
                         st["population_size"], f"== population_size ({st['population_size_attr']})", "algorithms.NSGAII + extensions.AdaptiveTimeContinuationExtension")
                break
        ctx.count("size_runs_with_forced_restarts")
        ctx.case(("sizes", cfg["name"], cfg["seed"], cfg["size"]), len(sts) >= 3, None)
    # ---- variators that return fewer offspring than they take parents (PCX / UNDX / SPX: 10 -> 2, differential evolution: 4 -> 1):
    # the offspring loop has to keep mating until it has enough; sizes are checked after every step
    import random as _random
    import plat
    from platypus import Problem, Real, algorithms as A, operators as O
    for aname, mk in (("GeneticAlgorithm", lambda p, v: A.GeneticAlgorithm(p, population_size=12, offspring_size=12, variator=v)),
                      ("NSGAII", lambda p, v: A.NSGAII(p, population_size=12, variator=v)), ("SPEA2", lambda p, v: A.SPEA2(p, population_size=12, variator=v))):
        for vname, mkv in (("PCX", lambda: O.PCX()), ("UNDX", lambda: O.UNDX()), ("SPX", lambda: O.SPX()), ("DifferentialEvolution", lambda: O.DifferentialEvolution()),
                           ("GAOperator(PCX(4, 3), PM)", lambda: O.GAOperator(O.PCX(4, 3), O.PM()))):
            single = aname == "GeneticAlgorithm"
            p = Problem(4, 1 if single else 2, function=(lambda x: [sum(v * v for v in x)]) if single else (lambda x: [sum(v * v for v in x), sum((v - 1) ** 2 for v in x)]))
            p.types[:] = Real(-1, 2)
            _random.seed(rng.randrange(2 ** 31))
            alg = plat.call(lambda: mk(p, mkv()))
            inp = {"algorithm": aname, "variator": vname, "population_size": 12}
            if isinstance(alg, str):
                ctx.notes.append(f"size run aborted: {aname}/{vname}: {alg}")
                continue
            sizes = []
            for _ in range(5):
                r = plat.call_guarded(alg.step, seconds=20)
                if isinstance(r, str):
                    ctx.notes.append(f"size run aborted: {aname}/{vname}: {r}")
                    break
                sizes.append(len(alg.population))
            if any(n != 12 for n in sizes):
                ctx.fail("size-contract-broken", dict(inp, collection="population", sizes_per_step=sizes), sizes, "== 12 after every step", f"algorithms.{aname}")
            ctx.case(("sizes-few-offspring", aname, vname), len(sizes) >= 3)
    ctx.count("few_offspring_variator_runs", 15)
    # ---- the grid archives inside PAES and PESA2 (their selection reads `archive.density`): after every step the archive obeys the
    # same invariants as after any insertion history -- capacity, mutual non-domination, reported occupancy = members per cell
    from platypus import core as C_
    for aname, mk in (("PAES", lambda p, cap, div: A.PAES(p, divisions=div, capacity=cap)),
                      ("PESA2", lambda p, cap, div: A.PESA2(p, population_size=6, divisions=div, capacity=cap))):
        for nobjs_, cap, div in ((2, 4, 2), (2, 7, 3), (3, 5, 2), (2, 3, 4)):
            p = Problem(3, nobjs_, function=(lambda x, n_=nobjs_: [sum(((v - 1.0) if j == i else v) ** 2 for j, v in enumerate(x)) for i in range(n_)]))
            p.types[:] = Real(-1, 2)
            _random.seed(rng.randrange(2 ** 31))
            alg = plat.call(lambda: mk(p, cap, div))
            inp = {"algorithm": aname, "capacity": cap, "divisions": div, "objectives": nobjs_}
            if isinstance(alg, str):
                ctx.notes.append(f"grid-archive run aborted: {aname}: {alg}")
                continue
            pd_ = C_.ParetoDominance()
            for step_i in range(25 if aname == "PAES" else 6):
                r = plat.call_guarded(alg.step, seconds=20)
                if isinstance(r, str):
                    ctx.notes.append(f"grid-archive run aborted: {aname}: {r}")
                    break
                arch = alg.archive
                members = list(arch)
                bad = None
                if len(members) > cap:
                    bad = ("archive-exceeds-capacity", len(members), f"<= {cap}")
                elif any(pd_.compare(a_, b_) != 0 for i_, a_ in enumerate(members) for b_ in members[i_ + 1:]):
                    bad = ("archive-members-dominate-each-other", [list(m.objectives) for m in members][:6], "mutually non-dominated")
                else:
                    counts = {}
                    for m in members:
                        counts[arch.find_index(m)] = counts.get(arch.find_index(m), 0) + 1
                    dens = list(arch.density)
                    if -1 in counts or any(dens[c_] != counts.get(c_, 0) for c_ in range(len(dens))):
                        bad = ("density-not-member-count", {str(c_): dens[c_] for c_ in range(len(dens)) if dens[c_] != counts.get(c_, 0)}, {str(k_): v_ for k_, v_ in counts.items()})
                if bad:
                    ctx.fail(bad[0], dict(inp, step=step_i, members=[list(m.objectives) for m in members][:8]), bad[1], bad[2], f"algorithms.{aname} / core.AdaptiveGridArchive")
                    break
            ctx.case(("grid-archive-in-run", aname, nobjs_, cap, div), True)
    ctx.count("grid_archive_in_algorithm_runs", 8)
    # ---- the survival functions the generational algorithms call, on merged populations with duplicated objective vectors
    # (clones survive variation unchanged all the time): the next population has exactly min(N, |merged|) members
    from platypus import core as C
    import plat
    for t in range(400 if ctx.quick() else 6000):
        nobj = rng.choice([1, 2, 2, 3])
        dirs = tuple(rng.random() < 0.3 for _ in range(nobj))
        con = rng.random() < 0.3
        p = plat.mk_problem(nobj, dirs, con)
        base = [[float(rng.randrange(0, 4)) for _ in range(nobj)] for _ in range(rng.randrange(1, 6))]
        merged = [plat.mk_sol(p, list(rng.choice(base)), float(rng.choice([0, 0, 1])) if con else 0.0) for _ in range(rng.randrange(1, 14))]
        r = plat.call(C.nondominated_sort, list(merged))
        if isinstance(r, str):
            continue
        for fn in (C.nondominated_truncate, C.nondominated_prune):
            for N in sorted({0, 1, len(merged) // 2, len(merged) - 1, len(merged), len(merged) + 2} - {-1}):
                out = plat.call(fn, list(merged), N)
                inp = {"function": fn.__name__, "N": N, "maximise": list(dirs), "merged": [[list(map(float, s.objectives)), float(s.constraint_violation)] for s in merged]}
                if isinstance(out, str):
                    ctx.fail("survival-function-raises", inp, out, "a population", f"core.{fn.__name__}")
                elif len(out) != min(N, len(merged)) or len({id(x) for x in out}) != len(out):
                    ctx.fail("size-contract-broken", inp, len(out), f"== {min(N, len(merged))} distinct members", f"core.{fn.__name__}")
        ctx.case(("survival-size", t), len({tuple(s.objectives) for s in merged}) < len(merged))
    ctx.count("survival_function_size_cases", 400 if ctx.quick() else 6000)

