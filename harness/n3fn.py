"""NSGA-III's environmental selection (`NSGAIII._reference_point_truncate`) as a function: random rank-annotated merged
populations, the real method under a scripted random stream, the request line for the Lean model (`nsga3`), and the
oracle from the statement of C09 (whole fronts that fit are kept, the rest comes from the cut front only)."""
import copy

import plat
from common import wf, wlist
from plat import mk_problem, mk_sol
from scripted import ScriptedRandom
import tracer

from platypus import algorithms as A_
from platypus import core as C_


def dirs_w(dirs):
    return f"{len(dirs)} " + " ".join(str(int(bool(d))) for d in dirs)


def gen(rng, t):
    nobj = rng.choice([2, 2, 3, 3, 4])
    con = rng.random() < 0.3
    dirs = tuple([False] * nobj)                     # NSGA-III refuses anything but minimisation
    p = mk_problem(nobj, dirs, con)
    div = rng.choice([2, 3, 4, 6]) if nobj < 4 else rng.choice([2, 3])
    inner = rng.choice([0, 0, 0, 1, 2])
    alg = A_.NSGAIII(p, div, inner)
    n = rng.randrange(3, 22)
    N = rng.randrange(1, n + 2)
    shape = rng.choice(["grid", "grid5", "uniform", "front", "scaled", "degenerate", "negative"])
    pts = []
    for _ in range(n):
        if shape == "grid":
            o = [float(rng.choice([0, 1, 2])) for _ in range(nobj)]
        elif shape == "grid5":
            o = [float(rng.choice([0, 1, 2, 3, 4])) / 4 for _ in range(nobj)]
        elif shape == "uniform":
            o = [rng.uniform(0, 1) for _ in range(nobj)]
        elif shape == "front":                            # near a linear front: most members mutually non-dominated
            w = [rng.random() for _ in range(nobj)]
            s = sum(w) or 1.0
            o = [x / s + rng.choice([0.0, 0.0, 0.05]) for x in w]
        elif shape == "scaled":
            o = [rng.uniform(0, 1) * 10.0 ** (3 * j) for j in range(nobj)]
        elif shape == "degenerate":                       # one objective constant: the intercept system is singular
            o = [rng.uniform(0, 1) for _ in range(nobj)]
            o[0] = 0.5
        else:
            o = [rng.uniform(-2, 1) for _ in range(nobj)]
        pts.append(o)
    cvpool = [0.0, 0.0, 0.0, 1.0, 2.0] if rng.random() < 0.65 else [0.0, 0.0, 1e-7, 2e-7, 5e-7, 1e-12]      # violations that differ only slightly still rank
    sols = [mk_sol(p, o, rng.choice(cvpool) if con else 0.0) for o in pts]
    ideal = rng.choice([None, None, "low", "mixed"])
    if ideal == "low":
        alg.ideal_point = [min(o[i] for o in pts) - rng.choice([0.0, 0.5]) for i in range(nobj)]
    elif ideal == "mixed":
        alg.ideal_point = [rng.choice([float("inf"), min(o[i] for o in pts), 0.0]) for i in range(nobj)]
    return p, alg, sols, N, dirs, con, shape


def case(rng, t):
    """-> (request line, observed answer in the model's format, input description, oracle failures)"""
    p, alg, sols, N, dirs, con, shape = gen(rng, t)
    nobj = len(dirs)
    ideal0 = [float(x) for x in alg.ideal_point]
    refs = [list(map(float, r)) for r in alg.reference_points]
    inp = {"constrained": con, "N": N, "shape": shape, "ideal_point": [repr(x) for x in ideal0], "reference_points": len(refs),
           "merged": [[list(map(float, s.objectives)), float(s.constraint_violation)] for s in sols]}
    sr = ScriptedRandom(rng.randrange(2 ** 31), extreme=rng.choice([0.0, 0.2]))
    ids = [id(x) for x in sols]

    def go():
        C_.nondominated_sort(sols)
        return alg._reference_point_truncate(sols, N)
    with tracer.patched_random(sr):
        r = plat.call(go)
    fails = []
    if isinstance(r, str):
        obs = {"err:IndexError": "err:index", "err:ZeroDivisionError": "err:zerodiv", "err:ValueError": "err:index"}.get(r, r)
        fails.append(("survival-raises", r, "a population"))
    else:
        surv = [ids.index(id(s)) for s in r]
        obs = "v " + (" ".join(map(str, surv)) if surv else "-") + " | " + wlist([float(x) for x in alg.ideal_point], wf) + " | 0"
        # ---- oracle: fronts by the independent comparator
        n = len(sols)
        dominated_by = lambda j: [i for i in range(n) if plat.expected_cmp(con, dirs, sols[i], sols[j]) < 0]
        rank = {}
        rest = set(range(n))
        k = 0
        while rest:
            fr = {j for j in rest if not any(i in rest for i in dominated_by(j))}
            for j in fr:
                rank[j] = k
            rest -= fr
            k += 1
        want = min(N, n)
        if len(surv) != want or len(set(surv)) != len(surv):
            fails.append(("survivors-not-population-size", surv, f"{want} distinct members"))
        else:
            kept, r_ = [], 0
            while True:
                fr = [j for j in range(n) if rank[j] == r_]
                if not fr or len(kept) + len(fr) > want:
                    break
                kept += fr
                r_ += 1
            cut = set(j for j in range(n) if rank[j] == r_)
            if not set(kept) <= set(surv):
                fails.append(("front-that-fits-not-retained", surv, f"all of {sorted(kept)}"))
            elif not set(surv) - set(kept) <= cut:
                fails.append(("survivor-from-behind-the-cut-front", surv, f"{sorted(kept)} plus members of {sorted(cut)}"))
    tape = [d for d in sr.tape if d[0] == "r"]
    other = [d for d in sr.tape if d[0] != "r"]
    line = (f"nsga3 {int(con)} {dirs_w(dirs)} {N} {wlist(ideal0, wf)} {len(refs)} " + " ".join(wlist(rf, wf) for rf in refs)
            + f" {len(sols)} " + " ".join(f"{i} {wf(float(s.constraint_violation))} {wlist(list(map(float, s.objectives)), wf)}" for i, s in enumerate(sols))
            + f" {len(tape)} " + " ".join(f"{d[1]} {d[2]}" for d in tape))
    if other:
        fails.append(("unexpected-random-primitive", other[:3], "random.choice only"))
    inp["tape"] = [[d[1], d[2]] for d in tape][:40]
    return line, obs, inp, fails, len(sols) > N


if __name__ == "__main__":
    import random
    import subprocess
    import sys
    drv = sys.argv[1]
    rng = random.Random(int(sys.argv[2]) if len(sys.argv) > 2 else 1)
    cases = [case(rng, t) for t in range(int(sys.argv[3]) if len(sys.argv) > 3 else 500)]
    out = subprocess.run([drv], input="\n".join(c[0] for c in cases) + "\n", capture_output=True, text=True).stdout.split("\n")
    bad = 0
    for c, g in zip(cases, out):
        if c[3]:
            print("ORACLE", c[3], c[2]["shape"])
        if g.strip() != c[1].strip():
            bad += 1
            if bad < 6:
                print("DIFF", c[2]["shape"], c[2]["N"], len(c[2]["merged"]), "\n impl ", c[1][:300], "\n model", g[:300])
    print("cases", len(cases), "nontrivial", sum(c[4] for c in cases), "disagreements", bad)
