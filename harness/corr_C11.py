"""C11 — constraint expressions.  Exhaustive over the expression grammar x thresholds x probe values
(float neighbours of the threshold included); Float wire bit-exact, exact (Q) wire on dyadic cases;
totals / feasibility through the real Problem.__call__; oracle = Python's own relational operators."""
import itertools
import math
import operator
from fractions import Fraction

from common import wf, wq, bits2f, next_up, next_down
import plat
from plat import call

from platypus import core as C

REL = {"==": operator.eq, "<=": operator.le, ">=": operator.ge, "!=": operator.ne, "<": operator.lt, ">": operator.gt}
DELTA = 0.0001


def hexchars(s):
    return ".".join(format(ord(c), "x") for c in s) if s else "-"


def unhex(t):
    return "" if t == "-" else "".join(chr(int(h, 16)) for h in t.split("."))


def canon(x):
    x = float(x)
    return 0.0 if x == 0 else x


def run(ctx, drv):
    rng = ctx.rng
    ctx.nontrivial_rule = ("expressions = operator token (6 valid + malformed) x whitespace run x threshold spelling, in 5 spellings "
                           "(joined/spaced string, two-argument with int/float/str value, predefined constant, Constraint copy, "
                           "assignment to Problem.constraints); each accepted constraint probed at threshold, its float neighbours, "
                           "+-1, +-1e300, +-inf, sub-delta offsets and random values; multi-constraint solutions through "
                           "Problem.__call__. non-trivial = accepted expression probed at >= 1 violating and >= 1 satisfying value, "
                           "or a rejected malformed expression; distinct by request line + thresholds with long mantissas / big ints in every spelling, broadcasts over partial slices in any order, evaluation through Algorithm.evaluate_all with an evaluator that returns copies")
    ops_ok = ["==", "<=", ">=", "!=", "<", ">"]
    ops_bad = ["", "=", "=<", "=>", "<>", "===", "!", "<<", "!==", "~=", "=!"]
    wss = ["", " ", "  ", "\t", " \t ", " ", "\n"]
    toks = ["0", "-0.0", "5", "-3", "0.1", "1e-300", "1e300", "1.5e3", "-2E-3", "inf", "-inf", ".5", "1_000", "+7",
            "1e13", "123456789012345.6", "5e-324", "1.7976931348623157e308"]
    bad_toks = ["", "abc", "1,5", "0x10", "1 2", "5 ", "5\n", "5\n\n", "5x", "--5", "1e", "5<", "nan"]
    exprs = []
    for o in ops_ok + ops_bad:
        for w in wss:
            for t in (toks if o in ops_ok else toks[:3]) + bad_toks:
                exprs.append(o + w + t)
    exprs += [" <=5", "<=5 ", "x<=5", "5", "<=", "<= ", "\t<0", "<=5;", "<= 5 5", "≤5", "<=５"]
    if not ctx.quick():
        alphabet = "<>=! \t\n05.e-+x_"
        for _ in range(20000):
            exprs.append("".join(rng.choice(alphabet) for _ in range(rng.randrange(0, 7))))
    reqs, post = [], []

    def ask(line, fn):
        reqs.append(line)
        post.append(fn)

    def probes(y):
        ps = {y, 0.0, -0.0, 1.0, -1.0, 1e300, -1e300, math.inf, -math.inf, y + 1e-6, y - 1e-6, y + DELTA, y - DELTA,
              y + 1.0, y - 1.0, rng.uniform(-10, 10), y * 2 + 0.5}
        if math.isfinite(y):
            ps |= {next_up(y), next_down(y), next_up(next_up(y))}
        return [p for p in ps if p == p]

    def check_constraint(c, opname, y, spelling, expr_repr):
        """c: real Constraint; (opname, y) what the declaration denotes. Oracle + model requests."""
        sat = vio = 0
        prev = None
        for x in sorted(probes(y)):
            v = call(c, x)
            holds = REL[opname](x, y)
            inp = {"expression": expr_repr, "spelling": spelling, "value": x, "threshold": y}
            if isinstance(v, str):
                ctx.fail("violation-raises", inp, v, "a number", "core.Constraint.__call__")
                continue
            if not ((x - y) == (x - y)):      # inf - inf: the relation is still defined but |x-y| is NaN; skip
                continue
            if holds and v != 0:
                ctx.fail("violated-although-relation-holds", inp, v, 0, "core._constraint_*")
            if not holds and not v > 0:
                ctx.fail("zero-violation-although-relation-false", inp, v, "> 0", "core._constraint_*")
            sat += holds
            vio += (not holds)
            ask(f"violF {opname} {wf(DELTA)} {wf(x)} {wf(y)}",
                lambda g, v=v, inp=inp: None if bits2f(g) == canon(v) or (bits2f(g) != bits2f(g) and v != v)
                else ctx.disagree("Op.viol Float instance", inp, canon(v), bits2f(g)))
            if opname in ("==", "<=", ">=", "!=") and math.isfinite(x) and math.isfinite(y):
                ex = abs(Fraction(x) - Fraction(y))
                if opname == "!=" or (ex < 2 ** 1000 and float(ex) == ex):       # difference exactly representable: all three must coincide
                    ctx.count("dyadic_exact_cases")
                    ask(f"violQ {opname} {wq(Fraction(DELTA))} {wq(x)} {wq(y)}",
                        lambda g, v=v, inp=inp: None if Fraction(g) == Fraction(v)
                        else ctx.disagree("Op.viol exact instance on a case without rounding", inp, str(Fraction(v)), g))
        # monotone away from the feasible side (statement: inequalities and equalities)
        xs = sorted(p for p in probes(y) if math.isfinite(p))
        vs = [call(c, x) for x in xs]
        if not any(isinstance(v, str) for v in vs):
            for (x1, v1), (x2, v2) in zip(zip(xs, vs), zip(xs[1:], vs[1:])):
                bad = False
                if opname in ("<=", "<") and v2 < v1:
                    bad = True
                if opname in (">=", ">") and v1 < v2:
                    bad = True
                if opname == "==" and ((y <= x1 and v2 < v1) or (x2 <= y and v1 < v2)):
                    bad = True
                if bad:
                    ctx.fail("not-monotone-away-from-feasible-side", {"expression": expr_repr, "x1": x1, "x2": x2, "threshold": y},
                             [v1, v2], "violation does not decrease moving away", "core._constraint_*")
        return sat > 0 and vio > 0

    # ---- grammar: strings
    seen = set()
    for e in exprs:
        if e in seen:
            continue
        seen.add(e)
        c = call(C.Constraint, e)
        accepted = not isinstance(c, str)
        if not accepted and c != "err:platypus":
            ctx.fail("malformed-expression-wrong-error", {"expression": e}, c, "PlatypusError", "core.Constraint.__init__")

        def after(g, e=e, c=c, accepted=accepted):
            if g == "error":
                model = None
            else:
                _, opname, tokhex = g.split(" ")
                tok = unhex(tokhex)
                try:
                    model = (opname, float(tok))
                except ValueError:
                    model = None
            if (model is not None) != accepted:
                ctx.disagree("parseConstraint accept/reject", {"expression": e}, "accepted" if accepted else "rejected",
                             "accepted" if model else "rejected")
                # oracle from the statement: operator + number (optionally spaced) is well-formed, anything else malformed
                import re
                m = re.fullmatch(r"(==|<=|>=|!=|<|>)\s*(\S+)", e.rstrip("\n") if e.endswith("\n") and not e.endswith("\n\n") else e)
                wellformed = False
                if m and not re.search(r"[<>=!\s]", m.group(2)):
                    try:
                        float(m.group(2)); wellformed = True
                    except ValueError:
                        pass
                if wellformed != accepted:
                    ctx.fail("accepts-malformed" if accepted else "rejects-wellformed", {"expression": e}, "accepted" if accepted else "rejected",
                             "accepted" if wellformed else "rejected", "core.Constraint.__init__")
                return
            if model is not None and model[1] == model[1]:
                nt = check_constraint(c, model[0], model[1], "string", e)
                ctx.case("expr:" + e, nt, {"expression": e, "denotes": list(model)} if len(ctx.samples) < 3 else None)
            else:
                ctx.case("expr:" + e, True, {"expression": e, "result": "rejected"} if len(ctx.samples) < 4 and e else None)
        ask("cparse " + hexchars(e), after)
    ctx.count("expressions", len(seen))

    # run the first wave (the parse answers schedule the violation requests)
    def flush():
        nonlocal reqs, post
        while reqs:
            r, p = reqs, post
            reqs, post = [], []
            if drv.ok:
                out = drv.batch(r)
                for g, fn in zip(out, p):
                    fn(g)
            else:
                # model unavailable: oracle only (parse answers come from the statement's grammar)
                for line, fn in zip(r, p):
                    if line.startswith("cparse"):
                        import re
                        e = unhex(line.split(" ")[1])
                        m = re.fullmatch(r"(==|<=|>=|!=|<|>)\s*([^\s<>=!]+)\n?", e)
                        ans = "error"
                        if m:
                            ans = f"ok {m.group(1)} {hexchars(m.group(2))}"
                        fn(ans)
    flush()

    # ---- other spellings
    for opname in ops_ok:
        # thresholds: short ones, long mantissas (any shortening of the value on the way to float() shows), big ints, random doubles
        ys = [0, 5, -3, 0.1, -0.0, 1e-300, 1e300, 1e13, -2e-3, math.inf, 1234567, 0.1234567, -98765.4321, 1 / 3, 2 ** 53 - 1, -(10 ** 15 + 1),
              1.0000000000000002, 123456789.12345679]
        ys += [rng.uniform(-1e6, 1e6) for _ in range(4)] + [rng.random() * 10.0 ** rng.randrange(-12, 12) for _ in range(4)]
        for y in ys:
            variants = [("two-arg", lambda: C.Constraint(opname, y)),
                        ("two-arg-str", lambda: C.Constraint(opname, repr(float(y)))),
                        ("copy", lambda: C.Constraint(C.Constraint(opname + repr(float(y))))),
                        ("to_constraint", lambda: C.Constraint.to_constraint(opname + " " + repr(float(y)))),
                        ("to_constraint-list", lambda: C.Constraint.to_constraint([opname + repr(float(y))])[0])]
            for name, mk in variants:
                c = call(mk)
                if isinstance(c, str):
                    ctx.fail("wellformed-declaration-rejected", {"operator": opname, "value": y, "spelling": name}, c, "Constraint", "core.Constraint.__init__")
                    continue
                nt = check_constraint(c, opname, float(y), name, f"{opname!r},{y!r}")
                ctx.case(("sp", name, opname, y), nt)
    for const, (opname, y) in {"EQUALS_ZERO": ("==", 0.0), "LEQ_ZERO": ("<=", 0.0), "GEQ_ZERO": (">=", 0.0),
                               "LESS_THAN_ZERO": ("<", 0.0), "GREATER_THAN_ZERO": (">", 0.0)}.items():
        c = call(lambda: C.Constraint(getattr(C.Constraint, const)))
        if isinstance(c, str):
            ctx.fail("predefined-constant-rejected", {"constant": const}, c, "Constraint", "core.Constraint")
        else:
            ctx.case(("const", const), check_constraint(c, opname, y, "constant", const))
    for bad in [("=<", 1), ("<>", 0), ("", 3)]:
        r = call(lambda: C.Constraint(*bad))
        if not isinstance(r, str):
            ctx.fail("accepts-malformed", {"two-arg": list(bad)}, "accepted", "rejected", "core.Constraint.__init__")
    flush()

    # ---- several constraints on one solution, through Problem.__call__
    nsol = 1500 if ctx.quick() else 20000
    for k in range(nsol):
        nc = rng.randrange(1, 5)
        decl, vals = [], []
        for _ in range(nc):
            opname = rng.choice(ops_ok)
            y = rng.choice([0.0, 0.0, 1.0, -2.5, 0.1, 1e-3, 3.0])
            x = rng.choice([y, y, next_up(y), next_down(y), y + 1, y - 1, rng.uniform(-5, 5), 0.1 + 0.2, 1e16, -1e16, 0.3])
            if rng.random() < 0.2:
                x = int(round(x)) if abs(x) < 1e9 else x
            if decl and rng.random() < 0.35:
                opname, y = decl[-1]                  # runs of equal declarations (declared by one broadcast below)
            decl.append((opname, y)); vals.append(x)
        p = C.Problem(1, 1, nc, function=lambda v, vals=vals: ([0.0], list(vals)))
        p.types[:] = C.FixedLengthArray.__new__(C.FixedLengthArray) if False else __import__("platypus").Real(0, 1)
        spell = rng.randrange(4)
        if spell == 3:
            # one relation broadcast over each maximal run of equal declarations: constraints[i:j] = "<=0" / a Constraint object
            runs_ = []
            i = 0
            while i < nc:
                j = i
                while j + 1 < nc and decl[j + 1] == decl[i]:
                    j += 1
                runs_.append((i, j + 1))
                i = j + 1
            rng.shuffle(runs_)                        # in any order: a slice assignment must not disturb the other slots
            for i, j in runs_:
                o, y = decl[i]
                p.constraints[i:j] = rng.choice([lambda: o + repr(y), lambda: C.Constraint(o, y), lambda: C.Constraint(o + " " + repr(y))])()
        elif spell == 0:
            p.constraints[:] = [o + repr(y) for o, y in decl]
        elif spell == 1:
            for i, (o, y) in enumerate(decl):
                p.constraints[i] = C.Constraint(o, y)
        else:
            if len({d for d in decl}) == 1:
                p.constraints[:] = decl[0][0] + " " + repr(decl[0][1])
            else:
                p.constraints[:] = [C.Constraint(o + repr(y)) for o, y in decl]
        s = C.Solution(p)
        s.variables[:] = [0.5]
        via = rng.choice(["Solution.evaluate", "Solution.evaluate", "Algorithm.evaluate_all with an evaluator that returns copies"])
        if via == "Solution.evaluate":
            r = call(s.evaluate)
        else:
            import copy as _copy
            from platypus import evaluator as E_

            class _Alg(C.Algorithm):
                def step(self):
                    pass
            alg_ = _Alg(p, evaluator=E_.MapEvaluator(map_func=lambda f, jobs: [f(_copy.deepcopy(j)) for j in jobs]))
            r = call(alg_.evaluate_all, [s])
        inp = {"constraints": [o + repr(y) for o, y in decl], "values": vals, "declared_by": ["list of strings", "Constraint per index", "list of Constraints / one string", "broadcast over slices"][spell],
               "evaluated_via": via}
        if isinstance(r, str):
            ctx.fail("evaluate-raises", inp, r, "evaluated solution", "core.Problem.__call__")
            continue
        each = [abs(c(x)) for c, x in zip(p.constraints, s.constraints)]
        all_hold = all(REL[o](x, y) for (o, y), x in zip(decl, vals))
        if (s.constraint_violation == 0) != all_hold or s.feasible != all_hold:
            ctx.fail("feasible-flag-vs-relations", inp, [s.constraint_violation, s.feasible], all_hold, "core.Problem.__call__")
        # a copy of an evaluated solution (offspring left unchanged by the operators, injected populations, archives) is as feasible
        # as its original: total violation and feasibility travel with the copy
        import copy as _cp
        c_ = _cp.deepcopy(s)
        if c_.constraint_violation != s.constraint_violation or getattr(c_, "feasible", None) != s.feasible or list(c_.constraints) != list(s.constraints):
            ctx.fail("copy-loses-violation-or-feasibility", inp, [c_.constraint_violation, getattr(c_, "feasible", None)], [s.constraint_violation, s.feasible], "core.Solution.__deepcopy__")
        if abs(float(s.constraint_violation) - math.fsum(each)) > 1e-9 * max(1.0, math.fsum(each)):
            ctx.fail("total-not-sum-of-abs", inp, s.constraint_violation, math.fsum(each), "core.Problem.__call__")
        tags = [int(type(c(x)) is int) for c, x in zip(p.constraints, s.constraints)]
        ask(f"totalF {wf(DELTA)} {nc} " + " ".join(f"{o} {wf(y)} {wf(x)} {t}" for (o, y), x, t in zip(decl, vals, tags)),
            lambda g, s=s, inp=inp: None if (bits2f(g.split()[0]), g.split()[1]) == (canon(s.constraint_violation), str(int(s.feasible)))
            else ctx.disagree("totalViolation/feasible Float instance", inp, [canon(s.constraint_violation), s.feasible], [bits2f(g.split()[0]), g.split()[1]]))
        ctx.case(("tot", tuple(decl), tuple(vals)), 0 < sum(REL[o](x, y) for (o, y), x in zip(decl, vals)) < nc,
                 {"constraints": inp["constraints"], "values": vals, "violation": s.constraint_violation, "feasible": s.feasible} if k < 2 else None)
        # a feasible solution always beats an infeasible one
        if k % 3 == 0:
            p2 = C.Problem(1, 2, 1)
            a = plat.mk_sol(p2, [rng.uniform(0, 9), rng.uniform(0, 9)], 0.0)
            b = plat.mk_sol(p2, [rng.choice([0.0, -1e9, a.objectives[0]]), rng.choice([0.0, -1e9])],
                            rng.choice([5e-324, 1e-17, 1e-12, DELTA, 1.0, abs(float(s.constraint_violation)) or 1e-300]))
            for dom, where in ((C.ParetoDominance(), "core.ParetoDominance.compare"), (C.EpsilonDominance([0.1]), "core.EpsilonDominance.compare")):
                r1, r2 = call(dom.compare, a, b), call(dom.compare, b, a)
                if r1 != -1 or r2 != 1:
                    ctx.fail("feasible-does-not-beat-infeasible", {"feasible_objs": list(a.objectives), "infeasible_objs": list(b.objectives),
                                                                    "infeasible_violation": b.constraint_violation}, [r1, r2], [-1, 1], where)
    flush()


def replay(ctx, path):
    import json
    r = json.load(open(path))
    fl = r.get("failure")
    print(json.dumps(fl or r, indent=1)[:3000])
    if not fl:
        return 0
    i = fl["input"]
    if "expression" in i and "value" in i and i.get("spelling") == "string":
        c = C.Constraint(i["expression"])
        print("current tree: violation at", i["value"], "=", c(i["value"]))
    return 0
