"""C17 — Integer <-> Gray-coded bits.  Correspondence (exhaustive on small widths, boundary widths
for the bit count) + independent oracle on the real code."""
import itertools

from common import wbits, rbits

from platypus import types as T


def impl(f, *a):
    try:
        return f(*a)
    except IndexError:
        return "err:index"
    except ValueError:
        return "err:domain"
    except ZeroDivisionError:
        return "err:zerodiv"
    except Exception as e:  # anything else is an observation too
        return "err:" + type(e).__name__


def show(x):
    if isinstance(x, str):
        return x
    if isinstance(x, (list, tuple)):
        return wbits(x)
    return str(x)


def run(ctx, drv):
    rng = ctx.rng
    ctx.nontrivial_rule = ("exhaustive: every width w in the tier's range x offsets {-5,0,3}: all values 0..w (encode) and all bit "
                           "strings of length nbits(w) (decode); raw conversions on all bit strings of length <= L and random "
                           "longer ones; nbits at all w in {2^k-1,2^k,2^k+1 | k<=32} + random w < 2^32. non-trivial = every "
                           "case with w >= 1 or non-empty bit string (distinct by request line) + ranges with bounds beyond 2^52 and small widths")
    widths = list(range(1, 71)) if ctx.quick() else list(range(1, 600)) + [1023, 1024, 1025, 4095, 4096, 4097]
    offsets = [-5, 0, 3]
    reqs, exp = [], []

    def add(line, got, nontrivial=True, sample=False):
        reqs.append(line)
        exp.append(show(got))
        ctx.case(line, nontrivial, {"request": line, "impl": show(got)} if sample else None)

    # --- raw conversions
    L = 8 if ctx.quick() else 12
    for n in range(0, L + 1):
        for bits in itertools.product([False, True], repeat=n):
            bits = list(bits)
            add("bin2int " + wbits(bits), impl(T.bin2int, bits), n > 0)
            add("bin2gray " + wbits(bits), impl(T.bin2gray, bits), n > 0)
            add("gray2bin " + wbits(bits), impl(T.gray2bin, bits), True, n == 3 and bits == [True, False, True])
    for _ in range(300 if ctx.quick() else 3000):
        n = rng.randrange(13, 80)
        bits = [rng.random() < 0.5 for _ in range(n)]
        add("bin2int " + wbits(bits), impl(T.bin2int, bits))
        add("bin2gray " + wbits(bits), impl(T.bin2gray, bits))
        add("gray2bin " + wbits(bits), impl(T.gray2bin, bits))
    for n in list(range(0, 300)) + [rng.randrange(2 ** 70) for _ in range(300)]:
        for k in (0, 1, 5, n.bit_length(), n.bit_length() + 3):
            add(f"int2bin {n} {k}", impl(T.int2bin, n, k))
    ctx.count("raw_conversion_cases", len(reqs))

    # --- bit count (ties down int(math.log(w, 2)) + 1)
    ws = set()
    for k in range(0, 33):
        for d in (-1, 0, 1):
            w = 2 ** k + d
            if 0 <= w < 2 ** 32:
                ws.add(w)
    for _ in range(2000 if ctx.quick() else 10000):
        ws.add(rng.randrange(1, 2 ** 32))
        ws.add(2 ** rng.randrange(1, 32) - rng.randrange(0, 3))
    ws.discard(0)
    for w in sorted(ws):
        lo = rng.choice([-7, 0, 11, -w // 2])
        r = impl(lambda: T.Integer(lo, lo + w).nbits)
        add(f"nbits {w}", r)
    add("nbits 0", impl(lambda: T.Integer(3, 3).nbits), True, True)
    ctx.count("nbits_cases", len(ws) + 1)

    # --- encode / decode, exhaustive per width
    nexh = 0
    for w in widths:
        for off in offsets:
            t = impl(T.Integer, off, off + w)
            if isinstance(t, str):
                ctx.fail("constructor-error", {"min": off, "max": off + w}, t, "Integer type", "types.Integer.__init__")
                continue
            if off == 0 or w <= 20:
                for v in range(0, w + 1):
                    add(f"encode {w} {v}", impl(t.encode, off + v), True, w == 5 and v == 5)
                    nexh += 1
                for bits in itertools.product([False, True], repeat=t.nbits):
                    # a bit string is any sequence of truth values: mostly lists of bools (what encode / rand / the operators
                    # produce), every third one a tuple, every fifth one 0/1 integers -- all mean the same string
                    nform = nexh % 15
                    given = bits if nform % 3 == 1 else ([int(b_) for b_ in bits] if nform % 5 == 2 else list(bits))
                    r = impl(t.decode, given)
                    if not isinstance(r, str) and (isinstance(r, bool) or not isinstance(r, int)):
                        ctx.fail("decode-not-an-integer", {"min": off, "max": off + w, "bits": wbits(bits), "given_as": type(given).__name__ + " of " + type(given[0]).__name__},
                                 repr(r)[:80], f"an integer in [{off},{off + w}]", "types.Integer.decode")
                        r = "not-an-int"
                    add(f"decode {w} {wbits(bits)}", r if isinstance(r, str) else r - off, True, w == 5 and bits == (True, False, False))
                    nexh += 1
            oracle_width(ctx, t, off, w)
    ctx.count("encode_decode_cases", nexh)
    ctx.exhaustive = True
    ctx.notes.append(f"exhaustive over widths 1..{widths[-1] if ctx.quick() else 599} (all values, all bit strings of the variable's length)")

    # the lists handed out by encode / rand belong to the caller: operators flip their bits in place.  Whatever a type object hands
    # out, editing it must not change what the same type object encodes or decodes afterwards
    for (lo, hi) in [(0, 7), (3, 12), (-5, 5), (0, 100), (10, 1000), (0, 65535), (-40000, 25535), (0, 70000)]:
        t = impl(T.Integer, lo, hi)
        if isinstance(t, str):
            continue
        vals = sorted({lo, hi, (lo + hi) // 2, lo + 1, hi - 1} | {rng.randrange(lo, hi + 1) for _ in range(12)})
        before = {v: list(impl(t.encode, v)) for v in vals}
        for v in vals:
            e = impl(t.encode, v)
            if isinstance(e, list) and e:
                for j in range(len(e)):
                    e[j] = not e[j]                      # in place, on the object that encode returned
        r = impl(t.rand)
        if isinstance(r, list) and r:
            r[0] = not r[0]
        for v in vals:
            e2 = impl(t.encode, v)
            d2 = impl(t.decode, list(before[v]))
            if e2 != before[v] or d2 != v:
                ctx.fail("type-object-changed-by-editing-a-returned-encoding", {"min": lo, "max": hi, "value": v}, [show(e2) if not isinstance(e2, str) else e2, d2],
                         [show(before[v]), v], "types.Integer.encode / rand")
                break
        ctx.case(("inplace", lo, hi), True)
    ctx.count("in_place_edit_histories", 8)
    # huge bounds, small widths: the offset must not pass through a double on the way
    for off in [2 ** 52, 2 ** 53, 2 ** 53 + 1, -(2 ** 53) - 13, 10 ** 18, 2 ** 60 + 7, -(2 ** 63), 2 ** 64 - 5, 2 ** 100]:
        for w in (1, 5, 10, 21, 37):
            t = impl(T.Integer, off, off + w)
            if isinstance(t, str):
                ctx.fail("constructor-error", {"min": off, "max": off + w}, t, "Integer type", "types.Integer.__init__")
                continue
            for v in range(0, w + 1):
                add(f"encode {w} {v}", impl(t.encode, off + v))
            oracle_width(ctx, t, off, w)
    ctx.count("huge_offset_ranges", 45)
    # large widths: sampled
    for _ in range(200 if ctx.quick() else 3000):
        w = rng.randrange(71, 2 ** 31)
        off = rng.randrange(-2 ** 31, 2 ** 31)
        t = T.Integer(off, off + w)
        for v in {0, 1, w - 1, w, rng.randrange(0, w + 1)}:
            add(f"encode {w} {v}", impl(t.encode, off + v))
            e = impl(t.encode, off + v)
            if isinstance(e, str) or impl(t.decode, e) != off + v:
                ctx.fail("roundtrip", {"min": off, "max": off + w, "value": off + v}, show(impl(t.decode, e)) if not isinstance(e, str) else e, off + v, "types.Integer.encode/decode")
            if not isinstance(e, str) and len(e) != t.nbits:
                ctx.fail("length", {"min": off, "max": off + w, "value": off + v}, len(e), t.nbits, "types.Integer.encode")
        for _ in range(4):
            bits = [rng.random() < 0.5 for _ in range(t.nbits)]
            r = impl(t.decode, bits)
            add(f"decode {w} {wbits(bits)}", r if isinstance(r, str) else r - off)
            if isinstance(r, str) or not (off <= r <= off + w):
                ctx.fail("range", {"min": off, "max": off + w, "bits": wbits(bits)}, r, f"in [{off},{off + w}]", "types.Integer.decode")
        v = rng.randrange(0, w)
        a, b = impl(t.encode, off + v), impl(t.encode, off + v + 1)
        if isinstance(a, str) or isinstance(b, str) or sum(x != y for x, y in zip(a, b)) != 1 or len(a) != len(b):
            ctx.fail("gray-adjacent", {"min": off, "max": off + w, "value": off + v}, [show(a), show(b)], "hamming distance 1", "types.Integer.encode")

    if drv.ok:
        got = drv.batch(reqs)
        for line, g, e in zip(reqs, got, exp):
            if g != e:
                ctx.disagree("gray-codec function correspondence", line, e, g)
                oracle_line(ctx, line, e)


def oracle_width(ctx, t, off, w):
    """independent oracle written from the property statement, on the real code"""
    where = "types.Integer.encode/decode"
    inp = {"min": off, "max": off + w}
    seen = set()
    prev = None
    for v in range(0, w + 1):
        e = impl(t.encode, off + v)
        if isinstance(e, str) or len(e) != t.nbits:
            ctx.fail("length", dict(inp, value=off + v), show(e), f"{t.nbits} bits", where)
            prev = None
            continue
        d = impl(t.decode, list(e))
        if d != off + v:
            ctx.fail("roundtrip", dict(inp, value=off + v), d, off + v, where)
        if prev is not None and sum(x != y for x, y in zip(prev, e)) != 1:
            ctx.fail("gray-adjacent", dict(inp, value=off + v - 1), [show(prev), show(e)], "hamming distance 1", where)
        prev = e
    if t.nbits <= 12:
        for bits in itertools.product([False, True], repeat=t.nbits):
            d = impl(t.decode, list(bits))
            if isinstance(d, str) or not (off <= d <= off + w):
                ctx.fail("range", dict(inp, bits=wbits(bits)), d, f"in [{off},{off + w}]", where)
            else:
                seen.add(d)
        if seen != set(range(off, off + w + 1)) and not any(f["kind"] == "range" for f in ctx.failures):
            ctx.fail("surjective", inp, sorted(set(range(off, off + w + 1)) - seen)[:5], "every value reachable", where)


def oracle_line(ctx, line, impl_out):
    """a disagreement on a raw conversion: decide with the statement's laws on the real code"""
    op, *args = line.split()
    where = "types." + op
    if op in ("bin2gray", "gray2bin") and args[0] != "-":
        bits = rbits(args[0])
        a = impl(T.gray2bin, impl(T.bin2gray, bits)) if not isinstance(impl(T.bin2gray, bits), str) else "err"
        b = impl(T.bin2gray, impl(T.gray2bin, bits)) if not isinstance(impl(T.gray2bin, bits), str) else "err"
        if a != bits:
            ctx.fail("gray-inverse", {"bits": args[0]}, show(a), args[0], "types.gray2bin(bin2gray)")
        if b != bits:
            ctx.fail("gray-inverse", {"bits": args[0]}, show(b), args[0], "types.bin2gray(gray2bin)")
    elif op == "bin2int":
        bits = rbits(args[0])
        r = impl(T.bin2int, bits)
        if isinstance(r, str) or impl(T.int2bin, r, len(bits)) != bits:
            ctx.fail("bin-inverse", {"bits": args[0]}, show(r), "int2bin(bin2int(b), len b) == b", where)
    elif op == "int2bin":
        n, k = int(args[0]), int(args[1])
        r = impl(T.int2bin, n, k)
        if isinstance(r, str) or impl(T.bin2int, r) != n:
            ctx.fail("bin-inverse", {"n": n, "nbits": k}, show(r), "bin2int(int2bin(n,k)) == n", where)
    elif op == "nbits":
        w = int(args[0])
        if w >= 1 and impl_out != str(w.bit_length()):
            # too few bits loses values, too many breaks decode range: show on the real code
            t = impl(T.Integer, 0, w)
            if isinstance(t, str):
                ctx.fail("constructor-error", {"min": 0, "max": w}, t, "Integer type", "types.Integer.__init__")
            else:
                for v in (w, w - 1, w // 2):
                    e = impl(t.encode, v)
                    if isinstance(e, str) or impl(t.decode, e) != v:
                        ctx.fail("roundtrip", {"min": 0, "max": w, "value": v}, show(e), v, "types.Integer.__init__ (bit count)")
                        return
                # targeted: the largest raw values are the ones that can escape the single wrap-around
                nb = t.nbits
                for raw in [2 ** nb - 1 - j for j in range(64)] + [2 * w + j for j in range(1, 8)] + [w + j for j in range(0, 4)]:
                    if 0 <= raw < 2 ** nb:
                        bits = impl(T.bin2gray, impl(T.int2bin, raw, nb))
                        d = impl(t.decode, bits) if not isinstance(bits, str) else bits
                        if isinstance(d, str) or not (0 <= d <= w):
                            ctx.fail("range", {"min": 0, "max": w, "bits": show(bits)}, d, f"in [0,{w}]", "types.Integer.__init__ (bit count)")
                            return
                import random as _r
                rr = _r.Random(w)
                for _ in range(2000):
                    bits = [rr.random() < 0.5 for _ in range(t.nbits)]
                    d = impl(t.decode, bits)
                    if isinstance(d, str) or not (0 <= d <= w):
                        ctx.fail("range", {"min": 0, "max": w, "bits": wbits(bits)}, d, f"in [0,{w}]", "types.Integer.__init__ (bit count)")
                        return


def replay(ctx, path):
    import json
    r = json.load(open(path))
    print(json.dumps(r.get("failure", r), indent=1))
    fl = r.get("failure")
    if not fl:
        return 0
    inp = fl["input"]
    if "min" in inp:
        t = T.Integer(inp["min"], inp["max"])
        oracle_width(ctx, t, inp["min"], inp["max"] - inp["min"]) if inp["max"] - inp["min"] < 5000 else None
    print("failures reproduced on current tree:", len(ctx.failures))
    for f in ctx.failures[:3]:
        print(" ", f)
    return 1 if ctx.failures else 0
