"""C20 — linear solver and symmetric eigendecomposition.  Float wire bit-exact (x, eigenvalues, eigenvectors, error
kinds); exact wire for lsolve on small-integer systems; oracle: residuals of the defining equations on the
implementation's output (a supporting check with stated tolerances, never counted as an obligation)."""
import copy
import math
from fractions import Fraction

from common import wf, wq, wlist, bits2f
from plat import call

from platypus import _math as M
from platypus import algorithms as A
from platypus.errors import SingularError


def mat_w(Mx, enc):
    return f"{len(Mx)} " + " ".join(wlist(r, enc) for r in Mx)


def gen_matrix(rng, n, kind):
    if kind == "dense":
        return [[rng.uniform(-3, 3) for _ in range(n)] for _ in range(n)]
    if kind == "integer":
        return [[float(rng.randrange(-4, 5)) for _ in range(n)] for _ in range(n)]
    if kind == "diagonal":
        return [[(float(rng.randrange(1, 6)) if i == j else 0.0) for j in range(n)] for i in range(n)]
    if kind == "nearly-singular":
        Mx = [[rng.uniform(-1, 1) for _ in range(n)] for _ in range(n)]
        if n >= 2:
            Mx[-1] = [a + rng.choice([0.0, 1e-13, 1e-17]) * rng.uniform(-1, 1) for a in Mx[0]]
        return Mx
    if kind == "pivot-pattern":      # zero / tiny diagonal, O(1) entry, much smaller entry below
        Mx = [[rng.uniform(-1, 1) for _ in range(n)] for _ in range(n)]
        for p in range(min(n, 2)):
            col = [0.0, 1.0, rng.choice([1e-12, 1e-17, 1e-9])] + [rng.uniform(-1, 1) for _ in range(n)]
            for i in range(p, n):
                Mx[i][p] = col[i - p] if i - p < len(col) else Mx[i][p]
        return Mx
    raise ValueError(kind)


def sym(Mx):
    n = len(Mx)
    return [[(Mx[i][j] + Mx[j][i]) / 2 for j in range(n)] for i in range(n)]


def gen_sym(rng, n, kind):
    if kind == "dense":
        return sym(gen_matrix(rng, n, "dense"))
    if kind == "integer":
        return sym([[float(rng.randrange(-4, 5)) * 2 for _ in range(n)] for _ in range(n)])
    if kind == "diagonal":
        return gen_matrix(rng, n, "diagonal")
    if kind == "repeated":
        # Q diag(d) Q^T with repeated eigenvalues, Q from Householder reflections
        d = [float(rng.choice([1, 1, 2, 2, 5])) for _ in range(n)]
        v = [rng.uniform(-1, 1) for _ in range(n)]
        nv = math.sqrt(sum(x * x for x in v)) or 1.0
        v = [x / nv for x in v]
        H = [[(1.0 if i == j else 0.0) - 2 * v[i] * v[j] for j in range(n)] for i in range(n)]
        return sym([[sum(H[i][k] * d[k] * H[j][k] for k in range(n)) for j in range(n)] for i in range(n)])
    if kind == "spd":
        B = gen_matrix(rng, n, "dense")
        return sym([[sum(B[i][k] * B[j][k] for k in range(n)) for j in range(n)] for i in range(n)])
    if kind == "tiny":
        s = rng.choice([1e-18, 1e-30, 1e-8, 1e12])
        return [[x * s for x in r] for r in gen_sym(rng, n, "spd")]
    if kind == "tridiagonal":
        # already tridiagonal: every QL sweep is spent on the matrix as given (the slowest-converging class per dimension)
        Mx = [[0.0] * n for _ in range(n)]
        style = rng.randrange(4)     # small integer diagonal with non-zero integer couplings needs the most sweeps
        for i in range(n):
            Mx[i][i] = [float(rng.randrange(-1, 2)), float(rng.randrange(-1, 2)), float(rng.randrange(-4, 5)), rng.uniform(-2, 2)][style]
            if i + 1 < n:
                Mx[i][i + 1] = Mx[i + 1][i] = [float(rng.choice([-3, -2, -1, 1, 2, 3])), float(rng.choice([-3, -2, -1, 1, 2, 3])),
                                               float(rng.choice([-3, -2, -1, 1, 2, 3])), rng.uniform(-2, 2)][style]
        return Mx
    if kind == "wilkinson":
        # Wilkinson's W+ matrices (diagonal |c - i|, unit off-diagonals), optionally perturbed: pairs of nearly equal
        # eigenvalues, the classic slow case for the QL iteration
        c = (n - 1) / 2.0
        pert = rng.choice([0.0, 1e-3, 1e-9])
        Mx = [[0.0] * n for _ in range(n)]
        for i in range(n):
            Mx[i][i] = abs(c - i) + rng.uniform(-pert, pert)
            if i + 1 < n:
                Mx[i][i + 1] = Mx[i + 1][i] = 1.0
        return Mx
    if kind == "block":
        Mx = [[0.0] * n for _ in range(n)]
        for i in range(n):
            Mx[i][i] = float(rng.randrange(1, 5))
        if n >= 2:
            Mx[0][1] = Mx[1][0] = 0.5
        return Mx
    raise ValueError(kind)


def eig_residuals(C, d, Q):
    n = len(C)
    scale = max(1e-300, max(abs(x) for r in C for x in r))
    rec = max(abs(sum(Q[i][k] * d[k] * Q[j][k] for k in range(n)) - C[i][j]) for i in range(n) for j in range(n)) / scale
    orth = max(abs(sum(Q[k][i] * Q[k][j] for k in range(n)) - (1.0 if i == j else 0.0)) for i in range(n) for j in range(n))
    asc = all(d[i] <= d[i + 1] for i in range(n - 1))
    return rec, orth, asc


# minimised past findings, run first on every seed
LSOLVE_CORPUS = [
    # exactly singular (rank 5); elimination on doubles is left with a last pivot of rounding size, above EPSILON
    ([[-4, 4, 3, -3, 3, 1], [-1, -4, 1, -3, -4, -4], [-1, 0, 3, 2, 0, 0], [0, 0, 2, 0, -4, 0], [0, 4, -4, -1, 4, 4], [1, -2, 1, 0, 3, -4]],
     [1, 1, 0, 1, 5, -2]),
    # exactly singular, elimination on doubles ends with a last pivot of rounding size *below* EPSILON (or exactly zero): refused
    ([[1, 2, 3], [4, 5, 6], [7, 8, 9]], [1, 0, 0]),
    ([[3, 1, 7], [2, 6, 3], [5, 7, 10]], [1, 0, 0]),
    ([[1, 2, 3, 4], [2, 3, 1, 5], [4, 1, 2, 2], [-1, -1, 2, -1]], [1, 1, 1, 1]),
]


def run(ctx, drv):
    rng = ctx.rng
    ctx.nontrivial_rule = ("matrices of dimension 1-12: random dense, integer, diagonal, nearly singular, pivot-pattern (lsolve); symmetric "
                           "dense, integer, diagonal, repeated eigenvalues, SPD, tiny/huge scale, block (eigendecomposition via tred2+tql2 "
                           "and via CMAES.eigendecomposition). non-trivial = dimension >= 3; distinct by request line + homogeneous systems, a corpus of past findings, 1500 slow-converging tridiagonal / Wilkinson matrices of dimension 12, CMA-ES covariance stored as the algorithm stores it (lower triangle) and every eigen-update inside real CMA-ES runs")
    reqs, post = [], []

    def ask(line, fn):
        reqs.append(line); post.append(fn)
    n1 = 700 if ctx.quick() else 10000
    for t in range(-len(LSOLVE_CORPUS), n1):
        if t < 0:
            kind = "integer"
            Amat, b = [list(map(float, r)) for r in LSOLVE_CORPUS[t][0]], list(map(float, LSOLVE_CORPUS[t][1]))
            n = len(b)
        else:
            n = rng.randrange(1, 13) if t % 3 else rng.randrange(1, 5)
            kind = rng.choice(["dense", "integer", "diagonal", "nearly-singular", "pivot-pattern", "integer"])
            Amat = gen_matrix(rng, n, kind)
            if kind == "integer" and rng.random() < 0.3 and n >= 2:
                how = rng.choice(["double", "sum", "difference", "combination"]) if n >= 3 else "double"
                if how == "double":
                    Amat[-1] = [a * 2 for a in Amat[0]]          # exactly singular, eliminates to an exact zero row
                elif how == "sum":
                    Amat[-1] = [a + c for a, c in zip(Amat[0], Amat[1])]      # exactly singular; on doubles the last pivot is rounding residue
                elif how == "difference":
                    Amat[-1] = [a - c for a, c in zip(Amat[0], Amat[1])]
                else:
                    Amat[-1] = [3 * a - 2 * c + d for a, c, d in zip(Amat[0], Amat[1], Amat[2])] if n >= 4 else [3 * a - 2 * c for a, c in zip(Amat[0], Amat[1])]
            b = [float(rng.randrange(-5, 6)) if kind == "integer" else rng.uniform(-2, 2) for _ in range(n)]
            if rng.random() < 0.08:
                b = [0.0] * n                           # homogeneous system: x = 0 for a regular A, singularity for a singular one
        inp = {"A": Amat, "b": b, "kind": kind}
        x = call_lsolve(Amat, b)
        obs = x if isinstance(x, str) else "x " + " ".join(wf(v) for v in x)
        singular = kind in ("integer", "diagonal") and solve_exact([[Fraction(v) for v in r] for r in Amat], [Fraction(v) for v in b]) is None

        def after_float(g, obs=obs, inp=inp, x=x, singular=singular):
            if g.strip() != obs.strip():
                ctx.disagree("lsolve Float instance (solution bit patterns / error kind)", inp, obs[:300], g[:300])
            if singular and not isinstance(x, str):
                # the property wants singularity signalled.  Two different ways to get here: the pivot test is gone / wrong (the
                # model's Float run of the pinned algorithm signals singularity, the implementation does not), or the algorithm
                # itself, run on doubles, is left with a rounding-sized pivot above EPSILON (the model's Float run returns the
                # same garbage): the latter is the recorded known finding, the former is always reported.
                ctx.fail("singular-system-returns-a-result", inp, x, "singularity signalled", "_math.lsolve")
                # (the model's own run decides which of the two it is: if the pinned algorithm on doubles also gets past the pivot test
                # for this matrix, the pivot test is not what is wrong -- whatever digits the two then return)
                ctx.failures[-1]["input_class"] = "rounding-leaves-a-pivot-above-EPSILON" if g.startswith("x") else "pivot-test-does-not-fire"
        ask(f"lsolveF {mat_w(Amat, wf)} {wlist(b, wf)}", after_float)
        # exact instance + oracle on integer systems
        if kind in ("integer", "diagonal"):
            FA = [[Fraction(v) for v in r] for r in Amat]
            exact = solve_exact(FA, [Fraction(v) for v in b])
            if exact is None:
                pass            # judged in after_float
            else:
                if isinstance(x, str):
                    # refusing a well-conditioned integer system is a failure; tiny pivots of the code's own elimination are the documented refusal
                    if min_pivot_exact(FA) > Fraction(1, 10 ** 6):
                        ctx.fail("nonsingular-system-refused", inp, x, [float(v) for v in exact], "_math.lsolve")
                else:
                    err = max(abs(Fraction(v) - e) for v, e in zip(x, exact))
                    if err > Fraction(1, 10 ** 8) * (1 + max(abs(e) for e in exact)):
                        ctx.fail("solution-does-not-satisfy-Ax=b", inp, x, [float(v) for v in exact], "_math.lsolve")
            ask(f"lsolveQ {mat_w(Amat, wq)} {wlist(b, wq)}",
                lambda g, exact=exact, inp=inp: None if (exact is None and g == "err:singular") or
                (exact is not None and g.startswith("x") and [Fraction(v) for v in g.split()[1:]] == exact) or (exact is not None and g == "err:singular" and min_pivot_exact([[Fraction(v) for v in r] for r in inp["A"]]) <= Fraction(1, 2 ** 52))
                else ctx.disagree("lsolve exact instance vs exact solution", inp, None if exact is None else [str(v) for v in exact], g[:300]))
        elif not isinstance(x, str):
            # residual relative to a crude condition estimate
            res = max(abs(sum(Amat[i][j] * x[j] for j in range(n)) - b[i]) for i in range(n))
            scale = max(1.0, max(abs(v) for v in x)) * max(1.0, max(abs(v) for r in Amat for v in r)) * n
            if kind == "dense" and res > 1e-9 * scale:
                ctx.fail("solution-does-not-satisfy-Ax=b", inp, res, f"residual <= {1e-9 * scale}", "_math.lsolve")
            if kind == "pivot-pattern":
                xe = solve_exact([[Fraction(v) for v in r] for r in Amat], [Fraction(v) for v in b])
                if xe is not None:
                    err = max(abs(Fraction(v) - e) for v, e in zip(x, xe))
                    if err > Fraction(1, 10 ** 9) * (1 + max(abs(e) for e in xe)) * cond_est(Amat):
                        ctx.fail("solution-inaccurate-for-conditioning", inp, float(err), "error <= 1e-9 * condition estimate", "_math.lsolve")
        elif kind == "pivot-pattern" and x == "err:singular":
            xe = solve_exact([[Fraction(v) for v in r] for r in Amat], [Fraction(v) for v in b])
            if xe is not None and cond_est(Amat) < 1e6:
                ctx.fail("nonsingular-system-refused", inp, x, "a solution (well conditioned system)", "_math.lsolve")
        ctx.case(reqs[-1], n >= 3, {"n": n, "kind": kind, "A": Amat[:3], "b": b[:3], "result": obs[:80]} if len(ctx.samples) < 2 and n == 3 else None)
        ctx.count("lsolve_" + kind)
    n2 = 500 if ctx.quick() else 8000
    n3 = 1500 if ctx.quick() else 12000          # the largest supported dimension, tridiagonal: many sweeps per eigenvalue
    for t in range(n2 + n3):
        n = rng.randrange(1, 13) if t % 3 else rng.randrange(1, 6)
        kind = rng.choice(["dense", "integer", "diagonal", "repeated", "spd", "tiny", "block", "tridiagonal"])
        if t >= n2:
            n, kind = 12, rng.choice(["tridiagonal", "tridiagonal", "tridiagonal", "tridiagonal", "wilkinson"])
        Cm = gen_sym(rng, n, kind)
        inp = {"C": Cm, "kind": kind, "n": n}

        def decomp():
            V = [list(r) for r in Cm]
            d, e = [0.0] * n, [0.0] * n
            M.tred2(n, V, d, e)
            M.tql2(n, d, e, V)
            return d, V
        r = call(decomp)
        if isinstance(r, str):
            obs = {"err:ZeroDivisionError": "err:zerodiv", "err:UnboundLocalError": "err:unbound"}.get(r, r)
            ctx.fail("eigendecomposition-raises", inp, r, "eigenvalues and eigenvectors", "_math.tql2")
            ctx.failures[-1]["input_class"] = f"tql2:{r}:{'dim>=4' if n >= 4 else 'dim<4'}:{kind if kind in ('diagonal', 'block') else 'general'}"
        else:
            d, V = r
            obs = "d " + " ".join(wf(v) for v in d) + " V " + " ".join(wf(v) for row in V for v in row)
            rec, orth, asc = eig_residuals(Cm, d, V)
            tol = 1e-9
            if not asc:
                ctx.fail("eigenvalues-not-ascending", inp, d, "ascending", "_math.tql2")
            elif orth > tol:
                ctx.fail("eigenvectors-not-orthonormal", inp, orth, f"<= {tol}", "_math.tql2")
            elif rec > tol:
                ctx.fail("Q-diag(d)-Qt-differs-from-input", inp, rec, f"relative <= {tol}", "_math.tred2 / _math.tql2")
                ctx.failures[-1]["input_class"] = "dim>=4" if n >= 4 else "dim<4"
        ask(f"eigenF 1 {mat_w(Cm, wf)}", lambda g, obs=obs, inp=inp: None if g.strip() == obs.strip()
            else ctx.disagree("tred2+tql2 Float transcription (eigenvalues / eigenvectors bit patterns, error kind)", inp, obs[:200], g[:200]))
        # through CMA-ES (what the sampler uses)
        if t % 10 == 0 and n >= 2 and kind in ("spd", "dense", "repeated"):
            check_cmaes(ctx, rng, Cm if kind == "spd" else gen_sym(rng, n, "spd"))
        ctx.case(reqs[-1], n >= 3, {"n": n, "kind": kind, "C": Cm[:3]} if len(ctx.samples) < 4 and n == 3 else None)
        ctx.count("eigen_" + kind)
    audit_cmaes_runs(ctx, rng)
    if drv.ok:
        out = drv.batch(reqs)
        for g, fn in zip(out, post):
            fn(g)


def call_lsolve(Amat, b):
    try:
        return M.lsolve(copy.deepcopy(Amat), list(b))
    except SingularError:
        return "err:singular"
    except ZeroDivisionError:
        return "err:zerodiv"
    except Exception as e:
        return "err:" + type(e).__name__


def check_cmaes(ctx, rng, Cm):
    from platypus import Problem, Real
    n = len(Cm)
    p = Problem(n, 2, function=lambda x: [sum(x), sum((v - 0.5) ** 2 for v in x)])
    p.types[:] = Real(0, 1)
    alg = A.CMAES(p, offspring_size=4)

    # CMA-ES maintains only the lower triangle of C (the upper one keeps whatever it held: the zeros of the initial identity);
    # half of the cases therefore present C the way the algorithm does
    lower_only = rng.random() < 0.5

    def go():
        import random
        random.seed(1)
        alg.initialize() if hasattr(alg, "initialize") else None
        alg.C = [[Cm[i][j] if (j <= i or not lower_only) else (0.0 if i != j else 1.0) for j in range(n)] for i in range(n)]
        alg.iteration = alg.diagonal_iterations + 1
        alg.eigendecomposition()
        return list(alg.diag_D), [list(r) for r in alg.B]
    r = call(go)
    inp = {"C": Cm, "via": "CMAES.eigendecomposition", "stored": "lower triangle only (upper stale)" if lower_only else "full symmetric"}
    if isinstance(r, str):
        ctx.fail("eigendecomposition-raises", inp, r, "principal axes", "algorithms.CMAES.eigendecomposition")
        ctx.failures[-1]["input_class"] = f"cmaes:{r}"
        return
    dD, B = r
    d = [x * x for x in dD]
    rec, orth, asc = eig_residuals(Cm, d, B)
    if rec > 1e-8 or orth > 1e-9:
        ctx.fail("cmaes-axes-not-principal", inp, [rec, orth], "Q diag(d) Q^T = C, Q orthonormal", "algorithms.CMAES.eigendecomposition")
        ctx.failures[-1]["input_class"] = "dim>=4" if n >= 4 else "dim<4"
    ctx.count("cmaes_eigendecompositions")


def audit_cmaes_runs(ctx, rng):
    """real CMA-ES runs: after every eigen-update the axes must be the principal axes of the covariance the algorithm holds
    (its lower triangle, symmetrically completed)"""
    from platypus import Problem, Real
    import random
    for nv in ([2, 5] if ctx.quick() else [2, 3, 5, 8, 12]):
        p = Problem(nv, 1, function=lambda x: [sum((v - 0.3 * (i + 1) / len(x)) ** 2 * (1 + 9 * i) for i, v in enumerate(x)) + 0.5 * x[0] * x[-1]])
        p.types[:] = Real(-1, 2)
        alg = A.CMAES(p, offspring_size=8, diagonal_iterations=rng.choice([0, 0, 3]))
        audits = []
        orig = alg.eigendecomposition

        def wrapped(alg=alg, orig=orig, audits=audits):
            orig()
            if alg.iteration > alg.diagonal_iterations:
                n = alg.problem.nvars
                Csym = [[alg.C[max(i, j)][min(i, j)] for j in range(n)] for i in range(n)]
                audits.append((Csym, [x * x for x in alg.diag_D], [list(r) for r in alg.B]))
        alg.eigendecomposition = wrapped
        random.seed(rng.randrange(2 ** 31))
        r = call(lambda: alg.run(8 * 25))
        if isinstance(r, str):
            ctx.fail("cmaes-run-raises", {"nvars": nv}, r, "a run", "algorithms.CMAES")
            continue
        for Csym, d, B in audits:
            rec, orth, asc = eig_residuals(Csym, d, B)
            if rec > 1e-8 or orth > 1e-9:
                ctx.fail("cmaes-axes-not-principal", {"C": Csym, "via": "eigen-update inside a real CMAES run", "nvars": nv}, [rec, orth],
                         "B diag(D^2) B^T = C (lower triangle, symmetrically completed), B orthonormal", "algorithms.CMAES.eigendecomposition")
                ctx.failures[-1]["input_class"] = "in-run"
                break
            ctx.case(("cmaes-run", nv, repr(d[:2])), nv >= 3)
        ctx.count("cmaes_in_run_eigen_updates", len(audits))


def solve_exact(Amat, b):
    n = len(b)
    Mx = [list(r) + [v] for r, v in zip(Amat, b)]
    for c in range(n):
        piv = next((r for r in range(c, n) if Mx[r][c] != 0), None)
        if piv is None:
            return None
        Mx[c], Mx[piv] = Mx[piv], Mx[c]
        for r in range(n):
            if r != c and Mx[r][c] != 0:
                f = Mx[r][c] / Mx[c][c]
                Mx[r] = [a - f * bb for a, bb in zip(Mx[r], Mx[c])]
    return [Mx[i][n] / Mx[i][i] for i in range(n)]


def min_pivot_exact(Amat):
    """smallest pivot magnitude met by exact elimination with partial pivoting"""
    n = len(Amat)
    Mx = [list(r) for r in Amat]
    mp = None
    for c in range(n):
        piv = max(range(c, n), key=lambda r: abs(Mx[r][c]))
        Mx[c], Mx[piv] = Mx[piv], Mx[c]
        if Mx[c][c] == 0:
            return Fraction(0)
        mp = abs(Mx[c][c]) if mp is None else min(mp, abs(Mx[c][c]))
        for r in range(c + 1, n):
            f = Mx[r][c] / Mx[c][c]
            Mx[r] = [a - f * bb for a, bb in zip(Mx[r], Mx[c])]
    return mp or Fraction(0)


def cond_est(Amat):
    n = len(Amat)
    FA = [[Fraction(v) for v in r] for r in Amat]
    norm = max(sum(abs(v) for v in r) for r in FA)
    inv_cols = []
    for k in range(n):
        e = [Fraction(1 if i == k else 0) for i in range(n)]
        c = solve_exact(FA, e)
        if c is None:
            return math.inf
        inv_cols.append(c)
    inv_norm = max(sum(abs(inv_cols[k][i]) for k in range(n)) for i in range(n))
    return float(norm * inv_norm)


def replay(ctx, path):
    import json
    r = json.load(open(path))
    print(json.dumps(r.get("failure", r), indent=1)[:3000])
    return 0
