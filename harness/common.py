"""Shared machinery of the Platypus verification checks.

Everything here is infrastructure: building the Lean project, auditing the axioms of
the registered theorems, talking to the Lean driver, collecting coverage, deciding
the verdict and writing evidence / replay files.  Property-specific code lives in
corr_Cxx.py.
"""
import fcntl
import hashlib
import json
import os
import random
import re
import struct
import subprocess
import sys
import time
from fractions import Fraction

VERIF = os.path.dirname(os.path.dirname(os.path.abspath(__file__)))
REPO = os.environ.get("PLATYPUS_REPO", "/repo")
LEAN = os.path.join(VERIF, "lean")
DRIVER = os.path.join(LEAN, ".lake", "build", "bin", "driver")
ALLOWED_AXIOMS = {"propext", "Classical.choice", "Quot.sound"}
FORBIDDEN = re.compile(r"\b(sorry|admit|native_decide|bv_decide|implemented_by|unsafe)\b|^\s*axiom\s|maxHeartbeats\s+0\b")

TRUSTED_BASE = [
    "Lean 4.33 kernel; axioms allowed: propext, Classical.choice, Quot.sound (audited with #print axioms on every run)",
    "hand-written Lean model of the anchored Platypus code: modelled, not verified; tied to /repo's working tree by the correspondence check of this run",
    "Python harness, wire codecs and the Lean driver's parser/printer",
    "CPython 3.12 semantics of the primitives the model mirrors (stable sorted, IEEE doubles, compensated sum())",
]


class Infra(Exception):
    """infrastructure failure: exit 2, never a violation"""


# --------------------------------------------------------------------------- build / audit

def _lock():
    os.makedirs(os.path.join(LEAN, ".lake"), exist_ok=True)
    f = open(os.path.join(LEAN, ".lake", "verif.lock"), "w")
    fcntl.flock(f, fcntl.LOCK_EX)
    return f


def lean_build(targets, timeout=3000):
    """lake build of the given targets; returns (ok, log)."""
    lk = _lock()
    try:
        p = subprocess.run(["lake", "build"] + list(targets), cwd=LEAN, capture_output=True,
                           text=True, timeout=timeout)
        return p.returncode == 0, (p.stdout + p.stderr)[-6000:]
    except subprocess.TimeoutExpired:
        raise Infra("lake build timed out")
    finally:
        lk.close()


def obligations(prop):
    with open(os.path.join(LEAN, "obligations.json")) as f:
        allo = json.load(f)
    return {k: v for k, v in allo.items() if v["property"] == prop}


def strip_comments(src):
    # nested block comments and line comments
    out, i, depth, n = [], 0, 0, len(src)
    while i < n:
        if src.startswith("/-", i):
            depth += 1; i += 2; continue
        if depth and src.startswith("-/", i):
            depth -= 1; i += 2; continue
        if depth:
            if src[i] == "\n":
                out.append("\n")
            i += 1; continue
        if src.startswith("--", i):
            while i < n and src[i] != "\n":
                i += 1
            continue
        out.append(src[i]); i += 1
    return "".join(out)


def grep_forbidden():
    hits = []
    for root, _, files in os.walk(LEAN):
        if ".lake" in root or ".audit" in root:
            continue
        for fn in files:
            if fn.endswith(".lean"):
                p = os.path.join(root, fn)
                for ln, line in enumerate(strip_comments(open(p).read()).split("\n"), 1):
                    if FORBIDDEN.search(line):
                        hits.append(f"{os.path.relpath(p, LEAN)}:{ln}: {line.strip()[:100]}")
    return hits


def audit(prop):
    """Returns dict(obligations, discharged, undischarged[list of (name, reason)], axioms{name:[...]})."""
    obs = obligations(prop)
    mod = f"PlatypusModel.Props.{prop}"
    mods = [mod] + sorted({v["module"] for v in obs.values() if v.get("module")})
    ok, log = lean_build(mods)
    res = {"obligations": len(obs), "discharged": 0, "undischarged": [], "axioms": {},
           "build_ok": ok, "build_log": "" if ok else log,
           "checker_cmd": f"cd lean && lake build {mod} && lake env lean .audit/Audit_{prop}.lean  # #print axioms of {len(obs)} registered theorems"}
    if not ok:
        # find out which theorems still exist: none can be trusted when the module does not build
        res["undischarged"] = [(n, "module does not build") for n in obs]
        return res
    hits = grep_forbidden()
    os.makedirs(os.path.join(LEAN, ".audit"), exist_ok=True)
    # one audit file per process: two checks of the same property may run side by side (quick and thorough, several seeds)
    af = os.path.join(LEAN, ".audit", f"Audit_{prop}_{os.getpid()}.lean")
    lk = _lock()
    try:
        with open(af, "w") as f:
            for m_ in mods:
                f.write(f"import {m_}\n")
            for n in obs:
                f.write(f"#print axioms {n.split('@')[0]}\n")
        p = subprocess.run(["lake", "env", "lean", af], cwd=LEAN, capture_output=True, text=True, timeout=900)
    finally:
        lk.close()
        try:
            os.replace(af, os.path.join(LEAN, ".audit", f"Audit_{prop}.lean"))      # kept under the stable name for `checker_cmd` (atomic)
        except OSError:
            pass
    out = p.stdout + p.stderr
    flat = re.sub(r"\s+", " ", out)
    for n in obs:
        m = re.search(r"'" + re.escape(n.split('@')[0]) + r"' (does not depend on any axioms|depends on axioms: \[([^\]]*)\])", flat)
        if not m:
            res["undischarged"].append((n, "theorem missing or does not elaborate"))
            continue
        ax = [] if m.group(2) is None else [a.strip() for a in m.group(2).split(",") if a.strip()]
        res["axioms"][n] = ax
        bad = [a for a in ax if a not in ALLOWED_AXIOMS]
        if bad:
            res["undischarged"].append((n, "depends on " + ",".join(bad)))
        elif hits:
            res["undischarged"].append((n, "forbidden token in sources: " + hits[0]))
        else:
            res["discharged"] += 1
    return res


def leanchecker(prop):
    """independent re-check of the compiled modules that hold this property's registered theorems"""
    mods = sorted({v.get("module") or f"PlatypusModel.Props.{prop}" for v in obligations(prop).values()})
    lk = _lock()
    try:
        p = subprocess.run(["lake", "env", "leanchecker"] + mods, cwd=LEAN,
                           capture_output=True, text=True, timeout=3000)
    finally:
        lk.close()
    return p.returncode == 0, (p.stdout + p.stderr)[-2000:]


# --------------------------------------------------------------------------- driver

class Driver:
    def __init__(self):
        ok, log = lean_build(["driver"])
        self.ok = ok and os.path.exists(DRIVER)
        self.log = log
        self.lines = 0

    def batch(self, lines):
        """send all lines, get one response per line"""
        if not self.ok:
            raise Infra("driver not built")
        if not lines:
            return []
        data = "\n".join(lines) + "\n"
        p = subprocess.run([DRIVER], input=data, capture_output=True, text=True, timeout=3000)
        if p.returncode != 0:
            raise Infra("driver crashed: " + p.stderr[-500:])
        out = p.stdout.split("\n")
        if out and out[-1] == "":
            out.pop()
        if len(out) != len(lines):
            raise Infra(f"driver answered {len(out)} lines for {len(lines)} requests")
        self.lines += len(lines)
        return out


# --------------------------------------------------------------------------- wire codecs

def f2bits(x):
    return struct.unpack("<Q", struct.pack("<d", float(x)))[0]


def bits2f(n):
    return struct.unpack("<d", struct.pack("<Q", int(n)))[0]


def wf(x):
    """double as decimal u64 bit pattern"""
    return str(f2bits(x))


def wq(x):
    """exact value of a double / int / Fraction on the Q wire"""
    if isinstance(x, float):
        if x == float("inf"):
            return "inf"
        if x == float("-inf"):
            return "-inf"
        if x != x:
            raise ValueError("NaN on Q wire")
        n, d = x.as_integer_ratio()
    elif isinstance(x, Fraction):
        n, d = x.numerator, x.denominator
    else:
        n, d = int(x), 1
    return str(n) if d == 1 else f"{n}/{d}"


def wlist(items, enc=str):
    items = list(items)
    return " ".join([str(len(items))] + [enc(i) for i in items])


def wbits(bits):
    bits = list(bits)
    return "".join("1" if b else "0" for b in bits) if bits else "-"


def rbits(s):
    return [] if s == "-" else [c == "1" for c in s]


def next_up(x):
    import math
    return math.nextafter(x, math.inf)


def next_down(x):
    import math
    return math.nextafter(x, -math.inf)


# --------------------------------------------------------------------------- context / verdict

class Ctx:
    def __init__(self, prop, tier, seed):
        self.prop, self.tier, self.seed = prop, tier, seed
        self.rng = random.Random(seed)
        self.t0 = time.time()
        self.cases = 0
        self._distinct = set()
        self.nontrivial_rule = ""
        self.samples = []
        self.disagreements = []     # model vs implementation
        self.failures = []          # property failures observed on the real implementation
        self.stats = {}
        self.notes = []
        self.assumptions = []
        self.exhaustive = False
        self.model_ok = True

    def quick(self):
        return self.tier == "quick"

    def count(self, key, n=1):
        self.stats[key] = self.stats.get(key, 0) + n

    def case(self, canon, nontrivial=True, sample=None):
        self.cases += 1
        if nontrivial:
            self._distinct.add(hashlib.blake2b(repr(canon).encode(), digest_size=8).digest())
        if sample is not None and len(self.samples) < 6:
            self.samples.append(sample)

    def disagree(self, what, inp, impl, model):
        self.count("disagreements")
        if len(self.disagreements) < 50:
            self.disagreements.append({"correspondence": what, "input": inp, "impl": impl, "model": model})

    def fail(self, kind, inp, observed, expected, where=""):
        """a property failure shown on the real implementation"""
        self.count("oracle_failures")
        if len(self.failures) < 200:
            self.failures.append({"kind": kind, "input": inp, "observed": observed, "expected": expected, "where": where})

    @property
    def distinct(self):
        return len(self._distinct)


def known_findings(prop):
    p = os.path.join(VERIF, "known_findings.json")
    if not os.path.exists(p):
        return []
    with open(p) as f:
        return [e for e in json.load(f).get("findings", []) if e["property"] == prop and e.get("status") == "open"]


def matches_finding(entry, failure):
    m = entry.get("match", {})
    if m.get("kind") != failure["kind"]:
        return False
    if "where" in m and m["where"] != failure.get("where"):
        return False
    pred = m.get("input_class")
    if pred:
        return failure.get("input_class") == pred
    return True


def write_replay(prop, payload):
    os.makedirs(os.path.join(VERIF, "replays"), exist_ok=True)
    h = hashlib.blake2b(json.dumps(payload, sort_keys=True, default=str).encode(), digest_size=6).hexdigest()
    rel = os.path.join("replays", f"{prop}-{h}.json")
    payload = dict(payload)
    payload["property"] = prop
    payload["replay_cmd"] = f"/venv/bin/python check.py {prop} --replay {rel}"
    with open(os.path.join(VERIF, rel), "w") as f:
        json.dump(payload, f, indent=1, default=str)
    return rel


def finish(ctx, aud, extra_cov=None, level="proof"):
    """Decide the verdict, print VIOLATION / KNOWN-FINDING lines, write evidence, return exit code."""
    prop = ctx.prop
    lines, violations = [], 0
    kf = known_findings(prop)
    seen_kf = set()
    reported = set()
    for fl in sorted(ctx.failures, key=lambda f: len(json.dumps(f.get('input'), default=str))):
        hit = next((e for e in kf if matches_finding(e, fl)), None)
        if hit is not None:
            if hit["what"] not in seen_kf:
                seen_kf.add(hit["what"])
                lines.append(f"KNOWN-FINDING: property={prop} {hit['what']}")
            continue
        key = (fl["kind"], fl.get("where"))
        if key in reported or len(reported) >= 5:
            continue
        reported.add(key)
        rel = write_replay(prop, {"kind": "counterexample", "failure": fl, "seed": ctx.seed, "tier": ctx.tier,
                                  "broken": [d["correspondence"] for d in ctx.disagreements[:3]]})
        lines.append(f"VIOLATION property={prop} replay={rel}")
        violations += 1
    broken = []
    if aud["undischarged"]:
        broken += [f"theorem {n}: {why}" for n, why in aud["undischarged"]]
    if ctx.disagreements:
        broken += sorted({"correspondence " + d["correspondence"] for d in ctx.disagreements})
    if not ctx.model_ok:
        broken.append("driver/model did not build")
    if broken and violations == 0:
        rel = write_replay(prop, {"kind": "unproved-no-failing-input-found", "no_longer_checks": broken,
                                  "disagreements": ctx.disagreements[:10], "build_log": aud.get("build_log", "")[-3000:],
                                  "seed": ctx.seed, "tier": ctx.tier})
        lines.append(f"VIOLATION property={prop} replay={rel} no-failing-input-found")
        violations += 1
    cov = {
        "obligations": aud["obligations"], "discharged": aud["discharged"],
        "checker_cmd": aud["checker_cmd"], "trusted_base": TRUSTED_BASE,
        "undischarged": [n for n, _ in aud["undischarged"]],
        "axioms_used": sorted({a for v in aud["axioms"].values() for a in v}),
        "evaluations": ctx.cases, "distinct_nontrivial": ctx.distinct, "rule": ctx.nontrivial_rule,
        "samples": ctx.samples or ["(no case generated)"],
        "exhaustive": ctx.exhaustive,
        "correspondence": {"disagreements": len(ctx.disagreements), "details": ctx.disagreements[:5]},
        "oracle_sweep": {"failures_on_impl": len(ctx.failures), "known_findings_hit": sorted(seen_kf)},
        "distribution": ctx.stats, "notes": ctx.notes,
    }
    if extra_cov:
        cov.update(extra_cov)
    ev = {"property_id": prop, "tier": ctx.tier, "seed": ctx.seed, "level": level, "coverage": cov,
          "assumptions": ctx.assumptions, "wall_s": round(time.time() - ctx.t0, 2), "violations": violations}
    os.makedirs(os.path.join(VERIF, "evidence"), exist_ok=True)
    with open(os.path.join(VERIF, "evidence", f"{prop}.json"), "w") as f:
        json.dump(ev, f, indent=1, default=str)
    for l in lines:
        print(l)
    print(f"[{prop}] tier={ctx.tier} seed={ctx.seed} obligations={aud['discharged']}/{aud['obligations']} "
          f"cases={ctx.cases} distinct={ctx.distinct} disagreements={len(ctx.disagreements)} "
          f"impl_failures={len(ctx.failures)} violations={violations} wall={ev['wall_s']}s")
    return 1 if violations else 0
