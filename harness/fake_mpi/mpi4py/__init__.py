"""A simulated mpi4py for driving platypus/mpipool.py deterministically (no real MPI in this sandbox)."""
from . import MPI  # noqa: F401
