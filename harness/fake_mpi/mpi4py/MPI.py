"""Simulated communicator: per (sender, receiver) FIFO channels with tags (non-overtaking), non-blocking isend,
blocking recv that parks the calling thread until a central scheduler delivers a matching message.
The scheduler (see corr_C12.py) serialises all threads: it acts only when every live rank is parked in recv."""
import threading

ANY_TAG = -1
ANY_SOURCE = -2


class Status:
    def __init__(self):
        self.source = None
        self.tag = None


class Request:
    @staticmethod
    def waitall(requests):
        return None

    def wait(self):
        return None


class World:
    def __init__(self, nranks):
        self.nranks = nranks
        self.channels = {(s, d): [] for s in range(nranks) for d in range(nranks)}     # lists of (tag, obj)
        self.cv = threading.Condition()
        self.pending = {}        # rank -> (source, tag) of a parked recv
        self.delivery = {}       # rank -> (source, tag, obj) chosen by the scheduler
        self.finished = set()
        self.log = []

    def comm(self, rank):
        return Comm(self, rank)

    # ---- used by the scheduler
    def matches(self, rank):
        """deliverable messages for rank's parked recv: list of (source, index in channel)"""
        src, tag = self.pending[rank]
        out = []
        for s in (range(self.nranks) if src == ANY_SOURCE else [src]):
            ch = self.channels[(s, rank)]
            for i, (t, _) in enumerate(ch):
                if tag == ANY_TAG or t == tag:
                    out.append((s, i))
                    break                      # earliest matching message of that source only (non-overtaking)
        return out


class Comm:
    def __init__(self, world, rank):
        self.world, self.rank = world, rank

    def Get_rank(self):
        return self.rank

    def Get_size(self):
        return self.world.nranks

    def isend(self, obj, dest, tag=0):
        with self.world.cv:
            self.world.channels[(self.rank, dest)].append((tag, obj))
            self.world.cv.notify_all()
        return Request()

    def send(self, obj, dest, tag=0):
        self.isend(obj, dest, tag)

    def recv(self, source=ANY_SOURCE, tag=ANY_TAG, status=None):
        w = self.world
        with w.cv:
            w.pending[self.rank] = (source, tag)
            w.cv.notify_all()
            while self.rank not in w.delivery:
                w.cv.wait()
            s, t, obj = w.delivery.pop(self.rank)
            del w.pending[self.rank]
        if status is not None:
            status.source, status.tag = s, t
        return obj

    def bcast(self, obj, root=0):
        return obj


COMM_WORLD = None
