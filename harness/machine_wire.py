"""Encoding of traced runs for the Lean acceptor (`machine` op) and the model of Problem.__call__ (`pcall`)."""
import re

from common import wf, f2bits, wlist

NONE_BITS = str(2 ** 64)        # not a bit pattern of any double: "no value stored"


def world_wire(spec):
    ts = []
    for t in spec.types:
        if t[0] == "real":
            ts.append(f"r {wf(t[1])} {wf(t[2])}")
        elif t[0] == "int":
            ts.append(f"i {t[1]} {t[2]}")
        elif t[0] == "binary":
            ts.append(f"b {t[1]}")
        elif t[0] == "perm":
            ts.append(f"p {t[1]}")
        else:
            ts.append(f"s {t[1]} {t[2]}")
    parts = [str(len(ts))] + ts
    parts.append("1" if spec.form == "quadratic" else "0")
    parts.append(str(len(spec.w)))
    for row in spec.w:
        parts.append(wlist(row))
    parts.append(str(len(spec.cw)))
    for row, thr in zip(spec.cw, spec.cthr):
        parts.append(wlist(row) + " " + wf(thr))
    parts.append(str(len(spec.cops)))
    for c in spec.cops:
        m = re.match(r"^([<>=!]+)\s*(\S+)$", c)
        parts.append(f"{m.group(1)} {wf(float(m.group(2)))}")
    parts.append(wf(0.0001))
    return " ".join(parts)


def num_bits(x):
    if x is None:
        return NONE_BITS
    try:
        x = float(x)
    except (TypeError, ValueError):
        return NONE_BITS
    if x == 0:
        x = 0.0
    return str(f2bits(x))


def val_wire(spec, t, v):
    try:
        if t[0] == "real":
            if isinstance(v, bool) or not isinstance(v, (int, float)):
                return "X"
            return str(f2bits(float(v)))
        if t[0] == "int":
            if isinstance(v, bool) or not isinstance(v, int):
                return "X"
            return str(v)
        if t[0] == "binary":
            if any(type(b) is not bool for b in v):
                return "X"
            return "".join("1" if b else "0" for b in v) or "-"
        idx = [spec.elem_index(t, e) for e in v]
        if any((not isinstance(i, int)) or i < 0 for i in idx):
            return "X"
        if any(spec.elem(t, i) != e for i, e in zip(idx, v)):
            return "X"
        return wlist(idx)
    except Exception:
        return "X"


def vals_wire(spec, dec):
    if isinstance(dec, str) or len(dec) != len(spec.types):
        return f"{len(spec.types)} " + " ".join("X" for _ in spec.types)
    return f"{len(spec.types)} " + " ".join(val_wire(spec, t, v) for t, v in zip(spec.types, dec))


def snap_wire(spec, snap):
    sid, dec, objs, cons, cv, feasible, evaluated = snap
    return (f"{sid} {int(bool(evaluated))} {0 if feasible is None else 1} {int(bool(feasible))} {num_bits(cv)} "
            f"{wlist(objs, num_bits)} {wlist(cons, num_bits)} {vals_wire(spec, dec)}")


def events_wire(spec, trace_events):
    """B/S events from a tracer trace; returns (wire string, index map event-number -> description)"""
    out, desc = [], []
    pending = None
    for ev in trace_events:
        k = ev[0]
        if k == "batch":
            pending = ev
        elif k == "batch_end" and pending is not None:
            before = [m[2] for m in pending[1]]
            after = ev[1]
            out.append(f"B {len(before)} " + " ".join(snap_wire(spec, s) for s in before) + (" " if before else "") +
                       " ".join(snap_wire(spec, s) for s in after))
            desc.append(("batch", [m[0] for m in pending[1]]))
            pending = None
        elif k == "step":
            snaps = [s for coll in ev[2].values() for s in coll]
            out.append(f"S {len(snaps)} " + " ".join(snap_wire(spec, s) for s in snaps))
            desc.append(("step", ev[1]))
    return f"{len(out)} " + " ".join(o.strip() for o in out), desc
