"""C02 — Pareto dominance.  Function correspondence on the exact (ERat) wire + oracle from the statement."""
import itertools

from common import wq
import plat
from plat import mk_problem, mk_sol, sol_q, dirs_w, call

from platypus import core as C


def run(ctx, drv):
    rng = ctx.rng
    ctx.nontrivial_rule = ("pairs of objective vectors: exhaustive over {0,1,2}^n (n<=2 quick, n<=3 thorough) x all direction "
                           "assignments x cv in {0,1,2}^2 x {constrained, unconstrained}; random n<=8 from special doubles "
                           "(+-inf, +-1e308, +-0.0, 5e-324) and random doubles with per-coordinate tie probability 0.5; "
                           "non-trivial = vectors differ in >= 1 coordinate or violations differ; distinct by request line. "
                           "One shared ParetoDominance instance is used for all cases in sequence (interleaving problems with "
                           "different directions), a fresh instance for every 7th + exact ints next to the doubles they round to, violations differing in the last place, directions re-declared on used problems, random direction-declaration sequences against the model")
    shared = C.ParetoDominance()
    default_dom = C.Archive()._dominance          # the library-wide shared default instance
    cases = []   # (constrained, dirs, a, b)
    nmax = 2 if ctx.quick() else 3
    for n in range(1, nmax + 1):
        vecs = list(itertools.product([0.0, 1.0, 2.0], repeat=n))
        for dirs in itertools.product([False, True], repeat=n):
            for constrained in (False, True):
                cvs = [(0.0, 0.0), (0.0, 1.0), (1.0, 0.0), (1.0, 1.0), (1.0, 2.0), (2.0, 1.0)] if constrained else [(0.0, 0.0), (1.0, 2.0)]
                for a in vecs:
                    for b in vecs:
                        for ca, cb in cvs:
                            cases.append((constrained, dirs, a, ca, b, cb))
    ctx.count("exhaustive_cases", len(cases))
    if ctx.quick():
        vecs = list(itertools.product([0.0, 1.0, 2.0], repeat=3))
        for _ in range(20000):
            dirs = tuple(rng.random() < 0.5 for _ in range(3))
            cases.append((rng.random() < 0.5, dirs, rng.choice(vecs), float(rng.randrange(3)), rng.choice(vecs), float(rng.randrange(3))))
    nrand = 30000 if ctx.quick() else 200000
    for _ in range(nrand):
        n = rng.randrange(1, 9)
        dirs = tuple(rng.random() < 0.4 for _ in range(n))
        a = [plat.rand_value(rng) for _ in range(n)]
        b = [x if rng.random() < 0.5 else plat.rand_value(rng) for x in a]
        constrained = rng.random() < 0.5
        ca = rng.choice([0.0, 0.0, 1.0, 0.5, 5e-324, 1e308, plat.INF, abs(plat.rand_value(rng))])
        cb = ca if rng.random() < 0.4 else rng.choice([0.0, 1.0, 0.5, 5e-324, 1e308, plat.INF, abs(plat.rand_value(rng))])
        if rng.random() < 0.1 and 0 < ca < plat.INF:
            import math as _m
            cb = _m.nextafter(ca, rng.choice([0.0, plat.INF]))       # violations that differ in the last place only
        if ca != ca or cb != cb:
            continue
        cases.append((constrained, dirs, tuple(a), ca, tuple(b), cb))
    rng.shuffle(cases)      # interleave problems through the shared instance

    reqs, got, metas = [], [], []
    probs = {}
    for k, (constrained, dirs, a, ca, b, cb) in enumerate(cases):
        key = (constrained, dirs)
        if key not in probs:
            probs[key] = mk_problem(len(dirs), dirs, constrained)
        p = probs[key]
        sa, sb = mk_sol(p, a, ca), mk_sol(p, b, cb)
        dom = C.ParetoDominance() if k % 7 == 0 else (default_dom if k % 7 == 1 else shared)
        r = call(dom.compare, sa, sb)
        line = f"pareto {int(constrained)} {dirs_w(dirs)} {sol_q(0, sa)} {sol_q(1, sb)}"
        reqs.append(line)
        got.append(str(r))
        metas.append((constrained, dirs, sa, sb, dom))
        ctx.case(line, a != b or ca != cb,
                 {"constrained": constrained, "maximise": list(dirs), "a": list(a), "cv_a": ca, "b": list(b), "cv_b": cb, "impl": r} if k < 3 else None)
        ctx.count(f"result_{r}")
        if any(x in (plat.INF, -plat.INF) for x in a + b):
            ctx.count("with_infinite")
        # ---- oracle from the statement, on the real code
        exp = plat.expected_cmp(constrained, dirs, sa, sb)
        inp = {"constrained": constrained, "maximise": list(dirs), "a": list(a), "cv_a": ca, "b": list(b), "cv_b": cb,
               "instance": "fresh" if k % 7 == 0 else "shared (used before on other problems)"}
        if r != exp:
            ctx.fail("wrong-answer", inp, r, exp, "core.ParetoDominance.compare")
        elif k % 5 == 0:
            r2 = call(dom.compare, sb, sa)
            if r2 != -exp:
                ctx.fail("swap-not-negated", inp, r2, -exp, "core.ParetoDominance.compare")
    # transitivity on triples (real code)
    ntr = 3000 if ctx.quick() else 30000
    for _ in range(ntr):
        n = rng.randrange(1, 5)
        dirs = tuple(rng.random() < 0.5 for _ in range(n))
        constrained = rng.random() < 0.5
        p = mk_problem(n, dirs, constrained)
        ss = [mk_sol(p, [float(rng.randrange(3)) for _ in range(n)], float(rng.randrange(2)) if constrained else 0.0) for _ in range(3)]
        if call(shared.compare, ss[0], ss[1]) == -1 and call(shared.compare, ss[1], ss[2]) == -1 and call(shared.compare, ss[0], ss[2]) != -1:
            ctx.fail("not-transitive", {"constrained": constrained, "maximise": list(dirs),
                                        "sols": [[list(s.objectives), s.constraint_violation] for s in ss]},
                     call(shared.compare, ss[0], ss[2]), -1, "core.ParetoDominance.compare")
        if call(shared.compare, ss[0], ss[0]) != 0:
            ctx.fail("not-irreflexive", {"sol": list(ss[0].objectives)}, call(shared.compare, ss[0], ss[0]), 0, "core.ParetoDominance.compare")
    ctx.count("transitivity_triples", ntr)
    # directions re-declared on a problem that has already been used in comparisons (the declaration is read at comparison time)
    nre = 2000 if ctx.quick() else 20000
    for _ in range(nre):
        n = rng.randrange(1, 5)
        constrained = rng.random() < 0.3
        dirs = tuple(rng.random() < 0.5 for _ in range(n))
        p = mk_problem(n, dirs, constrained)
        dom = rng.choice([shared, default_dom, C.ParetoDominance()])
        for round_ in range(3):
            sa = mk_sol(p, [float(rng.randrange(3)) for _ in range(n)], float(rng.randrange(2)) if constrained else 0.0)
            sb = mk_sol(p, [float(rng.randrange(3)) for _ in range(n)], float(rng.randrange(2)) if constrained else 0.0)
            r = call(dom.compare, sa, sb)
            exp = plat.expected_cmp(constrained, dirs, sa, sb)
            if r != exp:
                ctx.fail("wrong-answer", {"constrained": constrained, "maximise": list(dirs), "a": list(sa.objectives), "cv_a": sa.constraint_violation,
                                          "b": list(sb.objectives), "cv_b": sb.constraint_violation,
                                          "instance": f"directions re-declared {round_} time(s) on this problem object after earlier comparisons"},
                         r, exp, "core.ParetoDominance.compare")
                break
            dirs = tuple((not d) if rng.random() < 0.5 else d for d in dirs)
            plat.declare_directions(p, dirs, rng.randrange(8))
        ctx.case(("redeclared", n, dirs, constrained), True)
    ctx.count("redeclared_direction_rounds", nre)
    # a problem and its deep copy (what checkpointing, experiments and process pools create) are independent objects: declaring
    # directions on one of them must not re-declare the other
    import copy as _copy
    ncp = 600 if ctx.quick() else 6000
    for _ in range(ncp):
        n = rng.randrange(1, 5)
        constrained = rng.random() < 0.3
        dirs = tuple(rng.random() < 0.5 for _ in range(n))
        p = mk_problem(n, dirs, constrained)
        q = _copy.deepcopy(p)
        dirs_q = tuple((not d) if rng.random() < 0.6 else d for d in dirs)
        which = rng.random() < 0.5
        plat.declare_directions(q if which else p, dirs_q, rng.randrange(8))
        dp, dq = (dirs, dirs_q) if which else (dirs_q, dirs)
        for prob, dr, tag in ((p, dp, "original"), (q, dq, "deep copy")):
            sa = mk_sol(prob, [float(rng.randrange(3)) for _ in range(n)], float(rng.randrange(2)) if constrained else 0.0)
            sb = mk_sol(prob, [float(rng.randrange(3)) for _ in range(n)], float(rng.randrange(2)) if constrained else 0.0)
            r = call(shared.compare, sa, sb)
            exp = plat.expected_cmp(constrained, dr, sa, sb)
            if r != exp:
                ctx.fail("wrong-answer", {"constrained": constrained, "maximise": list(dr), "a": list(sa.objectives), "cv_a": sa.constraint_violation,
                                          "b": list(sb.objectives), "cv_b": sb.constraint_violation,
                                          "instance": f"solutions of the {tag}; directions were then declared anew on the {'deep copy' if which else 'original'} only"},
                         r, exp, "core.ParetoDominance.compare")
                ctx.failures[-1]["input_class"] = "problem-and-its-deep-copy"
                break
        ctx.case(("deepcopied-problem", n, dirs, dirs_q, which), dirs != dirs_q)
    ctx.count("deep_copied_problem_pairs", ncp)

    # ---- how directions are declared: random assignment sequences on a real problem.directions array against the model of
    # Direction.to_direction + FixedLengthArray.__setitem__ (valid and invalid values, indices and slices)
    dreqs, dgot, dinps = [], [], []
    hexs = lambda t: ".".join(format(ord(ch), "x") for ch in t) or "-"
    for _ in range(1500 if ctx.quick() else 20000):
        n = rng.randrange(1, 5)
        p = C.Problem(1, n)

        def atom():
            r = rng.random()
            d = rng.random() < 0.5
            if r < 0.35:
                return (C.Direction.MAXIMIZE if d else C.Direction.MINIMIZE), f"D {int(d)}"
            if r < 0.6:
                v = rng.choice([1, -1, 1, -1, 0, 2])
                return v, f"I {v}"
            t = rng.choice(["maximize", "MINIMIZE", "Maximize", "minimize", "max", "MAXIMISE", ""])
            return t, f"T {hexs(t)}"

        ops_w, ok = [], True
        applied = []
        for _k in range(rng.randrange(1, 5)):
            if rng.random() < 0.5:
                v, w = atom()
                vw = "A " + w
            else:
                items = [atom() for _ in range(rng.choice([n, n, rng.randrange(0, 5)]))]
                v = [a for a, _ in items]
                if rng.random() < 0.3:
                    v = tuple(v)
                vw = f"S {len(items)} " + " ".join(w for _, w in items)
            if rng.random() < 0.5:
                i = rng.randrange(0, n + 1)
                sel_w, do = f"i {i}", (lambda i=i, v=v: p.directions.__setitem__(i, v))
            else:
                a, b = rng.randrange(0, n + 1), rng.randrange(0, n + 2)
                sel_w, do = f"s {a} {b}", (lambda a=a, b=b, v=v: p.directions.__setitem__(slice(a, b), v))
            ops_w.append(f"{sel_w} {vw}")
            applied.append(f"{sel_w} {v!r}")
            try:
                do()
            except Exception:
                ok = False
                break

        def show(x):
            if isinstance(x, C.Direction):
                return "d1" if x == C.Direction.MAXIMIZE else "d0"
            if isinstance(x, (list, tuple)):
                return "l" + "".join("1" if e == C.Direction.MAXIMIZE else "0" for e in x)
            return "?" + repr(x)
        obs = ("ok " + " ".join(show(p.directions[i]) for i in range(n))) if ok else "err"
        dreqs.append(f"dirops {n} {len(ops_w)} " + " ".join(ops_w))
        dgot.append(obs.strip())
        dinps.append({"nobjs": n, "assignments": applied})
        ctx.case(("dirops", dreqs[-1]), ok)
    ctx.count("direction_declaration_sequences", len(dreqs))
    if drv.ok:
        for line, g, m, di in zip(dreqs, drv.batch(dreqs), dgot, dinps):
            if g.strip() != m:
                ctx.disagree("direction declaration (to_direction + __setitem__) model vs implementation", di, m, g)
    if drv.ok:
        out = drv.batch(reqs)
        for line, g, m in zip(reqs, out, got):
            if g != m:
                ctx.disagree("paretoCompare function correspondence", line, m, g)


def replay(ctx, path):
    import json
    r = json.load(open(path))
    fl = r.get("failure")
    print(json.dumps(fl or r, indent=1))
    if not fl or "a" not in fl["input"]:
        return 0
    i = fl["input"]
    p = mk_problem(len(i["maximise"]), i["maximise"], i["constrained"])
    sa, sb = mk_sol(p, i["a"], i["cv_a"]), mk_sol(p, i["b"], i["cv_b"])
    got = call(C.ParetoDominance().compare, sa, sb)
    exp = plat.expected_cmp(i["constrained"], i["maximise"], sa, sb)
    print("current tree (fresh instance): compare =", got, "expected", exp)
    return 0 if got == exp else 1
