"""C09 — elitism.  Per-step trace refinement: the model's NSGA-II / GDE3 survival functions are run on the
logged parents + offspring and must return the observed next population; front retention, archive
monotonicity and GA/ES best-so-far are judged by an oracle written from the statement."""
import math

import plat
import runs
from common import wf, wlist
from plat import dirs_w
from corr_C05 import box as eps_box, eps_at

POP_ALGOS = {"NSGAII", "NSGAII+archive", "NSGAIII", "SPEA2", "GDE3", "EpsNSGAII"}
ARCHIVE_RESULT = {"NSGAII+archive": "pareto", "EpsMOEA": "eps", "EpsNSGAII": "eps", "OMOPSO": "eps", "CMAES": "pareto"}


class S:   # light view of a snapshot for the oracle helpers
    def __init__(self, snap):
        self.sid, _, self.objectives, _, self.constraint_violation, _, _ = snap


def dom(constrained, dirs, a, b):
    return plat.better(constrained, dirs, a.objectives, a.constraint_violation, b.objectives, b.constraint_violation)


def eps_cmp(constrained, dirs, eps, a, b):
    """independent epsilon-box relation: -1 a better, 1 b better, 0 incomparable"""
    if constrained and a.constraint_violation != b.constraint_violation:
        return -1 if a.constraint_violation < b.constraint_violation else 1
    ba, bb = eps_box(dirs, eps, a), eps_box(dirs, eps, b)
    if ba != bb:
        if all(x <= y for x, y in zip(ba, bb)):
            return -1
        if all(y <= x for x, y in zip(ba, bb)):
            return 1
        return 0

    def dist(s, bx):
        return sum(((-o if d else o) - i * eps_at(eps, j)) ** 2 for j, (d, o, i) in enumerate(zip(dirs, s.objectives, bx)))
    return -1 if dist(a, ba) < dist(b, bb) else 1


def solw(snap):
    return f"{snap[0]} {wf(snap[4])} {wlist(snap[2], wf)}"


def run(ctx, drv):
    rng = ctx.rng
    ctx.nontrivial_rule = ("generations of real runs (NSGA-II, NSGA-II+archive, NSGA-III, SPEA2, GDE3, eps-NSGA-II, eps-MOEA, OMOPSO, "
                           "CMA-ES, GA, ES) on problems with 1-5 objectives, constrained and not, population sizes 4-13; one case = one "
                           "generation; non-trivial = front 0 of parents+offspring is a proper subset of them; distinct by "
                           "(algorithm, seed, step) + SPEA2 selection as a function on random merged populations with ties; GA / ES survival replayed; NSGA-III reference-point truncation as a function (grids, fronts, scaled, degenerate and negative objectives, stale / infinite ideal points, scripted random.choice outcomes)")
    reqs, post = [], []

    def ask(line, fn):
        reqs.append(line); post.append(fn)
    names = sorted(POP_ALGOS | set(ARCHIVE_RESULT) | {"GA", "ES"})
    ncfg = 200 if ctx.quick() else 2500
    cfgs = runs.gen_configs(rng, ncfg, names=names, sizes=(4, 5, 6, 8, 9, 12, 13), nobjs_choices=(1, 2, 2, 3, 3, 4, 5), constrained_rate=0.45)
    n3_replayed = 0
    for ci, cfg in enumerate(cfgs):
        name, spec = cfg["name"], cfg["spec"]
        budget = cfg["size"] * rng.choice([4, 6, 9])
        warm = ci % 8 == 3
        if warm:
            # a warm start: the whole initial population consists of solutions the user evaluated earlier
            cfg = dict(cfg, injected=cfg["size"] + 1)
        tr, alg, err = runs.execute(cfg, [budget], **({"injected_evaluated": True} if warm else {}))
        inp = runs.describe(cfg, budget=budget, **({"injected_solutions_already_evaluated": True} if warm else {}))
        if err is not None:
            runs.note_aborted(ctx, cfg, err)
            continue
        constrained, dirs = spec.nconstrs > 0, spec.dirs
        steps = [s for sg in runs.segments(tr) for s in sg["steps"]]
        # ------------------------------------------------ NSGA-III: every generation's environmental selection replayed by the model
        # (population as handed to _reference_point_truncate, ideal point before, the recorded random.choice outcomes)
        if name == "NSGAIII" and getattr(tr, "n3", None):
            refs_w = f"{len(alg.reference_points)} " + " ".join(wlist([float(v) for v in r_], wf) for r_ in alg.reference_points)
            for gi, rec in enumerate(tr.n3):
                line = (f"nsga3 {int(constrained)} {dirs_w(dirs)} {rec['size']} {wlist(rec['ideal_before'], wf)} {refs_w} {len(rec['ids'])} "
                        + " ".join(f"{i_} {wf(c_)} {wlist(o_, wf)}" for i_, c_, o_ in zip(rec["ids"], rec["cv"], rec["objs"]))
                        + f" {len(rec['tape'])} " + " ".join(f"{n_} {k_}" for n_, k_ in rec["tape"]))
                want = "v " + (" ".join(map(str, rec["survivors"])) or "-") + " | " + wlist(rec["ideal_after"], wf) + " | 0"
                detail = dict(inp, generation=gi, population_in=[[i_, o_, c_] for i_, o_, c_ in zip(rec["ids"], rec["objs"], rec["cv"])][:30],
                              size=rec["size"], draws=rec["tape"][:30], survivors=rec["survivors"])
                ask(line, lambda g, want=want, detail=detail: None if g.strip() == want.strip()
                    else ctx.disagree("NSGA-III survival in a real run (nsga3Truncate: survivors, ideal point, draws consumed) = next population", detail, want[:300], g[:300]))
                n3_replayed += 1
        N = getattr(alg, "population_size", None)
        prev = None
        prev_pop_gaes = prev_fit_gaes = None
        prev_result = None
        prev_best = None
        kind = ARCHIVE_RESULT.get(name)
        eps = [0.5]
        ctx.count("runs_" + name)
        for si, st in enumerate(steps):
            ex = st["exposed"]
            hin = dict(inp, step=si)
            # ------------------------------------------------ population clause
            if name in POP_ALGOS and prev is not None and "population" in ex and len(st["batches"]) == 1:
                parents = prev
                offspring = st["batches"][0]["after"]
                merged = list(offspring) + list(parents)
                pop = ex["population"]
                ms = [S(x) for x in merged]
                front0 = [m.sid for m in ms if not any(dom(constrained, dirs, y, m) for y in ms)]
                popids = [x[0] for x in pop]
                detail = dict(hin, parents=[[p[0], p[2], p[4]] for p in parents], offspring=[[p[0], p[2], p[4]] for p in offspring],
                              survivors=popids, front0=front0)
                if len(set(front0)) <= N:
                    missing = [i for i in front0 if i not in popids]
                    if missing:
                        ctx.fail("nondominated-front-not-retained", detail, missing, "front 0 of parents+offspring retained entirely (it fits)", f"algorithms.{name}")
                else:
                    intr = [i for i in popids if i not in front0]
                    if intr:
                        ctx.fail("survivor-outside-front-although-front-overflows", detail, intr, "survivors drawn only from front 0", f"algorithms.{name}")
                nontriv = 0 < len(front0) < len(ms)
                if name in ("NSGAII", "NSGAII+archive", "EpsNSGAII"):
                    ask(f"nsga2 {int(constrained)} {dirs_w(dirs)} {N} {len(merged)} " + " ".join(solw(x) for x in merged),
                        lambda g, popids=popids, detail=detail: None if g.split()[1:] == ([str(i) for i in popids] or ["-"])
                        else ctx.disagree("NSGA-II survival (nsga2Survival) = next population", detail, popids, g.split()[1:]))
                    ctx.count("nsga2_generations_replayed")
                elif name == "SPEA2":
                    kk = getattr(alg, "k", 1)
                    ask(f"spea2 {int(constrained)} {dirs_w(dirs)} {N} {kk} {len(merged)} " + " ".join(solw(x) for x in merged),
                        lambda g, popids=popids, detail=detail: None if g.split()[1:] == ([str(i) for i in popids] or ["-"])
                        else ctx.disagree("SPEA2 survival (spea2Survival: fitness, distance matrix, truncation) = next population", detail, popids, g.split()[1:]))
                    ctx.count("spea2_generations_replayed")
                elif name == "GDE3" and len(offspring) == len(parents):
                    ask(f"gde3 {int(constrained)} {dirs_w(dirs)} {N} {len(offspring)} " + " ".join(solw(x) for x in offspring) +
                        f" {len(parents)} " + " ".join(solw(x) for x in parents),
                        lambda g, popids=popids, detail=detail: None if g.split()[1:] == ([str(i) for i in popids] or ["-"])
                        else ctx.disagree("GDE3 survival (gde3Survival) = next population", detail, popids, g.split()[1:]))
                    ctx.count("gde3_generations_replayed")
                ctx.case((name, cfg["seed"], si), nontriv,
                         {"algorithm": name, "N": N, "merged_objectives": [x[2] for x in merged][:6], "front0_ids": front0[:8], "survivor_ids": popids[:8]}
                         if len(ctx.samples) < 3 and nontriv else None)
            if "population" in ex:
                prev = ex["population"]
            # ------------------------------------------------ archive-result clause
            if kind and "result" in ex and type(alg.result).__name__ in ("Archive", "EpsilonBoxArchive"):
                relname = "eps" if type(alg.result).__name__ == "EpsilonBoxArchive" or type(getattr(alg.result, "_dominance", None)).__name__ == "EpsilonDominance" else "pareto"
                if relname == "eps":
                    eps = [float(e) for e in alg.result._dominance.epsilons]
                    rel = lambda a, b: eps_cmp(constrained, dirs, eps, a, b)
                else:
                    rel = lambda a, b: -1 if dom(constrained, dirs, a, b) else (1 if dom(constrained, dirs, b, a) else 0)
                res = [S(x) for x in ex["result"]]
                rinp = dict(hin, relation=relname, result=[[r.sid, r.objectives, r.constraint_violation] for r in res])
                bad = False
                for i in range(len(res)):
                    for j in range(i + 1, len(res)):
                        if res[i].sid != res[j].sid and rel(res[i], res[j]) != 0:
                            ctx.fail("result-not-mutually-nondominated", rinp, [res[i].sid, res[j].sid], "mutually non-dominated in the archive's relation", f"algorithms.{name}")
                            bad = True
                            break
                    if bad:
                        break
                if prev_result is not None and not bad:
                    for m in prev_result:
                        if not any(r.sid == m.sid or rel(r, m) < 0 for r in res):
                            ctx.fail("earlier-result-member-lost", dict(rinp, earlier=[[p.sid, p.objectives, p.constraint_violation] for p in prev_result], lost=m.sid),
                                     "no later member is identical to or dominates it", "identical or dominated by a later member", f"algorithms.{name}")
                            break
                prev_result = res
                ctx.case((name, cfg["seed"], si, "arch"), prev_result is not None and len(res) >= 2)
            # ------------------------------------------------ GA / ES: the survival step reproduced (stable comparator sort, first N)
            if name in ("GA", "ES") and prev_pop_gaes is not None and "population" in ex and len(st["batches"]) == 1:
                offspring = st["batches"][0]["after"]
                merged = list(offspring) + ([prev_fit_gaes] if name == "GA" else list(prev_pop_gaes))
                if name == "ES" or prev_fit_gaes is not None:
                    popids = [x[0] for x in ex["population"]]
                    detail = dict(hin, merged=[[m[0], m[2], m[4]] for m in merged], survivors=popids)
                    ask(f"gaes {int(constrained)} {dirs_w(dirs)} {N} {len(merged)} " + " ".join(solw(x) for x in merged),
                        lambda g, popids=popids, detail=detail, name=name: None if g.split()[1:] == ([str(i) for i in popids] or ["-"])
                        else ctx.disagree(f"{name} survival (comparator sort of offspring + " + ("fittest" if name == "GA" else "population") + ", first N) = next population",
                                          detail, popids, g.split()[1:]))
                    ctx.count("gaes_generations_replayed")
            if name in ("GA", "ES") and "population" in ex:
                prev_pop_gaes = ex["population"]
                prev_fit_gaes = (ex.get("fittest") or [None])[0]
            # ------------------------------------------------ GA / ES best never worse
            if name in ("GA", "ES"):
                cur = ex.get("fittest") or ex.get("population")
                if cur:
                    best = S(cur[0])
                    if name == "ES":      # best of the population under the comparator
                        for x in ex["population"]:
                            if dom(constrained, dirs, S(x), best):
                                best = S(x)
                    if prev_best is not None and dom(constrained, dirs, prev_best, best):
                        ctx.fail("best-got-worse", dict(hin, old=[prev_best.objectives, prev_best.constraint_violation], new=[best.objectives, best.constraint_violation]),
                                 "new best is worse", "never worse", f"algorithms.{name}")
                    prev_best = best
                    ctx.case((name, cfg["seed"], si, "best"), si > 0)
    # ---- SPEA2's environmental selection as a function: random merged populations (grids force ties in the distance matrix)
    from platypus import algorithms as A_
    from plat import mk_problem, mk_sol
    for t in range(300 if ctx.quick() else 6000):
        nobj = rng.choice([1, 2, 2, 3])
        dirs = tuple(rng.random() < 0.3 for _ in range(nobj))
        con = rng.random() < 0.3
        p = mk_problem(nobj, dirs, con)
        n = rng.randrange(3, 14)
        N = rng.randrange(1, n + 1)
        kk = rng.choice([1, 1, 0, 2])
        grid = rng.choice([[0, 1, 2], [0, 1, 2, 3, 4], None])
        cvpool = [0.0, 0.0, 1.0, 2.0] if rng.random() < 0.65 else [0.0, 0.0, 1e-7, 2e-7, 5e-7, 1e-12]
        sols = [mk_sol(p, [float(rng.choice(grid)) if grid else rng.uniform(0, 1) for _ in range(nobj)], rng.choice(cvpool) if con else 0.0) for _ in range(n)]
        alg = A_.SPEA2(p, population_size=N, k=kk)
        if not (hasattr(alg, "_assign_fitness") and hasattr(alg, "_truncate")):
            if t == 0:
                ctx.notes.append("SPEA2._assign_fitness / _truncate not present under these names: the function-level stream is skipped (per-generation replay of real runs still applies)")
            continue
        inp = {"maximise": list(dirs), "constrained": con, "N": N, "k": kk, "merged": [[list(map(float, s.objectives)), float(s.constraint_violation)] for s in sols]}

        def go(alg=alg, sols=sols, N=N):
            alg._assign_fitness(sols)
            return alg._truncate(sols, N)
        r = plat.call(go)
        if isinstance(r, str):
            obs = "err:index" if r in ("err:IndexError", "err:index") else r
        else:
            ids = [id(x) for x in sols]
            obs = "v " + (" ".join(str(ids.index(id(s))) for s in r) if r else "-")
            # oracle (statement of C09): non-dominated members survive if they fit, else only they survive; never more than N
            nd = [i for i, s in enumerate(sols) if not any(plat.expected_cmp(con, dirs, t_, s) < 0 for t_ in sols)]
            surv = [ids.index(id(s)) for s in r]
            if len(surv) > N or len(set(surv)) != len(surv):
                ctx.fail("survivors-exceed-population-size", inp, surv, f"at most {N} distinct members", "algorithms.SPEA2._truncate")
            elif len(nd) <= N and not set(nd) <= set(surv):
                ctx.fail("nondominated-front-not-retained", inp, surv, f"all of {nd}", "algorithms.SPEA2._truncate")
            elif len(nd) > N and not set(surv) <= set(nd):
                ctx.fail("survivor-outside-front-although-front-overflows", inp, surv, f"only members of {nd}", "algorithms.SPEA2._truncate")
        ask(f"spea2 {int(con)} {dirs_w(dirs)} {N} {kk} {n} " + " ".join(f"{i} {wf(float(s.constraint_violation))} {wlist(list(map(float, s.objectives)), wf)}" for i, s in enumerate(sols)),
            lambda g, obs=obs, inp=inp: None if g.strip() == obs.strip()
            else ctx.disagree("SPEA2 _assign_fitness + _truncate as a function (spea2Survival)", inp, obs, g))
        ctx.case(("spea2fn", repr(inp)), n > N)
    ctx.count("spea2_function_cases", 300 if ctx.quick() else 6000)
    ctx.count("nsga3_generations_replayed", n3_replayed)
    # ---- NSGA-III's environmental selection as a function (ranks, ideal point, intercepts, association, niching with the
    # recorded random.choice outcomes): the model must reproduce survivors and ideal point exactly
    import n3fn
    nn3 = 300 if ctx.quick() else 5000
    if not hasattr(A_.NSGAIII, "_reference_point_truncate"):
        ctx.notes.append("NSGAIII._reference_point_truncate not present under this name: the function-level stream is skipped")
        nn3 = 0
    for t in range(nn3):
        line, obs, inp, fails, nontriv = n3fn.case(rng, t)
        for kind, got, want in fails:
            ctx.fail(kind, inp, got, want, "algorithms.NSGAIII._reference_point_truncate")
        ask(line, lambda g, obs=obs, inp=inp: None if g.strip() == obs.strip()
            else ctx.disagree("NSGA-III _reference_point_truncate as a function (nsga3Truncate: survivors, ideal point, draws consumed)", inp, obs, g))
        ctx.case(("nsga3fn", line), nontriv)
    ctx.count("nsga3_function_cases", nn3)
    if drv.ok:
        out = drv.batch(reqs)
        for g, fn in zip(out, post):
            fn(g)


def replay(ctx, path):
    import json
    r = json.load(open(path))
    print(json.dumps(r.get("failure", r), indent=1)[:4000])
    return 0
