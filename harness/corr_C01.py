"""C01 — every exposed solution carries the objectives of its own variables (and C07's argument validity on
the same traces).  Trace refinement: the full observable trace of real runs is replayed through the Lean
acceptor of the abstract machine; an oracle written from the statement re-derives every exposed record."""
import json

import runs
import tracer
import machine_wire as MW
from common import f2bits


def oracle_snapshot(spec, problem, snap):
    """statement of C01 for one exposed solution; returns None or (what, observed, expected)"""
    sid, dec, objs, cons, cv, feasible, evaluated = snap
    if not evaluated:
        return ("exposed-solution-not-evaluated", evaluated, True)
    if isinstance(dec, str):
        return ("exposed-solution-undecodable", dec, "decodable variables")
    try:
        eo, ec = spec.F(dec)
    except Exception as e:
        return ("exposed-solution-variables-not-evaluable", repr(e), "objective values")
    same = lambda a, b: len(a) == len(b) and all(x is not None and f2bits(float(x)) == f2bits(float(y)) or (x == y == 0) for x, y in zip(a, b))
    if not same(objs, eo):
        return ("objectives-do-not-belong-to-variables", objs, eo)
    if not same(cons, ec):
        return ("constraints-do-not-belong-to-variables", cons, ec)
    ecv = sum([abs(f(x)) for f, x in zip(problem.constraints, ec)])
    if cv != ecv:
        return ("violation-inconsistent", cv, ecv)
    if feasible is None or bool(feasible) != (ecv == 0):
        return ("feasibility-inconsistent", feasible, ecv == 0)
    # independently of the library's own constraint functions: the declared expressions, read as relations
    import operator as _op
    import re as _re
    rel = {"==": _op.eq, "<=": _op.le, ">=": _op.ge, "!=": _op.ne, "<": _op.lt, ">": _op.gt}
    holds = True
    for expr, x in zip(getattr(spec, "cops", []), ec):
        m = _re.match(r"\s*(==|<=|>=|!=|<|>)\s*(.*)$", expr)
        if m:
            holds = holds and bool(rel[m.group(1)](float(x), float(m.group(2))))
    if getattr(spec, "cops", None) and len(spec.cops) == len(ec) and (cv == 0) != holds:
        return ("violation-contradicts-declared-constraints", cv, "0 (every declared relation holds)" if holds else "> 0 (a declared relation is false)")
    return None


def check_run(ctx, cfg, budgets, ask, prop="C01"):
    tr, alg, err = runs.execute(cfg, budgets)
    inp = runs.describe(cfg, budgets=budgets)
    spec = cfg["spec"]
    if err is not None:
        runs.note_aborted(ctx, cfg, err)
        if not tr.events:
            return None
    problem = alg.problem if alg is not None else None
    nsteps = nexp = 0
    failed = False
    for ev in tr.events:
        if ev[0] == "call" and prop == "C07":
            why = spec.valid(ev[1])
            if why:
                ctx.fail("invalid-argument-to-problem-function", dict(inp, argument=repr(ev[1])[:300]), why, "valid for the declared types",
                         f"algorithms.{cfg['name']} (operators / types)")
                failed = True
                break
        if ev[0] == "batch_end" and prop == "C07":
            # evaluators that run elsewhere: the argument is the decoded state of every member that was unevaluated
            pass
        if ev[0] == "step" and problem is not None and prop == "C01":
            nsteps += 1
            for coll, snaps in ev[2].items():
                for sn in snaps:
                    nexp += 1
                    bad = oracle_snapshot(spec, problem, sn)
                    if bad:
                        ctx.fail(bad[0], dict(inp, step=nsteps - 1, collection=coll, solution={"variables": repr(sn[1])[:200], "objectives": sn[2],
                                                                                               "constraints": sn[3], "violation": sn[4], "feasible": sn[5], "evaluated": sn[6]}),
                                 bad[1], bad[2], f"algorithms.{cfg['name']} / core.Algorithm.evaluate_all")
                        failed = True
                        break
                if failed:
                    break
        if failed:
            break
    if prop == "C07":
        for ev in tr.events:
            if failed:
                break
            if ev[0] == "batch":
                for sid, evb, sn in ev[1]:
                    if not evb:
                        why = "undecodable" if isinstance(sn[1], str) else spec.valid(sn[1])
                        if why:
                            ctx.fail("invalid-argument-to-problem-function", dict(inp, argument=repr(sn[1])[:300]), why, "valid for the declared types",
                                     f"algorithms.{cfg['name']} (operators / types)")
                            failed = True
                            break
    ctx.count("runs_" + cfg["name"])
    ctx.count("evaluator_" + cfg["evaluator"])
    ctx.count("kind_" + spec.kind)
    ctx.count("exposed_solutions_checked", nexp)
    if not failed:
        evw, desc = MW.events_wire(spec, tr.events)
        line = f"machine {MW.world_wire(spec)} {evw}"

        def verdict(g, inp=inp, desc=desc):
            if g == "ok":
                return
            parts = g.split()
            where = desc[int(parts[2])] if len(parts) == 3 and parts[2].isdigit() and int(parts[2]) < len(desc) else None
            ctx.disagree("trace of the real run is not a trace of the abstract machine (accept)", dict(inp, event=str(where)[:200]), "run observed", g)
        ask(line, verdict)
    nsol = sum(len(ev[1]) for ev in tr.events if ev[0] == "batch")
    ctx.case((cfg["name"], spec.kind, cfg["seed"], tuple(budgets), cfg["evaluator"]), nsol > cfg["size"],
             dict(inp, steps=nsteps, exposed_checked=nexp, submitted=nsol) if len(ctx.samples) < 3 else None)
    return tr


def run(ctx, drv, prop="C01"):
    rng = ctx.rng
    ctx.nontrivial_rule = ("real runs: 16 algorithm configurations x applicable variable types (real, integer, binary, permutation, subset) x "
                           "{unconstrained, constrained} x {min, max, mixed} x evaluators {map, pickled copies, thread-pool submit, "
                           "apply-async, process pool} x {default, explicit} operators, injected populations, small rate of extreme random "
                           "draws in a sub-stream; one case = one run (3-8 steps); non-trivial = more solutions submitted than one "
                           "population; distinct by (algorithm, type, seed, budget, evaluator) + mixed-type problems (Real first, list-encoded variables after) with compound operators; functions returning exact big ints; sign-of-zero sensitive functions on populations of 0.0 / -0.0 twins")
    reqs, post = [], []

    def ask(line, fn):
        reqs.append(line); post.append(fn)
    n = 260 if ctx.quick() else 4000
    evs = ("map", "map", "pickle", "pickle", "thread", "apply") + (("process",) if not ctx.quick() else ())
    cfgs = runs.gen_configs(rng, n, evaluators=evs)
    cfgs += runs.gen_configs(rng, n // 5, evaluators=("map", "pickle"), extreme=0.02)
    # mixed-type problems (a Real variable followed by list-encoded ones) with the documented compound operators
    cfgs += runs.gen_configs(rng, n // 4, kinds=["mixed"], evaluators=("map", "pickle"),
                             names=[a for a in tracer.ALGOS if "real" not in tracer.ALGOS[a][1]])
    if ctx.quick():
        cfgs += runs.gen_configs(rng, 3, evaluators=("process",), sizes=(4, 5))
    for cfg in cfgs:
        s = cfg["size"]
        budgets = [s * rng.choice([3, 5, 8])] if rng.random() < 0.8 else [2 * s, 3 * s]
        check_run(ctx, cfg, budgets, ask, prop)
    # long histories: leader / archive truncation, restarts and utility updates only show after many steps
    long_cfgs = runs.gen_configs(rng, 16 if ctx.quick() else 200, names=["OMOPSO", "SMPSO", "SMPSO", "OMOPSO", "EpsNSGAII", "MOEAD", "PAES", "PESA2"],
                                 sizes=(5, 6, 8), evaluators=("map", "pickle"))
    for cfg in long_cfgs:
        check_run(ctx, cfg, [cfg["size"] * rng.choice([40, 70])], ask, prop)
        ctx.count("long_runs")
    # restarts: NSGA-II with an epsilon-box archive and a time-continuation extension with short windows -- every few steps archive
    # members are mutated, evaluated *outside* iterate() and injected into population and archive (extensions.py)
    for cfg in runs.gen_configs(rng, 10 if ctx.quick() else 150, names=["NSGAII+restarts"], sizes=(5, 6, 8), evaluators=("map", "pickle")):
        check_run(ctx, cfg, [cfg["size"] * rng.choice([20, 30])], ask, prop)
        ctx.count("runs_with_forced_restarts")
    # particle swarms with small leader archives: truncation of leaders interacts with personal bests only after many steps
    pso = runs.gen_configs(rng, 120 if ctx.quick() else 1500, names=["OMOPSO", "SMPSO"], sizes=(6, 8, 12), evaluators=("map",),
                           nobjs_choices=(2, 2, 3), constrained_rate=0.2)
    for cfg in pso:
        cfg["extra"] = {"leader": rng.choice([2, 3, 4])}
        check_run(ctx, cfg, [cfg["size"] * 60], ask, prop)
        ctx.count("long_pso_runs")
    if prop == "C01":
        special_functions(ctx, rng)
    if drv.ok:
        out = drv.batch(reqs)
        for g, fn in zip(out, post):
            fn(g)


def _bigint_f(weights):
    def f(x):
        z = []
        for v in x:
            z.extend(v if isinstance(v, list) else [v])
        return [sum(w * int(b) for w, b in zip(weights[0], z)), sum(w * (1 - int(b)) for w, b in zip(weights[1], z))]
    return f


def _signed_f(x):
    import math
    return [math.atan2(x[0], -1.0) + x[1], math.copysign(1.0, x[0]) * (2.0 + x[1])]


def special_functions(ctx, rng):
    """problem functions outside the weighted-sum family of the traced problems, judged by the statement only: outputs that are
    exact Python ints beyond 2**53 (what the function returns is what the solution must carry), and a function that can tell
    0.0 from -0.0 evaluated on populations containing such twins"""
    import random as _random
    from platypus import Problem, Binary, Real, InjectedPopulation, algorithms as A
    from platypus import core as C
    for name in ("NSGAII", "SPEA2", "GeneticAlgorithm", "EvolutionaryStrategy"):
        nb = 12
        weights = [[rng.randrange(2 ** 61, 2 ** 62) | 1 for _ in range(nb)], [rng.randrange(2 ** 61, 2 ** 62) | 1 for _ in range(nb)]]
        single = name in ("GeneticAlgorithm", "EvolutionaryStrategy")
        f = _bigint_f(weights)
        p = Problem(1, 1 if single else 2, function=(lambda x, f=f: [f(x)[0]]) if single else f)
        p.types[:] = Binary(nb)
        _random.seed(rng.randrange(2 ** 31))
        alg = getattr(A, name)(p, population_size=8) if not single else getattr(A, name)(p, population_size=8, offspring_size=8)
        r = plat_call(lambda: alg.run(60))
        inp = {"algorithm": name, "function": "sums of 62-bit integer weights over a 12-bit string (exact ints)"}
        if isinstance(r, str):
            ctx.notes.append(f"special-function run aborted: {name}: {r}")
            continue
        for coll, sols in tracer.exposed(alg).items():
            for s_ in sols:
                want = (f(list(s_.variables))[:1] if single else f(list(s_.variables)))
                if not s_.evaluated or [o for o in s_.objectives] != want:
                    ctx.fail("objectives-do-not-belong-to-variables", dict(inp, collection=coll, variables=repr(list(s_.variables))), [repr(o) for o in s_.objectives],
                             [repr(o) for o in want], f"algorithms.{name} / core.Problem.evaluate")
                    break
        ctx.case(("bigint", name), True)
    for name in ("NSGAII", "SPEA2", "GDE3", "SMPSO"):
        p = Problem(2, 2, function=_signed_f)
        p.types[:] = Real(-1, 1)
        twins = []
        for y in (0.25, -0.5, 0.75, 0.0):
            for z in (0.0, -0.0):
                s_ = C.Solution(p)
                s_.variables[:] = [z, y]
                twins.append(s_)
        _random.seed(rng.randrange(2 ** 31))
        alg = getattr(A, name)(p, population_size=8, generator=InjectedPopulation(twins)) if name != "SMPSO" else A.SMPSO(p, swarm_size=8, leader_size=8, generator=InjectedPopulation(twins))
        r = plat_call(lambda: alg.run(24))
        inp = {"algorithm": name, "function": "atan2(x0, -1) + x1, copysign(1, x0)(2 + x1); initial population of (0.0, y) / (-0.0, y) twins"}
        if isinstance(r, str):
            ctx.notes.append(f"special-function run aborted: {name}: {r}")
            continue
        for coll, sols in tracer.exposed(alg).items():
            for s_ in sols:
                want = _signed_f(list(s_.variables))
                if not s_.evaluated or list(s_.objectives) != want:
                    ctx.fail("objectives-do-not-belong-to-variables", dict(inp, collection=coll, variables=[repr(v) for v in s_.variables]), list(s_.objectives), want,
                             f"algorithms.{name} / core.Algorithm.evaluate_all")
                    break
        ctx.case(("signed-zero", name), True)
    # constraint values of small magnitude: strict inequalities satisfied by much less than the library's 1e-4 offset for strict
    # operators, equalities missed by 1e-9; violation and feasibility judged by reading the declared expressions as relations
    import operator as _op
    rel = {"==": _op.eq, "<=": _op.le, ">=": _op.ge, "!=": _op.ne, "<": _op.lt, ">": _op.gt}
    decl = [("<", 0.0), (">", 0.0), ("<=", 0.0), (">", -1e-6)]

    def _tiny_f(x):
        return [x[0] + x[1], (1 - x[0]) ** 2 + x[1]], [1e-5 * (x[0] - 0.7), 1e-5 * (x[1] + 0.1), 1e-7 * (x[0] - x[1]), 1e-6 * (x[0] - 0.5)]
    for name in ("NSGAII", "GDE3", "SPEA2", "EpsMOEA"):
        p = Problem(2, 2, 4, function=_tiny_f)
        p.types[:] = Real(0, 1)
        p.constraints[:] = [o + repr(y) for o, y in decl]
        _random.seed(rng.randrange(2 ** 31))
        alg = plat_call(lambda: A.EpsMOEA(p, epsilons=[0.05], population_size=8) if name == "EpsMOEA" else getattr(A, name)(p, population_size=8))
        inp = {"algorithm": name, "constraints": [o + repr(y) for o, y in decl], "function": "constraint values of magnitude 1e-5 .. 1e-7 around their thresholds"}
        r = plat_call(lambda: alg.run(200)) if not isinstance(alg, str) else alg
        if isinstance(r, str):
            ctx.notes.append(f"special-function run aborted: {name}: {r}")
            continue
        done = False
        for coll, sols in tracer.exposed(alg).items():
            for s_ in sols:
                objs, cons = _tiny_f(list(s_.variables))
                holds = all(rel[o](c, y) for (o, y), c in zip(decl, cons))
                if list(s_.objectives) != objs or list(s_.constraints) != cons or (s_.constraint_violation == 0) != holds or bool(s_.feasible) != holds:
                    ctx.fail("violation-contradicts-declared-constraints", dict(inp, collection=coll, variables=[repr(v) for v in s_.variables], constraint_values=cons),
                             [s_.constraint_violation, s_.feasible], "violation 0 and feasible exactly when every declared relation holds" + (" (all hold here)" if holds else ""),
                             f"algorithms.{name} / core.Problem.__call__")
                    done = True
                    break
            if done:
                break
        ctx.case(("tiny-constraints", name), True)
    # optimum in a corner of the box: after a few generations most variables sit exactly on a bound, where the polynomial mutation
    # returns some of the variables it touches unchanged; checked after every step
    def _corner_f(x):
        return [sum(x) + 0.5 * x[0] * x[0]]
    for name, mk in (("EvolutionaryStrategy", lambda p, g: A.EvolutionaryStrategy(p, population_size=6, offspring_size=6, generator=g)), ("PAES", lambda p, g: A.PAES(p, generator=g)),
                     ("GeneticAlgorithm", lambda p, g: A.GeneticAlgorithm(p, population_size=8, offspring_size=8, generator=g)),
                     ("SMPSO", lambda p, g: A.SMPSO(p, swarm_size=8, leader_size=8, generator=g)), ("NSGAII", lambda p, g: A.NSGAII(p, population_size=8, generator=g))):
        single = name in ("EvolutionaryStrategy", "GeneticAlgorithm")
        f = _corner_f if single else (lambda x: [_corner_f(x)[0], sum(v * v for v in x)])
        p = Problem(3, 1 if single else 2, function=f)
        p.types[:] = Real(0, 1)
        _random.seed(rng.randrange(2 ** 31))
        # the initial population already has variables exactly on their bounds (a population that has converged onto the boundary)
        start = []
        for _ in range(8):
            s0 = C.Solution(p)
            s0.variables[:] = [rng.choice([0.0, 1.0, rng.random()]) for _ in range(3)]
            start.append(s0)
        alg = plat_call(lambda: mk(p, InjectedPopulation(start)))
        inp = {"algorithm": name, "function": "sum(x) + x0^2/2 on [0,1]^3 (optimum in the corner: variables sit on their bounds)"}
        if isinstance(alg, str):
            ctx.notes.append(f"special-function run aborted: {name}: {alg}")
            continue
        bad = False
        for step in range(120):
            r = plat_call(alg.step)
            if isinstance(r, str):
                ctx.notes.append(f"special-function run aborted: {name}: {r}")
                break
            for coll, sols in tracer.exposed(alg).items():
                for s_ in sols:
                    want = f(list(s_.variables))
                    if not s_.evaluated or list(s_.objectives) != want:
                        ctx.fail("objectives-do-not-belong-to-variables", dict(inp, step=step, collection=coll, variables=[repr(v) for v in s_.variables]), list(s_.objectives), want,
                                 f"algorithms.{name} / operators (offspring changed but still marked evaluated)")
                        bad = True
                        break
                if bad:
                    break
            if bad:
                break
        ctx.case(("corner-optimum", name), True)
    ctx.count("special_function_runs", 17)


def plat_call(f):
    import plat
    return plat.call(f)


def replay(ctx, path):
    r = json.load(open(path))
    print(json.dumps(r.get("failure", r), indent=1)[:4000])
    return 0
