"""C12 — parallel evaluation returns results in job order.
(a) the real MPIPool.map / wait run on a simulated communicator under a controllable scheduler; every schedule's
action log is replayed through the Lean transition system (each action must be enabled there and the final
results must agree); small configurations are enumerated exhaustively;
(b) real thread / process pools with job-dependent delays that reverse the completion order, all chunk sizes;
(c) Algorithm.evaluate_all on batches mixing evaluated and unevaluated solutions with copying evaluators;
(d) experiment() result filing."""
import itertools
import math
import os
import pickle
import sys
import threading
import time

HERE = os.path.dirname(os.path.abspath(__file__))
sys.path.insert(0, os.path.join(HERE, "fake_mpi"))

from common import wlist          # noqa: E402
from plat import call             # noqa: E402
import tracer                     # noqa: E402

from mpi4py import MPI            # noqa: E402  (the simulated one)
from platypus import mpipool      # noqa: E402
from platypus import evaluator as E   # noqa: E402
from platypus import core as C    # noqa: E402
import platypus                   # noqa: E402


def f_task(t):
    return 3 * t + 1


# --------------------------------------------------------------------------- simulated MPI

def simulate(size, lb, ntasks, chooser, second_map=False):
    """run the real MPIPool on the simulated communicator; chooser(enabled) -> index.
    returns (results or error string, action log, enabled-sets)"""
    world = MPI.World(size + 1)
    out = {}
    tasks = list(range(ntasks))

    def master():
        try:
            pool = mpipool.MPIPool(comm=world.comm(0), loadbalance=lb)
            out["results"] = pool.map(f_task, tasks)
            if second_map:
                out["results2"] = pool.map(f_task, tasks)
            pool.close()
        except BaseException as e:
            out["error"] = f"{type(e).__name__}: {e}"
        finally:
            with world.cv:
                world.finished.add(0)
                world.cv.notify_all()

    def worker(r):
        try:
            pool = mpipool.MPIPool(comm=world.comm(r), loadbalance=lb)
            pool.wait()
        except BaseException as e:
            out.setdefault("worker_errors", []).append(f"{type(e).__name__}: {e}")
        finally:
            with world.cv:
                world.finished.add(r)
                world.cv.notify_all()
    threads = [threading.Thread(target=master, daemon=True)] + [threading.Thread(target=worker, args=(r,), daemon=True) for r in range(1, size + 1)]
    for t in threads:
        t.start()
    log, enabled_sets = [], []
    deadline = time.time() + 20
    while True:
        with world.cv:
            # wait until every live rank is parked in recv (or finished)
            while not all((r in world.finished) or (r in world.pending and r not in world.delivery) for r in range(size + 1)):
                if not world.cv.wait(timeout=0.5) and time.time() > deadline:
                    return "err:simulation-timeout", log, enabled_sets
            if 0 in world.finished and "results" in out and all(r in world.finished for r in range(size + 1)):
                break
            options = []
            for r in sorted(world.pending):
                for (s, i) in world.matches(r):
                    options.append((r, s, i))
            if not options:
                if 0 in world.finished:
                    break
                return "err:deadlock", log, enabled_sets
            labels = [("w", r - 1) if r != 0 else ("m", s - 1) for (r, s, i) in options]
            k = chooser(labels)
            r, s, i = options[k]
            tag, obj = world.channels[(s, r)].pop(i)
            # messages after the first map (close messages, second map) are not part of the modelled call
            log.append(labels[k] + (type(obj).__name__,))
            enabled_sets.append(labels)
            world.delivery[r] = (s, tag, obj)
            world.cv.notify_all()
    if "error" in out:
        return "err:" + out["error"], log, enabled_sets
    return out, log, enabled_sets


def model_line(size, lb, ntasks, log):
    acts = [a for a in log if a[2] not in ("_close_pool_message",)]
    return f"mpi {size} {int(lb)} {ntasks} {len(acts)} " + " ".join(f"{a[0]} {a[1]}" for a in acts)


def check_schedule(ctx, ask, size, lb, ntasks, chooser, exhaustive=False):
    res, log, enabled = simulate(size, lb, ntasks, chooser)
    inp = {"workers": size, "loadbalance": lb, "ntasks": ntasks, "schedule": [f"{a[0]}{a[1]}" for a in log]}
    expected = [f_task(t) for t in range(ntasks)]
    if isinstance(res, str):
        ctx.fail("mpi-map-fails", inp, res, expected, "mpipool.MPIPool.map")
        return enabled
    got = res.get("results")
    if got != expected:
        ctx.fail("mpi-results-not-in-task-order", inp, got, expected, "mpipool.MPIPool.map")
    if res.get("worker_errors"):
        ctx.fail("mpi-worker-error", inp, res["worker_errors"][:2], "no error", "mpipool.MPIPool.wait")
    nmap = [a for a in log if a[2] != "_close_pool_message"]
    ask(model_line(size, lb, ntasks, nmap),
        lambda g, got=got, inp=inp: None if g == "Platypus.Phase.done " + " ".join(str(x) for x in (got or [])) or (not got and g.strip() == "Platypus.Phase.done")
        else ctx.disagree("MPIPool.map schedule replayed through the transition system (mpiStep)", inp, got, g))
    reordered = any(a[0] == "m" for a in log) and [a[1] for a in log if a[0] == "m"] != sorted(a[1] for a in log if a[0] == "m")
    ctx.case(("mpi", size, lb, ntasks, tuple(inp["schedule"])), ntasks > 1 and len(log) > ntasks,
             dict(inp, results=got) if len(ctx.samples) < 2 and ntasks >= 3 else None)
    ctx.count("mpi_schedules")
    return enabled


def enumerate_schedules(ctx, ask, size, lb, ntasks, limit):
    """stateless DFS over all scheduler choices"""
    stack = [[]]
    count = 0
    while stack and count < limit:
        prefix = stack.pop()
        pos = [0]
        seen = []

        def chooser(labels):
            k = prefix[pos[0]] if pos[0] < len(prefix) else 0
            seen.append(len(labels))
            pos[0] += 1
            return k
        check_schedule(ctx, ask, size, lb, ntasks, chooser, exhaustive=True)
        count += 1
        for depth in range(len(prefix), len(seen)):
            for alt in range(1, seen[depth]):
                stack.append(prefix + [0] * (depth - len(prefix)) + [alt])
    return count, not stack


# --------------------------------------------------------------------------- real pools

class SleepJob(E.Job):
    def __init__(self, k, delay):
        super().__init__()
        self.k, self.delay, self.out = k, delay, None

    def run(self):
        time.sleep(self.delay)
        self.out = f_task(self.k)


def check_pool(ctx, name, make, n, log_frequency, as_generator=False):
    delays = [0.002 * (n - k) for k in range(n)]          # later jobs finish first
    jobs = [SleepJob(k, d) for k, d in enumerate(delays)]
    ev, closer = make()
    try:
        kw = {} if log_frequency is None else {"log_frequency": log_frequency}
        # experiment() and calculate() hand the evaluator a one-shot generator of jobs, algorithms a list
        res = call(ev.evaluate_all, (j for j in jobs) if as_generator else jobs, **kw)
    finally:
        closer()
    inp = {"evaluator": name, "jobs": n, "log_frequency": log_frequency, "jobs_given_as": "generator" if as_generator else "list"}
    if isinstance(res, str):
        ctx.fail("evaluate_all-raises", inp, res, "results", "evaluator." + name)
        return
    got = [(getattr(j, "k", None), getattr(j, "out", None)) for j in res]
    exp = [(k, f_task(k)) for k in range(n)]
    if got != exp:
        ctx.fail("results-not-in-job-order", inp, got, exp, "evaluator." + name)
    ctx.case(("pool", name, n, log_frequency, as_generator), n > 1)
    ctx.count("pool_" + name)


class FlakyJob(SleepJob):
    """fails the first time it is run, succeeds afterwards (a worker that died, a transfer that failed)"""
    def __init__(self, k, delay, fail_first):
        super().__init__(k, delay)
        self.fail_first, self.attempts = fail_first, 0

    def run(self):
        self.attempts += 1
        if self.fail_first and self.attempts == 1:
            raise RuntimeError(f"transient failure of job {self.k}")
        super().run()


def check_flaky(ctx, name, make, n, log_frequency, bad):
    """one job of the batch fails on its first attempt.  The evaluator may let the error reach the caller (what the library does)
    or recover; whatever it *returns* must be the jobs in job order, each carrying its own result"""
    jobs = [FlakyJob(k, 0.001 * (n - k), k == bad) for k in range(n)]
    ev, closer = make()
    try:
        kw = {} if log_frequency is None else {"log_frequency": log_frequency}
        res = call(ev.evaluate_all, jobs, **kw)
    finally:
        closer()
    inp = {"evaluator": name, "jobs": n, "log_frequency": log_frequency, "job_failing_on_first_attempt": bad}
    ctx.count("flaky_batches")
    if isinstance(res, str):
        ctx.count("flaky_batches_error_reached_caller")
    else:
        got = [(getattr(j, "k", None), getattr(j, "out", None)) for j in res]
        exp = [(k, f_task(k)) for k in range(n)]
        if got != exp:
            ctx.fail("results-not-in-job-order", inp, got, exp, "evaluator." + name)
    ctx.case(("flaky", name, n, log_frequency, bad), True)


class DummyAlg(C.Algorithm):
    def step(self):
        pass


def check_mixed_batches(ctx, rng):
    spec = tracer.Spec("real", 2, 2, 1, [False, True], rng)
    # U = new unevaluated solution, E = evaluated one, C = offspring-style clone: a deep copy of the previous member whose
    # variables are then changed and which is marked unevaluated (what every variation operator hands to evaluate_all)
    import copy as _copy
    for layout in ["U", "E", "EU", "UE", "EUU", "UEUEU", "UUEE", "EEUU", "EUEUUE", "", "EC", "ECC", "UCEC", "ECUCE"]:
        for evname in ("map", "pickle", "thread"):
            tr = tracer.Trace()
            prob = tracer.TracedProblem(spec, tr)
            ev, closer = tracer.make_evaluator(evname, tr)
            alg = DummyAlg(prob, evaluator=ev)
            sols = []
            for ch in layout:
                if ch == "C" and sols:
                    s = _copy.deepcopy(sols[-1])
                    s.variables[:] = [t.rand() for t in prob.types]
                    s.evaluated = False
                else:
                    s = C.Solution(prob)
                    s.variables[:] = [t.rand() for t in prob.types]
                    if ch == "E":
                        s.evaluate()
                sols.append(s)
            before = [list(s.variables) for s in sols]
            r = call(alg.evaluate_all, sols)
            if closer:
                closer()
            inp = {"layout": layout, "evaluator": evname}
            if isinstance(r, str):
                ctx.fail("evaluate_all-raises", inp, r, "batch evaluated", "core.Algorithm.evaluate_all")
                continue
            for i, s in enumerate(sols):
                eo, ec = spec.F(list(s.variables))
                if list(s.variables) != before[i]:
                    ctx.fail("variables-changed-by-evaluation", dict(inp, index=i), list(s.variables), before[i], "core.Algorithm.evaluate_all")
                    break
                if not s.evaluated or list(s.objectives) != eo or list(s.constraints) != ec:
                    ctx.fail("objectives-do-not-belong-to-variables", dict(inp, index=i), [s.evaluated, list(s.objectives)], [True, eo], "core.Algorithm.evaluate_all")
                    break
            if alg.nfe != len(sols):
                ctx.fail("counter", inp, alg.nfe, len(sols), "core.Algorithm.evaluate_all")
            ctx.case(("mixed", layout, evname), "E" in layout and "U" in layout)


def _twin_f(x):
    return [math.atan2(x[0], -1.0) + x[1], math.copysign(1.0, x[0]) * (1.0 + x[1])]


def _penalty_f(x):
    # legitimate non-finite objective values: +inf / -inf penalties, a NaN for a failed evaluation
    return [float("inf") if x[0] > 0.5 else (float("nan") if x[0] < -0.9 else x[0] * 1e308 * 10 if x[0] == 0.125 else x[0]),
            float("-inf") if x[1] < -0.5 else x[1] * 3.0]


def check_penalty_batches(ctx, rng):
    """objective values that are infinite or NaN are values like any other: what a solution holds after the batch is what
    the function returned for its variables, under every evaluator"""
    from platypus import Problem, Real
    f = _penalty_f
    p = Problem(2, 2, function=f)
    p.types[:] = Real(-1, 1)
    for evname in ("map", "pickle", "thread"):
        for layout in ([[0.75, 0.0], [0.25, -0.75], [0.9, -0.9]], [[-0.95, 0.1], [0.125, 0.2], [0.3, 0.3], [0.6, -0.6]],
                       [[rng.choice([0.75, -0.95, 0.125, 0.25]), rng.choice([-0.75, 0.5])] for _ in range(7)]):
            tr = tracer.Trace()
            ev, closer = tracer.make_evaluator(evname, tr)
            alg = DummyAlg(p, evaluator=ev)
            sols = []
            for v in layout:
                s_ = C.Solution(p)
                s_.variables[:] = list(v)
                sols.append(s_)
            r = call(alg.evaluate_all, sols)
            if closer:
                closer()
            inp = {"batch": layout, "evaluator": evname, "function": "+inf for x0 > 0.5, NaN for x0 < -0.9, overflow to inf at x0 = 0.125, -inf for x1 < -0.5"}
            if isinstance(r, str):
                ctx.fail("evaluate_all-raises", inp, r, "batch evaluated", "core.Algorithm.evaluate_all")
                continue
            for i, (s_, v) in enumerate(zip(sols, layout)):
                if not s_.evaluated or [repr(float(o)) for o in s_.objectives] != [repr(float(o)) for o in f(v)]:
                    ctx.fail("objectives-do-not-belong-to-variables", dict(inp, index=i), [s_.evaluated, [repr(o) for o in s_.objectives]], [True, [repr(o) for o in f(v)]],
                             "core.Algorithm.evaluate_all")
                    break
            ctx.case(("penalties", evname, repr(layout)), True)
    ctx.count("non_finite_objective_batches")


def check_twin_batches(ctx, rng):
    """batches containing decision vectors that compare equal but are different inputs (0.0 / -0.0), or that are identical:
    every member is evaluated as itself"""
    import math as _m
    from platypus import Problem, Real
    f = _twin_f
    p = Problem(2, 2, function=f)
    p.types[:] = Real(-1, 1)
    for evname in ("map", "pickle", "thread"):
        for layout in ([[0.0, 0.5], [-0.0, 0.5]], [[-0.0, 0.25], [0.0, 0.25], [0.0, 0.25]], [[0.0, 0.0], [-0.0, -0.0], [0.0, -0.0], [-0.0, 0.0]],
                       [[0.5, 0.5], [0.5, 0.5]], [[rng.choice([0.0, -0.0]), rng.choice([0.25, -0.25])] for _ in range(6)]):
            tr = tracer.Trace()
            ev, closer = tracer.make_evaluator(evname, tr)
            alg = DummyAlg(p, evaluator=ev)
            sols = []
            for v in layout:
                s_ = C.Solution(p)
                s_.variables[:] = list(v)
                sols.append(s_)
            r = call(alg.evaluate_all, sols)
            if closer:
                closer()
            inp = {"batch": [[repr(a) for a in v] for v in layout], "evaluator": evname}
            if isinstance(r, str):
                ctx.fail("evaluate_all-raises", inp, r, "batch evaluated", "core.Algorithm.evaluate_all")
                continue
            for i, (s_, v) in enumerate(zip(sols, layout)):
                same_vars = all(a == b and _m.copysign(1, a) == _m.copysign(1, b) for a, b in zip(s_.variables, v))
                if not same_vars:
                    ctx.fail("variables-changed-by-evaluation", dict(inp, index=i), [repr(a) for a in s_.variables], [repr(a) for a in v], "core.Algorithm.evaluate_all")
                    break
                if not s_.evaluated or list(s_.objectives) != f(v):
                    ctx.fail("objectives-do-not-belong-to-variables", dict(inp, index=i), [s_.evaluated, list(s_.objectives)], [True, f(v)], "core.Algorithm.evaluate_all")
                    break
            ctx.case(("twins", evname, repr(layout)), True)
    ctx.count("twin_batches")


def check_experiment(ctx, rng):
    from platypus import NSGAII, GeneticAlgorithm, experiment, DTLZ2, ZDT1
    from concurrent.futures import ThreadPoolExecutor
    from multiprocessing.pool import ThreadPool
    all_algos = [(NSGAII, {"population_size": 4}, "A4", 4), (NSGAII, {"population_size": 6}, "A6", 6), (NSGAII, {"population_size": 8}, "A8", 8)]
    all_probs = [(lambda: DTLZ2(2), "P2", 2), (lambda: DTLZ2(3), "P3", 3), (lambda: DTLZ2(4), "P4", 4)]
    # every shape of the algorithm x problem grid: several algorithms on one problem, one algorithm on several problems, a full grid
    shapes = [(2, 2, 3), (3, 1, 2), (1, 3, 2), (2, 1, 1), (1, 1, 3), (3, 3, 1)]
    for evname in ("default", "thread", "pool"):
        for (na, npb, nseeds) in shapes:
            ex = ThreadPoolExecutor(3) if evname == "thread" else None
            tp = ThreadPool(3) if evname == "pool" else None
            ev = E.SubmitEvaluator(ex.submit) if ex else (E.PoolEvaluator(tp) if tp else None)
            algos_ = rng.sample(all_algos, na)
            probs_ = rng.sample(all_probs, npb)
            algos = [(c, kw, nm) for c, kw, nm, _ in algos_]
            probs = [(mk(), nm) for mk, nm, _ in probs_]
            import random as _r
            _r.seed(ctx.seed)
            res = call(platypus.experiment, algos, probs, seeds=nseeds, nfe=12, evaluator=ev)
            if ex:
                ex.shutdown()
            if tp:
                tp.terminate()
            inp = {"evaluator": evname, "algorithms": [a[2] for a in algos], "problems": [q[1] for q in probs], "seeds": nseeds}
            if isinstance(res, str):
                ctx.fail("experiment-raises", inp, res, "results", "experimenter.experiment")
                continue
            if sorted(res.keys()) != sorted(a[2] for a in algos):
                ctx.fail("experiment-entries", inp, sorted(res.keys()), sorted(a[2] for a in algos), "experimenter.experiment")
                continue
            for _, _, a, size in algos_:
                if sorted(res[a].keys()) != sorted(q[1] for q in probs):
                    ctx.fail("experiment-entries", dict(inp, algorithm=a), sorted(res[a].keys()), sorted(q[1] for q in probs), "experimenter.experiment")
                    continue
                for _, pn, nobjs in probs_:
                    entries = res.get(a, {}).get(pn)
                    if entries is None or len(entries) != nseeds:
                        ctx.fail("experiment-entries", dict(inp, algorithm=a, problem=pn), None if entries is None else len(entries), nseeds, "experimenter.experiment")
                        continue
                    for r in entries:
                        if len(r) != size or any(s.problem.nobjs != nobjs for s in r):
                            ctx.fail("experiment-result-filed-under-wrong-key", dict(inp, algorithm=a, problem=pn), [len(r), r[0].problem.nobjs], [size, nobjs], "experimenter.experiment")
                            break
            ctx.case(("experiment", evname, na, npb, nseeds), na * npb * nseeds > 1)


def run(ctx, drv):
    rng = ctx.rng
    ctx.nontrivial_rule = ("MPI: schedules of the real MPIPool on a simulated communicator, workers 1-4, tasks 0-9, with and without load "
                           "balancing; exhaustive enumeration of all schedules for small (workers, tasks); random schedules otherwise. "
                           "real pools: thread / apply-async / multiprocessing / process-pool executors with delays reversing the "
                           "completion order, batch sizes {0,1,<workers,>workers}, chunk sizes {None,1,2,n,n+1,0,-1}. mixed batches "
                           "through Algorithm.evaluate_all; experiment filing. non-trivial = more than one job; distinct by configuration + job generators (what experiment() passes) through every evaluator, offspring-style clones and 0.0 / -0.0 twins in evaluate_all batches, experiment() with a pool evaluator, one simulated MPI batch beyond 2^15 tasks")
    reqs, post = [], []

    def ask(line, fn):
        reqs.append(line); post.append(fn)
    # ---- (a) MPI
    small = [(1, 0), (1, 1), (1, 2), (1, 3), (2, 2), (2, 3)] + ([(2, 4), (3, 3), (3, 4)] if not ctx.quick() else [])
    for size, nt in small:
        for lb in (False, True):
            cnt, complete = enumerate_schedules(ctx, ask, size, lb, nt, 400 if ctx.quick() else 20000)
            ctx.count("mpi_exhaustive_configs" if complete else "mpi_truncated_configs")
    nrand = 150 if ctx.quick() else 3000
    for _ in range(nrand):
        size, nt, lb = rng.randrange(1, 5), rng.randrange(0, 10), rng.random() < 0.6
        check_schedule(ctx, ask, size, lb, nt, lambda labels: rng.randrange(len(labels)))
    # second map() on the same pool (function not re-sent)
    for _ in range(10):
        size, nt, lb = rng.randrange(1, 4), rng.randrange(1, 7), rng.random() < 0.5
        res, log, _ = simulate(size, lb, nt, lambda labels: rng.randrange(len(labels)), second_map=True)
        if isinstance(res, str) or res.get("results2") != [f_task(t) for t in range(nt)]:
            ctx.fail("mpi-second-map-wrong", {"workers": size, "loadbalance": lb, "ntasks": nt}, res if isinstance(res, str) else res.get("results2"),
                     [f_task(t) for t in range(nt)], "mpipool.MPIPool.map")
    # ---- (b) real pools
    from concurrent.futures import ThreadPoolExecutor
    from multiprocessing.pool import ThreadPool

    def mk_thread():
        ex = ThreadPoolExecutor(3)
        return E.SubmitEvaluator(ex.submit), ex.shutdown

    def mk_apply():
        p = ThreadPool(3)
        return E.ApplyEvaluator(p.apply_async), p.terminate

    def mk_poolmap():
        p = ThreadPool(3)
        return E.PoolEvaluator(p), (lambda: None)

    def mk_map():
        return E.MapEvaluator(), (lambda: None)

    def mk_process():
        ev = E.ProcessPoolEvaluator(2)
        return ev, ev.close
    makers = [("MapEvaluator", mk_map), ("SubmitEvaluator", mk_thread), ("ApplyEvaluator", mk_apply), ("PoolEvaluator", mk_poolmap)]
    for name, mk in makers:
        for n in (0, 1, 2, 5):
            for lf in (None, 1, 2, n, n + 1, 0, -1):
                check_pool(ctx, name, mk, n, lf)
                reqs.append(f"chunks {0 if lf is None else lf} {n}"); post.append(lambda g: None)
    for name, mk in makers:
        for n in (0, 1, 2, 5):
            check_pool(ctx, name, mk, n, None, as_generator=True)
    # a job that fails once, in every position of batches that span several log chunks
    for name, mk in makers:
        for n, lf in ((5, None), (5, 2), (7, 3), (4, 1)):
            for bad in range(n):
                check_flaky(ctx, name, mk, n, lf, bad)
    check_pool(ctx, "ProcessPoolEvaluator", mk_process, 4, None)
    if not ctx.quick():
        check_pool(ctx, "ProcessPoolEvaluator", mk_process, 7, 2)
    # chunk structure against the model
    chunks_fn = getattr(E, "_chunks", None)         # a private helper named in the property's anchors; judged through the evaluators if it is gone
    if chunks_fn is None:
        ctx.notes.append("evaluator._chunks not present: block-size correspondence skipped (chunking is still judged through the evaluators)")
    for n in range(0, 8) if chunks_fn is not None else ():
        for lf in (-1, 0, 1, 2, 3, n, n + 1):
            sizes = [len(c) for c in chunks_fn(list(range(n)), lf)]
            ask(f"chunks {lf} {n}", lambda g, sizes=sizes, n=n, lf=lf: None if g.split()[1:] == ([str(x) for x in sizes] or ["-"])
                else ctx.disagree("_chunks block sizes", {"items": n, "n": lf}, sizes, g))
    # futures completing in any order (model) vs collection in submission order
    for n in range(0, 5):
        for order in itertools.permutations(range(n)):
            ask(f"futures {n} {wlist(order)}", lambda g, n=n: None if g.split()[1:] == ([str(f_task(k)) for k in range(n)] or ["-"])
                else ctx.disagree("collect(completeAll order) = map run", {"n": n}, [f_task(k) for k in range(n)], g))
    # ---- one batch beyond 2**15 tasks (message tags are task indices: they must not wrap), judged by the statement only
    big = 32768 + rng.randrange(3, 40)
    res_big, log_big, _ = simulate(2, True, big, lambda labels: len(labels) - 1 if len(labels) % 2 else 0)
    binp = {"workers": 2, "loadbalance": True, "ntasks": big}
    if isinstance(res_big, str):
        ctx.fail("mpi-map-fails", binp, res_big, "results in task order", "mpipool.MPIPool.map")
    elif res_big.get("results") != [f_task(t) for t in range(big)]:
        got_ = res_big.get("results") or []
        wrong = [i for i, (a, b) in enumerate(zip(got_, (f_task(t) for t in range(big)))) if a != b][:5]
        ctx.fail("mpi-results-not-in-task-order", dict(binp, first_wrong_positions=wrong), [got_[i] for i in wrong], [f_task(i) for i in wrong], "mpipool.MPIPool.map")
    ctx.case(("mpi-big", big), True)
    ctx.count("mpi_large_batches")
    # ---- (c) (d)
    check_mixed_batches(ctx, rng)
    check_twin_batches(ctx, rng)
    check_penalty_batches(ctx, rng)
    check_experiment(ctx, rng)
    if drv.ok:
        out = drv.batch(reqs)
        for g, fn in zip(out, post):
            fn(g)


def replay(ctx, path):
    import json
    r = json.load(open(path))
    print(json.dumps(r.get("failure", r), indent=1)[:3000])
    return 0
