"""Shared helpers for the indicator properties (C10, C15, C16): building problems / solution sets,
wire encoding, and oracles written from the textbook definitions in exact (Fraction) arithmetic."""
import itertools
import math
from fractions import Fraction

from common import wf, wq, wlist
from plat import mk_problem, mk_sol

from platypus import core as C
from platypus import indicators as I


def isol_f(s):
    return f"{wf(s.constraint_violation)} {wlist(list(s.objectives), wf)}"


def isol_q(s):
    return f"{wq(s.constraint_violation)} {wlist(list(s.objectives), wq)}"


def set_f(sols):
    return f"{len(sols)} " + " ".join(isol_f(s) for s in sols)


def set_q(sols):
    return f"{len(sols)} " + " ".join(isol_q(s) for s in sols)


def dirs_w(dirs):
    return wlist(dirs, lambda d: "1" if d else "0")


def gen_points(rng, n, nobjs, lattice, lo=-0.5, hi=1.5):
    pts = []
    for _ in range(n):
        if pts and rng.random() < 0.12:
            pts.append(list(rng.choice(pts)))                          # duplicate vector
            continue
        if lattice:
            p = [rng.randrange(int(lo * 8), int(hi * 8) + 1) / 8.0 for _ in range(nobjs)]
        else:
            p = [rng.uniform(lo, hi) if rng.random() < 0.85 else rng.choice([0.0, 1.0, 0.5, lo, hi]) for _ in range(nobjs)]
        if pts and rng.random() < 0.2:                                 # tie in a single coordinate
            k = rng.randrange(nobjs)
            p[k] = rng.choice(pts)[k]
        pts.append(p)
    return pts


def to_min_form(dirs, mn, mx, objs):
    """normalised, direction-adjusted (smaller is better, ideal 0, nadir 1), exact"""
    out = []
    for d, lo, hi, x in zip(dirs, mn, mx, objs):
        n = (Fraction(x) - Fraction(lo)) / (Fraction(hi) - Fraction(lo))
        out.append(1 - n if d else n)
    return out


def hv_exact(dirs, mn, mx, sols):
    """volume dominated by the feasible solutions not worse than the nadir, bounded by the nadir, clipped at the ideal"""
    pts = []
    for s in sols:
        if s.constraint_violation != 0:
            continue
        m = to_min_form(dirs, mn, mx, list(s.objectives))
        if any(v > 1 for v in m):
            continue
        pts.append(tuple(max(Fraction(0), v) for v in m))
    pts = list(dict.fromkeys(pts))
    # drop dominated points (does not change the union) to keep inclusion-exclusion small
    nd = [p for p in pts if not any(q != p and all(a <= b for a, b in zip(q, p)) for q in pts)]
    total = Fraction(0)
    for r in range(1, len(nd) + 1):
        for S in itertools.combinations(nd, r):
            vol = Fraction(1)
            for k in range(len(dirs)):
                vol *= (1 - max(p[k] for p in S))
            total += vol if r % 2 else -vol
    return total


def norm_exact(mn, mx, objs):
    return [(Fraction(x) - Fraction(lo)) / (Fraction(hi) - Fraction(lo)) for lo, hi, x in zip(mn, mx, objs)]


def ref_bounds(ref, nobjs):
    feas = [s for s in ref if s.constraint_violation == 0]
    return ([min(s.objectives[i] for s in feas) for i in range(nobjs)], [max(s.objectives[i] for s in feas) for i in range(nobjs)])


def gd_exact(ref, aset, nobjs, d=2.0, inverted=False):
    mn, mx = ref_bounds(ref, nobjs)
    R = [norm_exact(mn, mx, list(s.objectives)) for s in ref if s.constraint_violation == 0]
    A = [norm_exact(mn, mx, list(s.objectives)) for s in aset if s.constraint_violation == 0]
    if not inverted and not A:
        return math.inf
    src, dst = (R, A) if inverted else (A, R)
    if not dst:
        return math.inf
    tot = 0.0
    for x in src:
        dist = min(math.sqrt(float(sum((a - b) ** 2 for a, b in zip(x, y)))) for y in dst)
        tot += dist ** d
    return tot ** (1.0 / d) / len(src)


def eps_exact(dirs, ref, aset, nobjs):
    """additive epsilon: the smallest shift making every reference point weakly dominated by some member (declared directions)"""
    mn, mx = ref_bounds(ref, nobjs)
    R = [norm_exact(mn, mx, list(s.objectives)) for s in ref if s.constraint_violation == 0]
    A = [norm_exact(mn, mx, list(s.objectives)) for s in aset if s.constraint_violation == 0]
    if not A:
        return math.inf
    return max(min(max(((r[k] - a[k]) if dirs[k] else (a[k] - r[k])) for k in range(nobjs)) for a in A) for r in R)


def spacing_exact(aset):
    F = [list(map(Fraction, s.objectives)) for s in aset if s.constraint_violation == 0]
    if len(F) < 2:
        return 0.0
    ds = [min(sum(abs(a - b) for a, b in zip(x, y)) for j, y in enumerate(F) if j != i) for i, x in enumerate(F)]
    avg = sum(ds) / len(F)
    return math.sqrt(float(sum((d - avg) ** 2 for d in ds) / (len(F) - 1)))


def close(a, b, rel=1e-9):
    a, b = float(a), float(b)
    if a == b:
        return True
    if math.isinf(a) or math.isinf(b) or a != a or b != b:
        return False
    return abs(a - b) <= rel * max(1.0, abs(a), abs(b))
