"""C19 — saved solution files read back exactly.  Real files in a scratch directory (lists, archives, live
algorithms; all variable types with JSON-native elements; adversarial doubles), loaded with and without a
problem; the raw JSON document of every file is also decoded by the Lean model of the decoder (document-order
object_hook with threaded state) and the two decoded structures are compared bit for bit."""
import json
import math
import os
import random as _random
import re
import shutil
import struct
import tempfile

from common import wf, f2bits
from plat import call

import tracer
import platypus
from platypus import core as C
from platypus import io as IO
from platypus import algorithms as A

ADV = [0.0, -0.0, 5e-324, -5e-324, 2.2250738585072014e-308, 1.7976931348623157e308, -1.7976931348623157e308, math.inf, -math.inf,
       0.1 + 0.2, 1 / 3, 1e-7, 123456789.12345679, 1e22, 1e23, 9007199254740993.0, 0.30000000000000004]


def rand_double(rng):
    r = rng.random()
    if r < 0.45:
        return rng.choice(ADV)
    if r < 0.8:
        while True:
            x = struct.unpack("<d", struct.pack("<Q", rng.getrandbits(64)))[0]
            if x == x:
                return x
    return rng.uniform(-10, 10)


def hexs(s):
    return ".".join(format(ord(c), "x") for c in s) if s else "-"


def jwire(v):
    if v is None:
        return "N"
    if v is True:
        return "T"
    if v is False:
        return "F"
    if isinstance(v, int):
        return f"I {v}"
    if isinstance(v, float):
        return f"D {f2bits(v)}"
    if isinstance(v, str):
        return f"S {hexs(v)}"
    if isinstance(v, list):
        return f"L {len(v)} " + " ".join(jwire(x) for x in v) if v else "L 0"
    if isinstance(v, dict):
        return f"O {len(v)} " + " ".join(f"{hexs(k)} {jwire(x)}" for k, x in v.items()) if v else "O 0"
    raise TypeError(type(v))


def jshow(v):
    if v is None:
        return "N"
    if v is True:
        return "T"
    if v is False:
        return "F"
    if isinstance(v, int):
        return f"I{v}"
    if isinstance(v, float):
        return f"D{f2bits(v)}"
    if isinstance(v, str):
        return "S" + hexs(v)
    if isinstance(v, (list, tuple)) or hasattr(v, "__iter__"):
        return "[" + ",".join(jshow(x) for x in v) + "]"
    raise TypeError(type(v))


def cons_of(problem):
    """(op, y) of every declared constraint of a real problem, read off its op string"""
    out = []
    for c in problem.constraints:
        m = re.match(r"^([<>=!]+)\s*(\S+)$", c.op)
        out.append((m.group(1), float(m.group(2))))
    return out


def pdesc_show(problem):
    dirs = "".join("1" if d == C.Direction.MAXIMIZE else "0" for d in problem.directions)
    return f"{problem.nvars},{problem.nobjs},{problem.nconstrs},{dirs}," + "/".join(o + wf(y) for o, y in cons_of(problem))


def show_loaded(s):
    cv = float(s.constraint_violation)
    cv = 0.0 if cv == 0 else cv
    return (f"vars={jshow(list(s.variables))};objs={jshow(list(s.objectives))};cons={jshow(list(s.constraints))};cv={wf(cv)};"
            f"f={int(bool(s.feasible))};p={pdesc_show(s.problem)}")


def make_solutions(rng, spec, prob, n, adversarial=True):
    sols = []
    for _ in range(n):
        s = C.Solution(prob)
        s.variables[:] = [t.rand() for t in prob.types]
        if spec.kind == "real" and adversarial:
            s.variables[:] = [rand_double(rng) for _ in prob.types]
        s.objectives[:] = [rand_double(rng) for _ in range(spec.nobjs)]
        s.constraints[:] = [rng.choice([0.0, -0.0, 1.0, -1.5, 2.0, rand_double(rng), 3, 0, -2]) for _ in range(spec.nconstrs)]
        if spec.nconstrs >= 2 and rng.random() < 0.08:
            # violations that are finite one by one but not in total, and totals that sit on a rounding tie
            s.constraints[:] = rng.choice([[rng.choice([1e308, -1.7e308, 8.9e307]) for _ in range(spec.nconstrs)],
                                           ([1.0, 2.0 ** -53, 2.0 ** -106] * spec.nconstrs)[:spec.nconstrs]])
        s.constraint_violation = sum([abs(f(x)) for f, x in zip(prob.constraints, s.constraints)])
        s.feasible = s.constraint_violation == 0.0
        s.evaluated = True
        sols.append(s)
    return sols


def same_value(a, b):
    if isinstance(a, float) or isinstance(b, float):
        return isinstance(a, (int, float)) and isinstance(b, (int, float)) and not isinstance(a, bool) and not isinstance(b, bool) and \
            f2bits(float(a)) == f2bits(float(b)) and (isinstance(a, float) == isinstance(b, float))
    if isinstance(a, (list, tuple)) and isinstance(b, (list, tuple)):
        return len(a) == len(b) and all(same_value(x, y) for x, y in zip(a, b))
    return type(a) is type(b) and a == b


def run(ctx, drv):
    rng = ctx.rng
    ctx.nontrivial_rule = ("files written with save_json from a list, an Archive and a live algorithm (NSGA-II / eps-MOEA after a few steps), "
                           "variable types real / integer (bit strings) / binary / permutation / subset with int or string elements, "
                           "constrained and unconstrained, minimised and maximised, doubles from an adversarial pool (+-0.0, subnormals, "
                           "max, +-inf, random bit patterns) ; loaded with and without the problem; objectives text files. one case = one "
                           "(file, load mode); non-trivial = >= 2 solutions and >= 1 constraint or maximised objective; distinct by file content + constraints declared with the two-argument form and 17-digit thresholds, zero-valued constraints under declarations that reject zero, totals that overflow, numpy.float64 objective values in objective files")
    reqs, post = [], []

    def ask(line, fn):
        reqs.append(line); post.append(fn)
    tmp = tempfile.mkdtemp(prefix="c19_", dir=os.environ.get("TMPDIR", "/tmp"))
    open(os.path.join(tmp, f".owner{os.getpid()}"), "w").close()
    n = 260 if ctx.quick() else 4000
    try:
        for t in range(n):
            kind = ["real", "int", "binary", "perm", "subset"][t % 5]
            nobjs = rng.choice([1, 2, 3])
            ncon = rng.choice([0, 0, 1, 2, 3])
            dirs = [rng.random() < 0.4 for _ in range(nobjs)]
            spec = tracer.Spec(kind, rng.randrange(1, 4), nobjs, ncon, dirs, rng, elements=rng.choice(["int", "str", "numstr"]))
            prob = tracer.TracedProblem(spec, None)
            source = ["list", "archive", "algorithm"][(t // 5) % 3]
            path = os.path.join(tmp, f"f{t}.json")
            callable_cons = source != "algorithm" and ncon > 0 and t % 7 == 3
            if callable_cons:       # constraints given as functions returning a signed residual (not representable in a file: supplied on load)
                prob.constraints[:] = [C.Constraint(lambda x, k=k: x - float(k)) for k in range(ncon)]
            decl_exact = None
            if source == "algorithm" and ncon > 0 and t % 2 == 0:
                # constraints declared with the two-argument form and thresholds that need all 17 digits
                decl_exact = [(rng.choice(["<=", ">=", "<", ">", "==", "!="]),
                               rng.choice([1 / 3, 0.7071067811865476, 123456.789, -98765.4321, 1.000000001e-07, 2.0 ** 53 - 1, rand_double(rng) if False else 0.1 + 0.2]))
                              for _ in range(ncon)]
                for i_, (o_, y_) in enumerate(decl_exact):
                    prob.constraints[i_] = C.Constraint(o_, y_)
            if source == "algorithm":
                name = rng.choice(["NSGAII", "EpsMOEA", "SPEA2"])
                if name == "EpsMOEA":
                    alg = A.EpsMOEA(prob, epsilons=[0.5], population_size=6)
                else:
                    alg = getattr(A, name)(prob, population_size=6)
                _random.seed(rng.randrange(2 ** 31))
                r = call(alg.run, 18)
                if isinstance(r, str):
                    ctx.count("algorithm_runs_refused")
                    continue
                original = list(alg.result)
                if ncon > 0 and t % 4 == 1:
                    # results whose constraint values are exactly zero under declarations that do and do not admit zero
                    for i_ in range(ncon):
                        prob.constraints[i_] = rng.choice(["<0", ">0", "!=0", ">=1", "<=-0.5", "==0", "<=0", ">=0"])
                    for s_ in original:
                        s_.constraints[:] = [rng.choice([0.0, 0.0, -0.0, 0]) for _ in range(ncon)]
                        s_.constraint_violation = sum([abs(f(x)) for f, x in zip(prob.constraints, s_.constraints)])
                        s_.feasible = s_.constraint_violation == 0.0
                w = call(IO.save_json, path, alg)
            else:
                original = make_solutions(rng, spec, prob, rng.choice([0, 1, 2, 5]), adversarial=True)
                obj = original
                if source == "archive":
                    class _Incomparable(C.Dominance):          # an archive as a container of exactly these solutions: nothing dominates
                        def compare(self, a_, b_):
                            return 0
                    arch = C.Archive(_Incomparable())
                    for s_ in original:
                        arch.add(s_)
                    obj = arch
                w = call(IO.save_json, path, obj)
            inp = {"source": source, "problem": spec.describe(), "n": len(original), "file": open(path).read()[:600] if os.path.exists(path) else None}
            if isinstance(w, str):
                ctx.fail("save-raises", inp, w, "file written", "io.save_json")
                continue
            raw = json.load(open(path))
            table = {}
            for c in ([] if callable_cons else prob.constraints):
                m = re.match(r"^([<>=!]+)\s*(\S+)$", c.op)
                table[c.op] = (m.group(1), float(m.group(2)))
            table["==0"] = ("==", 0.0)
            tw = f"{len(table)} " + " ".join(f"{hexs(k)} {o} {wf(y)}" for k, (o, y) in table.items())
            for mode in (("with-problem",) if callable_cons else ("without-problem", "with-problem")):
                supplied = prob if mode == "with-problem" else None
                loaded = call(IO.load_json, path, supplied)
                minp = dict(inp, load=mode)
                if isinstance(loaded, str):
                    ctx.fail("load-raises", minp, loaded, "solutions", "io.load_json")
                    continue
                loaded = list(loaded)
                # ---------------- model of the decoder on the same document
                pw = "P0" if (supplied is None or callable_cons) else (f"P1 {prob.nvars} {prob.nobjs} {prob.nconstrs} {len(dirs)} " + " ".join("1" if d else "0" for d in dirs) +
                                                    f" {ncon} " + " ".join(f"{o} {wf(y)}" for o, y in cons_of(prob))).rstrip()
                obs = "" if callable_cons else f"{len(loaded)} " + " ".join(show_loaded(s) for s in loaded)
                if not callable_cons:
                  ask(f"jdecode 1 {tw} {pw} {jwire(raw)}",
                      lambda g, obs=obs, minp=minp: None if g.rsplit(" final=", 1)[0].strip() == obs.strip()
                      else ctx.disagree("JSON decoder (object_hook order, threaded problem) vs load_json", minp, obs[:700], g[:700]))
                # ---------------- oracle from the statement
                if len(loaded) != len(original):
                    ctx.fail("number-of-solutions-changed", minp, len(loaded), len(original), "io.load_json")
                    continue
                bad = False
                for i, (a, b) in enumerate(zip(original, loaded)):
                    for fld in ("variables", "objectives", "constraints"):
                        if not same_value(list(getattr(a, fld)), list(getattr(b, fld))):
                            ctx.fail(f"{fld}-not-reproduced-exactly", dict(minp, index=i), repr(list(getattr(b, fld)))[:200], repr(list(getattr(a, fld)))[:200], "io.save_json / io.load_json")
                            bad = True
                            break
                    if bad:
                        break
                    ecv = sum([abs(f(x)) for f, x in zip(b.problem.constraints, b.constraints)])
                    if b.constraint_violation != ecv or b.feasible != (ecv == 0.0):
                        ctx.fail("violation-not-recomputed-from-the-loaded-problem", dict(minp, index=i), [b.constraint_violation, b.feasible], [ecv, ecv == 0.0], "io._PlatypusJSONDecoder")
                        bad = True
                        break
                    if not callable_cons:
                        # feasibility straight from the declared relations (not through the library's constraint functions)
                        REL = {"==": lambda x, y: x == y, "!=": lambda x, y: x != y, "<=": lambda x, y: x <= y, ">=": lambda x, y: x >= y,
                               "<": lambda x, y: x < y, ">": lambda x, y: x > y}
                        holds = all(REL[o_](float(x_), y_) for (o_, y_), x_ in zip(cons_of(b.problem), b.constraints))
                        if bool(b.feasible) != holds or (b.constraint_violation == 0) != holds:
                            ctx.fail("loaded-feasibility-contradicts-declared-relations", dict(minp, index=i, constraints=[c.op for c in b.problem.constraints],
                                                                                             values=[repr(x_) for x_ in b.constraints]),
                                     [b.constraint_violation, b.feasible], holds, "io._PlatypusJSONDecoder / core.Constraint")
                            bad = True
                            break
                    if callable_cons:
                        if b.problem is not prob:
                            ctx.fail("supplied-problem-not-used", dict(minp, index=i), "another problem", "the supplied problem", "io._PlatypusJSONDecoder")
                            bad = True
                            break
                    elif mode == "with-problem" or source == "algorithm":
                        if [c.op for c in b.problem.constraints] != [c.op for c in prob.constraints] or \
                                list(b.problem.directions) != list(prob.directions) or \
                                (b.problem.nvars, b.problem.nobjs, b.problem.nconstrs) != (prob.nvars, prob.nobjs, prob.nconstrs):
                            ctx.fail("problem-definition-not-restored", dict(minp, index=i),
                                     {"constraints": [c.op for c in b.problem.constraints], "directions": [d.name for d in b.problem.directions]},
                                     {"constraints": [c.op for c in prob.constraints], "directions": [d.name for d in prob.directions]}, "io._PlatypusJSONDecoder.object_hook")
                            ctx.failures[-1]["input_class"] = "algorithm-file-loaded-without-problem" if (source == "algorithm" and mode == "without-problem") else None
                            bad = True
                            break
                        # the restored constraints behave like the declared ones, also right at their thresholds
                        import math as _m
                        thr = decl_exact if decl_exact is not None else cons_of(prob)
                        for ci, (o_, y_) in enumerate(thr):
                            for x_ in (y_, _m.nextafter(y_, _m.inf), _m.nextafter(y_, -_m.inf), y_ + 1.0, y_ - 1.0):
                                va, vb = call(prob.constraints[ci], x_), call(b.problem.constraints[ci], x_)
                                if not same_value([va], [vb]):
                                    ctx.fail("problem-definition-not-restored", dict(minp, index=i, constraint=f"{o_} {y_!r}", at=repr(x_)), repr(vb), repr(va), "io._PlatypusJSONDecoder.object_hook")
                                    ctx.failures[-1]["input_class"] = "restored-constraint-behaves-differently"
                                    bad = True
                                    break
                            if bad:
                                break
                        if bad:
                            break
                        if b.constraint_violation != a.constraint_violation or b.feasible != a.feasible:
                            ctx.fail("violation-or-feasibility-changed", dict(minp, index=i), [b.constraint_violation, b.feasible], [a.constraint_violation, a.feasible], "io._PlatypusJSONDecoder.object_hook")
                            bad = True
                            break
                ctx.case((open(path).read(), mode), len(original) >= 2 and (ncon > 0 or any(dirs)),
                         dict(minp, file=inp["file"][:200]) if len(ctx.samples) < 3 and source == "algorithm" else None)
                ctx.count(f"{source}:{mode}")
            # ---------------- objectives text file
            if t % 4 == 0 and original:
                op = os.path.join(tmp, f"o{t}.txt")
                if t % 8 == 0:
                    # objective values as a numpy-based evaluate() leaves them: numpy.float64 (a float subclass)
                    try:
                        import numpy as _np
                        import copy as _copy
                        original = [_copy.deepcopy(s_) for s_ in original]
                        for s_ in original:
                            s_.objectives[:] = [_np.float64(float(o_)) for o_ in s_.objectives]
                    except ImportError:
                        pass
                w = call(IO.save_objectives, op, original)
                lo = call(IO.load_objectives, op, prob)
                if isinstance(w, str) or isinstance(lo, str) or len(lo) != len(original) or \
                        any(not same_value([float(x) for x in a.objectives], list(b.objectives)) for a, b in zip(original, lo)):
                    ctx.fail("objectives-file-not-reproduced-exactly", dict(inp, text=open(op).read()[:300] if os.path.exists(op) else None),
                             "differs", "identical objective values", "io.save_objectives / io.load_objectives")
                ctx.count("objectives_files")
    finally:
        shutil.rmtree(tmp, ignore_errors=True)
    if drv.ok:
        out = drv.batch(reqs)
        for g, fn in zip(out, post):
            fn(g)


def replay(ctx, path):
    r = json.load(open(path))
    print(json.dumps(r.get("failure", r), indent=1)[:3000])
    return 0
