"""Matrix of instrumented algorithm runs shared by the whole-algorithm properties (C01, C07, C08, C09, C13, C14)."""
import random

import tracer

KINDS = ["real", "int", "binary", "perm", "subset"]


def gen_configs(rng, n, quick=True, evaluators=("map",), names=None, kinds=None, sizes=(4, 5, 6, 7, 9, 12), extreme=0.0,
                nobjs_choices=(1, 2, 2, 3, 4, 5), elements=("int",), constrained_rate=0.4):
    """yield n run configurations; every algorithm x applicable variable type is visited round-robin"""
    names = list(names or tracer.ALGOS)
    kinds = list(kinds or KINDS)
    out = []
    attempts = 0
    i = 0
    while len(out) < n and attempts < n * 50:
        attempts += 1
        name = names[i % len(names)]
        kind = kinds[(i // len(names)) % len(kinds)] if rng.random() < 0.7 else rng.choice(kinds)
        i += 1
        nobjs = rng.choice(nobjs_choices)
        if "single" in tracer.ALL_ALGOS[name][1]:
            nobjs = 1
        elif "multi" in tracer.ALL_ALGOS[name][1] and nobjs < 2:
            nobjs = 2
        if "real" in tracer.ALL_ALGOS[name][1]:
            kind = "real"
        ncon = rng.choice([1, 2, 3]) if rng.random() < constrained_rate else 0
        if "unconstrained" in tracer.ALL_ALGOS[name][1]:
            ncon = 0
        dirs = [rng.random() < 0.35 for _ in range(nobjs)]
        if name in ("MOEAD", "NSGAIII"):
            dirs = [False] * nobjs
        nvars = rng.randrange(1, 4)
        if name == "CMAES":
            nvars = rng.randrange(2, 4)
        spec = tracer.Spec(kind, nvars, nobjs, ncon, dirs, rng, elements=rng.choice(elements))
        if not tracer.applicable(name, spec):
            continue
        out.append({"name": name, "spec": spec, "seed": rng.randrange(2 ** 31), "size": rng.choice(sizes),
                    "evaluator": rng.choice(evaluators), "explicit": rng.random() < 0.35 or spec.kind == "mixed", "extreme": extreme,
                    "op_seed": rng.randrange(2 ** 31), "injected": rng.choice([0, 0, 0, 2])})
    return out


def describe(cfg, **extra):
    d = {"algorithm": cfg["name"], "problem": cfg["spec"].describe(), "seed": cfg["seed"], "size": cfg["size"],
         "evaluator": cfg["evaluator"], "explicit_operator": cfg["explicit"], "extreme_draw_rate": cfg["extreme"], "injected": cfg["injected"]}
    d.update(extra)
    return d


def execute(cfg, budgets, **kw):
    if tracer.TIMEOUTS >= 3:      # library code stopped terminating: do not burn the time budget on further runs
        return tracer.Trace(), None, "skipped: earlier runs hit the watchdog"
    return tracer.run_traced(cfg["name"], cfg["spec"], cfg["seed"], cfg["size"], budgets, evaluator=cfg["evaluator"],
                             explicit=cfg["explicit"], extreme=cfg["extreme"], op_rng=random.Random(cfg["op_seed"]),
                             injected=cfg["injected"], extra_kw=dict(cfg.get("extra") or {}), **kw)


# errors that are documented refusals / known degenerate situations, not property failures
BENIGN = ("objective with empty range",)


def benign(err):
    return err is not None and any(b in err for b in BENIGN)


def segments(trace):
    """split a trace into run() calls: [(N, nfe_before, [step records], nfe_after)];
    step record = dict(nfe=, batches=[(members, calls, nfe_before, nfe_after)], exposed=, sizes=)"""
    segs, cur, steps, batches, b, calls, evolves, restarts, checks = [], None, [], [], None, 0, [], [], []
    for ev in trace.events:
        k = ev[0]
        if k == "evolve":
            evolves.append(ev[1])
            continue
        if k == "check":
            checks.append({"population": ev[1], "archive": ev[2], "result": ev[3], "par": tuple(ev[4:9]), "cls": ev[9]})
            continue
        if k == "restart":
            restarts.append({"archive": ev[1], "ratio": ev[2], "min": ev[3], "max": ev[4], "arity": ev[5], "batches_before": len(batches)})
            continue
        if k == "run":
            cur, steps, batches = (ev[1], ev[2]), [], []
        elif k == "batch":
            b, calls = ev, 0
        elif k == "call":
            calls += 1
        elif k == "batch_end":
            batches.append({"members": b[1], "calls": calls, "nfe_before": b[2], "nfe_after": ev[2], "after": ev[1]})
            b = None
        elif k == "step":
            steps.append({"nfe": ev[1], "batches": batches, "exposed": ev[2], "sizes": ev[3], "evolves": evolves,
                          "population_size": ev[4] if len(ev) > 4 else None, "restarts": restarts, "checks": checks,
                          "population_size_attr": ev[5] if len(ev) > 5 else None})
            batches, evolves, restarts, checks = [], [], [], []
        elif k == "run_end":
            segs.append({"N": cur[0], "nfe_before": cur[1], "steps": steps, "nfe_after": ev[1], "dangling_batches": batches})
            cur = None
    if cur is not None:      # run() raised
        segs.append({"N": cur[0], "nfe_before": cur[1], "steps": steps, "nfe_after": None, "dangling_batches": batches})
    return segs


def note_aborted(ctx, cfg, err):
    """a run that raised: documented refusals are benign; crashes inside operators / linear algebra belong to C06 / C20
    (their own checks search for them); neither is judged here, both are counted and listed in the evidence"""
    key = "runs_refused_benign" if benign(err) else "runs_aborted_by_exception"
    ctx.count(key)
    note = f"{cfg['name']}: {err[:160]}"
    if key == "runs_aborted_by_exception" and note not in ctx.notes and len(ctx.notes) < 12:
        ctx.notes.append("aborted run (not judged by this property): " + note)


GEN_STYLE = {"NSGAII": 0, "EpsNSGAII": 0, "SPEA2": 0, "NSGAIII": 0, "IBEA": 0, "GeneticAlgorithm": 1, "EvolutionaryStrategy": 2, "EpsMOEA": 3,
             "GDE3": 4, "MOEAD": 5, "PESA2": 6, "PAES": 7, "OMOPSO": 8, "SMPSO": 8, "CMAES": 8}


def timecont_replay(ctx, ask, segs, inp):
    """when `check` is called and what it answers (Model/TimeCont.lean, Props/C08TimeCont.lean): from the population and archive
    sizes at the calls and the run() boundaries, the model must call `check` in exactly the same iterations, answer the same, and
    a restart must follow exactly the positive answers"""
    from common import wlist
    allsteps = [st for sg in segs for st in sg["steps"]]
    cks = [c for st in allsteps for c in st.get("checks", [])]
    if not cks or any(sg["nfe_after"] is None for sg in segs) or segs[0]["nfe_before"] != 0:
        return
    par = {c["par"] for c in cks}
    window, maxw, ratio, lo, hi = next(iter(par))
    if len(par) != 1 or {c["cls"] for c in cks} != {"AdaptiveTimeContinuationExtension"} or float(ratio) != int(ratio) \
            or any(len(st["checks"]) > 1 for st in allsteps):
        ctx.count("timecont_runs_skipped_outside_model")
        return
    evs, want = [], []
    for sg in segs:
        for i, st in enumerate(sg["steps"]):
            ck = st["checks"][0] if st["checks"] else None
            evs += [1 if i == 0 else 0, ck["population"] if ck else 0, ck["archive"] if ck else 0]
            want.append(f"{1 if ck else 0}{1 if st['restarts'] else 0}")
            if ck and bool(ck["result"]) != bool(st["restarts"]):
                ctx.disagree("time continuation: a restart follows exactly the positive answers of check", dict(inp, iteration=len(want)),
                             f"check={ck['result']}", f"restarts={len(st['restarts'])}")
    tinp = dict(inp, window=window, max_window=maxw, ratio=ratio, min_population_size=lo, max_population_size=hi,
                run_start_flag_population_archive_per_iteration=evs[:180], observed_checked_restart_per_iteration=want[:60])
    ask(f"tcont {window} {maxw} {int(ratio)} {lo} {hi} {wlist(evs)}",
        lambda g, want=want, tinp=tinp: None if g.split(" ")[:-1] == want
        else ctx.disagree("time continuation model (postStep: when check is called, what it answers)", tinp, " ".join(want)[:300], g[:300]))
    ctx.count("timecont_histories_replayed")
    ctx.count("timecont_checks_replayed", len(cks))
    ctx.count("timecont_checks_answered_restart", sum(1 for c in cks if c["result"]))


def restart_replay(ctx, ask, alg, segs, allsteps, counts, inp):
    """runs with adaptive time continuation (Model/Restart.lean, Props/C08Restart.lean): counter, variator calls, mutator calls,
    len(population) and the population_size attribute after every iteration of the run loop (step + restart, if any), from the
    offspring counts of the variator, the restart decisions and the archive sizes at the restarts"""
    from common import wlist
    rs = [r for st in allsteps for r in st["restarts"]]
    par = {(r["ratio"], r["min"], r["max"], r["arity"]) for r in rs}
    ratio, lo, hi, arity = next(iter(par))
    if (len(par) != 1 or any(len(st["restarts"]) > 1 for st in allsteps) or float(ratio) != int(ratio) or arity != 1
            or segs[0]["nfe_before"] != 0 or len(allsteps[0]["batches"]) < 1):
        ctx.count("restart_runs_skipped_outside_model")     # two extensions, a fractional ratio, a mutator of another arity
        return
    if any(c is None or c < 1 for c in counts):
        ctx.count("genstep_runs_skipped_variator_returned_no_offspring")
        return
    # evaluate_all is called once by the step and once by the restart (possibly with nothing to evaluate)
    if any(len(st["batches"]) != 1 + len(st["restarts"]) or any(r["batches_before"] != 1 for r in st["restarts"]) for st in allsteps):
        ctx.disagree("restart model (one batch per step and one per restart, the restart after the step)",
                     dict(inp, batches_per_step=[len(st["batches"]) for st in allsteps][:40],
                          restarts_per_step=[len(st["restarts"]) for st in allsteps][:40]), "1 + #restarts", "see input")
        return
    size0 = len(allsteps[0]["batches"][0]["members"])
    archs = [(st["restarts"][0]["archive"] + 1) if st["restarts"] else 0 for st in allsteps]
    pos, mpos, want = 0, 0, []
    for st in allsteps:
        pos += len(st["evolves"])
        if st["restarts"]:
            mpos += len(st["batches"][1]["members"])       # a mutation operator returns one offspring per call
        want.append(f"{st['nfe']}:{pos}:{mpos}:{st['population_size']}:{st['population_size_attr']}")
    rinp = dict(inp, initial_population_size=size0, ratio=ratio, min_population_size=lo, max_population_size=hi,
                archive_size_at_restart_plus_1_or_0=archs[:60], offspring_per_variator_call=counts[:40],
                observed_nfe_calls_mutations_population_attr_per_iteration=want[:16])
    ask(f"erun {size0} {int(ratio)} {lo} {hi} {wlist(counts)} {wlist([])} {wlist(archs)}",
        lambda g, want=want, rinp=rinp: None if g == " ".join(want)
        else ctx.disagree("restart model (rStep: counter, variator calls, injected, population and population_size after every iteration)",
                          rinp, " ".join(want)[:400], g[:400]))
    ctx.count("restart_histories_replayed")
    ctx.count("restart_iterations_replayed", len(allsteps))
    ctx.count("restarts_replayed", len(rs))
    ctx.count("restarts_replayed_without_injection", sum(1 for st in allsteps if st["restarts"] and not st["batches"][1]["members"]))


def genstep_replay(ctx, ask, alg, segs, inp):
    """model of one step() on sizes (Model/GenStep.lean, Props/C08Gen.lean): the counter, the number of variator calls and the
    population / swarm size after every step of the whole history, from the offspring counts the variator returned.  The premise
    `Progress` of the budget theorems (C08) and the population-size clause (C14) are theorems about this model; this is its tie
    to the code.  `ask(line, fn)` queues a driver request."""
    from common import wlist
    style = GEN_STYLE.get(type(alg).__name__)
    if style == 5 and getattr(alg, "update_utility", None) is not None:
        style = None                      # utility-based MOEA/D searches a drawn subset of the subproblems: not this model
    allsteps = [st for sg in segs for st in sg["steps"]]
    if style is None or not allsteps or any(sg["nfe_after"] is None for sg in segs):
        return
    gsize = alg.swarm_size if style == 8 and hasattr(alg, "swarm_size") else (alg.offspring_size if style == 8 else getattr(alg, "population_size", None))
    counts = [c for st in allsteps for c in st["evolves"]]
    if style == 0:
        timecont_replay(ctx, ask, segs, inp)
    if style == 0 and any(st.get("restarts") for st in allsteps):
        return restart_replay(ctx, ask, alg, segs, allsteps, counts, inp)
    if style != 5 and any(len(st["batches"]) != 1 for st in allsteps):
        ctx.count("genstep_runs_skipped_restart_or_extra_batches")        # evaluations outside iterate() that the model does not cover
        return
    if any(c is None or c < 1 for c in counts):
        ctx.count("genstep_runs_skipped_variator_returned_no_offspring")  # outside the theorem's premise
        return
    pos, want = 0, []
    for st in allsteps:
        pos += len(st["evolves"])
        want.append(f"{st['nfe']}:{pos}:{st['population_size']}")
    ginp = dict(inp, style=style, population_size=gsize, offspring_size=getattr(alg, "offspring_size", None),
                offspring_per_variator_call=counts[:40], observed_nfe_calls_population_per_step=want[:12])
    ask(f"genrun {style} {gsize} {getattr(alg, 'offspring_size', gsize)} {len(allsteps)} {wlist(counts)}",
        lambda g, want=want, ginp=ginp: None if g == " ".join(want)
        else ctx.disagree("step model (genStep: counter, variator calls, population size after every step)", ginp, " ".join(want)[:300], g[:300]))
    ctx.count("genstep_histories_replayed")
    ctx.count("genstep_steps_replayed", len(allsteps))
