import PlatypusModel.Model.Gray
import PlatypusModel.Lemmas.Gray
import PlatypusModel.Props.C17
