import PlatypusModel.Model.Survival
import PlatypusModel.Props.C04
set_option linter.unusedSectionVars false
/-!
Helper lemmas for C09 (elitism of the survival selections).
-/
namespace Platypus

variable {σ : Type}

/-! ### lists sorted by a key that separates a predicate -/

/-- in a list sorted by `R`, if no `p`-false element may precede a `p`-true one, the `p`-true elements
form a prefix -/
theorem eq_filter_append_of_pairwise {R : σ → σ → Prop} (p : σ → Bool)
    (hsep : ∀ a b, p a = false → p b = true → ¬ R a b) :
    ∀ l : List σ, l.Pairwise R → l = l.filter p ++ l.filter (fun x => !p x) := by
  intro l
  induction l with
  | nil => intro _; rfl
  | cons a l ih =>
    intro hp
    rw [List.pairwise_cons] at hp
    obtain ⟨ha, hl⟩ := hp
    cases hpa : p a with
    | true =>
      simp only [List.filter_cons, hpa, Bool.not_true, if_true, List.cons_append]
      simp only [Bool.false_eq_true, if_false]
      exact congrArg _ (ih hl)
    | false =>
      have hall : ∀ b ∈ l, p b = false := by
        intro b hb
        cases hpb : p b with
        | false => rfl
        | true => exact absurd (ha b hb) (hsep a b hpa hpb)
      have h1 : l.filter p = [] := by
        rw [List.filter_eq_nil_iff]; intro b hb; simp [hall b hb]
      have h2 : l.filter (fun x => !p x) = l := by
        rw [List.filter_eq_self]; intro b hb; simp [hall b hb]
      simp [hpa, h1, h2]

theorem sorted_pairwise (le : σ → σ → Bool)
    (htotal : ∀ a b, le a b = true ∨ le b a = true)
    (htrans : ∀ a b c, le a b = true → le b c = true → le a c = true) (l : List σ) :
    (l.mergeSort le).Pairwise (fun a b => le a b = true) :=
  List.pairwise_mergeSort (le := le) htrans
    (fun a b => by rcases htotal a b with h | h <;> simp [h]) l

/-- the head of a non-empty truncation is `le` every member of the input -/
theorem truncate_head_le (le : σ → σ → Bool)
    (htotal : ∀ a b, le a b = true ∨ le b a = true)
    (htrans : ∀ a b c, le a b = true → le b c = true → le a c = true)
    (l : List σ) (N : Nat) (hN : 0 < N) (x : σ) (hx : x ∈ l) :
    ∃ best, (truncateBy le l N).head? = some best ∧ le best x = true := by
  have hs := sorted_pairwise le htotal htrans l
  have hxs : x ∈ l.mergeSort le := (List.mergeSort_perm l le).mem_iff.mpr hx
  unfold truncateBy
  obtain ⟨n, rfl⟩ : ∃ n, N = n + 1 := ⟨N - 1, by omega⟩
  cases hsl : l.mergeSort le with
  | nil => rw [hsl] at hxs; simp at hxs
  | cons b t =>
    rw [hsl] at hxs hs
    refine ⟨b, by simp, ?_⟩
    rw [List.pairwise_cons] at hs
    rcases List.mem_cons.mp hxs with rfl | hxt
    · rcases htotal x x with h | h <;> exact h
    · exact hs.1 x hxt

/-! ### GDE3 -/

theorem mem_gde3_cons (cmp : σ → σ → Int) (o p : σ) (os ps : List σ) (x : σ) :
    x ∈ gde3Pairwise cmp (o :: os) (p :: ps) ↔
      (x = o ∧ cmp o p ≤ 0) ∨ (x = p ∧ cmp o p ≥ 0) ∨ x ∈ gde3Pairwise cmp os ps := by
  simp only [gde3Pairwise, List.mem_append]
  by_cases h1 : cmp o p ≤ 0 <;> by_cases h2 : cmp o p ≥ 0 <;> simp [h1, h2, or_assoc]

/-! ### SPEA2 -/

theorem spea2Reduce_spec (pick : List σ → Nat)
    (hpick : ∀ l : List σ, l ≠ [] → pick l < l.length) (size : Nat) :
    ∀ (fuel : Nat) (l : List σ), l.length ≤ size + fuel →
      (spea2Reduce pick fuel l size).Sublist l ∧
      (spea2Reduce pick fuel l size).length = min size l.length := by
  intro fuel
  induction fuel with
  | zero =>
    intro l hl
    simp only [spea2Reduce]
    exact ⟨List.Sublist.refl _, by omega⟩
  | succ fuel ih =>
    intro l hl
    unfold spea2Reduce
    by_cases hgt : l.length > size
    · rw [if_pos hgt]
      have hne : l ≠ [] := by intro h; subst h; simp at hgt
      have hp := hpick l hne
      have hlen : (l.eraseIdx (pick l)).length = l.length - 1 := by
        rw [List.length_eraseIdx, if_pos hp]
      obtain ⟨ih1, ih2⟩ := ih (l.eraseIdx (pick l)) (by omega)
      exact ⟨ih1.trans (List.eraseIdx_sublist _ _), by rw [ih2, hlen]; omega⟩
    · rw [if_neg hgt]
      exact ⟨List.Sublist.refl _, by omega⟩

theorem length_filter_add_not (p : σ → Bool) (l : List σ) :
    (l.filter p).length + (l.filter (fun s => !p s)).length = l.length := by
  induction l with
  | nil => rfl
  | cons a l ih =>
    cases hpa : p a <;> simp [hpa] <;> omega

end Platypus
