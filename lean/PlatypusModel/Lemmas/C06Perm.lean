import PlatypusModel.Lemmas.C06Defs
import Mathlib.Data.List.Perm.Subperm
import Mathlib.Logic.Relation
import Mathlib.Data.Finset.Card
/-! Helper lemmas for the C06 permutation-operator theorems (Props/C06Perm.lean). -/
open List
namespace Platypus

theorem except_bind_ok {ε α β : Type} (x : Except ε α) (f : α → Except ε β) (b : β) :
    (x >>= f) = .ok b ↔ ∃ a, x = .ok a ∧ f a = .ok b := by
  cases x <;> simp [bind, Except.bind]

theorem popRandrange_lt {α : Type} (n : Nat) (tape tape' : Tape α) (k : Nat)
    (h : popRandrange n tape = .ok (k, tape')) : k < n := by
  unfold popRandrange at h
  split at h
  · split at h
    · rename_i h'
      simp at h'
      cases h; exact h'.2
    · cases h
  · cases h

theorem popDistinct_lt {α : Type} (n i fuel : Nat) (tape tape' : Tape α) (k : Nat)
    (h : popDistinct n i fuel tape = .ok (k, tape')) : k < n := by
  induction fuel generalizing tape with
  | zero => simp [popDistinct] at h
  | succ f ih =>
    simp only [popDistinct] at h
    cases hr : popRandrange (α := α) n tape with
    | error e => simp [hr, bind, Except.bind] at h
    | ok r =>
      obtain ⟨j, t⟩ := r
      simp only [hr, bind, Except.bind] at h
      split at h
      · exact ih _ h
      · simp [pure, Except.pure] at h
        have := popRandrange_lt n tape t j hr
        omega

theorem popTwo_lt {α : Type} (n : Nat) (tape tape' : Tape α) (i j : Nat)
    (h : popTwo n tape = .ok ((i, j), tape')) : i < n ∧ j < n := by
  unfold popTwo at h
  cases hr : popRandrange (α := α) n tape with
  | error e => simp [hr, bind, Except.bind] at h
  | ok r =>
    obtain ⟨i', t⟩ := r
    simp only [hr, bind, Except.bind] at h
    cases hd : popDistinct (α := α) n i' (t.length + 1) t with
    | error e => simp [hd] at h
    | ok r2 =>
      obtain ⟨j', t2⟩ := r2
      simp only [hd, pure, Except.pure] at h
      cases h
      exact ⟨popRandrange_lt _ _ _ _ hr, popDistinct_lt _ _ _ _ _ _ hd⟩

/-! ### PMX chain following over an abstract injective partial map -/

/-- `chase` over an abstract partial map -/
def chaseF (f : Nat → Option Nat) : Nat → Nat → Option Nat
  | 0, _ => none
  | k + 1, x =>
    match f x with
    | some y => chaseF f k y
    | none => some x

def lookupF (repl : List (Nat × Nat)) (x : Nat) : Option Nat :=
  (repl.find? (fun p => p.1 == x)).map (·.2)

theorem chase_eq_chaseF (repl : List (Nat × Nat)) (k x : Nat) :
    chase repl k x = chaseF (lookupF repl) k x := by
  induction k generalizing x with
  | zero => rfl
  | succ k ih =>
    simp only [chase, chaseF, lookupF]
    cases find? (fun p => p.1 == x) repl with
    | none => rfl
    | some p => simp only [Option.map_some]; exact ih _

/-- injective partial map -/
def PInj (f : Nat → Option Nat) : Prop := ∀ a b c, f a = some c → f b = some c → a = b

theorem chaseF_congr (f f' : Nat → Option Nat) (x : Nat) (hff : ∀ z, z ≠ x → f' z = f z)
    (hx : ∀ z, f z ≠ some x) : ∀ k z, z ≠ x → chaseF f k z = chaseF f' k z := by
  intro k
  induction k with
  | zero => intro z _; rfl
  | succ k ih =>
    intro z hz
    simp only [chaseF, hff z hz]
    cases hfz : f z with
    | none => rfl
    | some y =>
      apply ih
      rintro rfl
      exact hx z hfz

theorem chaseF_terminates (n : Nat) : ∀ (D : Finset Nat) (f : Nat → Option Nat) (x : Nat), D.card = n → PInj f →
    (∀ z y, f z = some y → z ∈ D) → (∀ z, f z ≠ some x) → ∃ y, chaseF f (n + 1) x = some y := by
  induction n with
  | zero =>
    intro D f x hD _ hdom _
    cases hfx : f x with
    | none => exact ⟨x, by simp [chaseF, hfx]⟩
    | some y =>
      have := hdom x y hfx
      rw [Finset.card_eq_zero] at hD
      simp [hD] at this
  | succ n ih =>
    intro D f x hD hinj hdom hx
    cases hfx : f x with
    | none => exact ⟨x, by simp [chaseF, hfx]⟩
    | some x' =>
      have hxD := hdom x x' hfx
      let f' : Nat → Option Nat := fun z => if z = x then none else f z
      have hff : ∀ z, z ≠ x → f' z = f z := fun z hz => by simp [f', hz]
      have hx'x : x' ≠ x := by rintro rfl; exact hx _ hfx
      have hcard : (D.erase x).card = n := by rw [Finset.card_erase_of_mem hxD, hD]; rfl
      have hinj' : PInj f' := by
        intro a b c ha hb
        by_cases hax : a = x
        · simp [f', hax] at ha
        by_cases hbx : b = x
        · simp [f', hbx] at hb
        rw [hff a hax] at ha; rw [hff b hbx] at hb
        exact hinj a b c ha hb
      have hdom' : ∀ z y, f' z = some y → z ∈ D.erase x := by
        intro z y hz
        by_cases hzx : z = x
        · simp [f', hzx] at hz
        rw [hff z hzx] at hz
        exact Finset.mem_erase.mpr ⟨hzx, hdom z y hz⟩
      have hx' : ∀ z, f' z ≠ some x' := by
        intro z hz
        by_cases hzx : z = x
        · simp [f', hzx] at hz
        rw [hff z hzx] at hz
        exact hzx (hinj z x x' hz hfx)
      obtain ⟨y, hy⟩ := ih (D.erase x) f' x' hcard hinj' hdom' hx'
      refine ⟨y, ?_⟩
      rw [chaseF, hfx]
      simp only
      rw [chaseF_congr f f' x hff hx _ _ hx'x]
      exact hy

theorem chaseF_some (f : Nat → Option Nat) : ∀ (k x y : Nat), chaseF f k x = some y →
    Relation.ReflTransGen (fun a b => f a = some b) x y ∧ f y = none := by
  intro k
  induction k with
  | zero => intro x y h; simp [chaseF] at h
  | succ k ih =>
    intro x y h
    rw [chaseF] at h
    cases hfx : f x with
    | none =>
      simp only [hfx, Option.some.injEq] at h
      subst h
      exact ⟨Relation.ReflTransGen.refl, hfx⟩
    | some x' =>
      simp only [hfx] at h
      obtain ⟨h1, h2⟩ := ih _ _ h
      exact ⟨Relation.ReflTransGen.head hfx h1, h2⟩

theorem chain_comparable (f : Nat → Option Nat) (hinj : PInj f) (x x' y : Nat)
    (h1 : Relation.ReflTransGen (fun a b => f a = some b) x y)
    (h2 : Relation.ReflTransGen (fun a b => f a = some b) x' y) :
    Relation.ReflTransGen (fun a b => f a = some b) x x' ∨
      Relation.ReflTransGen (fun a b => f a = some b) x' x := by
  induction h1 generalizing x' with
  | refl => exact Or.inr h2
  | @tail b c hxb hbc ih =>
    rcases Relation.ReflTransGen.cases_tail h2 with h | ⟨b', hb', hb'c⟩
    · subst h
      exact Or.inl (Relation.ReflTransGen.tail hxb hbc)
    · have : b' = b := hinj _ _ _ hb'c hbc
      subst this
      exact ih _ hb'

theorem chain_end (f : Nat → Option Nat) (x y : Nat)
    (h : Relation.ReflTransGen (fun a b => f a = some b) x y) : y = x ∨ ∃ z, f z = some y := by
  rcases Relation.ReflTransGen.cases_tail h with h | ⟨b, _, hb⟩
  · exact Or.inl h
  · exact Or.inr ⟨b, hb⟩

theorem chaseF_end_inj (f : Nat → Option Nat) (hinj : PInj f) (k k' x x' y : Nat)
    (hx : ∀ z, f z ≠ some x) (hx' : ∀ z, f z ≠ some x')
    (h1 : chaseF f k x = some y) (h2 : chaseF f k' x' = some y) : x = x' := by
  obtain ⟨c1, _⟩ := chaseF_some f _ _ _ h1
  obtain ⟨c2, _⟩ := chaseF_some f _ _ _ h2
  rcases chain_comparable f hinj x x' y c1 c2 with h | h
  · rcases chain_end f _ _ h with h | ⟨z, hz⟩
    · exact h.symm
    · exact absurd hz (hx' z)
  · rcases chain_end f _ _ h with h | ⟨z, hz⟩
    · exact h
    · exact absurd hz (hx z)

theorem mapM_option_eq {α β : Type} (g : α → Option β) (g' : α → β) (l : List α)
    (h : ∀ x ∈ l, g x = some (g' x)) : l.mapM g = some (l.map g') := by
  induction l with
  | nil => rfl
  | cons a l ih =>
    rw [List.mapM_cons, h a (by simp), ih (fun x hx => h x (by simp [hx]))]
    rfl

/-! ### PMX: the concrete replacement list -/

theorem perm_range_facts (n : Nat) (l : List Nat) (h : l.Perm (List.range n)) :
    l.length = n ∧ (∀ i, i < n → l.getD i 0 < n) ∧
      (∀ i j, i < n → j < n → l.getD i 0 = l.getD j 0 → i = j) := by
  have hlen : l.length = n := by rw [h.length_eq, List.length_range]
  have hnd : l.Nodup := h.nodup_iff.mpr List.nodup_range
  refine ⟨hlen, ?_, ?_⟩
  · intro i hi
    have hi' : i < l.length := by omega
    have : l.getD i 0 = l[i] := by simp [hi']
    rw [this]
    have hm : l[i] ∈ List.range n := h.subset (List.getElem_mem hi')
    exact List.mem_range.mp hm
  · intro i j hi hj hij
    have hi' : i < l.length := by omega
    have hj' : j < l.length := by omega
    have e1 : l.getD i 0 = l[i] := by simp [hi']
    have e2 : l.getD j 0 = l[j] := by simp [hj']
    rw [e1, e2] at hij
    exact (hnd.getElem_inj_iff).mp hij

section core
variable (n cp1 cp2 : Nat) (a b : Nat → Nat)

/-- the replacement list of `pmxChild` -/
def pmxRepl : List (Nat × Nat) :=
  (((List.range n).filter (fun i => cp1 ≤ i && i ≤ cp2)).map (fun i => (a i, b i))).reverse

theorem lookup_sound (x y : Nat) (h : lookupF (pmxRepl n cp1 cp2 a b) x = some y) :
    ∃ i, i < n ∧ cp1 ≤ i ∧ i ≤ cp2 ∧ a i = x ∧ b i = y := by
  unfold lookupF at h
  rw [Option.map_eq_some_iff] at h
  obtain ⟨p, hp, rfl⟩ := h
  have hm := List.mem_of_find?_eq_some hp
  have hpx := List.find?_some hp
  simp only [pmxRepl, List.mem_reverse, List.mem_map, List.mem_filter, List.mem_range,
    Bool.and_eq_true, decide_eq_true_eq] at hm
  obtain ⟨i, ⟨hi, h1, h2⟩, rfl⟩ := hm
  exact ⟨i, hi, h1, h2, by simpa using hpx, rfl⟩

theorem lookup_complete (ha : ∀ i j, i < n → j < n → a i = a j → i = j)
    (i : Nat) (hi : i < n) (h1 : cp1 ≤ i) (h2 : i ≤ cp2) :
    lookupF (pmxRepl n cp1 cp2 a b) (a i) = some (b i) := by
  cases hl : lookupF (pmxRepl n cp1 cp2 a b) (a i) with
  | some y =>
    obtain ⟨j, hj, _, _, hja, hjb⟩ := lookup_sound n cp1 cp2 a b _ _ hl
    have := ha j i hj hi hja
    subst this
    rw [hjb]
  | none =>
    exfalso
    unfold lookupF at hl
    rw [Option.map_eq_none_iff, List.find?_eq_none] at hl
    have := hl (a i, b i) (by
      simp only [pmxRepl, List.mem_reverse, List.mem_map, List.mem_filter, List.mem_range,
        Bool.and_eq_true, decide_eq_true_eq]
      exact ⟨i, ⟨hi, h1, h2⟩, rfl⟩)
    simp at this

theorem pmx_core (ha_lt : ∀ i, i < n → a i < n) (ha : ∀ i j, i < n → j < n → a i = a j → i = j)
    (hb_lt : ∀ i, i < n → b i < n) (hb : ∀ i j, i < n → j < n → b i = b j → i = j) :
    ∃ o, (List.range n).mapM (fun i =>
        if cp1 ≤ i && i ≤ cp2 then some (a i) else chase (pmxRepl n cp1 cp2 a b) (n + 1) (b i)) = some o ∧
      o.Perm (List.range n) := by
  set f := lookupF (pmxRepl n cp1 cp2 a b) with hf
  have hinj : PInj f := by
    intro x x' c h1 h2
    obtain ⟨i, hi, _, _, hia, hib⟩ := lookup_sound n cp1 cp2 a b _ _ h1
    obtain ⟨j, hj, _, _, hja, hjb⟩ := lookup_sound n cp1 cp2 a b _ _ h2
    have := hb i j hi hj (hib.trans hjb.symm)
    subst this
    exact hia.symm.trans hja
  have hdom : ∀ z y, f z = some y → z ∈ Finset.range n := by
    intro z y h
    obtain ⟨i, hi, _, _, hia, _⟩ := lookup_sound n cp1 cp2 a b _ _ h
    rw [← hia]; exact Finset.mem_range.mpr (ha_lt i hi)
  have himg : ∀ z y, f z = some y → y < n := by
    intro z y h
    obtain ⟨i, hi, _, _, _, hib⟩ := lookup_sound n cp1 cp2 a b _ _ h
    rw [← hib]; exact hb_lt i hi
  have hstart : ∀ i, i < n → ¬ (cp1 ≤ i ∧ i ≤ cp2) → ∀ z, f z ≠ some (b i) := by
    intro i hi hseg z h
    obtain ⟨j, hj, h1, h2, _, hjb⟩ := lookup_sound n cp1 cp2 a b _ _ h
    have := hb j i hj hi hjb
    subst this
    exact hseg ⟨h1, h2⟩
  have hterm : ∀ i, i < n → ¬ (cp1 ≤ i ∧ i ≤ cp2) → ∃ y, chaseF f (n + 1) (b i) = some y :=
    fun i hi hseg => chaseF_terminates n (Finset.range n) f (b i) (Finset.card_range n) hinj hdom
      (hstart i hi hseg)
  let g : Nat → Nat := fun i =>
    if cp1 ≤ i && i ≤ cp2 then a i else (chaseF f (n + 1) (b i)).getD 0
  have hg_seg : ∀ i, (cp1 ≤ i ∧ i ≤ cp2) → g i = a i := by
    intro i h; simp [g, h.1, h.2]
  have hdec : ∀ i, ¬ (cp1 ≤ i ∧ i ≤ cp2) → (decide (cp1 ≤ i) && decide (i ≤ cp2)) = false :=
    fun i h => Bool.eq_false_iff.mpr (fun hh => h (by simpa using hh))
  have hg_out : ∀ i, ¬ (cp1 ≤ i ∧ i ≤ cp2) → ∀ y, chaseF f (n + 1) (b i) = some y → g i = y := by
    intro i h y hy
    simp only [g, hdec i h, Bool.false_eq_true, if_false, hy, Option.getD_some]
  refine ⟨(List.range n).map g, ?_, ?_⟩
  · apply mapM_option_eq
    intro i hi
    have hi := List.mem_range.mp hi
    by_cases hseg : cp1 ≤ i ∧ i ≤ cp2
    · simp [hg_seg i hseg, hseg.1, hseg.2]
    · obtain ⟨y, hy⟩ := hterm i hi hseg
      rw [hdec i hseg, chase_eq_chaseF, ← hf, hy, hg_out i hseg y hy]
      rfl
  · apply List.Subperm.perm_of_length_le
    · apply List.subperm_of_subset
      · apply List.Nodup.map_on _ List.nodup_range
        intro i hi j hj hij
        have hi := List.mem_range.mp hi
        have hj := List.mem_range.mp hj
        by_cases hsi : cp1 ≤ i ∧ i ≤ cp2 <;> by_cases hsj : cp1 ≤ j ∧ j ≤ cp2
        · rw [hg_seg i hsi, hg_seg j hsj] at hij
          exact ha i j hi hj hij
        · obtain ⟨y, hy⟩ := hterm j hj hsj
          rw [hg_seg i hsi, hg_out j hsj y hy] at hij
          have h1 := lookup_complete n cp1 cp2 a b ha i hi hsi.1 hsi.2
          have h2 := (chaseF_some f _ _ _ hy).2
          rw [← hij, hf, h1] at h2
          cases h2
        · obtain ⟨y, hy⟩ := hterm i hi hsi
          rw [hg_seg j hsj, hg_out i hsi y hy] at hij
          have h1 := lookup_complete n cp1 cp2 a b ha j hj hsj.1 hsj.2
          have h2 := (chaseF_some f _ _ _ hy).2
          rw [hij, hf, h1] at h2
          cases h2
        · obtain ⟨y, hy⟩ := hterm i hi hsi
          obtain ⟨y', hy'⟩ := hterm j hj hsj
          rw [hg_out i hsi y hy, hg_out j hsj y' hy'] at hij
          subst hij
          exact hb i j hi hj (chaseF_end_inj f hinj _ _ _ _ _ (hstart i hi hsi) (hstart j hj hsj) hy hy')
      · intro v hv
        rw [List.mem_map] at hv
        obtain ⟨i, hi, rfl⟩ := hv
        have hi := List.mem_range.mp hi
        rw [List.mem_range]
        by_cases hsi : cp1 ≤ i ∧ i ≤ cp2
        · rw [hg_seg i hsi]; exact ha_lt i hi
        · obtain ⟨y, hy⟩ := hterm i hi hsi
          rw [hg_out i hsi y hy]
          rcases chain_end f _ _ (chaseF_some f _ _ _ hy).1 with h | ⟨z, hz⟩
          · rw [h]; exact hb_lt i hi
          · exact himg z y hz
    · simp
end core

/-- PMX child for arbitrary cut points (no order / range condition is needed) -/
theorem pmxChild_perm_any (n : Nat) (own other : List Nat) (cp1 cp2 : Nat)
    (h1 : own.Perm (List.range n)) (h2 : other.Perm (List.range n)) :
    ∃ o, pmxChild own other cp1 cp2 = some o ∧ o.Perm (List.range n) := by
  obtain ⟨hlen, hb_lt, hb⟩ := perm_range_facts n own h1
  obtain ⟨_, ha_lt, ha⟩ := perm_range_facts n other h2
  unfold pmxChild
  rw [hlen]
  exact pmx_core n cp1 cp2 (fun i => other.getD i 0) (fun i => own.getD i 0) ha_lt ha hb_lt hb

end Platypus
