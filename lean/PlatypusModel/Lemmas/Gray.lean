import PlatypusModel.Model.Gray
/-! Helper lemmas for C17 (core Lean only). -/
namespace Platypus

theorem foldl_bin (bits : List Bool) (acc : Nat) :
    bits.foldl (fun i b => i * 2 + b.toNat) acc = acc * 2 ^ bits.length + bin2int bits := by
  induction bits generalizing acc with
  | nil => simp [bin2int]
  | cons b bs ih =>
    simp only [List.foldl_cons, List.length_cons, bin2int]
    rw [ih (acc * 2 + b.toNat), ih (0 * 2 + b.toNat)]
    simp [Nat.pow_succ, Nat.add_mul, Nat.mul_assoc, Nat.mul_comm, Nat.add_assoc]

theorem bin2int_cons (b : Bool) (bs : List Bool) :
    bin2int (b :: bs) = b.toNat * 2 ^ bs.length + bin2int bs := by
  have := foldl_bin bs (0 * 2 + b.toNat)
  simpa [bin2int] using this

theorem bin2int_append (a b : List Bool) :
    bin2int (a ++ b) = bin2int a * 2 ^ b.length + bin2int b := by
  unfold bin2int
  rw [List.foldl_append, foldl_bin b]
  rfl

@[simp] theorem bin2int_nil : bin2int [] = 0 := rfl

theorem bin2int_replicate_false (k : Nat) : bin2int (List.replicate k false) = 0 := by
  induction k with
  | zero => rfl
  | succ k ih => simp [List.replicate_succ, bin2int_cons, ih]

theorem bin2int_lt (bits : List Bool) : bin2int bits < 2 ^ bits.length := by
  induction bits with
  | nil => simp
  | cons b bs ih =>
    rw [bin2int_cons, List.length_cons, Nat.pow_succ]
    cases b <;> simp <;> omega

theorem bin2int_bitsLsb_reverse (n : Nat) : bin2int (bitsLsb n).reverse = n := by
  induction n using Nat.strongRecOn with
  | _ n ih =>
    cases n with
    | zero => simp [bitsLsb]
    | succ m =>
      rw [bitsLsb, List.reverse_cons, bin2int_append, ih ((m + 1) / 2) (by omega)]
      have h : (m + 1) % 2 = 0 ∨ (m + 1) % 2 = 1 := by omega
      rcases h with h | h <;> simp [bin2int_cons, h] <;> omega

theorem bitsLsb_length_le (n k : Nat) (h : n < 2 ^ k) : (bitsLsb n).length ≤ k := by
  induction k generalizing n with
  | zero =>
    have : n = 0 := by simpa using h
    subst this; simp [bitsLsb]
  | succ k ih =>
    cases n with
    | zero => simp [bitsLsb]
    | succ m =>
      rw [bitsLsb, List.length_cons]
      have : (m + 1) / 2 < 2 ^ k := by rw [Nat.pow_succ] at h; omega
      have := ih _ this
      omega

theorem int2bin_length (n k : Nat) (h : n < 2 ^ k) : (int2bin n k).length = k := by
  have := bitsLsb_length_le n k h
  simp [int2bin]; omega

theorem bin2int_inj : ∀ (a b : List Bool), a.length = b.length → bin2int a = bin2int b → a = b
  | [], [], _, _ => rfl
  | [], _ :: _, h, _ => by simp at h
  | _ :: _, [], h, _ => by simp at h
  | x :: xs, y :: ys, hl, hv => by
    have hl' : xs.length = ys.length := by simpa using hl
    rw [bin2int_cons, bin2int_cons, hl'] at hv
    have h1 := bin2int_lt xs
    have h2 := bin2int_lt ys
    rw [hl'] at h1
    have hp : 0 < 2 ^ ys.length := Nat.pow_pos (by decide)
    cases x <;> cases y <;> simp at hv
    · rw [bin2int_inj xs ys hl' hv]
    · omega
    · omega
    · rw [bin2int_inj xs ys hl' hv]

/-- recursive form of the xor-with-predecessor part of `bin2gray` -/
def grayAux (prev : Bool) : List Bool → List Bool
  | [] => []
  | c :: cs => xor prev c :: grayAux c cs

theorem zipWith_dropLast (b : Bool) (bs : List Bool) :
    List.zipWith xor (b :: bs).dropLast bs = grayAux b bs := by
  induction bs generalizing b with
  | nil => simp [grayAux]
  | cons c cs ih =>
    simp only [List.dropLast_cons_cons, List.zipWith_cons_cons, grayAux]
    rw [ih c]

theorem bin2gray_cons (b : Bool) (bs : List Bool) : bin2gray (b :: bs) = b :: grayAux b bs := by
  simp [bin2gray, zipWith_dropLast]

theorem gray2binAux_grayAux (b : Bool) (bs : List Bool) : gray2binAux b (grayAux b bs) = bs := by
  induction bs generalizing b with
  | nil => rfl
  | cons c cs ih =>
    simp only [grayAux, gray2binAux]
    have : xor b (xor b c) = c := by cases b <;> cases c <;> rfl
    rw [this, ih c]

theorem grayAux_gray2binAux (b : Bool) (gs : List Bool) : grayAux b (gray2binAux b gs) = gs := by
  induction gs generalizing b with
  | nil => rfl
  | cons g gs ih =>
    simp only [grayAux, gray2binAux]
    have : xor b (xor b g) = g := by cases b <;> cases g <;> rfl
    rw [this, ih]

theorem grayAux_length (b : Bool) (bs : List Bool) : (grayAux b bs).length = bs.length := by
  induction bs generalizing b with
  | nil => rfl
  | cons c cs ih => simp [grayAux, ih]

theorem bin2gray_length (bs : List Bool) : (bin2gray bs).length = bs.length := by
  cases bs with
  | nil => rfl
  | cons b bs => simp [bin2gray_cons, grayAux_length]

end Platypus
