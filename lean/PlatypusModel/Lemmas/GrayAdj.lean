import PlatypusModel.Lemmas.C17Base
/-!
Adjacency property of the Gray code: the encodings of consecutive integers differ in
exactly one bit.  Core Lean only.

Proof idea (MSB-first, no reversal needed): generalise `bin2gray` to `grayAux c` (the bit `c`
precedes the list) and do induction on the width `k`.  For `v + 1 < 2 ^ (k+1)` either both `v`
and `v+1` have the same top bit (induction hypothesis on the remaining `k` bits), or
`v = 2^k - 1`, where `0 1…1 ↦ 1 0…0` and the Gray codes of the tails coincide.
-/
namespace Platypus

theorem bin2gray_eq_grayAux (bs : List Bool) : bin2gray bs = grayAux false bs := by
  cases bs with
  | nil => rfl
  | cons b bs => simp [bin2gray_cons, grayAux]

theorem hamming_self (a : List Bool) : hamming a a = 0 := by
  induction a with
  | nil => rfl
  | cons x xs ih => simp [hamming, ih]

theorem int2bin_succ_lo (v k : Nat) (h : v < 2 ^ k) :
    int2bin v (k + 1) = false :: int2bin v k := by
  apply bin2int_inj
  · rw [int2bin_length _ _ (by rw [Nat.pow_succ]; omega), List.length_cons,
      int2bin_length _ _ h]
  · rw [bin2int_cons, bin2int_int2bin, bin2int_int2bin]; simp

theorem int2bin_succ_hi (v k : Nat) (h : v < 2 ^ k) :
    int2bin (v + 2 ^ k) (k + 1) = true :: int2bin v k := by
  apply bin2int_inj
  · rw [int2bin_length _ _ (by rw [Nat.pow_succ]; omega), List.length_cons,
      int2bin_length _ _ h]
  · rw [bin2int_cons, bin2int_int2bin, bin2int_int2bin, int2bin_length _ _ h]
    simp; omega

theorem int2bin_zero (k : Nat) : int2bin 0 k = List.replicate k false := by
  simp [int2bin, bitsLsb]

theorem bin2int_replicate_true (k : Nat) : bin2int (List.replicate k true) + 1 = 2 ^ k := by
  induction k with
  | zero => rfl
  | succ k ih =>
    rw [List.replicate_succ, bin2int_cons, List.length_replicate, Nat.pow_succ]
    simp; omega

theorem int2bin_pred_pow (v k : Nat) (h : v + 1 = 2 ^ k) :
    int2bin v k = List.replicate k true := by
  apply bin2int_inj
  · rw [int2bin_length _ _ (by omega), List.length_replicate]
  · have := bin2int_replicate_true k
    rw [bin2int_int2bin]; omega

theorem grayAux_false_replicate_false (k : Nat) :
    grayAux false (List.replicate k false) = List.replicate k false := by
  induction k with
  | zero => rfl
  | succ k ih => simp [List.replicate_succ, grayAux, ih]

theorem grayAux_true_replicate_true (k : Nat) :
    grayAux true (List.replicate k true) = List.replicate k false := by
  induction k with
  | zero => rfl
  | succ k ih => simp [List.replicate_succ, grayAux, ih]

/-- the carry case: `0 1…1` and `1 0…0` have Gray tails that coincide -/
theorem grayAux_carry (k : Nat) :
    grayAux false (List.replicate k true) = grayAux true (List.replicate k false) := by
  cases k with
  | zero => rfl
  | succ k =>
    simp [List.replicate_succ, grayAux, grayAux_true_replicate_true,
      grayAux_false_replicate_false]

theorem grayAux_adjacent (k : Nat) : ∀ (v : Nat), v + 1 < 2 ^ k → ∀ c : Bool,
    hamming (grayAux c (int2bin v k)) (grayAux c (int2bin (v + 1) k)) = 1 := by
  induction k with
  | zero => intro v h; simp at h
  | succ k ih =>
    intro v h c
    have hp : 0 < 2 ^ k := Nat.pow_pos (by decide)
    rw [Nat.pow_succ] at h
    by_cases h1 : v + 1 < 2 ^ k
    · rw [int2bin_succ_lo v k (by omega), int2bin_succ_lo (v + 1) k h1]
      simp [grayAux, hamming, ih v h1 false]
    · by_cases h2 : v + 1 = 2 ^ k
      · rw [int2bin_succ_lo v k (by omega), int2bin_pred_pow v k h2]
        have : v + 1 = 0 + 2 ^ k := by omega
        rw [this, int2bin_succ_hi 0 k hp, int2bin_zero]
        simp only [grayAux, hamming]
        rw [grayAux_carry, hamming_self]
        cases c <;> simp
      · obtain ⟨u, hu⟩ : ∃ u, v = u + 2 ^ k := ⟨v - 2 ^ k, by omega⟩
        subst hu
        have hu1 : u + 1 < 2 ^ k := by omega
        have : u + 2 ^ k + 1 = (u + 1) + 2 ^ k := by omega
        rw [this, int2bin_succ_hi u k (by omega), int2bin_succ_hi (u + 1) k hu1]
        simp [grayAux, hamming, ih u hu1 true]

/-- Gray encodings (fixed width `nbits w`) of consecutive integers differ in exactly one bit -/
theorem gray_adjacent_aux (w v : Nat) (hv : v < w) :
    hamming (encode w v) (encode w (v + 1)) = 1 := by
  unfold encode
  rw [bin2gray_eq_grayAux, bin2gray_eq_grayAux]
  exact grayAux_adjacent (nbits w) v (le_lt_pow_nbits w (v + 1) hv) false

-- non-vacuity
example : hamming (encode 5 3) (encode 5 4) = 1 := gray_adjacent_aux 5 3 (by decide)
example : encode 5 3 = [false, true, false] ∧ encode 5 4 = [true, true, false] := by
  have h : nbits 5 = 3 := by decide
  simp [encode, h, int2bin, bitsLsb, bin2gray]

end Platypus
