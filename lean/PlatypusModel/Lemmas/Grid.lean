import PlatypusModel.Model.Grid
import Mathlib.Data.List.Induction
import Mathlib.Data.List.Perm.Basic
/-!
Helper lemmas for C14: list bookkeeping of the adaptive grid archive (`densUpd`, `eraseId`, the
counting fold of `adaptGrid`, the arg-max folds of `findDensest` / `pickFromDensest`).
-/
namespace Platypus

variable {σ β : Type}

/-! ### density lists -/

theorem densUpd_length (d : List Nat) (i : Option Nat) (f : Nat → Nat) :
    (densUpd d i f).length = d.length := by
  unfold densUpd
  cases i with
  | some c => simp
  | none => simp only []; split <;> simp

theorem getD_modify_nat (d : List Nat) (i c : Nat) (f : Nat → Nat) (hc : c < d.length) :
    (d.modify i f).getD c 0 = if i = c then f (d.getD c 0) else d.getD c 0 := by
  rw [List.getD_eq_getElem?_getD, List.getD_eq_getElem?_getD, List.getElem?_modify,
    List.getElem?_eq_getElem hc]
  by_cases h : i = c <;> simp [h]

/-- the counting fold of `adapt_grid`, for any starting density -/
theorem foldl_density (cell : σ → Option Nat) (n : Nat) (l : List σ)
    (hl : ∀ m ∈ l, ∃ c, c < n ∧ cell m = some c) :
    ∀ (d : List Nat), d.length = n →
      (l.foldl (fun d s => densUpd d (cell s) (· + 1)) d).length = n ∧
      ∀ c, c < n → (l.foldl (fun d s => densUpd d (cell s) (· + 1)) d).getD c 0 =
        d.getD c 0 + (l.filter (fun m => cell m == some c)).length := by
  induction l with
  | nil => intro d hd; simp [hd]
  | cons a l ih =>
    intro d hd
    obtain ⟨ca, hca, hcell⟩ := hl a (List.mem_cons_self ..)
    have ih' := ih (fun m hm => hl m (List.mem_cons_of_mem _ hm)) (densUpd d (cell a) (· + 1))
      (by rw [densUpd_length, hd])
    simp only [List.foldl_cons]
    refine ⟨ih'.1, ?_⟩
    intro c hc
    rw [ih'.2 c hc, hcell]
    simp only [densUpd]
    rw [getD_modify_nat d ca c _ (by omega), List.filter_cons]
    by_cases h : ca = c
    · subst h; simp [hcell]; omega
    · simp [h, hcell]

/-! ### `eraseId` -/

theorem eraseId_sublist (getId : σ → Nat) (p : σ) (l : List σ) : (eraseId getId p l).Sublist l := by
  induction l with
  | nil => simp [eraseId]
  | cons a l ih =>
    simp only [eraseId]
    split
    · exact List.sublist_cons_self ..
    · exact ih.cons_cons _

theorem eraseId_length (getId : σ → Nat) (p : σ) (l : List σ) (hp : p ∈ l) :
    (eraseId getId p l).length + 1 = l.length := by
  induction l with
  | nil => simp at hp
  | cons a l ih =>
    simp only [eraseId]
    split
    · simp
    · rename_i hne
      rcases List.mem_cons.mp hp with rfl | hp'
      · simp at hne
      · simp [ih hp']

/-- with distinct ids, `eraseId` of a member removes exactly that member -/
theorem eraseId_filter_length (getId : σ → Nat) (p : σ) (l : List σ) (hp : p ∈ l)
    (hn : (l.map getId).Nodup) (q : σ → Bool) :
    (l.filter q).length = ((eraseId getId p l).filter q).length + (if q p then 1 else 0) := by
  induction l with
  | nil => simp at hp
  | cons a l ih =>
    simp only [List.map_cons, List.nodup_cons] at hn
    simp only [eraseId]
    split
    · rename_i heq
      have heq' : getId a = getId p := by simpa using heq
      have hap : p = a := by
        rcases List.mem_cons.mp hp with h | h
        · exact h
        · exact absurd (heq' ▸ List.mem_map_of_mem h) hn.1
      subst hap
      rw [List.filter_cons]
      split <;> simp
    · rename_i hne
      have hp' : p ∈ l := by
        rcases List.mem_cons.mp hp with rfl | h
        · simp at hne
        · exact h
      rw [List.filter_cons, List.filter_cons]
      have := ih hp' hn.2
      split <;> simp [this]; omega

/-! ### the arg-max folds -/

/-- the fold of `pick_from_densest`, for any non-negative score -/
theorem argmax_fold (f : σ → Int) (hf : ∀ m, 0 ≤ f m) (l : List σ) (hne : l ≠ []) :
    ∃ p, p ∈ l ∧ (∀ m ∈ l, f m ≤ f p) ∧
      l.foldl (fun (acc : Option σ × Int) m => if f m > acc.2 then (some m, f m) else acc) (none, -1)
        = (some p, f p) := by
  induction l using List.reverseRecOn with
  | nil => exact absurd rfl hne
  | append_singleton pre s ih =>
    rw [List.foldl_append]
    by_cases hpre : pre = []
    · subst hpre
      have := hf s
      refine ⟨s, by simp, by simp, ?_⟩
      simp only [List.foldl_nil, List.foldl_cons]
      rw [if_pos (by omega)]
    · obtain ⟨p, hp, hmax, hfold⟩ := ih hpre
      rw [hfold]
      simp only [List.foldl_cons, List.foldl_nil]
      by_cases hgt : f s > f p
      · rw [if_pos hgt]
        refine ⟨s, by simp, ?_, rfl⟩
        intro m hm
        rcases List.mem_append.mp hm with hm | hm
        · have := hmax m hm; omega
        · have : m = s := by simpa using hm
          subst this; omega
      · rw [if_neg hgt]
        refine ⟨p, List.mem_append_left _ hp, ?_, rfl⟩
        intro m hm
        rcases List.mem_append.mp hm with hm | hm
        · exact hmax m hm
        · have : m = s := by simpa using hm
          subst this; omega

variable (cfg : GridCfg σ β)

/-- `find_densest` and `pick_from_densest` run in lockstep -/
theorem findDensest_fold_eq (g : GridArchive σ β) (l : List σ) :
    l.foldl (fun (acc : Option Nat × Int) m =>
      let ti := cfg.cell g.bounds m
      let tv : Int := densAt g.density ti
      if tv > acc.2 then (ti, tv) else acc) (none, -1) =
    ((l.foldl (fun (acc : Option σ × Int) m =>
      let tv : Int := densAt g.density (cfg.cell g.bounds m)
      if tv > acc.2 then (some m, tv) else acc) (none, -1)).1.bind (cfg.cell g.bounds),
     (l.foldl (fun (acc : Option σ × Int) m =>
      let tv : Int := densAt g.density (cfg.cell g.bounds m)
      if tv > acc.2 then (some m, tv) else acc) (none, -1)).2) := by
  induction l using List.reverseRecOn with
  | nil => rfl
  | append_singleton pre s ih =>
    rw [List.foldl_append, List.foldl_append, ih]
    simp only [List.foldl_cons, List.foldl_nil]
    split <;> rfl

/-- on a non-empty archive `pick_from_densest` returns a member of maximal reported occupancy and
`find_densest` its cell -/
theorem pick_spec (g : GridArchive σ β) (hne : g.contents ≠ []) :
    ∃ p, p ∈ g.contents ∧
      (∀ m ∈ g.contents, densAt g.density (cfg.cell g.bounds m) ≤ densAt g.density (cfg.cell g.bounds p)) ∧
      pickFromDensest cfg g = some p ∧ findDensest cfg g = cfg.cell g.bounds p := by
  obtain ⟨p, hp, hmax, hfold⟩ := argmax_fold
    (fun m => ((densAt g.density (cfg.cell g.bounds m) : Nat) : Int)) (fun m => by simp) g.contents hne
  refine ⟨p, hp, fun m hm => by have := hmax m hm; simpa using this, ?_, ?_⟩
  · unfold pickFromDensest; simp only; rw [hfold]
  · unfold findDensest; rw [findDensest_fold_eq]; simp only; rw [hfold]; rfl

end Platypus
