import PlatypusModel.Lemmas.Gray
/-!
# C17 base results (proved here; restated as the registered property theorems in Props/C17.lean)  `w = max_value - min_value` (the offset `min_value` is added
after `decode` / subtracted before `encode` by the Python code and plays no role).
-/
namespace Platypus

/-- integer/binary conversions are mutually inverse (every value, every length) -/
theorem bin2int_int2bin (n k : Nat) : bin2int (int2bin n k) = n := by
  simp [int2bin, bin2int_append, bin2int_replicate_false, bin2int_bitsLsb_reverse]

theorem int2bin_bin2int (bits : List Bool) : int2bin (bin2int bits) bits.length = bits := by
  apply bin2int_inj
  · exact int2bin_length _ _ (bin2int_lt bits)
  · exact bin2int_int2bin _ _

/-- binary/Gray conversions are mutually inverse for every length ≥ 1 -/
theorem gray2bin_bin2gray (bits : List Bool) (h : bits ≠ []) :
    gray2bin (bin2gray bits) = some bits := by
  cases bits with
  | nil => exact absurd rfl h
  | cons b bs => simp [bin2gray_cons, gray2bin, gray2binAux_grayAux]

theorem bin2gray_gray2bin (g : List Bool) (h : g ≠ []) :
    (gray2bin g).map bin2gray = some g := by
  cases g with
  | nil => exact absurd rfl h
  | cons b bs => simp [gray2bin, bin2gray_cons, grayAux_gray2binAux]

/-- the empty bit string is the error branch of `gray2bin` (Python: IndexError) -/
theorem gray2bin_nil : gray2bin [] = none := rfl

theorem le_lt_pow_nbits (w v : Nat) (hv : v ≤ w) : v < 2 ^ nbits w := by
  have := @Nat.lt_log2_self w
  unfold nbits; omega

theorem encode_length (w v : Nat) (hv : v ≤ w) : (encode w v).length = nbits w := by
  unfold encode
  rw [bin2gray_length, int2bin_length _ _ (le_lt_pow_nbits w v hv)]

/-- encoding any in-range integer and decoding it returns the same integer -/
theorem decode_encode (w v : Nat) (hv : v ≤ w) : decode w (encode w v) = some v := by
  have hl := int2bin_length v (nbits w) (le_lt_pow_nbits w v hv)
  have hne : int2bin v (nbits w) ≠ [] := by
    intro h; rw [h] at hl; simp [nbits] at hl
  unfold decode encode
  rw [gray2bin_bin2gray _ hne]
  simp only [Option.map_some, bin2int_int2bin]
  have : ¬ v > w := by omega
  simp [this]

/-- every bit string of the variable's length decodes to a value inside the range -/
theorem decode_in_range (w : Nat) (hw : 1 ≤ w) (bits : List Bool) (hl : bits.length = nbits w) :
    ∃ v, decode w bits = some v ∧ v ≤ w := by
  cases bits with
  | nil => simp [nbits] at hl
  | cons b bs =>
    have hlen : (b :: gray2binAux b bs).length = nbits w := by
      have : (gray2binAux b bs).length = bs.length := by
        have := grayAux_length b (gray2binAux b bs)
        rw [grayAux_gray2binAux] at this; exact this.symm
      simp [this] at hl ⊢; exact hl
    have hlt := bin2int_lt (b :: gray2binAux b bs)
    rw [hlen] at hlt
    have h2 : 2 ^ Nat.log2 w ≤ w := Nat.log2_self_le (by omega)
    refine ⟨_, rfl, ?_⟩
    simp only [nbits, Nat.pow_succ] at hlt
    show (if bin2int (b :: gray2binAux b bs) > w then _ else _) ≤ w
    split <;> omega

/-- every value of the range is produced by at least one bit string of the right length -/
theorem decode_surjective (w v : Nat) (hv : v ≤ w) :
    ∃ bits, bits.length = nbits w ∧ decode w bits = some v :=
  ⟨encode w v, encode_length w v hv, decode_encode w v hv⟩

-- non-vacuity: a non-power-of-two width with wrap-around
example : decode 5 (encode 5 5) = some 5 := decode_encode 5 5 (by decide)
example : nbits 5 = 3 ∧ decode 5 [true, false, false] = some 2 ∧
    decode 5 [true, false, true] = some 1 := by decide

end Platypus
