import PlatypusModel.Model.Indicators
import Mathlib.Algebra.Order.Field.Basic
import Mathlib.Algebra.Order.BigOperators.Group.List
import Mathlib.Tactic.Linarith
import Mathlib.Tactic.Ring
import Mathlib.Tactic.FieldSimp
set_option linter.unusedSectionVars false
/-!
# Lemmas for C16: Python `min` / `max` of a list, `ofNatA`, clipping, position-wise comparison of lists
-/
namespace Platypus

variable {α : Type} [Field α] [LinearOrder α] [IsStrictOrderedRing α]

/-! ### `pyMinList` / `pyMaxList` are the minimum / maximum -/

theorem foldl_min_le (xs : List α) (x : α) : xs.foldl min x ≤ x ∧ ∀ y ∈ xs, xs.foldl min x ≤ y := by
  induction xs generalizing x with
  | nil => simp
  | cons a t ih =>
    obtain ⟨h1, h2⟩ := ih (min x a)
    refine ⟨h1.trans (min_le_left _ _), ?_⟩
    intro y hy
    rcases List.mem_cons.mp hy with rfl | hy
    · exact h1.trans (min_le_right _ _)
    · exact h2 y hy

theorem foldl_min_mem_i (xs : List α) (x : α) : xs.foldl min x ∈ x :: xs := by
  induction xs generalizing x with
  | nil => simp
  | cons a t ih =>
    have := ih (min x a)
    rcases List.mem_cons.mp this with h | h
    · rw [List.foldl_cons, h]
      rcases min_choice x a with h' | h' <;> simp [h']
    · simp [h]

theorem foldl_le_max (xs : List α) (x : α) : x ≤ xs.foldl max x ∧ ∀ y ∈ xs, y ≤ xs.foldl max x := by
  induction xs generalizing x with
  | nil => simp
  | cons a t ih =>
    obtain ⟨h1, h2⟩ := ih (max x a)
    refine ⟨(le_max_left _ _).trans h1, ?_⟩
    intro y hy
    rcases List.mem_cons.mp hy with rfl | hy
    · exact (le_max_right _ _).trans h1
    · exact h2 y hy

theorem foldl_max_mem_i (xs : List α) (x : α) : xs.foldl max x ∈ x :: xs := by
  induction xs generalizing x with
  | nil => simp
  | cons a t ih =>
    have := ih (max x a)
    rcases List.mem_cons.mp this with h | h
    · rw [List.foldl_cons, h]
      rcases max_choice x a with h' | h' <;> simp [h']
    · simp [h]

theorem pyMinList_cons (d x : α) (xs : List α) : pyMinList d (x :: xs) = xs.foldl min x := by
  show xs.foldl (fun m y => if y < m then y else m) x = xs.foldl min x
  congr 1
  funext m y
  rcases lt_or_ge y m with h | h
  · simp [h, min_eq_right h.le]
  · simp [not_lt.mpr h, min_eq_left h]

theorem pyMaxList_cons (d x : α) (xs : List α) : pyMaxList d (x :: xs) = xs.foldl max x := by
  show xs.foldl (fun m y => if m < y then y else m) x = xs.foldl max x
  congr 1
  funext m y
  rcases lt_or_ge m y with h | h
  · simp [h, max_eq_right h.le]
  · simp [not_lt.mpr h, max_eq_left h]

theorem pyMinList_le (d : α) {l : List α} {x : α} (hx : x ∈ l) : pyMinList d l ≤ x := by
  cases l with
  | nil => simp at hx
  | cons a t =>
    rw [pyMinList_cons]
    rcases List.mem_cons.mp hx with rfl | hx
    · exact (foldl_min_le t _).1
    · exact (foldl_min_le t a).2 x hx

theorem pyMinList_mem (d : α) {l : List α} (hl : l ≠ []) : pyMinList d l ∈ l := by
  cases l with
  | nil => exact absurd rfl hl
  | cons a t => rw [pyMinList_cons]; exact foldl_min_mem_i t a

theorem le_pyMinList (d : α) {l : List α} {c : α} (hl : l ≠ []) (h : ∀ x ∈ l, c ≤ x) : c ≤ pyMinList d l :=
  h _ (pyMinList_mem d hl)

theorem le_pyMaxList (d : α) {l : List α} {x : α} (hx : x ∈ l) : x ≤ pyMaxList d l := by
  cases l with
  | nil => simp at hx
  | cons a t =>
    rw [pyMaxList_cons]
    rcases List.mem_cons.mp hx with rfl | hx
    · exact (foldl_le_max t _).1
    · exact (foldl_le_max t a).2 x hx

theorem pyMaxList_mem (d : α) {l : List α} (hl : l ≠ []) : pyMaxList d l ∈ l := by
  cases l with
  | nil => exact absurd rfl hl
  | cons a t => rw [pyMaxList_cons]; exact foldl_max_mem_i t a

theorem pyMaxList_le (d : α) {l : List α} {c : α} (hl : l ≠ []) (h : ∀ x ∈ l, x ≤ c) : pyMaxList d l ≤ c :=
  h _ (pyMaxList_mem d hl)

/-! ### position-wise comparison -/

theorem forall₂_exists_left {β γ : Type} {R : β → γ → Prop} {l : List β} {l' : List γ} (h : List.Forall₂ R l l') :
    ∀ y ∈ l', ∃ x ∈ l, R x y := by
  induction h with
  | nil => simp
  | cons hab _ ih =>
    intro y hy
    rcases List.mem_cons.mp hy with rfl | hy
    · exact ⟨_, List.mem_cons_self, hab⟩
    · obtain ⟨x, hx, hr⟩ := ih y hy
      exact ⟨x, List.mem_cons_of_mem _ hx, hr⟩

theorem forall₂_exists_right {β γ : Type} {R : β → γ → Prop} {l : List β} {l' : List γ} (h : List.Forall₂ R l l') :
    ∀ x ∈ l, ∃ y ∈ l', R x y := by
  induction h with
  | nil => simp
  | cons hab _ ih =>
    intro x hx
    rcases List.mem_cons.mp hx with rfl | hx
    · exact ⟨_, List.mem_cons_self, hab⟩
    · obtain ⟨y, hy, hr⟩ := ih x hx
      exact ⟨y, List.mem_cons_of_mem _ hy, hr⟩

theorem pyMinList_mono (d : α) {l l' : List α} (h : List.Forall₂ (· ≤ ·) l l') : pyMinList d l ≤ pyMinList d l' := by
  by_cases hl' : l' = []
  · subst hl'
    cases h
    exact le_refl _
  · obtain ⟨x, hx, hxy⟩ := forall₂_exists_left h _ (pyMinList_mem d hl')
    exact (pyMinList_le d hx).trans hxy

theorem pyMaxList_mono (d : α) {l l' : List α} (h : List.Forall₂ (· ≤ ·) l l') : pyMaxList d l ≤ pyMaxList d l' := by
  by_cases hl : l = []
  · subst hl
    cases h
    exact le_refl _
  · obtain ⟨y, hy, hxy⟩ := forall₂_exists_right h _ (pyMaxList_mem d hl)
    exact hxy.trans (le_pyMaxList d hy)

/-! ### `ofNatA`, `absA`, clipping -/

theorem ofNatA_eq (n : Nat) : (ofNatA n : α) = (n : α) := by
  induction n with
  | zero => simp [ofNatA]
  | succ n ih => simp [ofNatA, ih]

theorem ofNatA_nonneg (n : Nat) : (0 : α) ≤ ofNatA n := by
  rw [ofNatA_eq]; exact Nat.cast_nonneg n

theorem absA_eq (x : α) : absA x = |x| := by
  unfold absA
  split_ifs with h
  · exact (abs_of_neg h).symm
  · exact (abs_of_nonneg (not_lt.mp h)).symm

/-- `max(0.0, min(1.0, x))` -/
theorem clip_eq (x : α) : pyMaxList 0 [0, pyMinList 0 [1, x]] = max 0 (min 1 x) := by
  rw [pyMaxList_cons, pyMinList_cons]; rfl

theorem clip_one_sub (x : α) : max 0 (min 1 (1 - x)) = 1 - max 0 (min 1 x) := by
  rcases le_total x 0 with h0 | h0
  · rw [min_eq_left (by linarith), min_eq_right (by linarith : x ≤ 1), max_eq_left h0,
      max_eq_right (by norm_num : (0:α) ≤ 1)]; ring
  · rcases le_total x 1 with h1 | h1
    · rw [min_eq_right (by linarith), min_eq_right h1, max_eq_right h0, max_eq_right (by linarith)]
    · rw [min_eq_right (by linarith), min_eq_left h1, max_eq_left (by linarith),
        max_eq_right (by norm_num : (0:α) ≤ 1)]; ring

/-! ### unfolding the `Except` programs -/

theorem filter_feasible_nil (set : List (ISol α)) (hset : ∀ s ∈ set, isFeasible s = false) :
    set.filter isFeasible = [] := by
  rw [List.filter_eq_nil_iff]; intro s hs; simp [hset s hs]

theorem boundsOf_ok {nobjs : Nat} {sols : List (ISol α)} {mn mx : List α} (h : boundsOf nobjs sols = .ok (mn, mx)) :
    sols.filter isFeasible ≠ [] ∧
    mn = (List.range nobjs).map (fun i => pyMinList 0 ((sols.filter isFeasible).map (fun s => s.objs.getD i 0))) ∧
    mx = (List.range nobjs).map (fun i => pyMaxList 0 ((sols.filter isFeasible).map (fun s => s.objs.getD i 0))) := by
  unfold boundsOf at h
  simp only [] at h
  split at h
  · cases h
  · rename_i hne
    injection h with h
    injection h with h1 h2
    exact ⟨by simpa [List.isEmpty_iff] using hne, h1.symm, h2.symm⟩

theorem refNormalize_ok {ops : NumOps α} {nobjs : Nat} {ref : List (ISol α)} {mn mx : List α} {refN : List (List α)}
    (h : refNormalize ops nobjs ref = .ok ((mn, mx), refN)) :
    boundsOf nobjs ref = .ok (mn, mx) ∧ checkRanges ops.eps mn mx = .ok () ∧
    refN = (ref.filter isFeasible).map (fun s => normObjs mn mx s.objs) := by
  unfold refNormalize at h
  split at h
  · cases h
  · cases hb : boundsOf nobjs ref with
    | error e => simp [hb, bind, Except.bind] at h
    | ok b =>
      obtain ⟨mn', mx'⟩ := b
      simp only [hb, bind, Except.bind, pure, Except.pure] at h
      cases hc : checkRanges ops.eps mn' mx' with
      | error e => simp [hc] at h
      | ok u =>
        simp only [hc] at h
        injection h with h
        injection h with h1 h2
        injection h1 with h3 h4
        subst h3 h4
        exact ⟨rfl, hc, h2.symm⟩

theorem gd_ok {ops : NumOps α} {nobjs : Nat} {d : α} {ref set : List (ISol α)} {v : α}
    (hv : generationalDistance ops nobjs d ref set = .ok v) :
    ∃ mn mx refN, refNormalize ops nobjs ref = .ok ((mn, mx), refN) ∧
      ((set.filter isFeasible = [] ∧ v = ops.inf) ∨
       (set.filter isFeasible ≠ [] ∧
        v = ops.pow (ops.sum (((set.filter isFeasible).map (fun s => normObjs mn mx s.objs)).map
              (fun x => ops.pow (distanceToNearest ops x refN) d))) (1 / d) / ofNatA (set.filter isFeasible).length)) := by
  unfold generationalDistance at hv
  cases hr : refNormalize ops nobjs ref with
  | error e => simp [hr, bind, Except.bind] at hv
  | ok r =>
    obtain ⟨⟨mn, mx⟩, refN⟩ := r
    refine ⟨mn, mx, refN, rfl, ?_⟩
    simp only [hr, bind, Except.bind, pure, Except.pure] at hv
    split at hv
    · rename_i he
      left
      injection hv with hv
      exact ⟨by simpa [List.isEmpty_iff] using he, hv.symm⟩
    · rename_i he
      right
      cases hc : checkRanges ops.eps mn mx with
      | error e => simp [hc] at hv
      | ok u =>
        simp only [hc] at hv
        injection hv with hv
        exact ⟨by simpa [List.isEmpty_iff] using he, hv.symm⟩

theorem igd_ok {ops : NumOps α} {nobjs : Nat} {d : α} {ref set : List (ISol α)} {v : α}
    (hv : invertedGenerationalDistance ops nobjs d ref set = .ok v) :
    ∃ mn mx refN, refNormalize ops nobjs ref = .ok ((mn, mx), refN) ∧
        v = ops.pow (ops.sum (refN.map
              (fun r => ops.pow (distanceToNearest ops r ((set.filter isFeasible).map (fun s => normObjs mn mx s.objs))) d)))
              (1 / d) / ofNatA refN.length := by
  unfold invertedGenerationalDistance at hv
  cases hr : refNormalize ops nobjs ref with
  | error e => simp [hr, bind, Except.bind] at hv
  | ok r =>
    obtain ⟨⟨mn, mx⟩, refN⟩ := r
    refine ⟨mn, mx, refN, rfl, ?_⟩
    simp only [hr, bind, Except.bind, pure, Except.pure] at hv
    split at hv
    · cases hc : checkRanges ops.eps mn mx with
      | error e => simp [hc] at hv
      | ok u =>
        simp only [hc] at hv
        split at hv
        · cases hv
        · injection hv with hv
          exact hv.symm
    · split at hv
      · cases hv
      · injection hv with hv
        exact hv.symm

theorem eps_ok {ops : NumOps α} {dirs : List Bool} {nobjs : Nat} {ref set : List (ISol α)} {v : α}
    (hv : epsilonIndicator ops true dirs nobjs ref set = .ok v) :
    ∃ mn mx refN, refNormalize ops nobjs ref = .ok ((mn, mx), refN) ∧
      ((set.filter isFeasible = [] ∧ v = ops.inf) ∨
       (set.filter isFeasible ≠ [] ∧ refN ≠ [] ∧
        v = pyMaxList 0 (refN.map (fun r => pyMinList 0 (((set.filter isFeasible).map (fun s => normObjs mn mx s.objs)).map
          (fun a => pyMaxList 0 (List.zipWith (fun (dk : Bool × α) rk => if dk.1 then rk - dk.2 else dk.2 - rk)
             (dirs.zip a) r))))))) := by
  unfold epsilonIndicator at hv
  cases hr : refNormalize ops nobjs ref with
  | error e => simp [hr, bind, Except.bind] at hv
  | ok r =>
    obtain ⟨⟨mn, mx⟩, refN⟩ := r
    refine ⟨mn, mx, refN, rfl, ?_⟩
    simp only [hr, bind, Except.bind, pure, Except.pure] at hv
    split at hv
    · rename_i he
      left
      injection hv with hv
      exact ⟨by simpa [List.isEmpty_iff] using he, hv.symm⟩
    · rename_i he
      right
      cases hc : checkRanges ops.eps mn mx with
      | error e => simp [hc] at hv
      | ok u =>
        simp only [hc, Bool.true_and] at hv
        split at hv
        · cases hv
        · rename_i hre
          injection hv with hv
          exact ⟨by simpa [List.isEmpty_iff] using he, by simpa [List.isEmpty_iff] using hre, hv.symm⟩

end Platypus
