import PlatypusModel.Model.Operators
import Mathlib.Order.Defs.LinearOrder
import Mathlib.Data.List.Perm.Basic
import Mathlib.Data.List.Nodup
import Mathlib.Data.List.Forall2
/-! Shared definitions for the C06 theorems: what "valid for the declared type" means. -/
namespace Platypus

/-- a variable is valid for its declared type: reals inside their bounds, bit strings of the declared
length, permutations of exactly the declared elements, duplicate-free subsets of the declared size drawn
from the declared elements -/
def ValidVar {α : Type} [LE α] : TypeD α → Var α → Prop
  | .real lo hi, .real x => lo ≤ x ∧ x ≤ hi
  | .binary n, .bits b => b.length = n
  | .perm n, .perm p => p.Perm (List.range n)
  | .subset n k, .subset s => s.length = k ∧ s.Nodup ∧ ∀ e ∈ s, e < n
  | _, _ => False

def ValidVars {α : Type} [LE α] (types : List (TypeD α)) (vars : List (Var α)) : Prop :=
  List.Forall₂ ValidVar types vars

def ValidSol {α : Type} [LE α] (types : List (TypeD α)) (s : OSol α) : Prop := ValidVars types s.vars

/-- declared real ranges are non-empty -/
def TypesOk {α : Type} [LE α] (types : List (TypeD α)) : Prop :=
  ∀ t ∈ types, match t with | .real lo hi => lo ≤ hi | _ => True

end Platypus
