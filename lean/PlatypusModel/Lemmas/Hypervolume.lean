import PlatypusModel.Model.Indicators
import Mathlib.Algebra.Order.Field.Basic
import Mathlib.Data.List.Perm.Basic
import Mathlib.Tactic.Linarith
import Mathlib.Tactic.Ring
set_option linter.unusedSectionVars false
/-!
# Array-level facts for the hypervolume algorithm (C15)

Specifications of the imperative helpers `swapA`, `filterNondominated`, `reduceSet` of
`PlatypusModel.Model.Indicators` in terms of the list of points stored in an array prefix (`pl`), up to
permutation of that prefix (`PrefPerm`).
-/
namespace Platypus

variable {α : Type} [Field α] [LinearOrder α] [IsStrictOrderedRing α]

/-- the first `d` coordinates of every point lie in `[0,1]` -/
def InUnit (d : Nat) (P : List (List α)) : Prop :=
  ∀ p ∈ P, ∀ i, i < d → 0 ≤ p.getD i 0 ∧ p.getD i 0 ≤ 1

/-- every point of `P` is weakly dominated (on the first `d` coordinates) by a point of `Q` -/
def DomBy (d : Nat) (P Q : List (List α)) : Prop :=
  ∀ p ∈ P, ∃ q ∈ Q, ∀ i, i < d → p.getD i 0 ≤ q.getD i 0

theorem InUnit.mono {d e : Nat} {P : List (List α)} (h : InUnit d P) (he : e ≤ d) : InUnit e P :=
  fun p hp i hi => h p hp i (lt_of_lt_of_le hi he)

theorem InUnit.sub {d : Nat} {P Q : List (List α)} (h : InUnit d P) (hs : ∀ x ∈ Q, x ∈ P) : InUnit d Q :=
  fun p hp i hi => h p (hs p hp) i hi

theorem InUnit.filter {d : Nat} {P : List (List α)} (h : InUnit d P) (f : List α → Bool) : InUnit d (P.filter f) :=
  h.sub (fun _ hx => (List.mem_filter.1 hx).1)

theorem DomBy.of_subset {d : Nat} {P Q : List (List α)} (h : ∀ x ∈ P, x ∈ Q) : DomBy d P Q :=
  fun p hp => ⟨p, h p hp, fun _ _ => le_refl _⟩

theorem DomBy.trans {d : Nat} {P Q S : List (List α)} (h1 : DomBy d P Q) (h2 : DomBy d Q S) : DomBy d P S := by
  intro p hp
  obtain ⟨q, hq, hpq⟩ := h1 p hp
  obtain ⟨s, hs, hqs⟩ := h2 q hq
  exact ⟨s, hs, fun i hi => le_trans (hpq i hi) (hqs i hi)⟩

/-! ### prefix permutations -/
section arrays
variable {β : Type}

/-- `b` is `a` with the first `n` entries permuted -/
def PrefPerm (n : Nat) (a b : Array β) : Prop :=
  (b.toList.take n).Perm (a.toList.take n) ∧ b.toList.drop n = a.toList.drop n

theorem PrefPerm.refl (n : Nat) (a : Array β) : PrefPerm n a a := ⟨List.Perm.refl _, rfl⟩

theorem PrefPerm.trans {n : Nat} {a b c : Array β} (h1 : PrefPerm n a b) (h2 : PrefPerm n b c) : PrefPerm n a c :=
  ⟨h2.1.trans h1.1, h2.2.trans h1.2⟩

theorem PrefPerm.mono {n m : Nat} {a b : Array β} (h : PrefPerm n a b) (hnm : n ≤ m) : PrefPerm m a b := by
  obtain ⟨e, rfl⟩ := Nat.exists_eq_add_of_le hnm
  refine ⟨?_, ?_⟩
  · rw [List.take_add, List.take_add, h.2]
    exact h.1.append_right _
  · rw [← List.drop_drop, ← List.drop_drop, h.2]

theorem PrefPerm.size_eq {n : Nat} {a b : Array β} (h : PrefPerm n a b) : b.size = a.size := by
  have h1 := h.1.length_eq
  have h2 := congrArg List.length h.2
  have ha := congrArg List.length (List.take_append_drop n a.toList)
  have hb := congrArg List.length (List.take_append_drop n b.toList)
  rw [List.length_append] at ha hb
  simp only [Array.length_toList] at ha hb
  omega

theorem swapA_eq_swap (a : Array β) (i j : Nat) (hi : i < a.size) (hj : j < a.size) :
    swapA a i j = a.swap i j hi hj := by
  unfold swapA; rw [dif_pos ⟨hi, hj⟩]; rfl

theorem swapA_size (a : Array β) (i j : Nat) : (swapA a i j).size = a.size := by
  unfold swapA; split <;> simp

theorem swapA_getD (a : Array β) (i j b : Nat) (d : β) (hi : i < a.size) (hj : j < a.size) :
    (swapA a i j).getD b d = if b = i then a.getD j d else if b = j then a.getD i d else a.getD b d := by
  rw [swapA_eq_swap a i j hi hj]
  simp only [Array.getD_eq_getD_getElem?, Array.getElem?_swap]
  by_cases h1 : b = i
  · subst h1
    by_cases h2 : j = b
    · subst h2; simp [hj]
    · simp [h2, hj]
  · by_cases h2 : b = j
    · subst h2; simp [h1, hi]
    · have h1' : ¬ i = b := fun h => h1 h.symm
      have h2' : ¬ j = b := fun h => h2 h.symm
      simp [h1, h2, h1', h2']

theorem swapA_prefPerm (a : Array β) (i j n : Nat) (hi : i < n) (hj : j < n) (hn : n ≤ a.size) :
    PrefPerm n a (swapA a i j) := by
  have hi' : i < a.size := lt_of_lt_of_le hi hn
  have hj' : j < a.size := lt_of_lt_of_le hj hn
  rw [swapA_eq_swap a i j hi' hj']
  have hdrop : (a.swap i j hi' hj').toList.drop n = a.toList.drop n := by
    apply List.ext_getElem?
    intro m
    rw [List.getElem?_drop, List.getElem?_drop, Array.getElem?_toList, Array.getElem?_toList,
      Array.getElem?_swap]
    rw [if_neg (by omega), if_neg (by omega)]
  refine ⟨?_, hdrop⟩
  have hp : (a.swap i j hi' hj').toList.Perm a.toList := Array.perm_iff_toList_perm.1 (Array.swap_perm hi' hj')
  rw [← List.take_append_drop n (a.swap i j hi' hj').toList, ← List.take_append_drop n a.toList, hdrop] at hp
  exact (List.perm_append_right_iff _).1 hp

end arrays

/-! ### the list of points stored in an array prefix -/

/-- the points stored in `a[0..n)` -/
def pl (a : Array (Array α)) (n : Nat) : List (List α) := (a.toList.take n).map Array.toList

theorem pl_length (a : Array (Array α)) (n : Nat) (hn : n ≤ a.size) : (pl a n).length = n := by
  simp [pl, hn]

theorem pl_succ (a : Array (Array α)) (n : Nat) (hn : n < a.size) :
    pl a (n + 1) = pl a n ++ [(a.getD n #[]).toList] := by
  simp [pl, List.take_add_one, Array.getD_eq_getD_getElem?, hn]

theorem mem_pl_iff (a : Array (Array α)) (n : Nat) (x : List α) :
    x ∈ pl a n ↔ ∃ i, i < n ∧ i < a.size ∧ x = (a.getD i #[]).toList := by
  unfold pl
  rw [List.mem_map]
  constructor
  · rintro ⟨y, hy, rfl⟩
    obtain ⟨i, hi, rfl⟩ := List.mem_iff_getElem.1 hy
    rw [List.length_take, Array.length_toList] at hi
    refine ⟨i, by omega, by omega, ?_⟩
    simp [Array.getD_eq_getD_getElem?, show i < a.size by omega]
  · rintro ⟨i, hi, hi', rfl⟩
    refine ⟨a[i], ?_, by simp [Array.getD_eq_getD_getElem?, hi']⟩
    apply List.mem_iff_getElem.2
    refine ⟨i, by simp; omega, by simp⟩

theorem mem_pl (a : Array (Array α)) (i n : Nat) (hi : i < n) (hn : n ≤ a.size) :
    (a.getD i #[]).toList ∈ pl a n :=
  (mem_pl_iff a n _).2 ⟨i, hi, lt_of_lt_of_le hi hn, rfl⟩

theorem pl_subset (a : Array (Array α)) (m n : Nat) (h : m ≤ n) : ∀ x ∈ pl a m, x ∈ pl a n := by
  intro x hx
  obtain ⟨i, hi, hi', hxe⟩ := (mem_pl_iff a m x).1 hx
  exact (mem_pl_iff a n x).2 ⟨i, lt_of_lt_of_le hi h, hi', hxe⟩

theorem PrefPerm.pl {n : Nat} {a b : Array (Array α)} (h : PrefPerm n a b) : (pl b n).Perm (pl a n) :=
  h.1.map _

theorem array_getD_toList (x : Array α) (k : Nat) (d : α) : x.toList.getD k d = x.getD k d := by
  simp [Array.getD_eq_getD_getElem?, List.getD_eq_getElem?_getD]

theorem range_map_getD {γ : Type} (a : Array (Array α)) (n : Nat) (hn : n ≤ a.size) (g : Array α → γ) :
    (List.range n).map (fun i => g (a.getD i #[])) = (a.toList.take n).map g := by
  apply List.ext_getElem
  · simp [hn]
  · intro i h1 h2
    simp only [List.length_map, List.length_range] at h1
    simp [Array.getD_eq_getD_getElem?, show i < a.size by omega]

theorem heights_eq (a : Array (Array α)) (n k : Nat) (hn : n ≤ a.size) :
    (List.range n).map (fun i => (a.getD i #[]).getD k 0) = (pl a n).map (fun q => q.getD k 0) := by
  rw [range_map_getD a n hn (fun x => x.getD k 0), pl, List.map_map]
  apply List.map_congr_left
  intro x _
  simp

/-- removing position `x` from the prefix `[0,n)` by swapping it to the end -/
theorem swap_remove (a : Array (Array α)) (x n : Nat) (hx : x < n) (hn : n ≤ a.size) :
    (pl a n).Perm (pl (swapA a x (n - 1)) (n - 1) ++ [(a.getD x #[]).toList]) := by
  have hR := swapA_prefPerm a x (n - 1) n hx (by omega) hn
  have hn1 : n = (n - 1) + 1 := by omega
  have hsz : n - 1 < (swapA a x (n - 1)).size := by rw [swapA_size]; omega
  have h1 : (pl (swapA a x (n - 1)) ((n - 1) + 1)).Perm (pl a n) := by rw [← hn1]; exact hR.pl
  rw [pl_succ _ _ hsz] at h1
  rw [swapA_getD a x (n - 1) (n - 1) #[] (by omega) (by omega)] at h1
  have : (if n - 1 = x then a.getD (n - 1) #[] else if n - 1 = n - 1 then a.getD x #[] else a.getD (n - 1) #[])
      = a.getD x #[] := by
    by_cases h : n - 1 = x
    · rw [if_pos h, h]
    · rw [if_neg h, if_pos rfl]
  rw [this] at h1
  exact h1.symm

theorem pyMinList_cons (d x : α) (xs : List α) : pyMinList d (x :: xs) = xs.foldl min x := by
  show xs.foldl (fun m y => if y < m then y else m) x = xs.foldl min x
  congr 1
  funext m y
  by_cases h : y < m
  · rw [if_pos h, min_eq_right (le_of_lt h)]
  · rw [if_neg h, min_eq_left (not_lt.1 h)]

/-! ### `hvDominates` -/

theorem hvDominates_irrefl (a : Array α) (k : Nat) : hvDominates a a k = false := by
  unfold hvDominates
  cases k with
  | zero => simp
  | succ k =>
    simp only [Bool.and_eq_false_imp, List.all_eq_false]
    intro _
    exact ⟨0, by simp, by simp⟩

theorem hvDominates_le (a b : Array α) (k : Nat) (h : hvDominates a b k = true) :
    ∀ i, i < k → b.toList.getD i 0 ≤ a.toList.getD i 0 := by
  unfold hvDominates at h
  simp only [Bool.and_eq_true, List.all_eq_true, List.mem_range, decide_eq_true_eq] at h
  intro i hi
  rw [array_getD_toList, array_getD_toList]
  exact le_of_lt (h.2 i hi)

theorem hvDominates_one_false (a b : Array α) (h : hvDominates a b 1 = false) : a.getD 0 0 ≤ b.getD 0 0 := by
  unfold hvDominates at h
  simpa using h

theorem domBy_swap_remove (a : Array (Array α)) (k x y n : Nat) (hx : x < n) (hy : y < n) (hn : n ≤ a.size)
    (hdom : hvDominates (a.getD y #[]) (a.getD x #[]) k = true) :
    DomBy k (pl a n) (pl (swapA a x (n - 1)) (n - 1)) := by
  have hperm := swap_remove a x n hx hn
  have hy' : (a.getD y #[]).toList ∈ pl (swapA a x (n - 1)) (n - 1) := by
    have := (hperm.mem_iff).1 (mem_pl a y n hy hn)
    rcases List.mem_append.1 this with h | h
    · exact h
    · exfalso
      have h' : (a.getD y #[]).toList = (a.getD x #[]).toList := by simpa using h
      have : a.getD y #[] = a.getD x #[] := Array.toList_inj.1 h'
      rw [this, hvDominates_irrefl] at hdom
      exact Bool.false_ne_true hdom
  intro z hz
  rcases List.mem_append.1 ((hperm.mem_iff).1 hz) with h | h
  · exact ⟨z, h, fun _ _ => le_refl _⟩
  · have : z = (a.getD x #[]).toList := by simpa using h
    subst this
    exact ⟨_, hy', hvDominates_le _ _ k hdom⟩

/-! ### `reduceSet` -/

theorem reduceSet_spec (obj : Nat) (t : α) : ∀ (fuel : Nat) (arr : Array (Array α)) (i n : Nat),
    n ≤ arr.size → n - i < fuel →
    PrefPerm n arr (reduceSet obj t fuel arr i n).1 ∧ (reduceSet obj t fuel arr i n).2 ≤ n ∧
    (∃ rem, (pl arr n).Perm (pl (reduceSet obj t fuel arr i n).1 (reduceSet obj t fuel arr i n).2 ++ rem) ∧
      ∀ x ∈ rem, x.getD obj 0 ≤ t) ∧
    ((∃ b, i ≤ b ∧ b < n ∧ (arr.getD b #[]).getD obj 0 ≤ t) → (reduceSet obj t fuel arr i n).2 < n) := by
  intro fuel
  induction fuel with
  | zero => intro arr i n _ h; exact absurd h (Nat.not_lt_zero _)
  | succ fuel ih =>
    intro arr i n hn hf
    rw [reduceSet.eq_2]
    by_cases hin : i < n
    · rw [if_pos hin]
      by_cases hle : (arr.getD i #[]).getD obj 0 ≤ t
      · rw [if_pos hle]
        have hsz : n - 1 ≤ (swapA arr i (n - 1)).size := by rw [swapA_size]; omega
        obtain ⟨h1, h2, ⟨rem, h3, h4⟩, _⟩ := ih (swapA arr i (n - 1)) (i + 1) (n - 1) hsz (by omega)
        refine ⟨?_, by omega, ⟨rem ++ [(arr.getD i #[]).toList], ?_, ?_⟩, fun _ => by omega⟩
        · exact (swapA_prefPerm arr i (n - 1) n hin (by omega) hn).trans (h1.mono (by omega))
        · have := swap_remove arr i n hin hn
          exact this.trans (by rw [← List.append_assoc]; exact h3.append_right _)
        · intro x hx
          rcases List.mem_append.1 hx with h | h
          · exact h4 x h
          · have : x = (arr.getD i #[]).toList := by simpa using h
            subst this; rw [array_getD_toList]; exact hle
      · rw [if_neg hle]
        obtain ⟨h1, h2, h3, h5⟩ := ih arr (i + 1) n hn (by omega)
        refine ⟨h1, h2, h3, ?_⟩
        rintro ⟨b, hb1, hb2, hb3⟩
        apply h5
        refine ⟨b, ?_, hb2, hb3⟩
        rcases Nat.eq_or_lt_of_le hb1 with h | h
        · subst h; exact absurd hb3 hle
        · exact h
    · rw [if_neg hin]
      refine ⟨PrefPerm.refl _ _, le_refl _, ⟨[], by simp, by simp⟩, ?_⟩
      rintro ⟨b, hb1, hb2, _⟩; omega

/-! ### `filterNondominated` -/

theorem filterNondominated_spec (k C : Nat) : ∀ (fuel : Nat) (arr : Array (Array α)) (i j n : Nat),
    i < j → 1 ≤ n → n ≤ arr.size → n ≤ C → (n - i) * C + (n - j) < fuel →
    (∀ b, b < n → (i = 0 → b < j) → hvDominates (arr.getD b #[]) (arr.getD 0 #[]) k = false) →
    PrefPerm n arr (filterNondominated k fuel arr i j n).1 ∧
    (filterNondominated k fuel arr i j n).2 ≤ n ∧ 1 ≤ (filterNondominated k fuel arr i j n).2 ∧
    DomBy k (pl arr n) (pl (filterNondominated k fuel arr i j n).1 (filterNondominated k fuel arr i j n).2) ∧
    ∀ b, b < (filterNondominated k fuel arr i j n).2 →
      hvDominates ((filterNondominated k fuel arr i j n).1.getD b #[])
        ((filterNondominated k fuel arr i j n).1.getD 0 #[]) k = false := by
  intro fuel
  induction fuel with
  | zero => intro arr i j n _ _ _ _ h; exact absurd h (Nat.not_lt_zero _)
  | succ fuel ih =>
    intro arr i j n hij hn1 hn hC hf hinv
    rw [filterNondominated.eq_2]
    by_cases hin : i < n
    · rw [if_pos hin]
      by_cases hjn : j < n
      · rw [if_pos hjn]
        have e : n - i = (n - 1 - i) + 1 := by omega
        by_cases hd1 : hvDominates (arr.getD i #[]) (arr.getD j #[]) k = true
        · rw [if_pos hd1]
          have hsz : n - 1 ≤ (swapA arr j (n - 1)).size := by rw [swapA_size]; omega
          have hmeas : (n - 1 - i) * C + (n - 1 - j) < fuel := by
            rw [e, Nat.add_mul, Nat.one_mul] at hf
            omega
          have hinv' : ∀ b, b < n - 1 → (i = 0 → b < j) →
              hvDominates ((swapA arr j (n - 1)).getD b #[]) ((swapA arr j (n - 1)).getD 0 #[]) k = false := by
            intro b hb hbj
            rw [swapA_getD arr j (n - 1) b #[] (by omega) (by omega),
              swapA_getD arr j (n - 1) 0 #[] (by omega) (by omega)]
            rw [if_neg (by omega : ¬ 0 = j), if_neg (by omega : ¬ 0 = n - 1)]
            by_cases hbj' : b = j
            · rw [if_pos hbj']
              exact hinv (n - 1) (by omega) (fun h0 => by have := hbj h0; omega)
            · rw [if_neg hbj', if_neg (by omega)]
              exact hinv b (by omega) hbj
          obtain ⟨h1, h2, h3, h4, h5⟩ :=
            ih (swapA arr j (n - 1)) i j (n - 1) hij (by omega) hsz (by omega) hmeas hinv'
          exact ⟨(swapA_prefPerm arr j (n - 1) n hjn (by omega) hn).trans (h1.mono (by omega)), by omega, h3,
            (domBy_swap_remove arr k j i n hjn hin hn hd1).trans h4, h5⟩
        · rw [if_neg hd1]
          by_cases hd2 : hvDominates (arr.getD j #[]) (arr.getD i #[]) k = true
          · rw [if_pos hd2]
            have hsz : n - 1 ≤ (swapA arr i (n - 1)).size := by rw [swapA_size]; omega
            have hmeas : (n - 1 - i) * C + (n - 1 - (i + 1)) < fuel := by
              rw [e, Nat.add_mul, Nat.one_mul] at hf
              omega
            have hinv' : ∀ b, b < n - 1 → (i = 0 → b < i + 1) →
                hvDominates ((swapA arr i (n - 1)).getD b #[]) ((swapA arr i (n - 1)).getD 0 #[]) k = false := by
              intro b hb hbj
              by_cases hi0 : i = 0
              · have hb0 : b = 0 := by have := hbj hi0; omega
                subst hb0
                exact hvDominates_irrefl _ _
              · rw [swapA_getD arr i (n - 1) b #[] (by omega) (by omega),
                  swapA_getD arr i (n - 1) 0 #[] (by omega) (by omega)]
                rw [if_neg (by omega : ¬ 0 = i), if_neg (by omega : ¬ 0 = n - 1)]
                by_cases hbi : b = i
                · rw [if_pos hbi]
                  exact hinv (n - 1) (by omega) (fun h0 => absurd h0 hi0)
                · rw [if_neg hbi, if_neg (by omega)]
                  exact hinv b (by omega) (fun h0 => absurd h0 hi0)
            obtain ⟨h1, h2, h3, h4, h5⟩ :=
              ih (swapA arr i (n - 1)) i (i + 1) (n - 1) (Nat.lt_succ_self _) (by omega) hsz (by omega) hmeas hinv'
            exact ⟨(swapA_prefPerm arr i (n - 1) n hin (by omega) hn).trans (h1.mono (by omega)), by omega, h3,
              (domBy_swap_remove arr k i j n hin hjn hn hd2).trans h4, h5⟩
          · rw [if_neg hd2]
            have hmeas : (n - i) * C + (n - (j + 1)) < fuel := by omega
            have hinv' : ∀ b, b < n → (i = 0 → b < j + 1) →
                hvDominates (arr.getD b #[]) (arr.getD 0 #[]) k = false := by
              intro b hb hbj
              by_cases hi0 : i = 0
              · rcases Nat.lt_or_ge b j with h | h
                · exact hinv b hb (fun _ => h)
                · have hbe : b = j := by have := hbj hi0; omega
                  subst hbe; subst hi0
                  exact Bool.eq_false_iff.2 hd2
              · exact hinv b hb (fun h0 => absurd h0 hi0)
            exact ih arr i (j + 1) n (by omega) hn1 hn hC hmeas hinv'
      · rw [if_neg hjn]
        have hmeas : (n - (i + 1)) * C + (n - (i + 2)) < fuel := by
          have e : n - i = (n - (i + 1)) + 1 := by omega
          rw [e, Nat.add_mul, Nat.one_mul] at hf
          omega
        have hinv' : ∀ b, b < n → (i + 1 = 0 → b < i + 2) →
            hvDominates (arr.getD b #[]) (arr.getD 0 #[]) k = false :=
          fun b hb _ => hinv b hb (fun _ => by omega)
        exact ih arr (i + 1) (i + 2) n (by omega) hn1 hn hC hmeas hinv'
    · rw [if_neg hin]
      exact ⟨PrefPerm.refl _ _, le_refl _, hn1, DomBy.of_subset (fun _ h => h),
        fun b hb => hinv b hb (fun h0 => by omega)⟩

end Platypus
