import PlatypusModel.Model.Parallel
import Mathlib.Data.List.Perm.Basic
import Mathlib.Data.List.Nodup
set_option linter.unusedSectionVars false
/-!
# Lemmas for C12 (parallel evaluation): chunking, future collectors, result filing, and the invariants
of the MPI pool transition system.
-/
namespace Platypus

variable {τ ρ : Type}

/-! ### chunks and collectors -/


theorem chunksAux_nil (n fuel : Nat) : chunksAux n fuel ([] : List τ) = [] := by
  cases fuel <;> rfl

theorem chunksAux_flatten (n : Nat) (hn : 0 < n) :
    ∀ (fuel : Nat) (items : List τ), items.length ≤ fuel → (chunksAux n fuel items).flatten = items
  | 0, items, h => by
    have : items = [] := List.length_eq_zero_iff.mp (by omega)
    subst this; simp [chunksAux]
  | fuel + 1, [], _ => by simp [chunksAux]
  | fuel + 1, x :: xs, h => by
    rw [chunksAux, if_neg (by omega), List.flatten_cons,
      chunksAux_flatten n hn fuel _ (by simp only [List.length_drop, List.length_cons] at *; omega),
      List.take_append_drop]

theorem chunksAux_sizes (n : Nat) (hn : 0 < n) :
    ∀ (fuel : Nat) (items : List τ),
      (∀ c ∈ chunksAux n fuel items, c.length ≤ n ∧ c ≠ []) ∧
      (∀ c ∈ (chunksAux n fuel items).dropLast, c.length = n)
  | 0, items => by simp [chunksAux]
  | fuel + 1, [] => by simp [chunksAux]
  | fuel + 1, x :: xs => by
    obtain ⟨ih1, ih2⟩ := chunksAux_sizes n hn fuel ((x :: xs).drop n)
    rw [chunksAux, if_neg (by omega)]
    refine ⟨?_, ?_⟩
    · intro c hc
      rcases List.mem_cons.mp hc with rfl | hc
      · refine ⟨by simp [List.length_take]; omega, ?_⟩
        obtain ⟨m, rfl⟩ : ∃ m, n = m + 1 := ⟨n - 1, by omega⟩
        simp
      · exact ih1 c hc
    · by_cases hr : chunksAux n fuel ((x :: xs).drop n) = []
      · rw [hr]; simp
      · rw [List.dropLast_cons_of_ne_nil hr]
        intro c hc
        rcases List.mem_cons.mp hc with rfl | hc
        · have hne : (x :: xs).drop n ≠ [] := by
            intro h; rw [h, chunksAux_nil] at hr; exact hr rfl
          have : n < (x :: xs).length := by
            by_contra hlt
            exact hne (List.drop_eq_nil_iff.mpr (by omega))
          simp only [List.length_take]; omega
        · exact ih2 c hc




theorem mapM_id_map_some (l : List ρ) : (l.map some).mapM id = some l := by
  induction l with
  | nil => rfl
  | cons a l ih => simp [List.mapM_cons, ih]

def cstep (run : τ → ρ) (jobs : List τ) (cells : List (Option ρ)) (i : Nat) : List (Option ρ) :=
  match jobs[i]? with
  | some j => if cells.getD i none = none then cells.set i (some (run j)) else cells
  | none => cells

theorem completeAll_eq (run : τ → ρ) (jobs : List τ) (order : List Nat) :
    completeAll run jobs order = order.foldl (cstep run jobs) (List.replicate jobs.length none) := rfl

theorem cstep_length (run : τ → ρ) (jobs : List τ) (cells : List (Option ρ)) (a : Nat) :
    (cstep run jobs cells a).length = cells.length := by
  unfold cstep; split
  · split <;> simp
  · rfl

theorem cstep_inv (run : τ → ρ) (jobs : List τ) (cells : List (Option ρ)) (a : Nat)
    (hl : cells.length = jobs.length)
    (hc : ∀ (i : Nat) (t : τ), jobs[i]? = some t → cells[i]? = some none ∨ cells[i]? = some (some (run t)))
    (i : Nat) (t : τ) (ht : jobs[i]? = some t) :
    (cstep run jobs cells a)[i]? = some none ∨ (cstep run jobs cells a)[i]? = some (some (run t)) := by
  unfold cstep; split
  · rename_i j hj
    split
    · rw [List.getElem?_set]
      by_cases hai : a = i
      · subst hai
        rw [hj] at ht; cases ht
        have : a < cells.length := by
          rw [hl]; exact (List.getElem?_eq_some_iff.mp hj).1
        simp [this]
      · simp [hai]; exact hc i t ht
    · exact hc i t ht
  · exact hc i t ht

theorem cstep_mono (run : τ → ρ) (jobs : List τ) (cells : List (Option ρ)) (a : Nat)
    (hl : cells.length = jobs.length)
    (hc : ∀ (i : Nat) (t : τ), jobs[i]? = some t → cells[i]? = some none ∨ cells[i]? = some (some (run t)))
    (i : Nat) (t : τ) (ht : jobs[i]? = some t) (h : cells[i]? = some (some (run t)) ∨ i = a) :
    (cstep run jobs cells a)[i]? = some (some (run t)) := by
  unfold cstep
  rcases h with h | rfl
  · split
    · rename_i j hj
      split
      · rename_i hnone
        rw [List.getElem?_set]
        by_cases hai : a = i
        · subst hai
          rw [List.getD_eq_getElem?_getD, h] at hnone
          simp at hnone
        · simp [hai, h]
      · exact h
    · exact h
  · rw [ht]
    simp only
    have hlt : i < cells.length := by
      rw [hl]; exact (List.getElem?_eq_some_iff.mp ht).1
    split
    · rw [List.getElem?_set]; simp [hlt]
    · rename_i hne
      rcases hc i t ht with h | h
      · rw [List.getD_eq_getElem?_getD, h] at hne; simp at hne
      · exact h

theorem completeAll_aux (run : τ → ρ) (jobs : List τ) :
    ∀ (order : List Nat) (cells : List (Option ρ)), cells.length = jobs.length →
      (∀ (i : Nat) (t : τ), jobs[i]? = some t → cells[i]? = some none ∨ cells[i]? = some (some (run t))) →
      (order.foldl (cstep run jobs) cells).length = jobs.length ∧
      (∀ (i : Nat) (t : τ), jobs[i]? = some t → (cells[i]? = some (some (run t)) ∨ i ∈ order) →
        (order.foldl (cstep run jobs) cells)[i]? = some (some (run t)))
  | [], cells, hl, hc => by
    refine ⟨hl, ?_⟩
    intro i t ht h
    rcases h with h | h
    · exact h
    · simp at h
  | a :: order, cells, hl, hc => by
    simp only [List.foldl_cons]
    have hl' := (cstep_length run jobs cells a).trans hl
    obtain ⟨r1, r3⟩ := completeAll_aux run jobs order (cstep run jobs cells a) hl'
      (cstep_inv run jobs cells a hl hc)
    refine ⟨r1, ?_⟩
    intro i t ht h
    apply r3 i t ht
    rcases h with h | h
    · exact Or.inl (cstep_mono run jobs cells a hl hc i t ht (Or.inl h))
    · rcases List.mem_cons.mp h with rfl | h
      · exact Or.inl (cstep_mono run jobs cells i hl hc i t ht (Or.inr rfl))
      · exact Or.inr h


/-! ### experiment filing -/


/-- association-list lookup -/
def lk {β : Type} (ps : List (String × β)) (p : String) : Option β := (ps.find? (·.1 == p)).map (·.2)

/-- "setdefault then update" on an association list -/
def upd {β : Type} (ps : List (String × β)) (k : String) (d : β) (g : β → β) : List (String × β) :=
  (if ps.any (·.1 == k) then ps else ps ++ [(k, d)]).map fun (a, b) => if a == k then (a, g b) else (a, b)

theorem lk_upd {β : Type} (ps : List (String × β)) (k : String) (d : β) (g : β → β) (p : String) :
    lk (upd ps k d g) p = if p = k then some (g ((lk ps k).getD d)) else lk ps p := by
  unfold lk upd
  rw [List.find?_map]
  have hcomp : ((fun x : String × β => x.1 == p) ∘ fun (x : String × β) =>
      match x with | (a, b) => if a == k then (a, g b) else (a, b)) = fun x => x.1 == p := by
    funext ⟨a, b⟩
    simp only [Function.comp]
    split <;> rfl
  rw [hcomp]
  by_cases hpk : p = k
  · subst hpk
    rw [if_pos rfl]
    by_cases hany : ps.any (·.1 == p) = true
    · rw [if_pos hany]
      obtain ⟨x, hx, hxp⟩ := List.any_eq_true.mp hany
      cases hf : ps.find? (·.1 == p) with
      | none =>
        exact absurd hxp (List.find?_eq_none.mp hf x hx)
      | some y =>
        have hy : (y.1 == p) = true := List.find?_some (p := fun x : String × β => x.1 == p) hf
        obtain ⟨a, b⟩ := y
        simp only [beq_iff_eq] at hy
        simp [hy]
    · rw [if_neg hany]
      have hnone : ps.find? (·.1 == p) = none := by
        rw [List.find?_eq_none]
        intro x hx hxp
        exact hany (List.any_eq_true.mpr ⟨x, hx, hxp⟩)
      rw [List.find?_append, hnone]
      simp
  · rw [if_neg hpk]
    have hfind : (if ps.any (·.1 == k) = true then ps else ps ++ [(k, d)]).find? (·.1 == p) =
        ps.find? (·.1 == p) := by
      split
      · rfl
      · rw [List.find?_append]
        have : (k == p) = false := by
          simp; exact fun h => hpk h.symm
        simp [this]
    rw [hfind]
    cases hf : ps.find? (·.1 == p) with
    | none => rfl
    | some y =>
      have hy : (y.1 == p) = true := List.find?_some (p := fun x : String × β => x.1 == p) hf
      obtain ⟨a, b⟩ := y
      simp only [beq_iff_eq] at hy
      subst hy
      simp [hpk]

def fstep {κ : Type} (acc : List (String × List (String × List κ))) (j : JobResult κ) :=
  upd acc j.algorithm [] fun ps => upd ps j.problem [] (· ++ [j.result])

theorem fileResults_eq {κ : Type} (jobs : List (JobResult κ)) :
    fileResults jobs = jobs.foldl fstep [] := rfl

def lk2 {κ : Type} (acc : List (String × List (String × List κ))) (a p : String) : List κ :=
  ((lk acc a).bind fun ps => lk ps p).getD []

theorem lk2_fstep {κ : Type} (acc : List (String × List (String × List κ))) (j : JobResult κ) (a p : String) :
    lk2 (fstep acc j) a p = lk2 acc a p ++ (if j.algorithm == a && j.problem == p then [j.result] else []) := by
  unfold lk2 fstep
  rw [lk_upd]
  by_cases ha : a = j.algorithm
  · subst ha
    simp only [if_true, Option.bind_some, lk_upd, beq_self_eq_true, Bool.true_and]
    by_cases hp : p = j.problem
    · subst hp
      simp
      cases lk acc j.algorithm <;> simp [lk]
    · have : (j.problem == p) = false := by simpa using fun h => hp h.symm
      simp [hp, this]
      cases lk acc j.algorithm <;> simp [lk]
  · have : (j.algorithm == a) = false := by simpa using fun h => ha h.symm
    simp [ha, this]

theorem lk2_foldl {κ : Type} (jobs : List (JobResult κ)) (a p : String) :
    ∀ acc, lk2 (jobs.foldl fstep acc) a p =
      lk2 acc a p ++ (jobs.filter (fun j => j.algorithm == a && j.problem == p)).map (·.result) := by
  induction jobs with
  | nil => intro acc; simp
  | cons j jobs ih =>
    intro acc
    rw [List.foldl_cons, ih, lk2_fstep, List.filter_cons]
    split <;> simp


/-! ### MPI pool -/


/-! ### list helpers -/

theorem getD_set' {α : Type} (l : List α) (i j : Nat) (a d : α) :
    (l.set i a).getD j d = if i = j ∧ i < l.length then a else l.getD j d := by
  simp only [List.getD_eq_getElem?_getD, List.getElem?_set]
  by_cases h1 : i = j
  · subst h1
    by_cases h2 : i < l.length
    · simp [h2]
    · simp [h2]
  · simp [h1]

theorem getD_of_getElem? {α : Type} {l : List α} {w : Nat} {a : α} (d : α) (h : l[w]? = some a) :
    l.getD w d = a := by
  simp [List.getD_eq_getElem?_getD, h]

theorem lt_of_getElem? {α : Type} {l : List α} {w : Nat} {a : α} (h : l[w]? = some a) : w < l.length :=
  (List.getElem?_eq_some_iff.mp h).1

theorem lt_of_getD_ne {α : Type} {l : List α} {w : Nat} {d : α} (h : l.getD w d ≠ d) : w < l.length := by
  by_contra hlt
  apply h
  simp [List.getD_eq_getElem?_getD, List.getElem?_eq_none (Nat.le_of_not_lt hlt)]

theorem getElem?_of_getD {α : Type} {l : List α} {w : Nat} {d : α} (h : w < l.length) :
    l[w]? = some (l.getD w d) := by
  simp [List.getD_eq_getElem?_getD, List.getElem?_eq_getElem h]

theorem set_getD_self {α : Type} (l : List α) (w : Nat) (d : α) : l.set w (l.getD w d) = l := by
  apply List.ext_getElem?
  intro i
  rw [List.getElem?_set]
  by_cases h1 : w = i
  · subst h1
    by_cases h2 : w < l.length
    · simp [h2, List.getD_eq_getElem?_getD]
    · simp [h2]
  · simp [h1]

/-! ### takeTag -/

theorem takeTag_some {tag : Nat} : ∀ {l : List (ToMaster ρ)} {m : ToMaster ρ} {rest : List (ToMaster ρ)},
    takeTag tag l = some (m, rest) →
    m.tag = tag ∧ m ∈ l ∧ (∀ x ∈ rest, x ∈ l) ∧ (∀ x ∈ l, x.tag ≠ tag → x ∈ rest)
  | [], m, rest, h => by simp [takeTag] at h
  | x :: xs, m, rest, h => by
    simp only [takeTag] at h
    split at h
    · rename_i hx
      cases h
      refine ⟨hx, by simp, fun y hy => List.mem_cons_of_mem _ hy, ?_⟩
      intro y hy hne
      rcases List.mem_cons.mp hy with rfl | hy
      · exact absurd hx hne
      · exact hy
    · rename_i hx
      cases hrec : takeTag tag xs with
      | none => simp [hrec] at h
      | some p =>
        obtain ⟨m', rest'⟩ := p
        simp only [hrec, Option.map_some, Option.some.injEq, Prod.mk.injEq] at h
        obtain ⟨rfl, rfl⟩ := h
        obtain ⟨h1, h2, h3, h4⟩ := takeTag_some hrec
        refine ⟨h1, List.mem_cons_of_mem _ h2, ?_, ?_⟩
        · intro y hy
          rcases List.mem_cons.mp hy with rfl | hy
          · simp
          · exact List.mem_cons_of_mem _ (h3 y hy)
        · intro y hy hne
          rcases List.mem_cons.mp hy with rfl | hy
          · simp
          · exact List.mem_cons_of_mem _ (h4 y hy hne)

theorem takeTag_isSome {tag : Nat} : ∀ {l : List (ToMaster ρ)}, (∃ m ∈ l, m.tag = tag) →
    ∃ m rest, takeTag tag l = some (m, rest)
  | [], h => by simp at h
  | x :: xs, h => by
    by_cases hx : x.tag = tag
    · exact ⟨x, xs, by simp [takeTag, hx]⟩
    · obtain ⟨m, hm, hmt⟩ := h
      rcases List.mem_cons.mp hm with rfl | hm
      · exact absurd hmt hx
      · obtain ⟨m', rest', h'⟩ := takeTag_isSome (l := xs) ⟨m, hm, hmt⟩
        exact ⟨m', x :: rest', by simp [takeTag, hx, h']⟩

/-! ### steps as a relation -/

/-- the message (if any) the load-balancing master sends after a receive -/
def lbNew (tasks : List τ) (d : Nat) : List (ToWorker τ) :=
  match tasks[d]? with
  | some t => [ToWorker.task d t]
  | none => []

inductive MStep (f : τ → ρ) (size : Nat) (tasks : List τ) (c : MCfg τ ρ) : MCfg τ ρ → Prop
  | wfn (w : Nat) (rest : List (ToWorker τ)) (hib : c.inbox[w]? = some (.fn :: rest)) :
      MStep f size tasks c { c with inbox := c.inbox.set w rest, hasFn := c.hasFn.set w true }
  | wtask (w tag : Nat) (t : τ) (rest : List (ToWorker τ)) (hib : c.inbox[w]? = some (.task tag t :: rest))
      (hf : c.hasFn.getD w false = true) :
      MStep f size tasks c { c with inbox := c.inbox.set w rest,
                                    outbox := c.outbox.set w (c.outbox.getD w [] ++ [{ tag := tag, r := f t }]) }
  | mstatic (i : Nat) (m : ToMaster ρ) (rest : List (ToMaster ρ)) (hp : c.phase = .recvStatic i)
      (ht : takeTag i (c.outbox.getD (i % size) []) = some (m, rest)) :
      MStep f size tasks c { c with outbox := c.outbox.set (i % size) rest, results := c.results.set i (some m.r),
                                    phase := if i + 1 = tasks.length then .done else .recvStatic (i + 1) }
  | mlb (w k : Nat) (m : ToMaster ρ) (rest : List (ToMaster ρ)) (hp : c.phase = .recvLB k)
      (ho : c.outbox.getD w [] = m :: rest) :
      MStep f size tasks c { c with outbox := c.outbox.set w rest, results := c.results.set m.tag (some m.r),
                                    inbox := c.inbox.set w (c.inbox.getD w [] ++ lbNew tasks c.dispatched),
                                    dispatched := c.dispatched + (lbNew tasks c.dispatched).length,
                                    phase := if k + 1 = tasks.length then .done else .recvLB (k + 1) }

theorem mpiStep_MStep {f : τ → ρ} {size : Nat} {tasks : List τ} {c c' : MCfg τ ρ} {a : Action}
    (h : mpiStep f size tasks c a = some c') : MStep f size tasks c c' := by
  cases a with
  | worker w =>
    simp only [mpiStep] at h
    split at h
    · rename_i rest hib
      cases h
      exact .wfn w rest hib
    · rename_i tag t rest hib
      split at h
      · rename_i hf; cases h; exact .wtask w tag t rest hib hf
      · cases h
    · cases h
  | master w =>
    simp only [mpiStep] at h
    split at h
    · rename_i i hp
      split at h
      · rename_i hw; subst hw
        split at h
        · rename_i m rest ht; cases h; exact .mstatic i m rest hp ht
        · cases h
      · cases h
    · rename_i k hp
      split at h
      · rename_i m rest ho
        cases h
        have := MStep.mlb (f := f) (size := size) (tasks := tasks) w k m rest hp ho
        unfold lbNew at this
        cases htd : tasks[c.dispatched]? with
        | none =>
          simp only [htd, List.append_nil, set_getD_self, List.length_nil, Nat.add_zero] at this
          exact this
        | some t =>
          simp only [htd, List.length_singleton] at this
          exact this
      · cases h
    · cases h



/-! ### base invariant -/

structure Base (f : τ → ρ) (size : Nat) (tasks : List τ) (c : MCfg τ ρ) : Prop where
  len_in : c.inbox.length = size
  len_out : c.outbox.length = size
  len_hf : c.hasFn.length = size
  len_res : c.results.length = tasks.length
  in_valid : ∀ (w tag : Nat) (t : τ), ToWorker.task tag t ∈ c.inbox.getD w [] → tasks[tag]? = some t
  out_valid : ∀ (w : Nat) (m : ToMaster ρ), m ∈ c.outbox.getD w [] → ∃ t, tasks[m.tag]? = some t ∧ m.r = f t
  res_valid : ∀ (i : Nat) (r : ρ), c.results[i]? = some (some r) → ∃ t, tasks[i]? = some t ∧ r = f t
  fn_ok : ∀ w, w < size →
    (c.hasFn.getD w false = false ∧ ∃ rest, c.inbox.getD w [] = .fn :: rest ∧ ToWorker.fn ∉ rest) ∨
    (c.hasFn.getD w false = true ∧ ToWorker.fn ∉ c.inbox.getD w [])

theorem lbNew_valid {tasks : List τ} {d tag : Nat} {t : τ} (h : ToWorker.task tag t ∈ lbNew tasks d) :
    tasks[tag]? = some t := by
  unfold lbNew at h
  split at h
  · rename_i t' ht'
    simp only [List.mem_singleton, ToWorker.task.injEq] at h
    obtain ⟨rfl, rfl⟩ := h
    exact ht'
  · simp at h

theorem lbNew_fn {tasks : List τ} {d : Nat} : ToWorker.fn ∉ lbNew tasks d := by
  unfold lbNew
  split <;> simp

theorem Base.step {f : τ → ρ} {size : Nat} {tasks : List τ} {c c' : MCfg τ ρ}
    (B : Base f size tasks c) (h : MStep f size tasks c c') : Base f size tasks c' := by
  cases h with
  | wfn w rest hib =>
    have hw : w < size := B.len_in ▸ lt_of_getElem? hib
    have hibw : c.inbox.getD w [] = .fn :: rest := getD_of_getElem? [] hib
    refine ⟨by simp [B.len_in], B.len_out, by simp [B.len_hf], B.len_res, ?_, B.out_valid, B.res_valid, ?_⟩
    · intro w' tag t hm
      simp only [getD_set', B.len_in] at hm
      split at hm
      · rename_i h; obtain ⟨rfl, _⟩ := h
        exact B.in_valid w tag t (by rw [hibw]; exact List.mem_cons_of_mem _ hm)
      · exact B.in_valid w' tag t hm
    · intro w' hw'
      simp only [getD_set', B.len_in, B.len_hf]
      by_cases hww : w = w'
      · subst hww
        simp only [hw, and_self, if_true]
        right
        rcases B.fn_ok w hw with ⟨_, r0, hr0, hnot⟩ | ⟨_, hnot⟩
        · rw [hibw] at hr0; cases hr0; exact ⟨trivial, hnot⟩
        · rw [hibw] at hnot; simp at hnot
      · simp only [hww, false_and, if_false]; exact B.fn_ok w' hw'
  | wtask w tag t rest hib hf =>
    have hw : w < size := B.len_in ▸ lt_of_getElem? hib
    have hibw : c.inbox.getD w [] = .task tag t :: rest := getD_of_getElem? [] hib
    refine ⟨by simp [B.len_in], by simp [B.len_out], B.len_hf, B.len_res, ?_, ?_, B.res_valid, ?_⟩
    · intro w' tag' t' hm
      simp only [getD_set', B.len_in] at hm
      split at hm
      · rename_i h; obtain ⟨rfl, _⟩ := h
        exact B.in_valid w tag' t' (by rw [hibw]; exact List.mem_cons_of_mem _ hm)
      · exact B.in_valid w' tag' t' hm
    · intro w' m hm
      simp only [getD_set', B.len_out] at hm
      split at hm
      · rename_i h; obtain ⟨rfl, _⟩ := h
        rcases List.mem_append.mp hm with hm | hm
        · exact B.out_valid w m hm
        · simp only [List.mem_singleton] at hm
          subst hm
          exact ⟨t, B.in_valid w tag t (by rw [hibw]; simp), rfl⟩
      · exact B.out_valid w' m hm
    · intro w' hw'
      simp only [getD_set', B.len_in]
      by_cases hww : w = w'
      · subst hww
        simp only [hw, and_self, if_true]
        right
        rcases B.fn_ok w hw with ⟨hff, _⟩ | ⟨_, hnot⟩
        · rw [hf] at hff; cases hff
        · rw [hibw] at hnot
          exact ⟨hf, fun h => hnot (List.mem_cons_of_mem _ h)⟩
      · simp only [hww, false_and, if_false]; exact B.fn_ok w' hw'
  | mstatic i m rest hp ht =>
    obtain ⟨h1, h2, h3, h4⟩ := takeTag_some ht
    refine ⟨B.len_in, by simp [B.len_out], B.len_hf, by simp [B.len_res], B.in_valid, ?_, ?_, B.fn_ok⟩
    · intro w' m' hm
      simp only [getD_set', B.len_out] at hm
      split at hm
      · rename_i h; obtain ⟨rfl, _⟩ := h
        exact B.out_valid _ m' (h3 m' hm)
      · exact B.out_valid w' m' hm
    · intro j r hr
      simp only [List.getElem?_set] at hr
      split at hr
      · rename_i hij; subst hij
        split at hr
        · simp only [Option.some.injEq] at hr
          subst hr
          obtain ⟨t, ht1, ht2⟩ := B.out_valid _ m h2
          exact ⟨t, h1 ▸ ht1, ht2⟩
        · cases hr
      · exact B.res_valid j r hr
  | mlb w k m rest hp ho =>
    have hw : w < size := B.len_out ▸ lt_of_getD_ne (d := []) (by rw [ho]; simp)
    refine ⟨by simp [B.len_in], by simp [B.len_out], B.len_hf, by simp [B.len_res], ?_, ?_, ?_, ?_⟩
    · intro w' tag' t' hm
      simp only [getD_set', B.len_in] at hm
      split at hm
      · rename_i h; obtain ⟨rfl, _⟩ := h
        rcases List.mem_append.mp hm with hm | hm
        · exact B.in_valid w tag' t' hm
        · exact lbNew_valid hm
      · exact B.in_valid w' tag' t' hm
    · intro w' m' hm
      simp only [getD_set', B.len_out] at hm
      split at hm
      · rename_i h; obtain ⟨rfl, _⟩ := h
        exact B.out_valid _ m' (by rw [ho]; exact List.mem_cons_of_mem _ hm)
      · exact B.out_valid w' m' hm
    · intro j r hr
      simp only [List.getElem?_set] at hr
      split at hr
      · rename_i hij; subst hij
        split at hr
        · simp only [Option.some.injEq] at hr
          subst hr
          exact B.out_valid w m (by rw [ho]; simp)
        · cases hr
      · exact B.res_valid j r hr
    · intro w' hw'
      simp only [getD_set', B.len_in]
      by_cases hww : w = w'
      · subst hww
        simp only [hw, and_self, if_true]
        rcases B.fn_ok w hw with ⟨hff, r0, hr0, hnot⟩ | ⟨hft, hnot⟩
        · left
          refine ⟨hff, r0 ++ lbNew tasks c.dispatched, by rw [hr0]; rfl, ?_⟩
          intro h
          rcases List.mem_append.mp h with h | h
          · exact hnot h
          · exact lbNew_fn h
        · right
          refine ⟨hft, ?_⟩
          intro h
          rcases List.mem_append.mp h with h | h
          · exact hnot h
          · exact lbNew_fn h
      · simp only [hww, false_and, if_false]; exact B.fn_ok w' hw'


/-! ### the initial configuration -/

theorem mem_zip_range {tasks : List τ} {j : Nat} {t : τ} :
    (j, t) ∈ (List.range tasks.length).zip tasks ↔ tasks[j]? = some t := by
  constructor
  · intro h
    obtain ⟨i, hi⟩ := List.mem_iff_getElem?.mp h
    rw [List.getElem?_zip_eq_some] at hi
    obtain ⟨h1, h2⟩ := hi
    have hij : i = j := by
      by_cases hlt : i < tasks.length
      · simpa [hlt] using h1
      · simp [hlt] at h1
    subst hij
    exact h2
  · intro h
    have hlt : j < tasks.length := lt_of_getElem? h
    apply List.mem_iff_getElem?.mpr
    refine ⟨j, ?_⟩
    rw [List.getElem?_zip_eq_some]
    exact ⟨by simp [hlt], h⟩

/-- the (tag, task) pairs initially sent to worker `w` -/
def initPairs (LB : Bool) (size : Nat) (tasks : List τ) (w : Nat) : List (Nat × τ) :=
  if LB then ((List.range tasks.length).zip tasks).filter (fun p => p.1 == w)
  else ((List.range tasks.length).zip tasks).filter (fun p => p.1 % size == w)

theorem mem_initPairs {LB : Bool} {size : Nat} {tasks : List τ} {w j : Nat} {t : τ} :
    (j, t) ∈ initPairs LB size tasks w ↔ tasks[j]? = some t ∧ (if LB then j = w else j % size = w) := by
  unfold initPairs
  cases LB <;> simp [List.mem_filter, mem_zip_range]

theorem init_inbox (size : Nat) (lb : Bool) (tasks : List τ) (w : Nat) (hw : w < size) :
    (mpiInit (ρ := ρ) size lb tasks).inbox.getD w [] =
      .fn :: (initPairs (lb && decide (tasks.length > size)) size tasks w).map
        (fun p => ToWorker.task p.1 p.2) := by
  unfold mpiInit initPairs
  simp only [List.getD_eq_getElem?_getD, List.getElem?_map, List.getElem?_range hw, Option.map_some,
    Option.getD_some]
  split <;> rfl

theorem init_inbox_tags (size : Nat) (lb : Bool) (tasks : List τ) (w : Nat) :
    ∀ tag t, ToWorker.task tag t ∈ (mpiInit (ρ := ρ) size lb tasks).inbox.getD w [] ↔
      w < size ∧ (tag, t) ∈ initPairs (lb && decide (tasks.length > size)) size tasks w := by
  intro tag t
  by_cases hw : w < size
  · rw [init_inbox size lb tasks w hw]
    simp only [List.mem_cons, reduceCtorEq, false_or, List.mem_map, hw, true_and]
    constructor
    · rintro ⟨⟨a, b⟩, hp, heq⟩
      simp only [ToWorker.task.injEq] at heq
      obtain ⟨rfl, rfl⟩ := heq
      exact hp
    · intro h
      exact ⟨(tag, t), h, rfl⟩
  · have : (mpiInit (ρ := ρ) size lb tasks).inbox.getD w [] = [] := by
      unfold mpiInit
      simp [List.getD_eq_getElem?_getD, Nat.le_of_not_lt hw]
    rw [this]
    simp [hw]

theorem init_outbox (size : Nat) (lb : Bool) (tasks : List τ) (w : Nat) :
    (mpiInit (ρ := ρ) size lb tasks).outbox.getD w [] = [] := by
  unfold mpiInit
  simp only [List.getD_eq_getElem?_getD, List.getElem?_replicate]
  split <;> rfl

theorem init_hasFn (size : Nat) (lb : Bool) (tasks : List τ) (w : Nat) :
    (mpiInit (ρ := ρ) size lb tasks).hasFn.getD w false = false := by
  unfold mpiInit
  simp only [List.getD_eq_getElem?_getD, List.getElem?_replicate]
  split <;> rfl

theorem init_results (size : Nat) (lb : Bool) (tasks : List τ) (j : Nat) (hj : j < tasks.length) :
    (mpiInit (ρ := ρ) size lb tasks).results[j]? = some none := by
  unfold mpiInit
  simp [hj]



theorem Base.init (f : τ → ρ) (size : Nat) (lb : Bool) (tasks : List τ) :
    Base f size tasks (mpiInit size lb tasks) := by
  refine ⟨by simp [mpiInit], by simp [mpiInit], by simp [mpiInit], by simp [mpiInit], ?_, ?_, ?_, ?_⟩
  · intro w tag t hm
    rw [init_inbox_tags] at hm
    exact (mem_initPairs.mp hm.2).1
  · intro w m hm
    rw [init_outbox] at hm
    simp at hm
  · intro i r hr
    by_cases hi : i < tasks.length
    · rw [init_results size lb tasks i hi] at hr
      cases hr
    · have : (mpiInit (ρ := ρ) size lb tasks).results[i]? = none := by
        apply List.getElem?_eq_none
        simp [mpiInit]; omega
      rw [this] at hr; cases hr
  · intro w hw
    left
    refine ⟨init_hasFn size lb tasks w, _, init_inbox size lb tasks w hw, ?_⟩
    simp

/-! ### static branch -/

/-- number of results the static master has received -/
def prog (n : Nat) : Phase → Nat
  | .recvStatic i => i
  | .recvLB _ => 0
  | .done => n

structure StInv (size : Nat) (tasks : List τ) (c : MCfg τ ρ) : Prop where
  phase_ok : (∃ i, c.phase = .recvStatic i ∧ i < tasks.length) ∨ c.phase = .done
  received : ∀ (j : Nat), j < prog tasks.length c.phase → ∃ r, c.results[j]? = some (some r)
  pending : ∀ (j : Nat), prog tasks.length c.phase ≤ j → j < tasks.length →
    (∃ t, ToWorker.task j t ∈ c.inbox.getD (j % size) []) ∨ (∃ m ∈ c.outbox.getD (j % size) [], m.tag = j)

theorem StInv.init (size : Nat) (hsize : 1 ≤ size) (lb : Bool) (tasks : List τ)
    (hlb : (lb && decide (tasks.length > size)) = false) :
    StInv size tasks (mpiInit (ρ := ρ) size lb tasks) := by
  have hphase : (mpiInit (ρ := ρ) size lb tasks).phase =
      if tasks.length = 0 then .done else .recvStatic 0 := by
    simp only [mpiInit, hlb]; rfl
  have hprog : prog tasks.length (mpiInit (ρ := ρ) size lb tasks).phase = 0 := by
    rw [hphase]; split
    · rename_i h; simp [prog, h]
    · rfl
  refine ⟨?_, ?_, ?_⟩
  · rw [hphase]
    split
    · exact Or.inr rfl
    · exact Or.inl ⟨0, rfl, by omega⟩
  · intro j hj
    rw [hprog] at hj; omega
  · intro j _ hj
    left
    refine ⟨tasks[j], ?_⟩
    rw [init_inbox_tags, hlb]
    refine ⟨Nat.mod_lt _ (by omega), ?_⟩
    rw [mem_initPairs]
    exact ⟨List.getElem?_eq_getElem hj, by simp⟩

theorem StInv.step {f : τ → ρ} {size : Nat} {tasks : List τ} {c c' : MCfg τ ρ}
    (B : Base f size tasks c) (S : StInv size tasks c) (h : MStep f size tasks c c') :
    StInv size tasks c' := by
  cases h with
  | wfn w rest hib =>
    have hw : w < size := B.len_in ▸ lt_of_getElem? hib
    have hibw : c.inbox.getD w [] = .fn :: rest := getD_of_getElem? [] hib
    refine ⟨S.phase_ok, S.received, ?_⟩
    intro j hj1 hj2
    simp only [getD_set', B.len_in]
    rcases S.pending j hj1 hj2 with ⟨t, ht⟩ | hout
    · left
      refine ⟨t, ?_⟩
      split
      · rename_i h; obtain ⟨h, _⟩ := h
        rw [← h, hibw] at ht
        simpa using ht
      · exact ht
    · exact Or.inr hout
  | wtask w tag t rest hib hf =>
    have hw : w < size := B.len_in ▸ lt_of_getElem? hib
    have hibw : c.inbox.getD w [] = .task tag t :: rest := getD_of_getElem? [] hib
    refine ⟨S.phase_ok, S.received, ?_⟩
    intro j hj1 hj2
    simp only [getD_set', B.len_in, B.len_out]
    by_cases hjw : w = j % size
    · simp only [← hjw, hw, and_self, if_true]
      rcases S.pending j hj1 hj2 with ⟨t', ht'⟩ | ⟨m, hm, hmt⟩
      · rw [← hjw, hibw] at ht'
        rcases List.mem_cons.mp ht' with heq | hmem
        · right
          simp only [ToWorker.task.injEq] at heq
          exact ⟨⟨tag, f t⟩, by simp, heq.1.symm⟩
        · exact Or.inl ⟨t', hmem⟩
      · right
        rw [← hjw] at hm
        exact ⟨m, List.mem_append_left _ hm, hmt⟩
    · simp only [hjw, false_and, if_false]
      exact S.pending j hj1 hj2
  | mstatic i m rest hp ht =>
    obtain ⟨h1, h2, h3, h4⟩ := takeTag_some ht
    have hi : i < tasks.length := by
      rcases S.phase_ok with ⟨i', hi', hlt⟩ | hd
      · rw [hp] at hi'; cases hi'; exact hlt
      · rw [hp] at hd; cases hd
    have hprog : prog tasks.length c.phase = i := by rw [hp]; rfl
    have hprog' : prog tasks.length (if i + 1 = tasks.length then Phase.done else .recvStatic (i + 1)) = i + 1 := by
      split
      · rename_i h; simp [prog, h]
      · rfl
    refine ⟨?_, ?_, ?_⟩
    · show (∃ i', (if i + 1 = tasks.length then Phase.done else .recvStatic (i + 1)) = .recvStatic i' ∧ _) ∨ _
      split
      · exact Or.inr rfl
      · exact Or.inl ⟨i + 1, rfl, by omega⟩
    · intro j hj
      show ∃ r, (c.results.set i (some m.r))[j]? = _
      replace hj : j < i + 1 := hprog' ▸ hj
      rw [List.getElem?_set]
      by_cases hij : i = j
      · subst hij
        exact ⟨m.r, by simp [B.len_res, hi]⟩
      · simp only [hij, if_false]
        exact S.received j (by rw [hprog]; omega)
    · intro j hj1 hj2
      replace hj1 : i + 1 ≤ j := hprog' ▸ hj1
      show (∃ t, ToWorker.task j t ∈ c.inbox.getD (j % size) []) ∨
        (∃ m' ∈ (c.outbox.set (i % size) rest).getD (j % size) [], m'.tag = j)
      simp only [getD_set', B.len_out]
      rcases S.pending j (by rw [hprog]; omega) hj2 with hin | ⟨m', hm', hmt'⟩
      · exact Or.inl hin
      · right
        split
        · rename_i h; obtain ⟨h, _⟩ := h
          rw [← h] at hm'
          exact ⟨m', h4 m' hm' (by omega), hmt'⟩
        · exact ⟨m', hm', hmt'⟩
  | mlb w k m rest hp ho =>
    rcases S.phase_ok with ⟨i', hi', _⟩ | hd
    · rw [hp] at hi'; cases hi'
    · rw [hp] at hd; cases hd



/-! ### load-balanced branch -/

def taskTag : ToWorker τ → Option Nat
  | .fn => none
  | .task tag _ => some tag

def outL (ib : List (ToWorker τ)) (ob : List (ToMaster ρ)) : List Nat :=
  ib.filterMap taskTag ++ ob.map (·.tag)

/-- the tags outstanding at worker `w` (sent to it, result not yet received by the master) -/
def out (c : MCfg τ ρ) (w : Nat) : List Nat := outL (c.inbox.getD w []) (c.outbox.getD w [])

theorem mem_outL {ib : List (ToWorker τ)} {ob : List (ToMaster ρ)} {j : Nat} :
    j ∈ outL ib ob ↔ (∃ t, ToWorker.task j t ∈ ib) ∨ (∃ m ∈ ob, m.tag = j) := by
  unfold outL
  simp only [List.mem_append, List.mem_filterMap, List.mem_map]
  constructor
  · rintro (⟨x, hx, hxt⟩ | h)
    · cases x with
      | fn => simp [taskTag] at hxt
      | task tag t =>
        simp only [taskTag, Option.some.injEq] at hxt
        subst hxt
        exact Or.inl ⟨t, hx⟩
    · exact Or.inr h
  · rintro (⟨t, ht⟩ | h)
    · exact Or.inl ⟨_, ht, rfl⟩
    · exact Or.inr h

structure LbInv (size : Nat) (tasks : List τ) (c : MCfg τ ρ) : Prop where
  d_le : c.dispatched ≤ tasks.length
  phase_ok : (∃ k, c.phase = .recvLB k ∧ k < tasks.length ∧ c.results.countP Option.isSome = k ∧
      c.dispatched = min tasks.length (size + k)) ∨
    (c.phase = .done ∧ c.results.countP Option.isSome = tasks.length)
  out_len : ∀ w, (out c w).length ≤ 1
  out_ok : ∀ w j, j ∈ out c w → j < c.dispatched ∧ c.results[j]? = some none
  out_inj : ∀ w w' j, j ∈ out c w → j ∈ out c w' → w = w'
  owner : ∀ j, j < c.dispatched → c.results[j]? = some none → ∃ w, j ∈ out c w
  beyond : ∀ j, c.dispatched ≤ j → j < tasks.length → c.results[j]? = some none

theorem LbInv.transfer {size : Nat} {tasks : List τ} {c c' : MCfg τ ρ} (L : LbInv size tasks c)
    (hph : c'.phase = c.phase) (hres : c'.results = c.results) (hd : c'.dispatched = c.dispatched)
    (hmem : ∀ w j, j ∈ out c' w ↔ j ∈ out c w) (hlen : ∀ w, (out c' w).length = (out c w).length) :
    LbInv size tasks c' := by
  refine ⟨hd ▸ L.d_le, ?_, ?_, ?_, ?_, ?_, ?_⟩
  · rw [hph, hres, hd]; exact L.phase_ok
  · intro w; rw [hlen]; exact L.out_len w
  · intro w j hj; rw [hres, hd]; exact L.out_ok w j ((hmem w j).mp hj)
  · intro w w' j h1 h2; exact L.out_inj w w' j ((hmem w j).mp h1) ((hmem w' j).mp h2)
  · intro j h1 h2
    rw [hd] at h1; rw [hres] at h2
    obtain ⟨w, hw⟩ := L.owner j h1 h2
    exact ⟨w, (hmem w j).mpr hw⟩
  · intro j h1 h2; rw [hres]; rw [hd] at h1; exact L.beyond j h1 h2

theorem lbNew_tags (tasks : List τ) (d : Nat) (hd : d ≤ tasks.length) :
    (d < tasks.length ∧ (lbNew tasks d).filterMap taskTag = [d] ∧ (lbNew tasks d).length = 1) ∨
    (d = tasks.length ∧ (lbNew tasks d).filterMap taskTag = [] ∧ (lbNew tasks d).length = 0) := by
  unfold lbNew
  by_cases h : d < tasks.length
  · left
    rw [List.getElem?_eq_getElem h]
    exact ⟨h, rfl, rfl⟩
  · right
    rw [List.getElem?_eq_none (by omega)]
    exact ⟨by omega, rfl, rfl⟩

theorem LbInv.mlb {f : τ → ρ} {size : Nat} {tasks : List τ} {c c' : MCfg τ ρ}
    (B : Base f size tasks c) (L : LbInv size tasks c) {w k : Nat} {m : ToMaster ρ} {rest : List (ToMaster ρ)}
    (hp : c.phase = .recvLB k) (ho : c.outbox.getD w [] = m :: rest)
    (hin : c'.inbox = c.inbox.set w (c.inbox.getD w [] ++ lbNew tasks c.dispatched))
    (hob : c'.outbox = c.outbox.set w rest)
    (hrs : c'.results = c.results.set m.tag (some m.r))
    (hdisp : c'.dispatched = c.dispatched + (lbNew tasks c.dispatched).length)
    (hphase : c'.phase = if k + 1 = tasks.length then .done else .recvLB (k + 1)) :
    LbInv size tasks c' := by
  have hw : w < size := B.len_out ▸ lt_of_getD_ne (d := []) (by rw [ho]; simp)
  obtain ⟨hkn, hcnt, hdk⟩ : k < tasks.length ∧ c.results.countP Option.isSome = k ∧
      c.dispatched = min tasks.length (size + k) := by
    rcases L.phase_ok with ⟨k', hk', h⟩ | ⟨hd, _⟩
    · rw [hp] at hk'; cases hk'; exact h
    · rw [hp] at hd; cases hd
  -- worker `w` holds exactly the tag it just returned
  have hlenw := L.out_len w
  have houtw0 : out c w = (c.inbox.getD w []).filterMap taskTag ++ (m.tag :: rest.map (·.tag)) := by
    simp only [out, outL, ho, List.map_cons]
  have hibnil : (c.inbox.getD w []).filterMap taskTag = [] := by
    rw [houtw0] at hlenw
    simp only [List.length_append, List.length_cons] at hlenw
    exact List.length_eq_zero_iff.mp (by omega)
  have hrestnil : rest = [] := by
    rw [houtw0] at hlenw
    simp only [List.length_append, List.length_cons, List.length_map] at hlenw
    exact List.length_eq_zero_iff.mp (by omega)
  have houtw : out c w = [m.tag] := by
    rw [houtw0, hibnil, hrestnil]; rfl
  obtain ⟨hmd, hmres⟩ := L.out_ok w m.tag (by rw [houtw]; simp)
  have hmlen : m.tag < c.results.length := lt_of_getElem? hmres
  have hmnone : c.results[m.tag] = none := by
    have := (List.getElem?_eq_some_iff.mp hmres).2
    exact this
  have hout' : ∀ w', out c' w' = if w' = w then (lbNew tasks c.dispatched).filterMap taskTag else out c w' := by
    intro w'
    simp only [out, hin, hob, getD_set', B.len_in, B.len_out]
    by_cases hww : w = w'
    · subst hww
      simp only [hw, and_self, if_true]
      simp only [outL, List.filterMap_append, hibnil, hrestnil, List.map_nil, List.nil_append,
        List.append_nil]
    · have hww' : ¬ w' = w := fun h => hww h.symm
      simp only [hww, hww', false_and, if_false]
  have hres' : ∀ j, j ≠ m.tag → c'.results[j]? = c.results[j]? := by
    intro j hj
    rw [hrs]
    rw [List.getElem?_set]
    simp [Ne.symm hj]
  have hresm : c'.results[m.tag]? = some (some m.r) := by
    rw [hrs]
    rw [List.getElem?_set]
    simp [hmlen]
  have hcnt' : c'.results.countP Option.isSome = k + 1 := by
    rw [hrs]
    rw [List.countP_set hmlen, hmnone, hcnt]
    simp
  have hnotm : ∀ w' j, w' ≠ w → j ∈ out c w' → j ≠ m.tag := by
    intro w' j hne hj heq
    subst heq
    exact hne (L.out_inj w' w _ hj (by rw [houtw]; simp))
  rcases lbNew_tags tasks c.dispatched L.d_le with ⟨hdn, hT, hTl⟩ | ⟨hdn, hT, hTl⟩
  · -- a new task is dispatched to `w`
    rw [hT] at hout'; rw [hTl] at hdisp
    refine ⟨by omega, ?_, ?_, ?_, ?_, ?_, ?_⟩
    · rw [hphase]
      split
      · rename_i h; exact Or.inr ⟨rfl, by rw [hcnt', h]⟩
      · exact Or.inl ⟨k + 1, rfl, by omega, hcnt', by omega⟩
    · intro w'
      rw [hout']
      split
      · simp
      · exact L.out_len w'
    · intro w' j hj
      rw [hout'] at hj
      split at hj
      · simp only [List.mem_singleton] at hj
        subst hj
        refine ⟨by omega, ?_⟩
        rw [hres' _ (by omega)]
        exact L.beyond _ (Nat.le_refl _) hdn
      · rename_i hne
        obtain ⟨h1, h2⟩ := L.out_ok w' j hj
        refine ⟨by omega, ?_⟩
        rw [hres' j (hnotm w' j hne hj)]
        exact h2
    · intro w1 w2 j h1 h2
      rw [hout'] at h1 h2
      split at h1 <;> split at h2
      · rename_i e1 e2; rw [e1, e2]
      · simp only [List.mem_singleton] at h1
        have := (L.out_ok w2 j h2).1
        omega
      · simp only [List.mem_singleton] at h2
        have := (L.out_ok w1 j h1).1
        omega
      · exact L.out_inj w1 w2 j h1 h2
    · intro j hj hjres
      have hjm : j ≠ m.tag := by
        intro h; rw [h, hresm] at hjres; cases hjres
      rw [hres' j hjm] at hjres
      by_cases hjd : j < c.dispatched
      · obtain ⟨w0, hw0⟩ := L.owner j hjd hjres
        have hne : w0 ≠ w := by
          intro h; rw [h, houtw] at hw0; simp at hw0; exact hjm hw0
        exact ⟨w0, by rw [hout', if_neg hne]; exact hw0⟩
      · have : j = c.dispatched := by omega
        exact ⟨w, by rw [hout', if_pos rfl, this]; simp⟩
    · intro j hj1 hj2
      rw [hres' j (by omega)]
      exact L.beyond j (by omega) hj2
  · -- nothing left to dispatch
    rw [hT] at hout'; rw [hTl] at hdisp
    refine ⟨by omega, ?_, ?_, ?_, ?_, ?_, ?_⟩
    · rw [hphase]
      split
      · rename_i h; exact Or.inr ⟨rfl, by rw [hcnt', h]⟩
      · exact Or.inl ⟨k + 1, rfl, by omega, hcnt', by omega⟩
    · intro w'
      rw [hout']
      split
      · simp
      · exact L.out_len w'
    · intro w' j hj
      rw [hout'] at hj
      split at hj
      · simp at hj
      · rename_i hne
        obtain ⟨h1, h2⟩ := L.out_ok w' j hj
        refine ⟨by omega, ?_⟩
        rw [hres' j (hnotm w' j hne hj)]
        exact h2
    · intro w1 w2 j h1 h2
      rw [hout'] at h1 h2
      split at h1 <;> split at h2
      · rename_i e1 e2; rw [e1, e2]
      · simp at h1
      · simp at h2
      · exact L.out_inj w1 w2 j h1 h2
    · intro j hj hjres
      have hjm : j ≠ m.tag := by
        intro h; rw [h, hresm] at hjres; cases hjres
      rw [hres' j hjm] at hjres
      obtain ⟨w0, hw0⟩ := L.owner j (by omega) hjres
      have hne : w0 ≠ w := by
        intro h; rw [h, houtw] at hw0; simp at hw0; exact hjm hw0
      exact ⟨w0, by rw [hout', if_neg hne]; exact hw0⟩
    · intro j hj1 hj2
      omega


theorem LbInv.step {f : τ → ρ} {size : Nat} {tasks : List τ} {c c' : MCfg τ ρ}
    (B : Base f size tasks c) (L : LbInv size tasks c) (h : MStep f size tasks c c') :
    LbInv size tasks c' := by
  cases h with
  | wfn w rest hib =>
    have hw : w < size := B.len_in ▸ lt_of_getElem? hib
    have hibw : c.inbox.getD w [] = .fn :: rest := getD_of_getElem? [] hib
    have hout : ∀ w', out { c with inbox := c.inbox.set w rest, hasFn := c.hasFn.set w true } w' = out c w' := by
      intro w'
      simp only [out, getD_set', B.len_in]
      split
      · rename_i h; obtain ⟨rfl, _⟩ := h
        rw [hibw]; simp only [outL, List.filterMap_cons, taskTag]
      · rfl
    exact L.transfer rfl rfl rfl (fun w' j => by rw [hout]) (fun w' => by rw [hout])
  | wtask w tag t rest hib hf =>
    have hw : w < size := B.len_in ▸ lt_of_getElem? hib
    have hibw : c.inbox.getD w [] = .task tag t :: rest := getD_of_getElem? [] hib
    refine L.transfer rfl rfl rfl ?_ ?_
    · intro w' j
      simp only [out, getD_set', B.len_in, B.len_out]
      split
      · rename_i h; obtain ⟨rfl, _⟩ := h
        rw [hibw]
        simp only [outL, List.filterMap_cons, taskTag, List.map_append, List.map_cons, List.map_nil,
          List.mem_append, List.mem_cons, List.not_mem_nil, or_false]
        tauto
      · rfl
    · intro w'
      simp only [out, getD_set', B.len_in, B.len_out]
      split
      · rename_i h; obtain ⟨rfl, _⟩ := h
        rw [hibw]
        simp only [outL, List.filterMap_cons, taskTag, List.map_append, List.map_cons, List.map_nil,
          List.length_append, List.length_cons, List.length_nil]
        omega
      · rfl
  | mstatic i m rest hp ht =>
    rcases L.phase_ok with ⟨k, hk, _⟩ | ⟨hd, _⟩
    · rw [hp] at hk; cases hk
    · rw [hp] at hd; cases hd
  | mlb w k m rest hp ho => exact LbInv.mlb B L hp ho rfl rfl rfl rfl rfl



theorem length_le_one_of_nodup_const {l : List Nat} {w : Nat} (hn : l.Nodup) (h : ∀ x ∈ l, x = w) :
    l.length ≤ 1 := by
  match l, hn, h with
  | [], _, _ => simp
  | [_], _, _ => simp
  | a :: b :: l, hn, h =>
    have ha := h a (by simp)
    have hb := h b (by simp)
    rw [List.nodup_cons] at hn
    exact absurd (by simp [ha, hb]) hn.1

theorem filterMap_taskTag_map (l : List (Nat × τ)) :
    (l.map (fun p => ToWorker.task p.1 p.2)).filterMap taskTag = l.map Prod.fst := by
  induction l with
  | nil => rfl
  | cons p l ih => simp only [List.map_cons, List.filterMap_cons, taskTag, ih]

theorem init_out (size : Nat) (lb : Bool) (tasks : List τ) (w : Nat) (hw : w < size) :
    out (mpiInit (ρ := ρ) size lb tasks) w =
      (initPairs (lb && decide (tasks.length > size)) size tasks w).map Prod.fst := by
  simp only [out, init_inbox size lb tasks w hw, init_outbox, outL, List.filterMap_cons, taskTag,
    filterMap_taskTag_map, List.map_nil, List.append_nil]

theorem init_out_mem (size : Nat) (lb : Bool) (tasks : List τ) (w j : Nat)
    (hlb : (lb && decide (tasks.length > size)) = true) :
    j ∈ out (mpiInit (ρ := ρ) size lb tasks) w ↔ w < size ∧ j = w ∧ j < tasks.length := by
  rw [out, mem_outL]
  simp only [init_inbox_tags, init_outbox, List.not_mem_nil, false_and, exists_false, or_false, hlb,
    mem_initPairs, if_true]
  constructor
  · rintro ⟨t, h1, h2, h3⟩
    exact ⟨h1, h3, lt_of_getElem? h2⟩
  · rintro ⟨h1, h2, h3⟩
    exact ⟨tasks[j], h1, List.getElem?_eq_getElem h3, h2⟩

theorem LbInv.init (size : Nat) (lb : Bool) (tasks : List τ)
    (hlb : (lb && decide (tasks.length > size)) = true) :
    LbInv size tasks (mpiInit (ρ := ρ) size lb tasks) := by
  have hn : size < tasks.length := by
    simp only [Bool.and_eq_true, decide_eq_true_eq] at hlb
    exact hlb.2
  have hphase : (mpiInit (ρ := ρ) size lb tasks).phase = .recvLB 0 := by
    simp only [mpiInit, hlb]
    rw [if_neg (by omega)]; rfl
  have hdisp : (mpiInit (ρ := ρ) size lb tasks).dispatched = size := by
    simp only [mpiInit, hlb]; rfl
  refine ⟨by rw [hdisp]; omega, ?_, ?_, ?_, ?_, ?_, ?_⟩
  · left
    refine ⟨0, hphase, by omega, ?_, by rw [hdisp]; omega⟩
    simp [mpiInit]
  · intro w
    by_cases hw : w < size
    · rw [init_out size lb tasks w hw]
      apply length_le_one_of_nodup_const (w := w)
      · have hsub : ((initPairs (lb && decide (tasks.length > size)) size tasks w).map Prod.fst).Sublist
            (((List.range tasks.length).zip tasks).map Prod.fst) := by
          apply List.Sublist.map
          unfold initPairs
          split <;> exact List.filter_sublist
        rw [List.map_fst_zip (by simp)] at hsub
        exact List.nodup_range.sublist hsub
      · intro x hx
        rw [← init_out (ρ := ρ) size lb tasks w hw] at hx
        exact ((init_out_mem size lb tasks w x hlb).mp hx).2.1
    · have : out (mpiInit (ρ := ρ) size lb tasks) w = [] := by
        apply List.eq_nil_iff_forall_not_mem.mpr
        intro j hj
        exact hw ((init_out_mem size lb tasks w j hlb).mp hj).1
      rw [this]; simp
  · intro w j hj
    obtain ⟨h1, h2, h3⟩ := (init_out_mem size lb tasks w j hlb).mp hj
    exact ⟨by rw [hdisp]; omega, init_results size lb tasks j h3⟩
  · intro w w' j h1 h2
    have := ((init_out_mem size lb tasks w j hlb).mp h1).2.1
    have := ((init_out_mem size lb tasks w' j hlb).mp h2).2.1
    omega
  · intro j hj _
    rw [hdisp] at hj
    exact ⟨j, (init_out_mem size lb tasks j j hlb).mpr ⟨hj, rfl, by omega⟩⟩
  · intro j _ hj
    exact init_results size lb tasks j hj

/-! ### the combined invariant -/

def MpiInv (f : τ → ρ) (size : Nat) (lb : Bool) (tasks : List τ) (c : MCfg τ ρ) : Prop :=
  Base f size tasks c ∧
    if (lb && decide (tasks.length > size)) = true then LbInv size tasks c else StInv size tasks c

theorem MpiInv.of_reachable {f : τ → ρ} {size : Nat} (hsize : 1 ≤ size) {lb : Bool} {tasks : List τ}
    {c : MCfg τ ρ} (hr : Reachable f size lb tasks c) : MpiInv f size lb tasks c := by
  induction hr with
  | init =>
    refine ⟨Base.init f size lb tasks, ?_⟩
    split
    · rename_i h; exact LbInv.init size lb tasks h
    · rename_i h; exact StInv.init size hsize lb tasks (by simpa using h)
  | step c c' a _ hstep ih =>
    have hs := mpiStep_MStep hstep
    refine ⟨ih.1.step hs, ?_⟩
    have h2 := ih.2
    split
    · rename_i h; rw [if_pos h] at h2; exact LbInv.step ih.1 h2 hs
    · rename_i h; rw [if_neg h] at h2; exact StInv.step ih.1 h2 hs



/-! ### consequences of the invariant -/

theorem results_of_all_some {f : τ → ρ} {size : Nat} {tasks : List τ} {c : MCfg τ ρ}
    (B : Base f size tasks c)
    (hall : ∀ j, j < tasks.length → ∃ r, c.results[j]? = some (some r)) :
    c.results = tasks.map (fun t => some (f t)) := by
  apply List.ext_getElem?
  intro i
  by_cases hi : i < tasks.length
  · obtain ⟨r, hr⟩ := hall i hi
    obtain ⟨t, ht, hrt⟩ := B.res_valid i r hr
    rw [hr, List.getElem?_map, ht, hrt]; rfl
  · rw [List.getElem?_eq_none (by rw [B.len_res]; omega), List.getElem?_eq_none (by simp; omega)]

theorem exists_none_of_countP_lt {l : List (Option ρ)} {d : Nat} (hd : d ≤ l.length)
    (hc : l.countP Option.isSome < d) : ∃ j, j < d ∧ l[j]? = some none := by
  by_contra hcon
  have hall : ∀ a ∈ l.take d, Option.isSome a = true := by
    intro a ha
    obtain ⟨i, hi⟩ := List.mem_iff_getElem?.mp ha
    rw [List.getElem?_take] at hi
    split at hi
    · rename_i hid
      cases a with
      | none => exact absurd ⟨i, hid, hi⟩ hcon
      | some _ => rfl
    · cases hi
  have h1 : (l.take d).countP Option.isSome = (l.take d).length := List.countP_eq_length.mpr hall
  have h2 := (List.take_sublist d l).countP_le (p := Option.isSome)
  rw [h1, List.length_take] at h2
  omega

theorem all_some_of_countP {l : List (Option ρ)} (hc : l.countP Option.isSome = l.length) (j : Nat)
    (hj : j < l.length) : ∃ r, l[j]? = some (some r) := by
  have h := List.countP_eq_length.mp hc l[j] (List.getElem_mem hj)
  rw [List.getElem?_eq_getElem hj]
  cases hlj : l[j] with
  | none => rw [hlj] at h; cases h
  | some r => exact ⟨r, rfl⟩

theorem worker_enabled {f : τ → ρ} {size : Nat} {tasks : List τ} {c : MCfg τ ρ}
    (B : Base f size tasks c) (w : Nat) (hne : c.inbox.getD w [] ≠ []) :
    ∃ c', mpiStep f size tasks c (.worker w) = some c' := by
  have hwl : w < c.inbox.length := lt_of_getD_ne hne
  have hw : w < size := B.len_in ▸ hwl
  have hget : c.inbox[w]? = some (c.inbox.getD w []) := getElem?_of_getD hwl
  cases hib : c.inbox.getD w [] with
  | nil => exact absurd hib hne
  | cons x rest =>
    rw [hib] at hget
    cases x with
    | fn => exact ⟨_, by simp only [mpiStep, hget]; rfl⟩
    | task tag t =>
      rcases B.fn_ok w hw with ⟨_, r0, hr0, _⟩ | ⟨hf, _⟩
      · rw [hib] at hr0; cases hr0
      · exact ⟨_, by simp only [mpiStep, hget, hf, if_true]; rfl⟩

theorem MpiInv.map_correct {f : τ → ρ} {size : Nat} {lb : Bool} {tasks : List τ} {c : MCfg τ ρ}
    (I : MpiInv f size lb tasks c) (hd : c.phase = .done) :
    c.results = tasks.map (fun t => some (f t)) := by
  obtain ⟨B, I2⟩ := I
  apply results_of_all_some B
  split at I2
  · rcases I2.phase_ok with ⟨k, hk, _⟩ | ⟨_, hcnt⟩
    · rw [hd] at hk; cases hk
    · intro j hj
      exact all_some_of_countP (by rw [hcnt, B.len_res]) j (by rw [B.len_res]; exact hj)
  · intro j hj
    exact I2.received j (by rw [hd]; exact hj)

theorem MpiInv.no_stuck {f : τ → ρ} {size : Nat} (hsize : 1 ≤ size) {lb : Bool} {tasks : List τ}
    {c : MCfg τ ρ} (I : MpiInv f size lb tasks c) (hd : c.phase ≠ .done) :
    ∃ a c', mpiStep f size tasks c a = some c' := by
  obtain ⟨B, I2⟩ := I
  split at I2
  · -- load-balanced
    rcases I2.phase_ok with ⟨k, hk, hkn, hcnt, hdk⟩ | ⟨hdone, _⟩
    · obtain ⟨j, hjd, hjn⟩ := exists_none_of_countP_lt (l := c.results) (d := c.dispatched)
        (by rw [B.len_res]; exact I2.d_le) (by omega)
      obtain ⟨w, hw⟩ := I2.owner j hjd hjn
      rw [out, mem_outL] at hw
      rcases hw with ⟨t, ht⟩ | ⟨m, hm, _⟩
      · obtain ⟨c', hc'⟩ := worker_enabled (f := f) B w (List.ne_nil_of_mem ht)
        exact ⟨_, c', hc'⟩
      · cases hob : c.outbox.getD w [] with
        | nil => rw [hob] at hm; simp at hm
        | cons m' rest =>
          exact ⟨.master w, _, by simp only [mpiStep, hk, hob]; rfl⟩
    · exact absurd hdone hd
  · -- static
    rcases I2.phase_ok with ⟨i, hi, hin⟩ | hdone
    · rcases I2.pending i (by rw [hi]; exact Nat.le_refl _) hin with ⟨t, ht⟩ | hm
      · obtain ⟨c', hc'⟩ := worker_enabled (f := f) B (i % size) (List.ne_nil_of_mem ht)
        exact ⟨_, c', hc'⟩
      · obtain ⟨m, rest, hmr⟩ := takeTag_isSome hm
        exact ⟨.master (i % size), _, by simp only [mpiStep, hi, hmr, if_true]; rfl⟩
    · exact absurd hdone hd

theorem MpiInv.function_before_tasks {f : τ → ρ} {size : Nat} {lb : Bool} {tasks : List τ} {c : MCfg τ ρ}
    (I : MpiInv f size lb tasks c) (w tag : Nat) (t : τ) (rest : List (ToWorker τ))
    (h : c.inbox[w]? = some (.task tag t :: rest)) : c.hasFn.getD w false = true := by
  obtain ⟨B, -⟩ := I
  have hw : w < size := B.len_in ▸ lt_of_getElem? h
  have hib := getD_of_getElem? [] h
  rcases B.fn_ok w hw with ⟨_, r0, hr0, _⟩ | ⟨hf, _⟩
  · rw [hib] at hr0; cases hr0
  · exact hf


end Platypus
