import PlatypusModel.Props.C06Subset
set_option linter.unusedSectionVars false
/-!
# C06 (Multimethod: adaptive selection among variators)

For every list of variators that each produce valid offspring, every history of `evolve` calls, every content of the
algorithm's archive / recency list between the calls (the `counts`) and every draw tape:
the selected index always names one of the variators (so `variators[next_variator]` never fails), the probability
list keeps one entry per variator, the call counter stays below the update frequency, the offspring of every call are
valid for the declared types and carry the index of the variator that made them.
-/
namespace Platypus

section
variable {α : Type} [LE α] [DecidableLE α] [LT α] [DecidableLT α] [BEq α] [Add α]

/-- the cumulative scan answers 0 or a position of the list it scans -/
theorem rouletteScan_range (r : α) (ps : List α) (acc : α) (i : Nat) :
    rouletteScan r ps acc i = 0 ∨ (i ≤ rouletteScan r ps acc i ∧ rouletteScan r ps acc i < i + ps.length) := by
  induction ps generalizing acc i with
  | nil => left; rfl
  | cons p rest ih =>
    unfold rouletteScan
    split
    · right; simp
    · rcases ih (acc + p) (i + 1) with h | h
      · left; exact h
      · right; simp only [List.length_cons]; omega

/-- `roulette` returns an index of its (non-empty) argument, for every draw -/
theorem roulette_in_range (zero : α) (total : List α → α) (ps : List α) (hne : ps ≠ []) (tape tape' : Tape α) (k : Nat)
    (h : roulette zero total ps tape = .ok (k, tape')) : k < ps.length := by
  unfold roulette at h
  obtain ⟨⟨r, t1⟩, _, h⟩ := exceptBindOk h
  simp only [pure, Except.pure, Except.ok.injEq, Prod.mk.injEq] at h
  have hl : 0 < ps.length := List.length_pos_iff.mpr hne
  rcases rouletteScan_range r ps zero 0 with h0 | h0
  · omega
  · omega

/-- the state invariant of a `Multimethod` over `n` variators -/
def MMInv (n : Nat) (st : MMState α) : Prop :=
  st.next < n ∧ st.probs.length = n ∧ (st.lastUpdate = 0 ∨ st.lastUpdate < st.freq)

/-- `select()` re-establishes the invariant from any state whose probability list has one entry per variator -/
theorem multimethodSelect_inv (zero : α) (total : List α → α) (newProbs : List Nat → List α) (n : Nat) (hn : 0 < n)
    (counts : List Nat) (hc : (newProbs counts).length = n) (st st' : MMState α) (hp : st.probs.length = n)
    (tape tape' : Tape α) (h : multimethodSelect zero total newProbs counts st tape = .ok (st', tape')) :
    MMInv n st' ∧ st'.freq = st.freq := by
  unfold multimethodSelect at h
  by_cases hu : st.lastUpdate + 1 ≥ st.freq
  · simp only [hu, ↓reduceIte] at h
    obtain ⟨⟨k, t1⟩, hr, h⟩ := exceptBindOk h
    simp only [pure, Except.pure, Except.ok.injEq, Prod.mk.injEq] at h
    have hk := roulette_in_range zero total (newProbs counts) (by intro e; rw [e] at hc; simp at hc; omega) tape t1 k hr
    rw [← h.1]
    exact ⟨⟨by simpa [hc] using hk, hc, Or.inl rfl⟩, rfl⟩
  · simp only [hu, ↓reduceIte] at h
    obtain ⟨⟨k, t1⟩, hr, h⟩ := exceptBindOk h
    simp only [pure, Except.pure, Except.ok.injEq, Prod.mk.injEq] at h
    have hk := roulette_in_range zero total st.probs (by intro e; rw [e] at hp; simp at hp; omega) tape t1 k hr
    rw [← h.1]
    exact ⟨⟨by simpa [hp] using hk, hp, Or.inr (by simp only; omega)⟩, rfl⟩

/-- the constructor establishes the invariant -/
theorem multimethodInit_inv (zero : α) (total : List α → α) (newProbs : List Nat → List α) (initProbs : Nat → List α)
    (n freq : Nat) (hn : 0 < n) (hi : (initProbs n).length = n) (counts : List Nat) (hc : (newProbs counts).length = n)
    (st : MMState α) (tape tape' : Tape α)
    (h : multimethodInit zero total newProbs initProbs n freq counts tape = .ok (st, tape')) :
    MMInv n st ∧ st.freq = freq := by
  unfold multimethodInit at h
  exact multimethodSelect_inv zero total newProbs n hn counts hc _ st hi tape tape' h

/-- one `evolve` call: valid offspring, tagged with the variator that made them (one of the list), invariant kept -/
theorem multimethodEvolve_valid (zero : α) (total : List α → α) (newProbs : List Nat → List α) (types : List (TypeD α))
    (vs : List (Oper α)) (hvs : ∀ v ∈ vs, OperValid types v) (counts : List Nat) (hc : (newProbs counts).length = vs.length)
    (st st' : MMState α) (hst : MMInv vs.length st) (parents kids : List (OSol α)) (tag : Nat) (tape tape' : Tape α)
    (hp : ∀ p ∈ parents, ValidSol types p)
    (h : multimethodEvolve zero total newProbs vs counts st parents tape = .ok (((kids, tag), st'), tape')) :
    (∀ c ∈ kids, ValidSol types c) ∧ tag = st.next ∧ tag < vs.length ∧ MMInv vs.length st' ∧ st'.freq = st.freq := by
  unfold multimethodEvolve at h
  split at h
  · cases h
  · rename_i v hv
    obtain ⟨⟨k1, t1⟩, hr, h⟩ := exceptBindOk h
    obtain ⟨⟨s1, t2⟩, hs, h⟩ := exceptBindOk h
    simp only [pure, Except.pure, Except.ok.injEq, Prod.mk.injEq] at h
    obtain ⟨⟨⟨rfl, rfl⟩, rfl⟩, rfl⟩ := h
    have hmem : v ∈ vs := List.mem_of_getElem? hv
    have hn : 0 < vs.length := by have := hst.1; omega
    have := multimethodSelect_inv zero total newProbs vs.length hn counts hc st s1 hst.2.1 t1 t2 hs
    exact ⟨hvs v hmem parents tape k1 t1 hp hr, rfl, hst.1, this.1, this.2⟩

/-- with the invariant, `variators[next_variator]` exists: a call fails only if the chosen variator or the tape does -/
theorem multimethodEvolve_no_index_error (zero : α) (total : List α → α) (newProbs : List Nat → List α)
    (vs : List (Oper α)) (counts : List Nat) (st : MMState α) (hst : MMInv vs.length st) (parents : List (OSol α)) (tape : Tape α) :
    ∃ v, vs[st.next]? = some v ∧ multimethodArity vs st = v.arity ∧
      multimethodEvolve zero total newProbs vs counts st parents tape =
        (do let (kids, tape) ← v.evolve parents tape
            let (st', tape) ← multimethodSelect zero total newProbs counts st tape
            pure (((kids, st.next), st'), tape)) := by
  have hlt := hst.1
  refine ⟨vs[st.next], by simp [hlt], by simp [multimethodArity, hlt], ?_⟩
  unfold multimethodEvolve
  simp [hlt]

/-- a history of `evolve` calls: what the surrounding algorithm's archive looked like before each call, and the parents -/
def mmHistory (zero : α) (total : List α → α) (newProbs : List Nat → List α) (vs : List (Oper α)) :
    MMState α → List (List Nat × List (OSol α)) → M α (List (List (OSol α) × Nat) × MMState α)
  | st, [] => fun tape => pure (([], st), tape)
  | st, (counts, parents) :: rest => fun tape => do
    let ((out, st'), tape) ← multimethodEvolve zero total newProbs vs counts st parents tape
    let ((outs, st''), tape) ← mmHistory zero total newProbs vs st' rest tape
    pure ((out :: outs, st''), tape)

/-- every history from a state that meets the invariant: all offspring of all calls valid and tagged with a variator of the
list, the invariant holds at the end (hence after every prefix) -/
theorem mmHistory_valid (zero : α) (total : List α → α) (newProbs : List Nat → List α) (types : List (TypeD α))
    (vs : List (Oper α)) (hvs : ∀ v ∈ vs, OperValid types v)
    (steps : List (List Nat × List (OSol α)))
    (hsteps : ∀ s ∈ steps, (newProbs s.1).length = vs.length ∧ ∀ p ∈ s.2, ValidSol types p)
    (st st' : MMState α) (hst : MMInv vs.length st) (outs : List (List (OSol α) × Nat)) (tape tape' : Tape α)
    (h : mmHistory zero total newProbs vs st steps tape = .ok ((outs, st'), tape')) :
    (∀ o ∈ outs, (∀ c ∈ o.1, ValidSol types c) ∧ o.2 < vs.length) ∧ outs.length = steps.length ∧
      MMInv vs.length st' ∧ st'.freq = st.freq := by
  induction steps generalizing st outs tape with
  | nil =>
    simp only [mmHistory, pure, Except.pure, Except.ok.injEq, Prod.mk.injEq] at h
    obtain ⟨⟨rfl, rfl⟩, _⟩ := h
    simp [hst]
  | cons s rest ih =>
    obtain ⟨counts, parents⟩ := s
    simp only [mmHistory] at h
    obtain ⟨⟨⟨⟨k1, tag⟩, s1⟩, t1⟩, hr, h⟩ := exceptBindOk h
    obtain ⟨⟨⟨os, s2⟩, t2⟩, hr2, h⟩ := exceptBindOk h
    simp only [pure, Except.pure, Except.ok.injEq, Prod.mk.injEq] at h
    obtain ⟨⟨rfl, rfl⟩, rfl⟩ := h
    have h1 := hsteps (counts, parents) (by simp)
    have e := multimethodEvolve_valid zero total newProbs types vs hvs counts h1.1 st s1 hst parents k1 tag tape t1 h1.2 hr
    have r := ih (fun s hs => hsteps s (by simp [hs])) s1 e.2.2.2.1 os t1 hr2
    refine ⟨?_, by simp [r.2.1], r.2.2.1, by rw [r.2.2.2, e.2.2.2.2]⟩
    intro o ho
    rcases List.mem_cons.mp ho with rfl | ho
    · exact ⟨e.1, e.2.2.1⟩
    · exact r.1 o ho

end

/-- the hypotheses are satisfiable: a concrete two-variator Multimethod state over `Int` meets the invariant, and a roulette
draw on it lands in range -/
example : MMInv 2 ({ next := 1, lastUpdate := 0, freq := 3, probs := [1, 2] } : MMState Int) ∧
    roulette (0 : Int) List.sum [1, 2] [.uniform 0 3 2] = .ok (1, []) := by
  exact ⟨⟨by decide, rfl, Or.inl rfl⟩, rfl⟩

end Platypus
