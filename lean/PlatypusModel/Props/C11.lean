import PlatypusModel.Model.Constraint
import PlatypusModel.Props.C02
import Mathlib.Algebra.Order.Ring.Defs
import Mathlib.Algebra.Order.Ring.Abs
import Mathlib.Algebra.Order.BigOperators.Group.List
import Mathlib.Tactic.Linarith
set_option linter.unusedSectionVars false
/-!
# C11 — a constraint expression is violated exactly when its relation is false

Stated over any linearly ordered ring (ℤ, ℚ, ℝ; doubles are tied by bit-exact correspondence),
any threshold `y`, any value `x`, and any `delta > 0` for the strict operators.
-/
namespace Platypus

/-- the relation a constraint operator denotes -/
def Op.Rel {α : Type} [LT α] [LE α] (op : Op) (x y : α) : Prop :=
  match op with
  | .eq => x = y | .leq => x ≤ y | .geq => y ≤ x | .neq => x ≠ y | .lt => x < y | .gt => y < x

section
variable {α : Type} [CommRing α] [LinearOrder α] [IsStrictOrderedRing α]

theorem pyAbs_eq_abs (x : α) : pyAbs x = |x| := by
  unfold pyAbs
  split
  · rename_i h; exact (abs_of_neg h).symm
  · rename_i h; exact (abs_of_nonneg (not_lt.mp h)).symm

/-- zero violation exactly when the relation holds -/
theorem viol_zero_iff_rel (op : Op) (δ x y : α) (hδ : 0 < δ) : op.viol δ x y = 0 ↔ op.Rel x y := by
  have habs : ∀ z : α, 0 ≤ |z| := abs_nonneg
  cases op <;> simp only [Op.viol, Op.Rel, pyAbs_eq_abs]
  · rw [abs_eq_zero, sub_eq_zero]
  · split
    · simp_all
    · rename_i h; simp only [abs_eq_zero, sub_eq_zero]; constructor
      · intro e; exact absurd (le_of_eq e) h
      · intro e; exact absurd e h
  · split
    · simp_all
    · rename_i h; simp only [abs_eq_zero, sub_eq_zero]; constructor
      · intro e; exact absurd (le_of_eq e.symm) h
      · intro e; exact absurd e h
  · split
    · rename_i h; simp_all
    · rename_i h; simp_all
  · split
    · simp_all
    · rename_i h
      have : 0 < |x - y| + δ := add_pos_of_nonneg_of_pos (habs _) hδ
      constructor
      · intro e; rw [e] at this; exact absurd this (lt_irrefl _)
      · intro e; exact absurd e h
  · split
    · simp_all
    · rename_i h
      have : 0 < |x - y| + δ := add_pos_of_nonneg_of_pos (habs _) hδ
      constructor
      · intro e; rw [e] at this; exact absurd this (lt_irrefl _)
      · intro e; exact absurd e h

/-- violations are never negative -/
theorem viol_nonneg (op : Op) (δ x y : α) (hδ : 0 < δ) : 0 ≤ op.viol δ x y := by
  have habs : ∀ z : α, 0 ≤ |z| := abs_nonneg
  cases op <;> simp only [Op.viol, pyAbs_eq_abs]
  · exact habs _
  · split <;> [exact le_refl _; exact habs _]
  · split <;> [exact le_refl _; exact habs _]
  · split <;> [exact le_refl _; exact zero_le_one]
  · split <;> [exact le_refl _; exact add_nonneg (habs _) hδ.le]
  · split <;> [exact le_refl _; exact add_nonneg (habs _) hδ.le]

/-- strictly positive violation when the relation is false -/
theorem viol_pos_of_not_rel (op : Op) (δ x y : α) (hδ : 0 < δ) (h : ¬ op.Rel x y) :
    0 < op.viol δ x y :=
  lt_of_le_of_ne (viol_nonneg op δ x y hδ) (fun e => h ((viol_zero_iff_rel op δ x y hδ).mp e.symm))

/-- `<=` and `<`: raising the value never decreases the violation -/
theorem viol_mono_up (op : Op) (hop : op = .leq ∨ op = .lt) (δ x x' y : α) (hδ : 0 < δ) (hx : x ≤ x') :
    op.viol δ x y ≤ op.viol δ x' y := by
  rcases hop with rfl | rfl <;> simp only [Op.viol, pyAbs_eq_abs]
  · split
    · split
      · exact le_refl _
      · exact abs_nonneg _
    · rename_i h
      have hxy : y < x := not_le.mp h
      have : ¬ x' ≤ y := not_le.mpr (lt_of_lt_of_le hxy hx)
      simp only [this, if_false]
      rw [abs_of_pos (sub_pos.mpr hxy), abs_of_pos (sub_pos.mpr (lt_of_lt_of_le hxy hx))]
      exact sub_le_sub_right hx y
  · split
    · split
      · exact le_refl _
      · exact add_nonneg (abs_nonneg _) hδ.le
    · rename_i h
      have hxy : y ≤ x := not_lt.mp h
      have : ¬ x' < y := not_lt.mpr (le_trans hxy hx)
      simp only [this, if_false]
      rw [abs_of_nonneg (sub_nonneg.mpr hxy), abs_of_nonneg (sub_nonneg.mpr (le_trans hxy hx))]
      linarith [sub_le_sub_right hx y]

/-- `>=` and `>`: lowering the value never decreases the violation -/
theorem viol_mono_down (op : Op) (hop : op = .geq ∨ op = .gt) (δ x x' y : α) (hδ : 0 < δ) (hx : x' ≤ x) :
    op.viol δ x y ≤ op.viol δ x' y := by
  rcases hop with rfl | rfl <;> simp only [Op.viol, pyAbs_eq_abs]
  · split
    · split
      · exact le_refl _
      · exact abs_nonneg _
    · rename_i h
      have hxy : x < y := not_le.mp h
      have : ¬ y ≤ x' := not_le.mpr (lt_of_le_of_lt hx hxy)
      simp only [this, if_false]
      rw [abs_of_neg (sub_neg.mpr hxy), abs_of_neg (sub_neg.mpr (lt_of_le_of_lt hx hxy))]
      exact neg_le_neg (sub_le_sub_right hx y)
  · split
    · split
      · exact le_refl _
      · exact add_nonneg (abs_nonneg _) hδ.le
    · rename_i h
      have hxy : x ≤ y := not_lt.mp h
      have : ¬ y < x' := not_lt.mpr (le_trans hx hxy)
      simp only [this, if_false]
      rw [abs_of_nonpos (sub_nonpos.mpr hxy), abs_of_nonpos (sub_nonpos.mpr (le_trans hx hxy))]
      linarith [sub_le_sub_right hx y]

/-- `==`: moving further from the threshold on either side never decreases the violation -/
theorem viol_eq_mono_away (δ x x' y : α) (h : (y ≤ x ∧ x ≤ x') ∨ (x' ≤ x ∧ x ≤ y)) :
    Op.eq.viol δ x y ≤ Op.eq.viol δ x' y := by
  simp only [Op.viol, pyAbs_eq_abs]
  rcases h with ⟨h1, h2⟩ | ⟨h1, h2⟩
  · rw [abs_of_nonneg (sub_nonneg.mpr h1), abs_of_nonneg (sub_nonneg.mpr (le_trans h1 h2))]
    exact sub_le_sub_right h2 y
  · rw [abs_of_nonpos (sub_nonpos.mpr h2), abs_of_nonpos (sub_nonpos.mpr (le_trans h1 h2))]
    exact neg_le_neg (sub_le_sub_right h1 y)

/-! ### total violation and feasibility -/

theorem foldl_add_eq_sum (l : List α) (a : α) : l.foldl (· + ·) a = a + l.sum := by
  induction l generalizing a with
  | nil => simp
  | cons x xs ih => simp [List.foldl_cons, ih, add_assoc]

/-- total violation = sum of the absolute violations of the constraints -/
theorem total_violation_eq_sum_abs (δ : α) (cs : List (Op × α)) (xs : List α) :
    totalViolation δ cs xs = (List.zipWith (fun (c : Op × α) x => |c.1.viol δ x c.2|) cs xs).sum := by
  unfold totalViolation
  rw [foldl_add_eq_sum, zero_add]
  simp only [pyAbs_eq_abs]

theorem total_violation_nonneg (δ : α) (cs : List (Op × α)) (xs : List α) :
    0 ≤ totalViolation δ cs xs := by
  rw [total_violation_eq_sum_abs]
  apply List.sum_nonneg
  intro z hz
  obtain ⟨c, x, rfl⟩ : ∃ (c : Op × α) (x : α), z = |c.1.viol δ x c.2| := by
    induction cs generalizing xs with
    | nil => simp at hz
    | cons c cs ih =>
      cases xs with
      | nil => simp at hz
      | cons x xs =>
        simp only [List.zipWith_cons_cons, List.mem_cons] at hz
        rcases hz with rfl | hz
        · exact ⟨c, x, rfl⟩
        · exact ih xs hz
  exact abs_nonneg _

/-- feasible exactly when every constraint's relation holds (as many values as constraints) -/
theorem feasible_iff_all_rel (δ : α) (hδ : 0 < δ) (cs : List (Op × α)) (xs : List α)
    (hl : cs.length = xs.length) :
    totalViolation δ cs xs = 0 ↔ ∀ p ∈ cs.zip xs, p.1.1.Rel p.2 p.1.2 := by
  rw [total_violation_eq_sum_abs]
  induction cs generalizing xs with
  | nil => cases xs <;> simp
  | cons c cs ih =>
    cases xs with
    | nil => simp at hl
    | cons x xs =>
      have hl' : cs.length = xs.length := by simpa using hl
      have hrest : 0 ≤ (List.zipWith (fun (c : Op × α) x => |c.1.viol δ x c.2|) cs xs).sum := by
        rw [← total_violation_eq_sum_abs]; exact total_violation_nonneg δ cs xs
      simp only [List.zipWith_cons_cons, List.sum_cons, List.zip_cons_cons, List.mem_cons, forall_eq_or_imp]
      rw [← ih xs hl', ← viol_zero_iff_rel c.1 δ x c.2 hδ]
      constructor
      · intro h
        have h1 : |c.1.viol δ x c.2| = 0 := by
          have := abs_nonneg (c.1.viol δ x c.2); exact le_antisymm (by linarith) this
        exact ⟨abs_eq_zero.mp h1, by linarith⟩
      · rintro ⟨h1, h2⟩; rw [h1, h2]; simp

/-- a feasible solution always beats an infeasible one (constrained problem, C02 comparator) -/
theorem feasible_beats_infeasible (dirs : List Bool) (a b : Sol α) (ha : WF dirs a) (hb : WF dirs b)
    (hfa : a.cv = 0) (hfb : b.cv ≠ 0) : paretoCompare true dirs a b = -1 := by
  rw [pareto_neg_one_iff true dirs a b ha hb]
  left
  exact ⟨rfl, by rw [hfa]; exact lt_of_le_of_ne hb.2 (Ne.symm hfb)⟩
end

/-! ### the expression grammar -/

theorem takeWhile_append_of_all {β : Type} (p : β → Bool) (a b : List β) (h : ∀ c ∈ a, p c = true) :
    (a ++ b).takeWhile p = a ++ b.takeWhile p := by
  induction a with
  | nil => rfl
  | cons x xs ih =>
    simp only [List.cons_append, List.takeWhile_cons, h x (List.mem_cons_self ..), if_true]
    rw [ih (fun c hc => h c (List.mem_cons_of_mem _ hc))]

theorem dropWhile_append_of_all {β : Type} (p : β → Bool) (a b : List β) (h : ∀ c ∈ a, p c = true) :
    (a ++ b).dropWhile p = b.dropWhile p := by
  induction a with
  | nil => rfl
  | cons x xs ih =>
    simp only [List.cons_append, List.dropWhile_cons, h x (List.mem_cons_self ..), if_true]
    exact ih (fun c hc => h c (List.mem_cons_of_mem _ hc))

theorem takeWhile_eq_nil_of_head {β : Type} (p : β → Bool) (l : List β)
    (h : ∀ x, l.head? = some x → p x = false) : l.takeWhile p = [] := by
  cases l with
  | nil => rfl
  | cons x xs => simp [List.takeWhile_cons, h x rfl]

theorem dropWhile_eq_self_of_head {β : Type} (p : β → Bool) (l : List β)
    (h : ∀ x, l.head? = some x → p x = false) : l.dropWhile p = l := by
  cases l with
  | nil => rfl
  | cons x xs => simp [List.dropWhile_cons, h x rfl]

theorem takeWhile_all {β : Type} (p : β → Bool) (l : List β) (h : ∀ c ∈ l, p c = true) :
    l.takeWhile p = l := by
  have := takeWhile_append_of_all p l [] h; simpa using this

theorem dropWhile_all {β : Type} (p : β → Bool) (l : List β) (h : ∀ c ∈ l, p c = true) :
    l.dropWhile p = [] := by
  have := dropWhile_append_of_all p l [] h; simpa using this

theorem Op.toChars_all_op (op : Op) : ∀ c ∈ op.toChars, isOpChar c = true := by
  cases op <;> simp [Op.toChars, isOpChar]

theorem Op.ofChars_toChars (op : Op) : Op.ofChars? op.toChars = some op := by
  cases op <;> rfl

theorem Op.toChars_ne_nil (op : Op) : op.toChars ≠ [] := by cases op <;> simp [Op.toChars]

/-- a value token: non-empty, no whitespace, no operator characters -/
def IsToken (t : List Char) : Prop := t ≠ [] ∧ ∀ c ∈ t, (!isPySpace c && !isOpChar c) = true

/-- every operator, any run of whitespace, any token the number parser accepts: accepted with
exactly that operator and that number (written together or with spaces) -/
theorem parse_accepts {α : Type} (parseNum : List Char → Option α) (op : Op) (ws t : List Char) (y : α)
    (hws : ∀ c ∈ ws, isPySpace c = true) (ht : IsToken t) (hy : parseNum t = some y) :
    parseChars parseNum (op.toChars ++ ws ++ t) = .ok op y := by
  obtain ⟨htne, htc⟩ := ht
  have hthead : ∀ x, t.head? = some x → isOpChar x = false ∧ isPySpace x = false := by
    intro x hx
    have : x ∈ t := List.mem_of_mem_head? hx
    have := htc x this
    simp only [Bool.and_eq_true, Bool.not_eq_true'] at this
    exact ⟨this.2, this.1⟩
  have hwshead : ∀ x, (ws ++ t).head? = some x → isOpChar x = false := by
    intro x hx
    cases ws with
    | nil => exact (hthead x hx).1
    | cons w ws' =>
      have : x = w := by simpa using hx.symm
      subst this
      have hsp := hws x (List.mem_cons_self ..)
      -- whitespace characters are not operator characters
      revert hsp; unfold isPySpace isOpChar
      intro hsp
      by_contra hop
      simp only [Bool.not_eq_false, Bool.or_eq_true, beq_iff_eq] at hop
      rcases hop with ((rfl | rfl) | rfl) | rfl <;> simp at hsp
  unfold parseChars splitChars
  have e1 : (op.toChars ++ ws ++ t).takeWhile isOpChar = op.toChars := by
    rw [List.append_assoc, takeWhile_append_of_all _ _ _ op.toChars_all_op,
      takeWhile_eq_nil_of_head _ _ hwshead, List.append_nil]
  have e2 : ((op.toChars ++ ws ++ t).dropWhile isOpChar).dropWhile isPySpace = t := by
    rw [List.append_assoc, dropWhile_append_of_all _ _ _ op.toChars_all_op,
      dropWhile_eq_self_of_head _ _ hwshead, dropWhile_append_of_all _ _ _ hws,
      dropWhile_eq_self_of_head _ _ (fun x hx => (hthead x hx).2)]
  simp only [e1, e2, takeWhile_all _ t htc, dropWhile_all _ t htc]
  have : op.toChars.isEmpty = false := by
    cases h : op.toChars with
    | nil => exact absurd h op.toChars_ne_nil
    | cons _ _ => rfl
  have ht' : t.isEmpty = false := by
    cases t with
    | nil => exact absurd rfl htne
    | cons _ _ => rfl
  simp [this, ht', Op.ofChars_toChars, hy]

/-- malformed expressions are rejected: nothing that the regular expression does not match, no
operator outside the table, no token the number parser refuses -/
theorem parse_rejects_empty {α : Type} (parseNum : List Char → Option α) :
    parseChars parseNum [] = .error := rfl

theorem parse_rejects_missing_operator {α : Type} (parseNum : List Char → Option α) (c : Char)
    (cs : List Char) (hc : isOpChar c = false) : parseChars parseNum (c :: cs) = .error := by
  simp [parseChars, splitChars, List.takeWhile_cons, hc]

theorem parse_rejects_missing_value {α : Type} (parseNum : List Char → Option α) (ops ws : List Char)
    (hops : ∀ c ∈ ops, isOpChar c = true) (hws : ∀ c ∈ ws, isPySpace c = true)
    (hwsop : ∀ c ∈ ws, isOpChar c = false) :
    parseChars parseNum (ops ++ ws) = .error := by
  unfold parseChars splitChars
  have hwshead : ∀ x, ws.head? = some x → isOpChar x = false :=
    fun x hx => hwsop x (List.mem_of_mem_head? hx)
  have e2 : ((ops ++ ws).dropWhile isOpChar).dropWhile isPySpace = [] := by
    rw [dropWhile_append_of_all _ _ _ hops, dropWhile_eq_self_of_head _ _ hwshead, dropWhile_all _ _ hws]
  simp [e2]

theorem parse_rejects_unknown_operator {α : Type} (parseNum : List Char → Option α) (cs o t : List Char)
    (hs : splitChars cs = some (o, t)) (ho : Op.ofChars? o = none) : parseChars parseNum cs = .error := by
  simp [parseChars, hs, ho]

theorem parse_rejects_bad_number {α : Type} (parseNum : List Char → Option α) (cs o t : List Char)
    (hs : splitChars cs = some (o, t)) (hn : parseNum t = none) : parseChars parseNum cs = .error := by
  simp only [parseChars, hs]
  cases Op.ofChars? o <;> simp [hn]

/-- trailing garbage (anything but a single final newline) after the value is rejected -/
theorem parse_rejects_trailing {α : Type} (parseNum : List Char → Option α) (op : Op) (t g : List Char)
    (ht : IsToken t) (hg : g ≠ []) (hg' : g ≠ ['\n'])
    (hghead : ∀ x, g.head? = some x → (!isPySpace x && !isOpChar x) = false) :
    parseChars parseNum (op.toChars ++ t ++ g) = .error := by
  obtain ⟨htne, htc⟩ := ht
  have hthead : ∀ x, (t ++ g).head? = some x → isOpChar x = false ∧ isPySpace x = false := by
    intro x hx
    cases t with
    | nil => exact absurd rfl htne
    | cons a t' =>
      have : x = a := by simpa using hx.symm
      subst this
      have := htc x (List.mem_cons_self ..)
      simp only [Bool.and_eq_true, Bool.not_eq_true'] at this
      exact ⟨this.2, this.1⟩
  unfold parseChars splitChars
  have e2 : ((op.toChars ++ t ++ g).dropWhile isOpChar).dropWhile isPySpace = t ++ g := by
    rw [List.append_assoc, dropWhile_append_of_all _ _ _ op.toChars_all_op,
      dropWhile_eq_self_of_head _ _ (fun x hx => (hthead x hx).1),
      dropWhile_eq_self_of_head _ _ (fun x hx => (hthead x hx).2)]
  have e3 : (t ++ g).dropWhile (fun c => !isPySpace c && !isOpChar c) = g := by
    rw [dropWhile_append_of_all _ _ _ htc, dropWhile_eq_self_of_head _ _ hghead]
  simp only [e2, e3]
  have h1 : g.isEmpty = false := by cases g <;> simp_all
  have h2 : (g == ['\n']) = false := by simpa using hg'
  simp [h1, h2]

/-! non-vacuity -/
example : parseChars (fun t => if t = ['1', '0'] then some (10 : Int) else none) "<=  10".toList = .ok .leq 10 := by
  decide
example : parseChars (fun _ => some (0 : Int)) "=<0".toList = .error := by decide
example : Op.leq.viol (1 : Int) 7 5 = 2 ∧ Op.lt.viol (1 : Int) 5 5 = 1 ∧ Op.neq.viol (1 : Int) 5 5 = 1 ∧
    Op.gt.viol (1 : Int) 6 5 = 0 := by decide

end Platypus
