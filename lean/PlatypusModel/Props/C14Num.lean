import PlatypusModel.Props.C14
import Mathlib.Algebra.Order.Floor.Ring
import Mathlib.Algebra.Order.Field.Basic
import Mathlib.Tactic.Linarith
set_option linter.unusedSectionVars false
/-!
# C14 — the concrete adaptive grid archive in exact arithmetic

`Props/C14.lean` proves the archive invariant for every configuration satisfying `GoodCfg`, with the
arithmetic of `find_index` and the bounds computation as parameters.  This file discharges those parameters
for the literal transcription `findIndex` (Model/Grid.lean) over any linearly ordered field with floor:
`trunc x = ⌊x⌋.toNat` (Python's `int()` on a non-negative value), bounds = per-objective min / max of the
members, comparator = Pareto dominance.  So the invariant holds of the concrete archive for every history of
well-formed solutions; what remains outside is only the rounding of `divisions * (v - lo) / (hi - lo)` on
doubles, which the Float instance of the driver ties bit for bit.
-/
namespace Platypus

variable {α : Type} [Field α] [LinearOrder α] [IsStrictOrderedRing α] [FloorRing α]

/-- Python's `int(x)` for `x ≥ 0` -/
def truncE (x : α) : Nat := (⌊x⌋ : Int).toNat

/-- `adapt_grid`: per-objective minimum and maximum over the members (for an empty archive the values are
irrelevant: there is no member to place) -/
def boundsE (nobjs : Nat) (contents : List (Sol α)) : List α × List α :=
  ((List.range nobjs).map fun i => match contents with
      | [] => 0
      | s :: ss => ss.foldl (fun m t => min m (t.objs.getD i 0)) (s.objs.getD i 0),
   (List.range nobjs).map fun i => match contents with
      | [] => 0
      | s :: ss => ss.foldl (fun m t => max m (t.objs.getD i 0)) (s.objs.getD i 0))

/-- Pareto comparison, made total outside the well-formed solutions (lengths match the declaration, violation
`≥ 0`) so that it is a strict comparator on the whole type -/
def paretoTotal (c : Bool) (dirs : List Bool) (a b : Sol α) : Int :=
  if a.objs.length = dirs.length ∧ (0 : α) ≤ a.cv ∧ b.objs.length = dirs.length ∧ (0 : α) ≤ b.cv
  then paretoCompare c dirs a b else 0

theorem paretoTotal_eq (c : Bool) (dirs : List Bool) (a b : Sol α) (ha : WF dirs a) (hb : WF dirs b) :
    paretoTotal c dirs a b = paretoCompare c dirs a b := by
  unfold paretoTotal
  rw [if_pos ⟨ha.1, ha.2, hb.1, hb.2⟩]

theorem c14n_paretoTotal_zero_left (c : Bool) (dirs : List Bool) (a b : Sol α) (ha : ¬ WF dirs a) :
    paretoTotal c dirs a b = 0 := by
  unfold paretoTotal
  rw [if_neg]
  rintro ⟨h1, h2, _, _⟩
  exact ha ⟨h1, h2⟩

theorem c14n_paretoTotal_zero_right (c : Bool) (dirs : List Bool) (a b : Sol α) (hb : ¬ WF dirs b) :
    paretoTotal c dirs a b = 0 := by
  unfold paretoTotal
  rw [if_neg]
  rintro ⟨_, _, h1, h2⟩
  exact hb ⟨h1, h2⟩

theorem c14n_paretoTotal_strict (c : Bool) (dirs : List Bool) : StrictCmp (paretoTotal (α := α) c dirs) := by
  constructor
  · intro x y
    by_cases hx : WF dirs x
    · by_cases hy : WF dirs y
      · rw [paretoTotal_eq c dirs y x hy hx, paretoTotal_eq c dirs x y hx hy]
        exact pareto_antisymm c dirs x y hx hy
      · rw [c14n_paretoTotal_zero_left c dirs y x hy, c14n_paretoTotal_zero_right c dirs x y hy]; rfl
    · rw [c14n_paretoTotal_zero_right c dirs y x hx, c14n_paretoTotal_zero_left c dirs x y hx]; rfl
  · intro x y z h1 h2
    by_cases hx : WF dirs x
    · by_cases hy : WF dirs y
      · by_cases hz : WF dirs z
        · rw [paretoTotal_eq c dirs x y hx hy] at h1
          rw [paretoTotal_eq c dirs y z hy hz] at h2
          rw [paretoTotal_eq c dirs x z hx hz]
          have e1 : paretoCompare c dirs x y = -1 := by
            rcases pareto_range c dirs x y with e | e | e <;> omega
          have e2 : paretoCompare c dirs y z = -1 := by
            rcases pareto_range c dirs y z with e | e | e <;> omega
          rw [pareto_trans c dirs x y z hx hy hz e1 e2]; decide
        · rw [c14n_paretoTotal_zero_right c dirs y z hz] at h2; omega
      · rw [c14n_paretoTotal_zero_right c dirs x y hy] at h1; omega
    · rw [c14n_paretoTotal_zero_left c dirs x y hx] at h1; omega

/-- the concrete configuration -/
def gridCfgE (capacity nobjs divisions : Nat) (c : Bool) (dirs : List Bool) :
    GridCfg (Sol α) (List α × List α) :=
  { cmp := paretoTotal c dirs, getId := (·.id), mkBounds := boundsE nobjs,
    cell := fun b s => findIndex (fun n => (n : α)) truncE divisions b.1 b.2 (s.objs.take nobjs),
    ncells := divisions ^ nobjs, capacity := capacity, adaptOnEvict := true }

theorem c14n_trunc_le (divisions : Nat) (value : α) (hv : value ≤ 1) :
    truncE ((divisions : α) * value) ≤ divisions := by
  unfold truncE
  rw [Int.toNat_le, Int.floor_le_iff]
  have h0 : (0 : α) ≤ (divisions : α) := Nat.cast_nonneg _
  have : (divisions : α) * value ≤ (divisions : α) * 1 := mul_le_mul_of_nonneg_left hv h0
  push_cast
  linarith

theorem c14n_value_le_one (lo hi v : α) (h : ¬ (v < lo ∨ hi < v)) :
    (if lo < hi then (v - lo) / (hi - lo) else 0) ≤ (1 : α) := by
  push Not at h
  split
  · rename_i hlt
    rw [div_le_one (by linarith)]
    linarith [h.2]
  · exact zero_le_one

theorem c14n_digit_lt (divisions : Nat) (hdiv : 1 ≤ divisions) (lo hi v : α) (h : ¬ (v < lo ∨ hi < v)) :
    (if truncE ((divisions : α) * (if lo < hi then (v - lo) / (hi - lo) else 0)) = divisions
      then truncE ((divisions : α) * (if lo < hi then (v - lo) / (hi - lo) else 0)) - 1
      else truncE ((divisions : α) * (if lo < hi then (v - lo) / (hi - lo) else 0))) < divisions := by
  have := c14n_trunc_le divisions _ (c14n_value_le_one lo hi v h)
  generalize truncE ((divisions : α) * (if lo < hi then (v - lo) / (hi - lo) else 0)) = t at this ⊢
  split <;> omega

theorem c14n_loop_range (divisions : Nat) (hdiv : 1 ≤ divisions) :
    ∀ (los his vs : List α) (pw acc c : Nat), acc < pw →
      findIndexLoop (fun n => (n : α)) truncE divisions los his vs pw acc = some c →
      c < pw * divisions ^ (min (min los.length his.length) vs.length) := by
  intro los
  induction los with
  | nil =>
    intro his vs pw acc c hacc h
    simp [findIndexLoop] at h
    subst h; simpa using hacc
  | cons lo los ih =>
    intro his vs pw acc c hacc h
    cases his with
    | nil => simp [findIndexLoop] at h; subst h; simpa using hacc
    | cons hi his =>
      cases vs with
      | nil => simp [findIndexLoop] at h; subst h; simpa using hacc
      | cons v vs =>
        rw [findIndexLoop] at h
        split at h
        · cases h
        · rename_i hin
          have ht := c14n_digit_lt divisions hdiv lo hi v hin
          simp only at h
          have hacc' : acc + (if truncE ((divisions : α) * (if lo < hi then (v - lo) / (hi - lo) else 0)) = divisions
              then truncE ((divisions : α) * (if lo < hi then (v - lo) / (hi - lo) else 0)) - 1
              else truncE ((divisions : α) * (if lo < hi then (v - lo) / (hi - lo) else 0))) * pw < pw * divisions := by
            generalize (if truncE ((divisions : α) * (if lo < hi then (v - lo) / (hi - lo) else 0)) = divisions
              then truncE ((divisions : α) * (if lo < hi then (v - lo) / (hi - lo) else 0)) - 1
              else truncE ((divisions : α) * (if lo < hi then (v - lo) / (hi - lo) else 0))) = t at ht
            have : (t + 1) * pw ≤ divisions * pw := Nat.mul_le_mul_right _ ht
            rw [Nat.mul_comm pw divisions]
            rw [Nat.add_mul] at this
            omega
          have := ih his vs _ _ c hacc' h
          have e : min (min (lo :: los).length (hi :: his).length) (v :: vs).length
              = min (min los.length his.length) vs.length + 1 := by
            simp only [List.length_cons]; omega
          rw [e, Nat.pow_succ, Nat.mul_comm _ divisions, ← Nat.mul_assoc]
          exact this

/-- every digit of `find_index` is `< divisions`, hence the index is a cell of the grid -/
theorem findIndex_range (divisions : Nat) (hdiv : 1 ≤ divisions) (lo hi objs : List α) (c : Nat)
    (h : findIndex (fun n => (n : α)) truncE divisions lo hi objs = some c) :
    c < divisions ^ (min (min lo.length hi.length) objs.length) := by
  have := c14n_loop_range divisions hdiv lo hi objs 1 0 c Nat.one_pos h
  rwa [Nat.one_mul] at this

theorem c14n_loop_some (divisions : Nat) :
    ∀ (los his vs : List α) (pw acc : Nat),
      (∀ i (h1 : i < vs.length) (h2 : i < los.length) (h3 : i < his.length), los[i] ≤ vs[i] ∧ vs[i] ≤ his[i]) →
      ∃ c, findIndexLoop (fun n => (n : α)) truncE divisions los his vs pw acc = some c := by
  intro los
  induction los with
  | nil => intro his vs pw acc _; exact ⟨acc, by simp [findIndexLoop]⟩
  | cons lo los ih =>
    intro his vs pw acc hb
    cases his with
    | nil => exact ⟨acc, by simp [findIndexLoop]⟩
    | cons hi his =>
      cases vs with
      | nil => exact ⟨acc, by simp [findIndexLoop]⟩
      | cons v vs =>
        rw [findIndexLoop]
        have h0 := hb 0 (by simp) (by simp) (by simp)
        simp only [List.getElem_cons_zero] at h0
        rw [if_neg (by push Not; exact h0)]
        apply ih
        intro i h1 h2 h3
        have := hb (i + 1) (by simpa using h1) (by simpa using h2) (by simpa using h3)
        simpa using this

theorem c14n_foldl_min_le (f : Sol α → α) (l : List (Sol α)) :
    ∀ init : α, l.foldl (fun m t => min m (f t)) init ≤ init ∧
      ∀ t ∈ l, l.foldl (fun m t => min m (f t)) init ≤ f t := by
  induction l with
  | nil => intro init; simp
  | cons a l ih =>
    intro init
    simp only [List.foldl_cons]
    obtain ⟨h1, h2⟩ := ih (min init (f a))
    refine ⟨le_trans h1 (min_le_left _ _), ?_⟩
    intro t ht
    rcases List.mem_cons.mp ht with rfl | ht
    · exact le_trans h1 (min_le_right _ _)
    · exact h2 t ht

theorem c14n_le_foldl_max (f : Sol α → α) (l : List (Sol α)) :
    ∀ init : α, init ≤ l.foldl (fun m t => max m (f t)) init ∧
      ∀ t ∈ l, f t ≤ l.foldl (fun m t => max m (f t)) init := by
  induction l with
  | nil => intro init; simp
  | cons a l ih =>
    intro init
    simp only [List.foldl_cons]
    obtain ⟨h1, h2⟩ := ih (max init (f a))
    refine ⟨le_trans (le_max_left _ _) h1, ?_⟩
    intro t ht
    rcases List.mem_cons.mp ht with rfl | ht
    · exact le_trans (le_max_right _ _) h1
    · exact h2 t ht

theorem c14n_boundsE_length (nobjs : Nat) (contents : List (Sol α)) :
    (boundsE nobjs contents).1.length = nobjs ∧ (boundsE nobjs contents).2.length = nobjs := by
  simp [boundsE]

/-- a member of the archive lies inside the freshly adapted grid -/
theorem findIndex_inside (nobjs divisions : Nat) (contents : List (Sol α)) (m : Sol α) (hm : m ∈ contents) :
    ∃ c, findIndex (fun n => (n : α)) truncE divisions (boundsE nobjs contents).1 (boundsE nobjs contents).2
      (m.objs.take nobjs) = some c := by
  unfold findIndex
  apply c14n_loop_some
  intro i h1 h2 h3
  have hi : i < nobjs := by rw [(c14n_boundsE_length nobjs contents).1] at h2; exact h2
  have hil : i < m.objs.length := by
    rw [List.length_take] at h1; omega
  have hv : (m.objs.take nobjs)[i] = m.objs.getD i 0 := by
    rw [List.getElem_take, List.getD_eq_getElem?_getD, List.getElem?_eq_getElem hil, Option.getD_some]
  rw [hv]
  cases contents with
  | nil => simp at hm
  | cons s ss =>
    simp only [boundsE, List.getElem_map, List.getElem_range]
    have hmin := c14n_foldl_min_le (fun t : Sol α => t.objs.getD i 0) ss (s.objs.getD i 0)
    have hmax := c14n_le_foldl_max (fun t : Sol α => t.objs.getD i 0) ss (s.objs.getD i 0)
    rcases List.mem_cons.mp hm with rfl | hm
    · exact ⟨hmin.1, hmax.1⟩
    · exact ⟨hmin.2 m hm, hmax.2 m hm⟩

theorem gridCfgE_good (capacity nobjs divisions : Nat) (c : Bool) (dirs : List Bool)
    (hcap : 1 ≤ capacity) (hdiv : 1 ≤ divisions) :
    GoodCfg (gridCfgE (α := α) capacity nobjs divisions c dirs) := by
  have hrange : ∀ (b : List α × List α) (m : Sol α) (k : Nat),
      (gridCfgE (α := α) capacity nobjs divisions c dirs).cell b m = some k →
      k < (gridCfgE (α := α) capacity nobjs divisions c dirs).ncells := by
    intro b m k hk
    have h1 := findIndex_range divisions hdiv b.1 b.2 (m.objs.take nobjs) k hk
    refine lt_of_lt_of_le h1 (Nat.pow_le_pow_right hdiv ?_)
    rw [List.length_take]
    omega
  refine ⟨c14n_paretoTotal_strict c dirs, hcap, rfl, ?_, hrange⟩
  intro contents m hm
  obtain ⟨k, hk⟩ := findIndex_inside nobjs divisions contents m hm
  exact ⟨k, hrange _ m k hk, hk⟩

/-- **the concrete archive**: after any history of distinct solution objects, at most `capacity` members,
mutually non-dominated, and the reported occupancy of every member's cell is the number of members in it -/
theorem aga_invariant_exact (capacity nobjs divisions : Nat) (c : Bool) (dirs : List Bool)
    (hcap : 1 ≤ capacity) (hdiv : 1 ≤ divisions) (xs : List (Sol α)) (hid : (xs.map (·.id)).Nodup) :
    Inv (gridCfgE capacity nobjs divisions c dirs) (gridRun (gridCfgE capacity nobjs divisions c dirs) xs) :=
  aga_invariant _ (gridCfgE_good capacity nobjs divisions c dirs hcap hdiv) xs hid

theorem c14n_gridAdd_congr {σ β : Type} (cmp cmp' : σ → σ → Int) (getId : σ → Nat) (mkBounds : List σ → β)
    (cell : β → σ → Option Nat) (ncells capacity : Nat) (adaptOnEvict : Bool)
    (g : GridArchive σ β) (s : σ) (h : ∀ m ∈ g.contents, cmp' s m = cmp s m) :
    gridAdd ⟨cmp', getId, mkBounds, cell, ncells, capacity, adaptOnEvict⟩ g s
      = gridAdd ⟨cmp, getId, mkBounds, cell, ncells, capacity, adaptOnEvict⟩ g s := by
  have hany : g.contents.any (fun m => decide (cmp' s m > 0)) = g.contents.any (fun m => decide (cmp s m > 0)) := by
    rw [Bool.eq_iff_iff, List.any_eq_true, List.any_eq_true]
    constructor
    · rintro ⟨m, hmm, hh⟩; exact ⟨m, hmm, by rw [← h m hmm]; exact hh⟩
    · rintro ⟨m, hmm, hh⟩; exact ⟨m, hmm, by rw [h m hmm]; exact hh⟩
  have hfil : g.contents.filter (fun m => decide (cmp' s m = 0)) = g.contents.filter (fun m => decide (cmp s m = 0)) := by
    apply List.filter_congr
    intro m hmm; rw [h m hmm]
  unfold gridAdd
  simp only []
  rw [hany, hfil]
  rfl

/-- two configurations that differ only in comparators agreeing on all offered pairs run identically -/
theorem gridRun_congr (cfg cfg' : GridCfg (Sol α) (List α × List α)) (xs : List (Sol α))
    (hid : cfg'.getId = cfg.getId) (hb : cfg'.mkBounds = cfg.mkBounds) (hc : cfg'.cell = cfg.cell)
    (hn : cfg'.ncells = cfg.ncells) (hcap : cfg'.capacity = cfg.capacity) (ha : cfg'.adaptOnEvict = cfg.adaptOnEvict)
    (hcmp : ∀ x ∈ xs, ∀ y ∈ xs, cfg'.cmp x y = cfg.cmp x y) :
    gridRun cfg' xs = gridRun cfg xs := by
  obtain ⟨cmp, gid, mb, cell, n, cap, a⟩ := cfg
  obtain ⟨cmp', gid', mb', cell', n', cap', a'⟩ := cfg'
  simp only at hid hb hc hn hcap ha hcmp
  subst hid hb hc hn hcap ha
  suffices hs : gridRun ⟨cmp', gid', mb', cell', n', cap', a'⟩ xs = gridRun ⟨cmp, gid', mb', cell', n', cap', a'⟩ xs ∧
      ∀ m ∈ (gridRun (⟨cmp, gid', mb', cell', n', cap', a'⟩ : GridCfg (Sol α) (List α × List α)) xs).contents, m ∈ xs from hs.1
  induction xs using List.reverseRecOn with
  | nil =>
    refine ⟨rfl, ?_⟩
    intro m hm
    simp [gridRun, gridInit, adaptGrid] at hm
  | append_singleton pre s ih =>
    obtain ⟨e, hmem⟩ := ih (fun x hx y hy => hcmp x (List.mem_append_left _ hx) y (List.mem_append_left _ hy))
    rw [gridRun_snoc, gridRun_snoc, e]
    constructor
    · rw [c14n_gridAdd_congr cmp cmp']
      intro m hm
      exact hcmp s (by simp) m (List.mem_append_left _ (hmem m hm))
    · intro m hm
      rcases gridAdd_contents_subset _ _ s m hm with hm | hm
      · exact List.mem_append_left _ (hmem m hm)
      · subst hm; simp

/-- … in particular the archive run with plain `paretoCompare` (what the driver executes) on a history of
well-formed solutions is the archive of `aga_invariant_exact` -/
theorem gridRun_pareto_eq (capacity nobjs divisions : Nat) (c : Bool) (dirs : List Bool) (xs : List (Sol α))
    (hwf : ∀ x ∈ xs, WF dirs x) :
    gridRun ({ gridCfgE capacity nobjs divisions c dirs with cmp := paretoCompare c dirs } :
        GridCfg (Sol α) (List α × List α)) xs
      = gridRun (gridCfgE capacity nobjs divisions c dirs) xs := by
  refine gridRun_congr (gridCfgE capacity nobjs divisions c dirs) _ xs rfl rfl rfl rfl rfl rfl ?_
  intro x hx y hy
  exact (paretoTotal_eq c dirs x y (hwf x hx) (hwf y hy)).symm

end Platypus
