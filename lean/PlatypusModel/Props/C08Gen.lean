import PlatypusModel.Model.GenStep
import PlatypusModel.Props.C08
/-!
# C08 / C14 — the premise "every step counts at least one evaluation", discharged for the generational algorithms

`Props/C08.lean` proves the budget clauses for every step function with `Progress`.  This file proves `Progress` for the
step functions of all fifteen shipped algorithm classes (`Model/GenStep.lean`: NSGA-II, eps-NSGA-II without restarts, SPEA2,
NSGA-III, IBEA, GeneticAlgorithm, EvolutionaryStrategy, EpsMOEA, GDE3, MOEA/D without utility-based search, PESA2, PAES,
OMOPSO, SMPSO, CMA-ES) for every stream of offspring counts in which each call of
`variator.evolve` returns at least one offspring, and the population-size clause of C14 for every reachable state.
What the offspring loop does — it stops at the first call at which the wanted number is reached, so a step evaluates fewer
than `n + (largest number of offspring of one call)` — is `offLoopF_spec` / `offLoopF_overshoot`.
-/
namespace Platypus

/-- offspring returned by the `m` calls starting with call number `pos` -/
def sumFrom (sizes : Nat → Nat) (pos : Nat) : Nat → Nat
  | 0 => 0
  | m + 1 => sizes pos + sumFrom sizes (pos + 1) m

theorem sumFrom_ge (sizes : Nat → Nat) (hs : ∀ i, 1 ≤ sizes i) (pos m : Nat) : m ≤ sumFrom sizes pos m := by
  induction m generalizing pos with
  | zero => simp [sumFrom]
  | succ m ih => have := ih (pos + 1); have := hs pos; simp only [sumFrom]; omega

theorem sumFrom_le (sizes : Nat → Nat) (a : Nat) (hb : ∀ i, sizes i ≤ a) (pos m : Nat) : sumFrom sizes pos m ≤ m * a := by
  induction m generalizing pos with
  | zero => simp [sumFrom]
  | succ m ih => have := ih (pos + 1); have := hb pos; simp only [sumFrom, Nat.succ_mul]; omega

theorem sumFrom_succ_right (sizes : Nat → Nat) (pos m : Nat) :
    sumFrom sizes pos (m + 1) = sumFrom sizes pos m + sizes (pos + m) := by
  induction m generalizing pos with
  | zero => simp [sumFrom]
  | succ m ih =>
    have := ih (pos + 1)
    simp only [sumFrom] at this ⊢
    rw [show pos + (m + 1) = pos + 1 + m by omega]
    omega

/-- **what the `while len(offspring) < n` loop computes**: it makes `m` calls, returns all their offspring, and before each
of these calls the wanted number had not been reached; unless the fuel ran out, it has been reached at the end -/
theorem offLoopF_spec (sizes : Nat → Nat) (n fuel have_ pos : Nat) :
    ∃ m, m ≤ fuel ∧ (offLoopF sizes n fuel have_ pos).2 = pos + m ∧
      (offLoopF sizes n fuel have_ pos).1 = have_ + sumFrom sizes pos m ∧
      (∀ j, j < m → have_ + sumFrom sizes pos j < n) ∧
      (m < fuel → n ≤ (offLoopF sizes n fuel have_ pos).1) := by
  induction fuel generalizing have_ pos with
  | zero => exact ⟨0, by simp [offLoopF, sumFrom]⟩
  | succ fuel ih =>
    simp only [offLoopF]
    by_cases h : n ≤ have_
    · simp only [h, if_true]
      exact ⟨0, by simp [sumFrom]⟩
    · simp only [h, if_false]
      obtain ⟨m, hm, h2, h1, hb, ha⟩ := ih (have_ + sizes pos) (pos + 1)
      refine ⟨m + 1, by omega, by omega, ?_, ?_, ?_⟩
      · rw [h1]; simp only [sumFrom]; omega
      · intro j hj
        cases j with
        | zero => simp only [sumFrom]; omega
        | succ j => have := hb j (by omega); simp only [sumFrom]; omega
      · intro hlt; exact ha (by omega)

/-- **the fuel is never the reason the loop stops**: when every call returns at least one offspring, `n` calls suffice -/
theorem offLoopF_reaches (sizes : Nat → Nat) (hs : ∀ i, 1 ≤ sizes i) (n fuel have_ pos : Nat) (hf : n ≤ have_ + fuel) :
    n ≤ (offLoopF sizes n fuel have_ pos).1 := by
  obtain ⟨m, hm, _, h1, _, ha⟩ := offLoopF_spec sizes n fuel have_ pos
  by_cases hlt : m < fuel
  · exact ha hlt
  · have : m = fuel := by omega
    subst this
    have := sumFrom_ge sizes hs pos m
    omega

/-- **overshoot of one step**: if no call returns more than `a` offspring, the loop started below `n` returns fewer than `n + a` -/
theorem offLoopF_overshoot (sizes : Nat → Nat) (a : Nat) (hb : ∀ i, sizes i ≤ a) (n fuel have_ pos : Nat) (h0 : have_ < n) :
    (offLoopF sizes n fuel have_ pos).1 < n + a := by
  obtain ⟨m, _, _, h1, hbefore, _⟩ := offLoopF_spec sizes n fuel have_ pos
  cases m with
  | zero => rw [h1]; simp only [sumFrom]; omega
  | succ m =>
    have hlast := hbefore m (by omega)
    rw [h1, sumFrom_succ_right]
    have := hb (pos + m)
    omega

theorem callsF_spec (sizes : Nat → Nat) (m have_ pos : Nat) :
    callsF sizes m have_ pos = (have_ + sumFrom sizes pos m, pos + m) := by
  induction m generalizing have_ pos with
  | zero => simp [callsF, sumFrom]
  | succ m ih => simp only [callsF, ih, sumFrom, Prod.mk.injEq]; omega

/-- the offspring of one `iterate`: at least one, and at least the wanted number for the loop styles -/
theorem genOffspring_ge (c : GenCfg) (sizes : Nat → Nat) (hs : ∀ i, 1 ≤ sizes i) (pos : Nat) :
    (match c.style with
      | .whileMerge => c.popSize
      | .whileFittest => c.offSize
      | .callsMerge => c.offSize
      | .oneCallKeep => 1
      | .popCallsMerge => c.popSize
      | .popCallsKeep => c.popSize
      | .whileReplace => c.popSize
      | .oneCallOne => 1
      | .fixed => c.popSize) ≤ (genOffspring c sizes pos).1 := by
  unfold genOffspring
  cases c.style with
  | whileMerge => exact offLoopF_reaches sizes hs c.popSize c.popSize 0 pos (by omega)
  | whileFittest => exact offLoopF_reaches sizes hs c.offSize c.offSize 0 pos (by omega)
  | callsMerge => simp only [callsF_spec]; have := sumFrom_ge sizes hs pos c.offSize; omega
  | oneCallKeep => simp only [callsF_spec]; have := sumFrom_ge sizes hs pos 1; omega
  | popCallsMerge => simp only [callsF_spec]; have := sumFrom_ge sizes hs pos c.popSize; omega
  | popCallsKeep => simp only [callsF_spec]; have := sumFrom_ge sizes hs pos c.popSize; omega
  | whileReplace => exact offLoopF_reaches sizes hs c.popSize c.popSize 0 pos (by omega)
  | oneCallOne => exact Nat.le_refl 1
  | fixed => exact Nat.le_refl c.popSize

/-- **the evaluation counter strictly increases with every step** of a generational algorithm: sizes at least 1, every call
of the variator returns at least one offspring — for every stream of offspring counts and every state -/
theorem genStep_progress (c : GenCfg) (sizes : Nat → Nat) (hs : ∀ i, 1 ≤ sizes i) (hp : 1 ≤ c.popSize) (ho : 1 ≤ c.offSize) :
    Progress (genStep c sizes) GenState.nfe := by
  intro s
  unfold genStep
  by_cases h : s.nfe = 0
  · simp only [h, if_true]; omega
  · simp only [h, if_false]
    have := genOffspring_ge c sizes hs s.pos
    cases hst : c.style <;> simp only [hst] at this <;> omega

/-- the counter increment of a step equals the number of solutions it submits: `population_size` for the first step, the
offspring of the loop afterwards; for the loop styles that is at least the wanted number and less than that plus one call -/
theorem genStep_increment_while (c : GenCfg) (sizes : Nat → Nat) (hs : ∀ i, 1 ≤ sizes i) (a : Nat) (hb : ∀ i, sizes i ≤ a)
    (hst : c.style = .whileMerge) (hp : 1 ≤ c.popSize) (s : GenState) (h : s.nfe ≠ 0) :
    s.nfe + c.popSize ≤ (genStep c sizes s).nfe ∧ (genStep c sizes s).nfe < s.nfe + c.popSize + a := by
  unfold genStep
  simp only [h, if_false, genOffspring, hst]
  have h1 := offLoopF_reaches sizes hs c.popSize c.popSize 0 s.pos (by omega)
  have h2 := offLoopF_overshoot sizes a hb c.popSize c.popSize 0 s.pos (by omega)
  omega

/-- C14, never more than the configured size -/
theorem genStep_pop_le (c : GenCfg) (sizes : Nat → Nat) (s : GenState) (hst : c.style ≠ .whileReplace) (h : s.pop ≤ c.popSize) :
    (genStep c sizes s).pop ≤ c.popSize := by
  unfold genStep
  by_cases h0 : s.nfe = 0
  · simp [h0]
  · simp only [h0, if_false, survivorsSize]
    cases hs : c.style <;> simp only [hs] at hst ⊢ <;> first | omega | contradiction

/-- C14, exactly the configured size after every step, for every style except the GA (and PESA2, whose offspring become the
population and which the statement does not list) -/
theorem genStep_pop_eq (c : GenCfg) (sizes : Nat → Nat) (s : GenState) (hst : c.style ≠ .whileFittest)
    (hst2 : c.style ≠ .whileReplace) (h : s.nfe = 0 ∨ s.pop = c.popSize) : (genStep c sizes s).pop = c.popSize := by
  unfold genStep
  by_cases h0 : s.nfe = 0
  · simp [h0]
  · have hp : s.pop = c.popSize := by cases h with | inl h => exact absurd h h0 | inr h => exact h
    simp only [h0, if_false, survivorsSize]
    cases hs : c.style <;> simp only [hs] at hst hst2 ⊢ <;> first | omega | contradiction

/-- C14, the GA: exactly the configured size unless it was given fewer offspring than parents -/
theorem genStep_pop_ga (c : GenCfg) (sizes : Nat → Nat) (hs : ∀ i, 1 ≤ sizes i) (s : GenState) (hst : c.style = .whileFittest)
    (hsz : c.popSize ≤ c.offSize + 1) : (genStep c sizes s).pop = c.popSize := by
  unfold genStep
  by_cases h0 : s.nfe = 0
  · simp [h0]
  · simp only [h0, if_false, survivorsSize, hst]
    have := genOffspring_ge c sizes hs s.pos
    simp only [hst] at this
    omega

/-- **every reachable state**: from the fresh algorithm (`nfe = 0`), after any positive number of steps the population has
exactly the configured size (styles other than the GA) and the counter is positive -/
theorem gen_reachable (c : GenCfg) (sizes : Nat → Nat) (hs : ∀ i, 1 ≤ sizes i) (hp : 1 ≤ c.popSize) (ho : 1 ≤ c.offSize)
    (hst : c.style ≠ .whileFittest) (hst2 : c.style ≠ .whileReplace) (s : GenState) (h0 : s.nfe = 0) (j : Nat) :
    ((genStep c sizes)^[j + 1] s).pop = c.popSize ∧ 1 ≤ ((genStep c sizes)^[j + 1] s).nfe := by
  induction j with
  | zero =>
    show (genStep c sizes s).pop = c.popSize ∧ 1 ≤ (genStep c sizes s).nfe
    exact ⟨genStep_pop_eq c sizes s hst hst2 (Or.inl h0), by have := genStep_progress c sizes hs hp ho s; omega⟩
  | succ j ih =>
    rw [Function.iterate_succ_apply']
    refine ⟨genStep_pop_eq c sizes _ hst hst2 (Or.inr ih.1), ?_⟩
    have := genStep_progress c sizes hs hp ho ((genStep c sizes)^[j + 1] s)
    omega

/-- **C08 for the generational algorithms, without a premise about steps**: `run(N)` terminates within `N` steps, stops
after the first step at which the evaluations counted since the call began reach `N`, and no step is started afterwards -/
theorem gen_run_stops_at_first_reach (c : GenCfg) (sizes : Nat → Nat) (hs : ∀ i, 1 ≤ sizes i) (hp : 1 ≤ c.popSize)
    (ho : 1 ≤ c.offSize) (N : Nat) (s : GenState) :
    ∃ k, run (genStep c sizes) GenState.nfe N s = ((genStep c sizes)^[k] s, k) ∧ k ≤ N ∧
      (∀ i, i < k → ((genStep c sizes)^[i] s).nfe - s.nfe < N) ∧ ((genStep c sizes)^[k] s).nfe - s.nfe ≥ N :=
  run_stops_at_first_reach (genStep c sizes) GenState.nfe (genStep_progress c sizes hs hp ho) N s

/-- consecutive `run` calls of a generational algorithm continue from the current state with a fresh budget -/
theorem gen_run_twice (c : GenCfg) (sizes : Nat → Nat) (hs : ∀ i, 1 ≤ sizes i) (hp : 1 ≤ c.popSize) (ho : 1 ≤ c.offSize)
    (N₁ N₂ : Nat) (s : GenState) :
    ∃ k₁ k₂, run (genStep c sizes) GenState.nfe N₁ s = ((genStep c sizes)^[k₁] s, k₁) ∧
      run (genStep c sizes) GenState.nfe N₂ ((genStep c sizes)^[k₁] s) = ((genStep c sizes)^[k₂ + k₁] s, k₂) ∧
      ((genStep c sizes)^[k₂ + k₁] s).nfe - ((genStep c sizes)^[k₁] s).nfe ≥ N₂ :=
  run_twice (genStep c sizes) GenState.nfe (genStep_progress c sizes hs hp ho) N₁ N₂ s

/-- the premises are satisfiable and the model computes what the code does on a small case: NSGA-II with 5 members and a
two-offspring variator evaluates 5, then 6 (three calls), then 6 -/
example : let c : GenCfg := { style := .whileMerge, popSize := 5, offSize := 5 }
    let s1 := genStep c (fun _ => 2) { nfe := 0, pos := 0, pop := 0 }
    let s2 := genStep c (fun _ => 2) s1
    let s3 := genStep c (fun _ => 2) s2
    (s1, s2, s3) = ({ nfe := 5, pos := 0, pop := 5 }, { nfe := 11, pos := 3, pop := 5 }, { nfe := 17, pos := 6, pop := 5 }) := by
  decide

end Platypus
