import PlatypusModel.Lemmas.C06Defs
import Mathlib.Data.Rat.Defs
import Mathlib.Algebra.Order.Ring.Rat
set_option linter.unusedSectionVars false
/-!
# C06 (real-valued and bit-string operators)

For every linearly ordered scalar type, every arithmetic kernel, every draw tape: when the operator
returns, the offspring are valid for the declared types and every offspring that differs from the parent
it was copied from is marked unevaluated; SBX and HUX treat their parents symmetrically.  Parents cannot be
modified: the operators are functions of immutable values.  The NaN clause of `clip` is proved over a
four-point model of IEEE ordering.
-/
namespace Platypus

/-! ### clip -/

/-- `clip(v, lo, hi)` lies inside the bounds -/
theorem pyClip_in_bounds {α : Type} [LinearOrder α] (v lo hi : α) (h : lo ≤ hi) :
    lo ≤ pyClip v lo hi ∧ pyClip v lo hi ≤ hi := by
  unfold pyClip
  dsimp only
  split_ifs with h1 h2 h2
  · exact ⟨h, le_refl _⟩
  · exact ⟨le_refl _, h⟩
  · exact ⟨le_of_lt h2, not_lt.mp h1⟩
  · exact ⟨le_refl _, h⟩

/-- IEEE-like ordering: every comparison with `nan` is false -/
inductive PyF where
  | nan | ninf | fin (q : ℚ) | pinf
  deriving DecidableEq

def PyF.blt : PyF → PyF → Bool
  | .nan, _ => false
  | _, .nan => false
  | .ninf, .ninf => false
  | .ninf, _ => true
  | .fin _, .ninf => false
  | .fin a, .fin b => decide (a < b)
  | .fin _, .pinf => true
  | .pinf, _ => false

instance : LT PyF := ⟨fun a b => PyF.blt a b = true⟩
instance : DecidableLT PyF := fun a b => inferInstanceAs (Decidable (PyF.blt a b = true))
def PyF.le (a b : PyF) : Prop := a = b ∧ a ≠ .nan ∨ a < b

theorem PyF.lt_def (a b : PyF) : (a < b) = (PyF.blt a b = true) := rfl

theorem PyF.ne_nan_of_lt {a b : PyF} (h : a < b) : a ≠ .nan ∧ b ≠ .nan := by
  cases a <;> cases b <;> simp_all [PyF.lt_def, PyF.blt]

/-- the non-NaN values are totally ordered -/
theorem PyF.lt_trichotomy' {a b : PyF} (ha : a ≠ .nan) (hb : b ≠ .nan) : a < b ∨ a = b ∨ b < a := by
  cases a <;> cases b <;> simp_all [PyF.lt_def, PyF.blt]
  exact lt_trichotomy _ _

/-- even for a NaN (or infinite) raw value the clipped value is never NaN and lies inside non-NaN bounds -/
theorem pyClip_pyf (v lo hi : PyF) (hlo : lo ≠ .nan) (hhi : hi ≠ .nan) (h : PyF.le lo hi) :
    pyClip v lo hi ≠ .nan ∧ PyF.le lo (pyClip v lo hi) ∧ PyF.le (pyClip v lo hi) hi := by
  unfold pyClip
  dsimp only
  split_ifs with h1 h2 h2
  · exact ⟨hhi, h, Or.inl ⟨rfl, hhi⟩⟩
  · exact ⟨hlo, Or.inl ⟨rfl, hlo⟩, h⟩
  · have hv := (PyF.ne_nan_of_lt h2).2
    refine ⟨hv, Or.inr h2, ?_⟩
    rcases PyF.lt_trichotomy' hv hhi with h3 | h3 | h3
    · exact Or.inr h3
    · exact Or.inl ⟨h3, hv⟩
    · exact absurd h3 h1
  · exact ⟨hlo, Or.inl ⟨rfl, hlo⟩, h⟩

section
variable {α : Type} [LinearOrder α]

/-! ### PM / UM / UniformMutation / NonUniformMutation -/

/-- a kernel whose result is already inside the bounds (UM: a `uniform(lb, ub)` draw) -/
def KernelInBounds (k : Kernel1 α) : Prop :=
  ∀ x lo hi tape v tape', k x lo hi tape = .ok (v, tape') → lo ≤ v ∧ v ≤ hi

/-- `h : pure a = .ok b` / `.ok a = .ok b` → component equations -/
macro "ok_inj" "at" h:ident : tactic =>
  `(tactic| simp only [pure, Except.pure, Except.ok.injEq, Prod.mk.injEq] at $h:ident)

theorem TypesOk.tail {t : TypeD α} {ts : List (TypeD α)} (h : TypesOk (t :: ts)) : TypesOk ts :=
  fun t' ht' => h t' (List.mem_cons_of_mem _ ht')

theorem TypesOk.head_real {lo hi : α} {ts : List (TypeD α)} (h : TypesOk (.real lo hi :: ts)) : lo ≤ hi :=
  h (.real lo hi) (List.mem_cons_self)

theorem mutateReals_valid (zero one p : α) (clipIt : Bool) (k : Kernel1 α)
    (hk : clipIt = true ∨ KernelInBounds k) (types : List (TypeD α)) (vars : List (Var α)) (ev : Bool)
    (tape : Tape α) :
    ∀ vars' ev' tape', TypesOk types → ValidVars types vars →
      mutateReals zero one p clipIt k types vars ev tape = .ok ((vars', ev'), tape') →
      ValidVars types vars' := by
  fun_induction mutateReals zero one p clipIt k types vars ev generalizing tape with
  | case1 lo hi ts x vs ev ih1 ih2 =>
    intro vars' ev' tape' hty hv h
    simp only [bind, Except.bind] at h
    cases hv with
    | cons hx hvs =>
    split at h
    · cases h
    · rename_i u hu
      split at h
      · split at h
        · cases h
        · rename_i r hr
          split at h
          · cases h
          · rename_i r2 hr2
            simp only [pure, Except.pure, Except.ok.injEq, Prod.mk.injEq] at h
            obtain ⟨⟨rfl, rfl⟩, rfl⟩ := h
            refine List.Forall₂.cons ?_ (ih1 _ _ _ _ hty.tail hvs hr2)
            show lo ≤ _ ∧ _ ≤ hi
            split
            · exact pyClip_in_bounds _ _ _ hty.head_real
            · rename_i hc
              rcases hk with hk | hk
              · exact absurd hk hc
              · exact hk _ _ _ _ _ _ hr
      · split at h
        · cases h
        · rename_i r2 hr2
          simp only [pure, Except.pure, Except.ok.injEq, Prod.mk.injEq] at h
          obtain ⟨⟨rfl, rfl⟩, rfl⟩ := h
          exact List.Forall₂.cons hx (ih2 _ _ _ _ hty.tail hvs hr2)
  | case2 ts ev t v vs hne ih =>
    intro vars' ev' tape' hty hv h
    simp only [bind, Except.bind] at h
    cases hv with
    | cons hx hvs =>
    split at h
    · cases h
    · rename_i r2 hr2
      simp only [pure, Except.pure, Except.ok.injEq, Prod.mk.injEq] at h
      obtain ⟨⟨rfl, rfl⟩, rfl⟩ := h
      exact List.Forall₂.cons hx (ih _ _ _ _ hty.tail hvs hr2)
  | case3 =>
    intro vars' ev' tape' hty hv h
    simp only [pure, Except.pure, Except.ok.injEq, Prod.mk.injEq] at h
    obtain ⟨⟨rfl, rfl⟩, rfl⟩ := h
    exact hv

theorem mutateReals_flag (zero one p : α) (clipIt : Bool) (k : Kernel1 α)
    (types : List (TypeD α)) (vars : List (Var α)) (ev : Bool) (tape : Tape α) :
    ∀ vars' ev' tape',
      mutateReals zero one p clipIt k types vars ev tape = .ok ((vars', ev'), tape') →
      ev' = false ∨ (vars' = vars ∧ ev' = ev) := by
  fun_induction mutateReals zero one p clipIt k types vars ev generalizing tape with
  | case1 lo hi ts x vs ev ih1 ih2 =>
    intro vars' ev' tape' h
    simp only [bind, Except.bind] at h
    split at h
    · cases h
    · split at h
      · split at h
        · cases h
        · split at h
          · cases h
          · ok_inj at h
            exact Or.inl h.1.2.symm
      · split at h
        · cases h
        · rename_i r2 hr2
          ok_inj at h
          obtain ⟨⟨rfl, rfl⟩, rfl⟩ := h
          rcases ih2 _ _ _ _ hr2 with h' | ⟨h1, h2⟩
          · exact Or.inl h'
          · exact Or.inr ⟨by rw [h1], h2⟩
  | case2 ts ev t v vs hne ih =>
    intro vars' ev' tape' h
    simp only [bind, Except.bind] at h
    split at h
    · cases h
    · rename_i r2 hr2
      ok_inj at h
      obtain ⟨⟨rfl, rfl⟩, rfl⟩ := h
      rcases ih _ _ _ _ hr2 with h' | ⟨h1, h2⟩
      · exact Or.inl h'
      · exact Or.inr ⟨by rw [h1], h2⟩
  | case3 =>
    intro vars' ev' tape' h
    ok_inj at h
    obtain ⟨⟨rfl, rfl⟩, rfl⟩ := h
    exact Or.inr ⟨rfl, rfl⟩

theorem mutationOp_valid (zero one p : α) (clipIt : Bool) (k : Kernel1 α) (types : List (TypeD α))
    (parent child : OSol α) (tape tape' : Tape α) (hty : TypesOk types) (hp : ValidSol types parent)
    (hk : clipIt = true ∨ KernelInBounds k)
    (h : mutationOp zero one p clipIt k types parent tape = .ok (child, tape')) :
    ValidSol types child := by
  unfold mutationOp at h
  simp only [bind, Except.bind] at h
  split at h
  · cases h
  · rename_i r hr
    ok_inj at h
    obtain ⟨rfl, rfl⟩ := h
    exact mutateReals_valid zero one p clipIt k hk types parent.vars parent.evaluated tape _ _ _ hty hp hr

/-- an offspring that differs from its parent is marked unevaluated -/
theorem mutationOp_flag (zero one p : α) (clipIt : Bool) (k : Kernel1 α) (types : List (TypeD α))
    (parent child : OSol α) (tape tape' : Tape α)
    (h : mutationOp zero one p clipIt k types parent tape = .ok (child, tape')) :
    child.evaluated = false ∨ (child.vars = parent.vars ∧ child.evaluated = parent.evaluated) := by
  unfold mutationOp at h
  simp only [bind, Except.bind] at h
  split at h
  · cases h
  · rename_i r hr
    ok_inj at h
    obtain ⟨rfl, rfl⟩ := h
    exact mutateReals_flag zero one p clipIt k types parent.vars parent.evaluated tape _ _ _ hr

theorem mutateAll_spec (zero one p : α) (k : Kernel1 α) (types : List (TypeD α)) (vars : List (Var α))
    (ev : Bool) (tape : Tape α) :
    ∀ vars' ev' tape', TypesOk types → ValidVars types vars →
      mutateAll zero one p k types vars ev tape = .ok ((vars', ev'), tape') →
      ValidVars types vars' ∧ (ev' = false ∨ (vars' = vars ∧ ev' = ev)) := by
  fun_induction mutateAll zero one p k types vars ev generalizing tape with
  | case1 lo hi ts x vs ev ih1 ih2 =>
    intro vars' ev' tape' hty hv h
    simp only [bind, Except.bind] at h
    cases hv with
    | cons hx hvs =>
    split at h
    · cases h
    · split at h
      · split at h
        · cases h
        · split at h
          · cases h
          · rename_i r2 hr2
            ok_inj at h
            obtain ⟨⟨rfl, rfl⟩, rfl⟩ := h
            exact ⟨List.Forall₂.cons (pyClip_in_bounds _ _ _ hty.head_real)
              (ih1 _ _ _ _ hty.tail hvs hr2).1, Or.inl rfl⟩
      · split at h
        · cases h
        · rename_i r2 hr2
          ok_inj at h
          obtain ⟨⟨rfl, rfl⟩, rfl⟩ := h
          obtain ⟨hv', hf⟩ := ih2 _ _ _ _ hty.tail hvs hr2
          refine ⟨List.Forall₂.cons hx hv', ?_⟩
          rcases hf with h' | ⟨h1, h2⟩
          · exact Or.inl h'
          · exact Or.inr ⟨by rw [h1], h2⟩
  | case2 =>
    intro vars' ev' tape' hty hv h
    ok_inj at h
    obtain ⟨⟨rfl, rfl⟩, rfl⟩ := h
    exact ⟨hv, Or.inr ⟨rfl, rfl⟩⟩

theorem mutateAll_valid (zero one p : α) (k : Kernel1 α) (types : List (TypeD α)) (vars vars' : List (Var α))
    (ev ev' : Bool) (tape tape' : Tape α) (hty : TypesOk types) (hp : ValidVars types vars)
    (h : mutateAll zero one p k types vars ev tape = .ok ((vars', ev'), tape')) :
    ValidVars types vars' ∧ (ev' = false ∨ (vars' = vars ∧ ev' = ev)) := by
  exact mutateAll_spec zero one p k types vars ev tape vars' ev' tape' hty hp h

/-! ### SBX -/

theorem sbxVar_in_bounds (zero one eps : α) (gap : α → α → α) (k : KernelSBX α) (x1 x2 lo hi : α)
    (tape : Tape α) (c1 c2 : α) (tape' : Tape α) (hb : lo ≤ hi) (hx1 : lo ≤ x1 ∧ x1 ≤ hi)
    (hx2 : lo ≤ x2 ∧ x2 ≤ hi)
    (h : sbxVar zero one eps gap k x1 x2 lo hi tape = .ok ((c1, c2), tape')) :
    (lo ≤ c1 ∧ c1 ≤ hi) ∧ (lo ≤ c2 ∧ c2 ≤ hi) := by
  unfold sbxVar at h
  split at h
  · simp only [bind, Except.bind] at h
    split at h
    · cases h
    · split at h
      · cases h
      · split at h
        · cases h
        · ok_inj at h
          obtain ⟨⟨rfl, rfl⟩, rfl⟩ := h
          exact ⟨pyClip_in_bounds _ _ _ hb, pyClip_in_bounds _ _ _ hb⟩
  · ok_inj at h
    obtain ⟨⟨rfl, rfl⟩, rfl⟩ := h
    exact ⟨hx1, hx2⟩

theorem sbxVars_spec (zero one half eps : α) (gap : α → α → α) (k : KernelSBX α) (types : List (TypeD α))
    (v1 v2 : List (Var α)) (tape : Tape α) :
    ∀ r1 r2 w tape', TypesOk types → ValidVars types v1 → ValidVars types v2 →
      sbxVars zero one half eps gap k types v1 v2 tape = .ok ((r1, r2, w), tape') →
      ValidVars types r1 ∧ ValidVars types r2 ∧ (w = false → r1 = v1 ∧ r2 = v2) := by
  fun_induction sbxVars zero one half eps gap k types v1 v2 generalizing tape with
  | case1 lo hi ts x1 v1 x2 v2 ih =>
    intro r1 r2 w tape' hty hv1 hv2 h
    simp only [bind, Except.bind] at h
    cases hv1 with
    | cons hx1 hvs1 =>
    cases hv2 with
    | cons hx2 hvs2 =>
    split at h
    · cases h
    · split at h
      · split at h
        · cases h
        · rename_i c hc
          split at h
          · cases h
          · rename_i r hr
            ok_inj at h
            obtain ⟨⟨rfl, rfl, rfl⟩, rfl⟩ := h
            obtain ⟨hr1, hr2, -⟩ := ih _ _ _ _ _ hty.tail hvs1 hvs2 hr
            obtain ⟨hc1, hc2⟩ := sbxVar_in_bounds zero one eps gap k x1 x2 lo hi _ c.1.1 c.1.2 c.2
              hty.head_real hx1 hx2 hc
            exact ⟨List.Forall₂.cons hc1 hr1, List.Forall₂.cons hc2 hr2, fun hw => by cases hw⟩
      · split at h
        · cases h
        · rename_i r hr
          ok_inj at h
          obtain ⟨⟨rfl, rfl, rfl⟩, rfl⟩ := h
          obtain ⟨hr1, hr2, hw⟩ := ih _ _ _ _ _ hty.tail hvs1 hvs2 hr
          refine ⟨List.Forall₂.cons hx1 hr1, List.Forall₂.cons hx2 hr2, fun hw' => ?_⟩
          obtain ⟨e1, e2⟩ := hw hw'
          exact ⟨by rw [e1], by rw [e2]⟩
  | case2 t ts a v1 b v2 hne ih =>
    intro r1 r2 w tape' hty hv1 hv2 h
    simp only [bind, Except.bind] at h
    cases hv1 with
    | cons hx1 hvs1 =>
    cases hv2 with
    | cons hx2 hvs2 =>
    split at h
    · cases h
    · rename_i r hr
      ok_inj at h
      obtain ⟨⟨rfl, rfl, rfl⟩, rfl⟩ := h
      obtain ⟨hr1, hr2, hw⟩ := ih _ _ _ _ _ hty.tail hvs1 hvs2 hr
      refine ⟨List.Forall₂.cons hx1 hr1, List.Forall₂.cons hx2 hr2, fun hw' => ?_⟩
      obtain ⟨e1, e2⟩ := hw hw'
      exact ⟨by rw [e1], by rw [e2]⟩
  | case3 =>
    intro r1 r2 w tape' hty hv1 hv2 h
    ok_inj at h
    obtain ⟨⟨rfl, rfl, rfl⟩, rfl⟩ := h
    exact ⟨hv1, hv2, fun _ => ⟨rfl, rfl⟩⟩

/-- the `evaluated` flag computed by the operators from "something was written" -/
theorem flag_of_written {vars' vars : List (Var α)} {w ev : Bool} (hw : w = false → vars' = vars) :
    (if w then false else ev) = false ∨ (vars' = vars ∧ (if w then false else ev) = ev) := by
  cases w
  · exact Or.inr ⟨hw rfl, rfl⟩
  · exact Or.inl rfl

theorem sbxOp_valid (zero one half eps p : α) (gap : α → α → α) (k : KernelSBX α) (types : List (TypeD α))
    (p1 p2 : OSol α) (kids : List (OSol α)) (tape tape' : Tape α) (hty : TypesOk types)
    (h1 : ValidSol types p1) (h2 : ValidSol types p2)
    (h : sbxOp zero one half eps p gap k types p1 p2 tape = .ok (kids, tape')) :
    ∃ c1 c2, kids = [c1, c2] ∧ ValidSol types c1 ∧ ValidSol types c2 ∧
      (c1.evaluated = false ∨ (c1.vars = p1.vars ∧ c1.evaluated = p1.evaluated)) ∧
      (c2.evaluated = false ∨ (c2.vars = p2.vars ∧ c2.evaluated = p2.evaluated)) := by
  unfold sbxOp at h
  simp only [bind, Except.bind] at h
  split at h
  · cases h
  · split at h
    · split at h
      · cases h
      · rename_i r hr
        ok_inj at h
        obtain ⟨rfl, rfl⟩ := h
        obtain ⟨hr1, hr2, hw⟩ := sbxVars_spec zero one half eps gap k types p1.vars p2.vars _ _ _ _ _ hty h1 h2 hr
        exact ⟨_, _, rfl, hr1, hr2, flag_of_written (fun h => (hw h).1), flag_of_written (fun h => (hw h).2)⟩
    · ok_inj at h
      obtain ⟨rfl, rfl⟩ := h
      exact ⟨_, _, rfl, h1, h2, Or.inr ⟨rfl, rfl⟩, Or.inr ⟨rfl, rfl⟩⟩

/-- exchanging the parents: when the variable is recombined the two offspring values are identical
(same order), otherwise the unchanged values come back exchanged — for every kernel and every tape -/
theorem sbxVar_symmetric (zero one eps : α) (gap : α → α → α) (hgap : ∀ a b, gap a b = gap b a)
    (k : KernelSBX α) (x1 x2 lo hi : α) (tape : Tape α) :
    (eps < gap x1 x2 → sbxVar zero one eps gap k x1 x2 lo hi tape = sbxVar zero one eps gap k x2 x1 lo hi tape) ∧
    (¬ eps < gap x1 x2 → sbxVar zero one eps gap k x1 x2 lo hi tape = .ok ((x1, x2), tape) ∧
        sbxVar zero one eps gap k x2 x1 lo hi tape = .ok ((x2, x1), tape)) := by
  have hpair : (if x1 < x2 then (x1, x2) else (x2, x1)) = (if x2 < x1 then (x2, x1) else (x1, x2)) := by
    rcases lt_trichotomy x1 x2 with hlt | heq | hgt
    · rw [if_pos hlt, if_neg (not_lt.mpr (le_of_lt hlt))]
    · subst heq
      simp
    · rw [if_neg (not_lt.mpr (le_of_lt hgt)), if_pos hgt]
  constructor
  · intro hg
    unfold sbxVar
    rw [hgap x2 x1, if_pos hg, if_pos hg, hpair]
  · intro hg
    unfold sbxVar
    rw [hgap x2 x1, if_neg hg, if_neg hg]
    exact ⟨rfl, rfl⟩

/-! ### differential evolution and the multi-parent operators -/

theorem deVars_spec (zero one cr : α) (k : α → α → α → α) (jrand j : Nat) (types : List (TypeD α))
    (v0 v1 v2 v3 : List (Var α)) (tape : Tape α) :
    ∀ r w tape', TypesOk types → ValidVars types v0 →
      deVars zero one cr k jrand j types v0 v1 v2 v3 tape = .ok ((r, w), tape') →
      ValidVars types r ∧ (w = false → r = v0) := by
  fun_induction deVars zero one cr k jrand j types v0 v1 v2 v3 generalizing tape with
  | case1 j lo hi ts x0 v0 x1 v1 x2 v2 x3 v3 ih =>
    intro r w tape' hty hv h
    simp only [bind, Except.bind] at h
    cases hv with
    | cons hx hvs =>
    split at h
    · cases h
    · split at h
      · cases h
      · rename_i r' hr
        obtain ⟨hr1, hw⟩ := ih _ _ _ _ hty.tail hvs hr
        split at h
        · ok_inj at h
          obtain ⟨⟨rfl, rfl⟩, rfl⟩ := h
          exact ⟨List.Forall₂.cons (pyClip_in_bounds _ _ _ hty.head_real) hr1, fun hw' => by cases hw'⟩
        · ok_inj at h
          obtain ⟨⟨rfl, rfl⟩, rfl⟩ := h
          exact ⟨List.Forall₂.cons hx hr1, fun hw' => by rw [hw hw']⟩
  | case2 =>
    intro r w tape' hty hv h
    ok_inj at h
    obtain ⟨⟨rfl, rfl⟩, rfl⟩ := h
    exact ⟨hv, fun _ => rfl⟩

theorem deOp_valid (zero one cr : α) (k : α → α → α → α) (types : List (TypeD α)) (p0 p1 p2 p3 : OSol α)
    (kids : List (OSol α)) (tape tape' : Tape α) (hty : TypesOk types) (h0 : ValidSol types p0)
    (h : deOp zero one cr k types p0 p1 p2 p3 tape = .ok (kids, tape')) :
    ∃ c, kids = [c] ∧ ValidSol types c ∧
      (c.evaluated = false ∨ (c.vars = p0.vars ∧ c.evaluated = p0.evaluated)) := by
  unfold deOp at h
  simp only [bind, Except.bind] at h
  split at h
  · cases h
  · split at h
    · cases h
    · rename_i r hr
      ok_inj at h
      obtain ⟨rfl, rfl⟩ := h
      obtain ⟨hr1, hw⟩ := deVars_spec zero one cr k _ 0 types p0.vars p1.vars p2.vars p3.vars _ _ _ _ hty h0 hr
      exact ⟨_, rfl, hr1, flag_of_written hw⟩

theorem clipVector_valid (types : List (TypeD α)) (raw : List α) :
    TypesOk types → (∀ t ∈ types, ∃ lo hi, t = .real lo hi) → raw.length = types.length →
    ValidVars types (clipVector types raw) := by
  fun_induction clipVector types raw with
  | case1 lo hi ts r rs ih =>
    intro hty hreal hlen
    exact List.Forall₂.cons (pyClip_in_bounds _ _ _ hty.head_real)
      (ih hty.tail (fun t ht => hreal t (List.mem_cons_of_mem _ ht)) (by simpa using hlen))
  | case2 types raw hne =>
    intro hty hreal hlen
    cases types with
    | nil => exact List.Forall₂.nil
    | cons t ts =>
      cases raw with
      | nil => simp at hlen
      | cons r rs =>
        obtain ⟨lo, hi, rfl⟩ := hreal t List.mem_cons_self
        exact absurd rfl (fun e => hne lo hi ts r rs e rfl)

/-- PCX / UNDX / SPX: every variable of the child is a clipped raw value -/
theorem multiParentChild_valid (k : List (List α) → M α (List α)) (types : List (TypeD α))
    (parents : List (List α)) (child : OSol α) (tape tape' : Tape α) (hty : TypesOk types)
    (hreal : ∀ t ∈ types, ∃ lo hi, t = .real lo hi)
    (h : multiParentChild k types parents tape = .ok (child, tape'))
    (hlen : ∀ raw t', k parents tape = .ok (raw, t') → raw.length = types.length) :
    ValidSol types child ∧ child.evaluated = false := by
  unfold multiParentChild at h
  simp only [bind, Except.bind] at h
  split at h
  · cases h
  · rename_i r hr
    ok_inj at h
    obtain ⟨rfl, rfl⟩ := h
    exact ⟨clipVector_valid types r.1 hty hreal (hlen r.1 r.2 hr), rfl⟩

/-! ### bit strings -/

theorem flipBits_spec (zero one p : α) (b : List Bool) (w : Bool) (tape : Tape α) :
    ∀ b' w' tape', flipBits zero one p b w tape = .ok ((b', w'), tape') →
      b'.length = b.length ∧ (w' = true ∨ (b' = b ∧ w' = w)) := by
  fun_induction flipBits zero one p b w generalizing tape with
  | case1 w =>
    intro b' w' tape' h
    ok_inj at h
    obtain ⟨⟨rfl, rfl⟩, rfl⟩ := h
    exact ⟨rfl, Or.inr ⟨rfl, rfl⟩⟩
  | case2 b bs w ih1 ih2 =>
    intro b' w' tape' h
    simp only [bind, Except.bind] at h
    split at h
    · cases h
    · split at h
      · split at h
        · cases h
        · rename_i r hr
          ok_inj at h
          obtain ⟨⟨rfl, rfl⟩, rfl⟩ := h
          exact ⟨by simp [(ih1 _ _ _ _ hr).1], Or.inl rfl⟩
      · split at h
        · cases h
        · rename_i r hr
          ok_inj at h
          obtain ⟨⟨rfl, rfl⟩, rfl⟩ := h
          obtain ⟨hl, hw⟩ := ih2 _ _ _ _ hr
          refine ⟨by simp [hl], ?_⟩
          rcases hw with hw | ⟨e1, e2⟩
          · exact Or.inl hw
          · exact Or.inr ⟨by rw [e1], e2⟩

theorem bitFlipVars_spec (zero one p : α) (types : List (TypeD α)) (vars : List (Var α)) (w : Bool)
    (tape : Tape α) :
    ∀ vars' w' tape', ValidVars types vars →
      bitFlipVars zero one p types vars w tape = .ok ((vars', w'), tape') →
      ValidVars types vars' ∧ (w' = true ∨ (vars' = vars ∧ w' = w)) := by
  fun_induction bitFlipVars zero one p types vars w generalizing tape with
  | case1 n ts b vs w ih =>
    intro vars' w' tape' hv h
    simp only [bind, Except.bind] at h
    cases hv with
    | cons hx hvs =>
    split at h
    · cases h
    · rename_i f hf
      split at h
      · cases h
      · rename_i r hr
        ok_inj at h
        obtain ⟨⟨rfl, rfl⟩, rfl⟩ := h
        obtain ⟨hl, hw1⟩ := flipBits_spec zero one p b w tape _ _ _ hf
        obtain ⟨hr1, hw2⟩ := ih _ _ _ _ _ hvs hr
        refine ⟨List.Forall₂.cons (show f.1.1.length = n from hl.trans hx) hr1, ?_⟩
        rcases hw2 with hw2 | ⟨e1, e2⟩
        · exact Or.inl hw2
        · rcases hw1 with hw1 | ⟨e3, e4⟩
          · exact Or.inl (e2.trans hw1)
          · exact Or.inr ⟨by rw [e1, e3], e2.trans e4⟩
  | case2 t ts v vs w hne ih =>
    intro vars' w' tape' hv h
    simp only [bind, Except.bind] at h
    cases hv with
    | cons hx hvs =>
    split at h
    · cases h
    · rename_i r hr
      ok_inj at h
      obtain ⟨⟨rfl, rfl⟩, rfl⟩ := h
      obtain ⟨hr1, hw⟩ := ih _ _ _ _ hvs hr
      refine ⟨List.Forall₂.cons hx hr1, ?_⟩
      rcases hw with hw | ⟨e1, e2⟩
      · exact Or.inl hw
      · exact Or.inr ⟨by rw [e1], e2⟩
  | case3 =>
    intro vars' w' tape' hv h
    ok_inj at h
    obtain ⟨⟨rfl, rfl⟩, rfl⟩ := h
    exact ⟨hv, Or.inr ⟨rfl, rfl⟩⟩

/-- as `flag_of_written`, for the workers that thread the "written" flag (started at `false`) -/
theorem flag_of_written' {vars' vars : List (Var α)} {w ev : Bool} (hw : w = true ∨ (vars' = vars ∧ w = false)) :
    (if w then false else ev) = false ∨ (vars' = vars ∧ (if w then false else ev) = ev) := by
  rcases hw with rfl | ⟨e, rfl⟩
  · exact Or.inl rfl
  · exact Or.inr ⟨e, rfl⟩

theorem bitFlipOp_valid (zero one p : α) (types : List (TypeD α)) (parent child : OSol α)
    (tape tape' : Tape α) (hp : ValidSol types parent)
    (h : bitFlipOp zero one p types parent tape = .ok (child, tape')) :
    ValidSol types child ∧ (child.evaluated = false ∨ (child.vars = parent.vars ∧ child.evaluated = parent.evaluated)) := by
  unfold bitFlipOp at h
  simp only [bind, Except.bind] at h
  split at h
  · cases h
  · rename_i r hr
    ok_inj at h
    obtain ⟨rfl, rfl⟩ := h
    obtain ⟨hr1, hw⟩ := bitFlipVars_spec zero one p types parent.vars false tape _ _ _ hp hr
    exact ⟨hr1, flag_of_written' hw⟩

theorem huxBits_spec (a b : List Bool) (w : Bool) (tape : Tape α) :
    ∀ a' b' w' tape', huxBits a b w tape = .ok ((a', b', w'), tape') →
      a'.length = a.length ∧ b'.length = b.length ∧ (w' = true ∨ (a' = a ∧ b' = b ∧ w' = w)) := by
  fun_induction huxBits (α := α) a b w generalizing tape with
  | case1 a as b bs w ih1 ih2 =>
    intro a' b' w' tape' h
    split at h
    · simp only [bind, Except.bind] at h
      split at h
      · cases h
      · split at h
        · split at h
          · cases h
          · rename_i r hr
            ok_inj at h
            obtain ⟨⟨rfl, rfl, rfl⟩, rfl⟩ := h
            obtain ⟨l1, l2, -⟩ := ih1 _ _ _ _ _ hr
            exact ⟨by simp [l1], by simp [l2], Or.inl rfl⟩
        · split at h
          · cases h
          · rename_i r hr
            ok_inj at h
            obtain ⟨⟨rfl, rfl, rfl⟩, rfl⟩ := h
            obtain ⟨l1, l2, hw⟩ := ih2 _ _ _ _ _ hr
            refine ⟨by simp [l1], by simp [l2], ?_⟩
            rcases hw with hw | ⟨e1, e2, e3⟩
            · exact Or.inl hw
            · exact Or.inr ⟨by rw [e1], by rw [e2], e3⟩
    · simp only [bind, Except.bind] at h
      split at h
      · cases h
      · rename_i r hr
        ok_inj at h
        obtain ⟨⟨rfl, rfl, rfl⟩, rfl⟩ := h
        obtain ⟨l1, l2, hw⟩ := ih2 _ _ _ _ _ hr
        refine ⟨by simp [l1], by simp [l2], ?_⟩
        rcases hw with hw | ⟨e1, e2, e3⟩
        · exact Or.inl hw
        · exact Or.inr ⟨by rw [e1], by rw [e2], e3⟩
  | case2 =>
    intro a' b' w' tape' h
    ok_inj at h
    obtain ⟨⟨rfl, rfl, rfl⟩, rfl⟩ := h
    exact ⟨rfl, rfl, Or.inr ⟨rfl, rfl, rfl⟩⟩

theorem huxVars_spec (types : List (TypeD α)) (v1 v2 : List (Var α)) (w : Bool) (tape : Tape α) :
    ∀ r1 r2 w' tape', ValidVars types v1 → ValidVars types v2 →
      huxVars types v1 v2 w tape = .ok ((r1, r2, w'), tape') →
      ValidVars types r1 ∧ ValidVars types r2 ∧ (w' = true ∨ (r1 = v1 ∧ r2 = v2 ∧ w' = w)) := by
  fun_induction huxVars types v1 v2 w generalizing tape with
  | case1 n ts a v1 b v2 w ih =>
    intro r1 r2 w' tape' hv1 hv2 h
    simp only [bind, Except.bind] at h
    cases hv1 with
    | cons hx1 hvs1 =>
    cases hv2 with
    | cons hx2 hvs2 =>
    split at h
    · cases h
    · rename_i f hf
      split at h
      · cases h
      · rename_i r hr
        ok_inj at h
        obtain ⟨⟨rfl, rfl, rfl⟩, rfl⟩ := h
        obtain ⟨l1, l2, hw1⟩ := huxBits_spec a b w tape _ _ _ _ hf
        obtain ⟨hr1, hr2, hw2⟩ := ih _ _ _ _ _ _ hvs1 hvs2 hr
        refine ⟨List.Forall₂.cons (show f.1.1.length = n from l1.trans hx1) hr1,
          List.Forall₂.cons (show f.1.2.1.length = n from l2.trans hx2) hr2, ?_⟩
        rcases hw2 with hw2 | ⟨e1, e2, e3⟩
        · exact Or.inl hw2
        · rcases hw1 with hw1 | ⟨e4, e5, e6⟩
          · exact Or.inl (e3.trans hw1)
          · exact Or.inr ⟨by rw [e1, e4], by rw [e2, e5], e3.trans e6⟩
  | case2 t ts a v1 b v2 w hne ih =>
    intro r1 r2 w' tape' hv1 hv2 h
    simp only [bind, Except.bind] at h
    cases hv1 with
    | cons hx1 hvs1 =>
    cases hv2 with
    | cons hx2 hvs2 =>
    split at h
    · cases h
    · rename_i r hr
      ok_inj at h
      obtain ⟨⟨rfl, rfl, rfl⟩, rfl⟩ := h
      obtain ⟨hr1, hr2, hw⟩ := ih _ _ _ _ _ hvs1 hvs2 hr
      refine ⟨List.Forall₂.cons hx1 hr1, List.Forall₂.cons hx2 hr2, ?_⟩
      rcases hw with hw | ⟨e1, e2, e3⟩
      · exact Or.inl hw
      · exact Or.inr ⟨by rw [e1], by rw [e2], e3⟩
  | case3 =>
    intro r1 r2 w' tape' hv1 hv2 h
    ok_inj at h
    obtain ⟨⟨rfl, rfl, rfl⟩, rfl⟩ := h
    exact ⟨hv1, hv2, Or.inr ⟨rfl, rfl, rfl⟩⟩

theorem huxOp_valid (zero one p : α) (types : List (TypeD α)) (p1 p2 : OSol α) (kids : List (OSol α))
    (tape tape' : Tape α) (h1 : ValidSol types p1) (h2 : ValidSol types p2)
    (h : huxOp zero one p types p1 p2 tape = .ok (kids, tape')) :
    ∃ c1 c2, kids = [c1, c2] ∧ ValidSol types c1 ∧ ValidSol types c2 ∧
      (c1.evaluated = false ∨ (c1.vars = p1.vars ∧ c1.evaluated = p1.evaluated)) ∧
      (c2.evaluated = false ∨ (c2.vars = p2.vars ∧ c2.evaluated = p2.evaluated)) := by
  unfold huxOp at h
  simp only [bind, Except.bind] at h
  split at h
  · cases h
  · split at h
    · split at h
      · cases h
      · rename_i r hr
        ok_inj at h
        obtain ⟨rfl, rfl⟩ := h
        obtain ⟨hr1, hr2, hw⟩ := huxVars_spec types p1.vars p2.vars false _ _ _ _ _ h1 h2 hr
        refine ⟨_, _, rfl, hr1, hr2, flag_of_written' ?_, flag_of_written' ?_⟩
        · rcases hw with hw | ⟨e1, e2, e3⟩
          · exact Or.inl hw
          · exact Or.inr ⟨e1, e3⟩
        · rcases hw with hw | ⟨e1, e2, e3⟩
          · exact Or.inl hw
          · exact Or.inr ⟨e2, e3⟩
    · ok_inj at h
      obtain ⟨rfl, rfl⟩ := h
      exact ⟨_, _, rfl, h1, h2, Or.inr ⟨rfl, rfl⟩, Or.inr ⟨rfl, rfl⟩⟩

/-- HUX is symmetric: exchanging the parents under the same tape exchanges the offspring -/
theorem huxBits_symmetric (a b : List Bool) (w : Bool) (tape : Tape α) :
    (huxBits a b w tape).map (fun r => ((r.1.2.1, r.1.1, r.1.2.2), r.2)) = huxBits b a w tape := by
  induction a generalizing b w tape with
  | nil => cases b <;> simp [huxBits, Except.map, pure, Except.pure]
  | cons x xs ih =>
    cases b with
    | nil => simp [huxBits, Except.map, pure, Except.pure]
    | cons y ys =>
      have hxy : (y != x) = (x != y) := by cases x <;> cases y <;> rfl
      simp only [huxBits, hxy]
      split
      · simp only [bind, Except.bind]
        cases popBit tape with
        | error e => rfl
        | ok v =>
          dsimp only
          split
          · rw [← ih ys true v.2]
            cases huxBits xs ys true v.2 <;> rfl
          · rw [← ih ys w v.2]
            cases huxBits xs ys w v.2 <;> rfl
      · simp only [bind, Except.bind]
        rw [← ih ys w tape]
        cases huxBits xs ys w tape <;> rfl
end

end Platypus
