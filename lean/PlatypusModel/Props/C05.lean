import PlatypusModel.Model.Epsilon
import PlatypusModel.Props.C03
import Mathlib.Algebra.Order.Floor.Ring
import Mathlib.Algebra.Order.Field.Basic
import Mathlib.Tactic.Linarith
import Mathlib.Data.Rat.Floor
set_option linter.unusedSectionVars false
/-!
# C05 — epsilon-box dominance and the epsilon-box archive

Over any linearly ordered field with a floor (ℚ, ℝ), every number of objectives, every direction
assignment, per-objective or shared epsilons (the last one reused), with and without violations.
`fl x = ⌊x⌋`, `sq x = x * x` are the exact-arithmetic instances of the model's parameters; the
`Float` instance is tied by bit-exact correspondence.
-/
namespace Platypus

variable {α : Type} [Field α] [LinearOrder α] [IsStrictOrderedRing α] [FloorRing α]

/-- exact floor as an element of the field -/
def flE (x : α) : α := ((⌊x⌋ : Int) : α)
def sqE (x : α) : α := x * x

/-- box index vector of an objective list (direction-adjusted, last epsilon reused) -/
def boxVec : List Bool → List α → List α → List Int
  | d :: ds, e :: es, x :: xs => ⌊adj d x / e⌋ :: boxVec ds (epsNext (e :: es)) xs
  | _, _, _ => []

/-- squared distance to the ideal corner of the own box -/
def cornerDistE : List Bool → List α → List α → α
  | d :: ds, e :: es, x :: xs =>
    (adj d x - (⌊adj d x / e⌋ : Int) * e) * (adj d x - (⌊adj d x / e⌋ : Int) * e)
      + cornerDistE ds (epsNext (e :: es)) xs
  | _, _, _ => 0

/-- well-formed input of the ε-comparator -/
def WFe (dirs : List Bool) (eps : List α) (a : Sol α) : Prop :=
  a.objs.length = dirs.length ∧ (0 : α) ≤ a.cv ∧ eps ≠ [] ∧ ∀ e ∈ eps, (0 : α) < e

/-- the box of `a` is no worse than the box of `b` in every objective -/
def BoxLe (dirs : List Bool) (eps : List α) (a b : Sol α) : Prop :=
  List.Forall₂ (· ≤ ·) (boxVec dirs eps a.objs) (boxVec dirs eps b.objs)

/-- `m` covers `x`: less violating, or equally violating and weakly box-dominating -/
def Covers (c : Bool) (dirs : List Bool) (eps : List α) (m x : Sol α) : Prop :=
  (c = true ∧ m.cv < x.cv) ∨ ((c = false ∨ m.cv = x.cv) ∧ BoxLe dirs eps m x)

abbrev epsCmpE (c : Bool) (dirs : List Bool) (eps : List α) : Sol α → Sol α → Int :=
  epsCompare flE sqE c dirs eps
abbrev sameBoxE (c : Bool) (dirs : List Bool) (eps : List α) : Sol α → Sol α → Bool :=
  sameBox flE c dirs eps

/-! ### the comparator -/

theorem epsNext_ne_nil (e : α) (es : List α) : epsNext (e :: es) ≠ [] := by
  cases es <;> simp [epsNext]

theorem epsNext_pos (e : α) (es : List α) (h : ∀ x ∈ e :: es, (0 : α) < x) :
    ∀ x ∈ epsNext (e :: es), (0 : α) < x := by
  cases es with
  | nil => simpa [epsNext] using h
  | cons e' es => intro x hx; exact h x (List.mem_cons_of_mem _ (by simpa [epsNext] using hx))

theorem flE_lt_iff (x y : α) : flE x < flE y ↔ ⌊x⌋ < ⌊y⌋ := by
  unfold flE; exact Int.cast_lt

theorem cornerDist_eq (dirs : List Bool) (eps xs : List α) (acc : α) :
    cornerDist flE sqE dirs eps xs acc = acc + cornerDistE dirs eps xs := by
  induction dirs generalizing eps xs acc with
  | nil => simp [cornerDist, cornerDistE]
  | cons d ds ih =>
    cases eps with
    | nil => simp [cornerDist, cornerDistE]
    | cons e es =>
      cases xs with
      | nil => simp [cornerDist, cornerDistE]
      | cons x xs =>
        simp only [cornerDist, cornerDistE, ih, boxIdx, flE, sqE, add_assoc]

/-! #### the flag loop, in terms of the box-index vectors -/

theorem boxVec_length (ds : List Bool) (es xs ys : List α) (h : xs.length = ys.length) :
    (boxVec ds es xs).length = (boxVec ds es ys).length := by
  induction ds generalizing es xs ys with
  | nil => simp [boxVec]
  | cons d ds ih =>
    cases es with
    | nil => simp [boxVec]
    | cons e es =>
      match xs, ys, h with
      | [], [], _ => simp [boxVec]
      | x :: xs, y :: ys, h =>
        simp only [boxVec, List.length_cons, Nat.add_right_cancel_iff]
        exact ih _ xs ys (by simpa using h)

theorem boxScan_same_iff (ds : List Bool) (es xs ys : List α) (d1 d2 : Bool)
    (h : xs.length = ys.length) (hd : d1 = false ∨ d2 = false) :
    boxScan flE ds es xs ys d1 d2 = .same ↔
      (d1 = false ∧ d2 = false ∧ boxVec ds es xs = boxVec ds es ys) := by
  induction ds generalizing es xs ys d1 d2 with
  | nil => cases d1 <;> cases d2 <;> simp [boxScan, boxVec] at hd ⊢
  | cons d ds ih =>
    cases es with
    | nil => cases d1 <;> cases d2 <;> simp [boxScan, boxVec] at hd ⊢
    | cons e es =>
      match xs, ys, h with
      | [], [], _ => cases d1 <;> cases d2 <;> simp [boxScan, boxVec] at hd ⊢
      | x :: xs, y :: ys, h =>
        have h' : xs.length = ys.length := by simpa using h
        simp only [boxScan, boxVec, boxIdx, flE_lt_iff, List.cons.injEq]
        rcases lt_trichotomy ⌊adj d x / e⌋ ⌊adj d y / e⌋ with hlt | heq | hgt
        · have hne : ⌊adj d x / e⌋ ≠ ⌊adj d y / e⌋ := ne_of_lt hlt
          cases d2 <;> simp [hlt, hne, ih _ xs ys true false h' (by simp)]
        · simp [heq, ih _ xs ys d1 d2 h' hd]
        · have hne : ⌊adj d x / e⌋ ≠ ⌊adj d y / e⌋ := (ne_of_lt hgt).symm
          have hn : ¬ ⌊adj d x / e⌋ < ⌊adj d y / e⌋ := not_lt.mpr hgt.le
          cases d1 <;> simp [hgt, hn, hne, ih _ xs ys false true h' (by simp)]

theorem boxScan_first_iff (ds : List Bool) (es xs ys : List α) (d1 d2 : Bool)
    (h : xs.length = ys.length) (hd : d1 = false ∨ d2 = false) :
    boxScan flE ds es xs ys d1 d2 = .first ↔
      (d2 = false ∧ List.Forall₂ (· ≤ ·) (boxVec ds es xs) (boxVec ds es ys) ∧
        (d1 = true ∨ boxVec ds es xs ≠ boxVec ds es ys)) := by
  induction ds generalizing es xs ys d1 d2 with
  | nil => cases d1 <;> cases d2 <;> simp [boxScan, boxVec] at hd ⊢
  | cons d ds ih =>
    cases es with
    | nil => cases d1 <;> cases d2 <;> simp [boxScan, boxVec] at hd ⊢
    | cons e es =>
      match xs, ys, h with
      | [], [], _ => cases d1 <;> cases d2 <;> simp [boxScan, boxVec] at hd ⊢
      | x :: xs, y :: ys, h =>
        have h' : xs.length = ys.length := by simpa using h
        simp only [boxScan, boxVec, boxIdx, flE_lt_iff, List.forall₂_cons, ne_eq, List.cons.injEq]
        rcases lt_trichotomy ⌊adj d x / e⌋ ⌊adj d y / e⌋ with hlt | heq | hgt
        · have hne : ⌊adj d x / e⌋ ≠ ⌊adj d y / e⌋ := ne_of_lt hlt
          cases d2 <;> simp [hlt, hlt.le, hne, ih _ xs ys true false h' (by simp)]
        · simp [heq, ih _ xs ys d1 d2 h' hd]
        · have hn : ¬ ⌊adj d x / e⌋ < ⌊adj d y / e⌋ := not_lt.mpr hgt.le
          have hn' : ¬ ⌊adj d x / e⌋ ≤ ⌊adj d y / e⌋ := not_le.mpr hgt
          cases d1 <;> simp [hgt, hn, hn', ih _ xs ys false true h' (by simp)]

theorem boxScan_second_iff (ds : List Bool) (es xs ys : List α) (d1 d2 : Bool)
    (h : xs.length = ys.length) (hd : d1 = false ∨ d2 = false) :
    boxScan flE ds es xs ys d1 d2 = .second ↔
      (d1 = false ∧ List.Forall₂ (· ≤ ·) (boxVec ds es ys) (boxVec ds es xs) ∧
        (d2 = true ∨ boxVec ds es xs ≠ boxVec ds es ys)) := by
  induction ds generalizing es xs ys d1 d2 with
  | nil => cases d1 <;> cases d2 <;> simp [boxScan, boxVec] at hd ⊢
  | cons d ds ih =>
    cases es with
    | nil => cases d1 <;> cases d2 <;> simp [boxScan, boxVec] at hd ⊢
    | cons e es =>
      match xs, ys, h with
      | [], [], _ => cases d1 <;> cases d2 <;> simp [boxScan, boxVec] at hd ⊢
      | x :: xs, y :: ys, h =>
        have h' : xs.length = ys.length := by simpa using h
        simp only [boxScan, boxVec, boxIdx, flE_lt_iff, List.forall₂_cons, ne_eq, List.cons.injEq]
        rcases lt_trichotomy ⌊adj d x / e⌋ ⌊adj d y / e⌋ with hlt | heq | hgt
        · have hn : ¬ ⌊adj d y / e⌋ < ⌊adj d x / e⌋ := not_lt.mpr hlt.le
          have hn' : ¬ ⌊adj d y / e⌋ ≤ ⌊adj d x / e⌋ := not_le.mpr hlt
          cases d2 <;> simp [hlt, hn', ih _ xs ys true false h' (by simp)]
        · simp [heq, ih _ xs ys d1 d2 h' hd]
        · have hn : ¬ ⌊adj d x / e⌋ < ⌊adj d y / e⌋ := not_lt.mpr hgt.le
          have hne : ⌊adj d x / e⌋ ≠ ⌊adj d y / e⌋ := (ne_of_lt hgt).symm
          cases d1 <;> simp [hgt, hgt.le, hn, hne, ih _ xs ys false true h' (by simp)]

theorem forall₂_le_refl (v : List Int) : List.Forall₂ (· ≤ ·) v v := by
  induction v with
  | nil => exact List.Forall₂.nil
  | cons x v ih => exact List.Forall₂.cons (le_refl x) ih

theorem forall₂_le_antisymm (v w : List Int) :
    List.Forall₂ (· ≤ ·) v w → List.Forall₂ (· ≤ ·) w v → v = w := by
  intro h
  induction h with
  | nil => intro _; rfl
  | cons hab _ ih =>
    intro h'
    rw [List.forall₂_cons] at h'
    rw [le_antisymm hab h'.1, ih h'.2]

theorem forall₂_le_trans (u v w : List Int) :
    List.Forall₂ (· ≤ ·) u v → List.Forall₂ (· ≤ ·) v w → List.Forall₂ (· ≤ ·) u w := by
  intro h
  induction h generalizing w with
  | nil => intro h'; cases h'; exact List.Forall₂.nil
  | cons hab _ ih =>
    intro h'
    cases h' with
    | cons hbc h'' => exact List.Forall₂.cons (le_trans hab hbc) (ih _ h'')

/-- the four outcomes of the flag loop started with both flags down -/
theorem boxScan_cases (ds : List Bool) (es xs ys : List α) (h : xs.length = ys.length) :
    (boxScan flE ds es xs ys false false = .same ∧ boxVec ds es xs = boxVec ds es ys) ∨
    (boxScan flE ds es xs ys false false = .first ∧
      List.Forall₂ (· ≤ ·) (boxVec ds es xs) (boxVec ds es ys) ∧
      boxVec ds es xs ≠ boxVec ds es ys) ∨
    (boxScan flE ds es xs ys false false = .second ∧
      List.Forall₂ (· ≤ ·) (boxVec ds es ys) (boxVec ds es xs) ∧
      boxVec ds es xs ≠ boxVec ds es ys) ∨
    (boxScan flE ds es xs ys false false = .incomparable ∧
      ¬ List.Forall₂ (· ≤ ·) (boxVec ds es xs) (boxVec ds es ys) ∧
      ¬ List.Forall₂ (· ≤ ·) (boxVec ds es ys) (boxVec ds es xs)) := by
  have h1 := boxScan_same_iff ds es xs ys false false h (Or.inl rfl)
  have h2 := boxScan_first_iff ds es xs ys false false h (Or.inl rfl)
  have h3 := boxScan_second_iff ds es xs ys false false h (Or.inl rfl)
  cases hr : boxScan flE ds es xs ys false false with
  | same => left; exact ⟨rfl, ((h1.mp hr).2).2⟩
  | first =>
    right; left
    have := h2.mp hr
    exact ⟨rfl, this.2.1, by simpa using this.2.2⟩
  | second =>
    right; right; left
    have := h3.mp hr
    exact ⟨rfl, this.2.1, by simpa using this.2.2⟩
  | incomparable =>
    right; right; right
    rw [hr] at h1 h2 h3
    refine ⟨rfl, ?_, ?_⟩
    · intro hle
      by_cases heq : boxVec ds es xs = boxVec ds es ys
      · exact absurd (h1.mpr ⟨rfl, rfl, heq⟩) (by simp)
      · exact absurd (h2.mpr ⟨rfl, hle, Or.inr heq⟩) (by simp)
    · intro hle
      by_cases heq : boxVec ds es xs = boxVec ds es ys
      · exact absurd (h1.mpr ⟨rfl, rfl, heq⟩) (by simp)
      · exact absurd (h3.mpr ⟨rfl, hle, Or.inr heq⟩) (by simp)

/-- the objective part of the ε-comparison (what is reached when the violation block falls through) -/
def epsObjE (dirs : List Bool) (eps : List α) (a b : Sol α) : Int :=
  match boxScan flE dirs eps a.objs b.objs false false with
  | .incomparable => 0
  | .first => -1
  | .second => 1
  | .same =>
    if cornerDist flE sqE dirs eps a.objs 0 < cornerDist flE sqE dirs eps b.objs 0 then -1 else 1

theorem epsCmpE_eq (c : Bool) (dirs : List Bool) (eps : List α) (a b : Sol α)
    (ha : WFe dirs eps a) (hb : WFe dirs eps b) :
    epsCmpE c dirs eps a b =
      if c = true ∧ a.cv < b.cv then -1 else if c = true ∧ b.cv < a.cv then 1
      else epsObjE dirs eps a b := by
  show epsCompare flE sqE c dirs eps a b = _
  unfold epsCompare
  rw [cvBlock_spec c a.cv b.cv ha.2.1 hb.2.1]
  by_cases h1 : c = true ∧ a.cv < b.cv
  · rw [if_pos h1, if_pos h1]
  · rw [if_neg h1, if_neg h1]
    by_cases h2 : c = true ∧ b.cv < a.cv
    · rw [if_pos h2, if_pos h2]
    · rw [if_neg h2, if_neg h2]; rfl

theorem cv_fall_iff (c : Bool) (x y : α) :
    (¬ (c = true ∧ x < y) ∧ ¬ (c = true ∧ y < x)) ↔ (c = false ∨ x = y) := by
  cases c
  · simp
  · simp only [true_and, not_lt, Bool.true_eq_false, false_or]
    exact ⟨fun h => le_antisymm h.2 h.1, fun h => ⟨h.ge, h.le⟩⟩

theorem ite3_neg_one_iff (P Q : Prop) [Decidable P] [Decidable Q] (X : Int) :
    (if P then -1 else if Q then 1 else X) = -1 ↔ (P ∨ ((¬ P ∧ ¬ Q) ∧ X = -1)) := by
  by_cases hP : P <;> by_cases hQ : Q <;> simp [hP, hQ]

theorem ite3_one_iff (P Q : Prop) [Decidable P] [Decidable Q] (X : Int) (hPQ : ¬ (P ∧ Q)) :
    (if P then -1 else if Q then 1 else X) = 1 ↔ (Q ∨ ((¬ P ∧ ¬ Q) ∧ X = 1)) := by
  by_cases hP : P <;> by_cases hQ : Q <;> simp [hP, hQ] at hPQ ⊢

theorem ite3_zero_iff (P Q : Prop) [Decidable P] [Decidable Q] (X : Int) :
    (if P then -1 else if Q then 1 else X) = 0 ↔ ((¬ P ∧ ¬ Q) ∧ X = 0) := by
  by_cases hP : P <;> by_cases hQ : Q <;> simp [hP, hQ]

theorem epsObjE_neg_one_iff (dirs : List Bool) (eps : List α) (a b : Sol α)
    (h : a.objs.length = b.objs.length) :
    epsObjE dirs eps a b = -1 ↔
      ((BoxLe dirs eps a b ∧ boxVec dirs eps a.objs ≠ boxVec dirs eps b.objs) ∨
        (boxVec dirs eps a.objs = boxVec dirs eps b.objs ∧
          cornerDistE dirs eps a.objs < cornerDistE dirs eps b.objs)) := by
  unfold epsObjE BoxLe
  rcases boxScan_cases dirs eps a.objs b.objs h with ⟨hr, hv⟩ | ⟨hr, hle, hne⟩ | ⟨hr, hle, hne⟩ |
      ⟨hr, hn1, hn2⟩
  · rw [hr]
    simp only [cornerDist_eq, zero_add, hv, ne_eq, not_true_eq_false, and_false, true_and, false_or]
    split_ifs with hlt <;> simp [hlt]
  · rw [hr]; simp [hle, hne]
  · rw [hr]
    have : ¬ List.Forall₂ (· ≤ ·) (boxVec dirs eps a.objs) (boxVec dirs eps b.objs) :=
      fun h' => hne (forall₂_le_antisymm _ _ h' hle)
    simp [this, hne]
  · rw [hr]
    have : boxVec dirs eps a.objs ≠ boxVec dirs eps b.objs :=
      fun h' => hn1 (h' ▸ forall₂_le_refl _)
    simp [hn1, this]

theorem epsObjE_one_iff (dirs : List Bool) (eps : List α) (a b : Sol α)
    (h : a.objs.length = b.objs.length) :
    epsObjE dirs eps a b = 1 ↔
      ((BoxLe dirs eps b a ∧ boxVec dirs eps a.objs ≠ boxVec dirs eps b.objs) ∨
        (boxVec dirs eps a.objs = boxVec dirs eps b.objs ∧
          ¬ cornerDistE dirs eps a.objs < cornerDistE dirs eps b.objs)) := by
  unfold epsObjE BoxLe
  rcases boxScan_cases dirs eps a.objs b.objs h with ⟨hr, hv⟩ | ⟨hr, hle, hne⟩ | ⟨hr, hle, hne⟩ |
      ⟨hr, hn1, hn2⟩
  · rw [hr]
    simp only [cornerDist_eq, zero_add, hv, ne_eq, not_true_eq_false, and_false, true_and, false_or]
    split_ifs with hlt <;> simp [hlt]
  · rw [hr]
    have : ¬ List.Forall₂ (· ≤ ·) (boxVec dirs eps b.objs) (boxVec dirs eps a.objs) :=
      fun h' => hne (forall₂_le_antisymm _ _ hle h')
    simp [this, hne]
  · rw [hr]; simp [hle, hne]
  · rw [hr]
    have : boxVec dirs eps a.objs ≠ boxVec dirs eps b.objs :=
      fun h' => hn1 (h' ▸ forall₂_le_refl _)
    simp [hn2, this]

theorem epsObjE_zero_iff (dirs : List Bool) (eps : List α) (a b : Sol α)
    (h : a.objs.length = b.objs.length) :
    epsObjE dirs eps a b = 0 ↔ (¬ BoxLe dirs eps a b ∧ ¬ BoxLe dirs eps b a) := by
  unfold epsObjE BoxLe
  rcases boxScan_cases dirs eps a.objs b.objs h with ⟨hr, hv⟩ | ⟨hr, hle, hne⟩ | ⟨hr, hle, hne⟩ |
      ⟨hr, hn1, hn2⟩
  · rw [hr, hv]
    have := forall₂_le_refl (boxVec dirs eps b.objs)
    split_ifs <;> simp
  · rw [hr]; simp [hle]
  · rw [hr]; simp [hle]
  · rw [hr]; simp [hn1, hn2]

theorem epsObjE_range (dirs : List Bool) (eps : List α) (a b : Sol α) :
    epsObjE dirs eps a b = -1 ∨ epsObjE dirs eps a b = 0 ∨ epsObjE dirs eps a b = 1 := by
  unfold epsObjE
  split
  · simp
  · simp
  · simp
  · split_ifs <;> simp

theorem WFe.len_eq {dirs : List Bool} {eps : List α} {a b : Sol α}
    (ha : WFe dirs eps a) (hb : WFe dirs eps b) : a.objs.length = b.objs.length :=
  ha.1.trans hb.1.symm

/-- same box ⇔ equally violating (or unconstrained) and all box indices equal -/
theorem sameBox_iff (c : Bool) (dirs : List Bool) (eps : List α) (a b : Sol α)
    (ha : WFe dirs eps a) (hb : WFe dirs eps b) :
    sameBoxE c dirs eps a b = true ↔
      ((c = false ∨ a.cv = b.cv) ∧ boxVec dirs eps a.objs = boxVec dirs eps b.objs) := by
  show sameBox flE c dirs eps a b = true ↔ _
  unfold sameBox
  rw [cvBlock_spec c a.cv b.cv ha.2.1 hb.2.1, ← cv_fall_iff]
  have hs := boxScan_same_iff dirs eps a.objs b.objs false false (ha.len_eq hb) (Or.inl rfl)
  by_cases h1 : c = true ∧ a.cv < b.cv
  · rw [if_pos h1]; exact ⟨fun h => (by simp at h), fun h => absurd h1 h.1.1⟩
  · rw [if_neg h1]
    by_cases h2 : c = true ∧ b.cv < a.cv
    · rw [if_pos h2]; exact ⟨fun h => (by simp at h), fun h => absurd h2 h.1.2⟩
    · rw [if_neg h2]
      show (boxScan flE dirs eps a.objs b.objs false false == BoxRel.same) = true ↔ _
      rw [beq_iff_eq, hs]
      exact ⟨fun h => ⟨⟨h1, h2⟩, h.2.2⟩, fun h => ⟨rfl, rfl, h.2⟩⟩

/-- "first is better" in the ε-relation -/
theorem epsCompare_neg_one_iff (c : Bool) (dirs : List Bool) (eps : List α) (a b : Sol α)
    (ha : WFe dirs eps a) (hb : WFe dirs eps b) :
    epsCmpE c dirs eps a b = -1 ↔
      ((c = true ∧ a.cv < b.cv) ∨
       ((c = false ∨ a.cv = b.cv) ∧
         ((BoxLe dirs eps a b ∧ boxVec dirs eps a.objs ≠ boxVec dirs eps b.objs) ∨
          (boxVec dirs eps a.objs = boxVec dirs eps b.objs ∧
            cornerDistE dirs eps a.objs < cornerDistE dirs eps b.objs)))) := by
  rw [epsCmpE_eq c dirs eps a b ha hb, ite3_neg_one_iff, cv_fall_iff,
    epsObjE_neg_one_iff dirs eps a b (ha.len_eq hb)]

/-- "second is better"; inside one box a tie in corner distance goes to the second -/
theorem epsCompare_one_iff (c : Bool) (dirs : List Bool) (eps : List α) (a b : Sol α)
    (ha : WFe dirs eps a) (hb : WFe dirs eps b) :
    epsCmpE c dirs eps a b = 1 ↔
      ((c = true ∧ b.cv < a.cv) ∨
       ((c = false ∨ a.cv = b.cv) ∧
         ((BoxLe dirs eps b a ∧ boxVec dirs eps a.objs ≠ boxVec dirs eps b.objs) ∨
          (boxVec dirs eps a.objs = boxVec dirs eps b.objs ∧
            ¬ cornerDistE dirs eps a.objs < cornerDistE dirs eps b.objs)))) := by
  rw [epsCmpE_eq c dirs eps a b ha hb,
    ite3_one_iff _ _ _ (fun h => absurd h.2.2 (not_lt.mpr h.1.2.le)), cv_fall_iff,
    epsObjE_one_iff dirs eps a b (ha.len_eq hb)]

/-- "neither" ⇔ equally violating and the two boxes are incomparable; never inside one box -/
theorem epsCompare_zero_iff (c : Bool) (dirs : List Bool) (eps : List α) (a b : Sol α)
    (ha : WFe dirs eps a) (hb : WFe dirs eps b) :
    epsCmpE c dirs eps a b = 0 ↔
      ((c = false ∨ a.cv = b.cv) ∧ ¬ BoxLe dirs eps a b ∧ ¬ BoxLe dirs eps b a) := by
  rw [epsCmpE_eq c dirs eps a b ha hb, ite3_zero_iff, cv_fall_iff,
    epsObjE_zero_iff dirs eps a b (ha.len_eq hb)]

theorem epsCompare_range (c : Bool) (dirs : List Bool) (eps : List α) (a b : Sol α) :
    epsCmpE c dirs eps a b = -1 ∨ epsCmpE c dirs eps a b = 0 ∨ epsCmpE c dirs eps a b = 1 := by
  show epsCompare flE sqE c dirs eps a b = -1 ∨ epsCompare flE sqE c dirs eps a b = 0 ∨
    epsCompare flE sqE c dirs eps a b = 1
  unfold epsCompare cvBlock
  split
  · rename_i r h
    split at h
    · split at h
      · cases h; simp
      · split at h
        · cases h; simp
        · split at h
          · cases h; simp
          · split at h
            · cases h; simp
            · cases h
    · cases h
  · exact epsObjE_range dirs eps a b

/-! #### Pareto dominance implies ε-dominance -/

theorem boxLe_of_allLe (ds : List Bool) (es xs ys : List α) (hlen : xs.length = ys.length)
    (hpos : ∀ e ∈ es, (0 : α) < e) :
    AllLe ds xs ys → List.Forall₂ (· ≤ ·) (boxVec ds es xs) (boxVec ds es ys) := by
  induction ds generalizing es xs ys with
  | nil => intro _; simp [boxVec]
  | cons d ds ih =>
    cases es with
    | nil => intro _; simp [boxVec]
    | cons e es =>
      match xs, ys, hlen with
      | [], [], _ => intro _; simp [boxVec]
      | x :: xs, y :: ys, hlen =>
        simp only [AllLe, boxVec, List.forall₂_cons]
        rintro ⟨h1, h2⟩
        have he : (0 : α) < e := hpos e (List.mem_cons_self ..)
        exact ⟨Int.floor_le_floor (div_le_div_of_nonneg_right h1 he.le),
          ih _ xs ys (by simpa using hlen) (epsNext_pos e es hpos) h2⟩

/-- one coordinate: same box index and `ox ≤ oy` ⇒ the offsets from the box corner are ordered -/
theorem offset_le (e ox oy : α) (he : 0 < e) (hle : ox ≤ oy) (hk : ⌊ox / e⌋ = ⌊oy / e⌋) :
    (ox - (⌊ox / e⌋ : Int) * e) * (ox - (⌊ox / e⌋ : Int) * e) ≤
      (oy - (⌊oy / e⌋ : Int) * e) * (oy - (⌊oy / e⌋ : Int) * e) := by
  have h0 : (0 : α) ≤ ox - (⌊ox / e⌋ : Int) * e := by
    have := Int.floor_le (ox / e)
    rw [le_div_iff₀ he] at this
    linarith
  rw [← hk]
  exact mul_self_le_mul_self h0 (by linarith)

theorem offset_lt (e ox oy : α) (he : 0 < e) (hlt : ox < oy) (hk : ⌊ox / e⌋ = ⌊oy / e⌋) :
    (ox - (⌊ox / e⌋ : Int) * e) * (ox - (⌊ox / e⌋ : Int) * e) <
      (oy - (⌊oy / e⌋ : Int) * e) * (oy - (⌊oy / e⌋ : Int) * e) := by
  have h0 : (0 : α) ≤ ox - (⌊ox / e⌋ : Int) * e := by
    have := Int.floor_le (ox / e)
    rw [le_div_iff₀ he] at this
    linarith
  rw [← hk]
  exact mul_self_lt_mul_self h0 (by linarith)

theorem cornerDistE_le (ds : List Bool) (es xs ys : List α) (hlen : xs.length = ys.length)
    (hpos : ∀ e ∈ es, (0 : α) < e) :
    AllLe ds xs ys → boxVec ds es xs = boxVec ds es ys →
      cornerDistE ds es xs ≤ cornerDistE ds es ys := by
  induction ds generalizing es xs ys with
  | nil => intro _ _; simp [cornerDistE]
  | cons d ds ih =>
    cases es with
    | nil => intro _ _; simp [cornerDistE]
    | cons e es =>
      match xs, ys, hlen with
      | [], [], _ => intro _ _; simp [cornerDistE]
      | x :: xs, y :: ys, hlen =>
        simp only [AllLe, boxVec, cornerDistE, List.cons.injEq]
        rintro ⟨h1, h2⟩ ⟨hk, hv⟩
        have he : (0 : α) < e := hpos e (List.mem_cons_self ..)
        exact add_le_add (offset_le e _ _ he h1 hk)
          (ih _ xs ys (by simpa using hlen) (epsNext_pos e es hpos) h2 hv)

theorem cornerDistE_lt (ds : List Bool) (es xs ys : List α)
    (hx : xs.length = ds.length) (hy : ys.length = ds.length)
    (hne : es ≠ []) (hpos : ∀ e ∈ es, (0 : α) < e) :
    AllLe ds xs ys → SomeLt ds xs ys → boxVec ds es xs = boxVec ds es ys →
      cornerDistE ds es xs < cornerDistE ds es ys := by
  induction ds generalizing es xs ys with
  | nil => intro _ h; cases xs <;> cases ys <;> simp [SomeLt] at h
  | cons d ds ih =>
    cases es with
    | nil => exact absurd rfl hne
    | cons e es =>
      match xs, ys, hx, hy with
      | x :: xs, y :: ys, hx, hy =>
        have hx' : xs.length = ds.length := by simpa using hx
        have hy' : ys.length = ds.length := by simpa using hy
        simp only [AllLe, SomeLt, boxVec, cornerDistE, List.cons.injEq]
        rintro ⟨h1, h2⟩ h3 ⟨hk, hv⟩
        have he : (0 : α) < e := hpos e (List.mem_cons_self ..)
        rcases h3 with h3 | h3
        · exact add_lt_add_of_lt_of_le (offset_lt e _ _ he h3 hk)
            (cornerDistE_le ds _ xs ys (hx'.trans hy'.symm) (epsNext_pos e es hpos) h2 hv)
        · exact add_lt_add_of_le_of_lt (offset_le e _ _ he h1 hk)
            (ih _ xs ys hx' hy' (epsNext_ne_nil e es) (epsNext_pos e es hpos) h2 h3 hv)

theorem WFe.wf {dirs : List Bool} {eps : List α} {a : Sol α} (ha : WFe dirs eps a) : WF dirs a :=
  ⟨ha.1, ha.2.1⟩

/-- `Better` (Pareto) implies "first is better" in the ε-relation -/
theorem eps_neg_one_of_better (c : Bool) (dirs : List Bool) (eps : List α) (a b : Sol α)
    (ha : WFe dirs eps a) (hb : WFe dirs eps b) (h : Better c dirs a b) :
    (c = true ∧ a.cv < b.cv) ∨
       ((c = false ∨ a.cv = b.cv) ∧
         ((BoxLe dirs eps a b ∧ boxVec dirs eps a.objs ≠ boxVec dirs eps b.objs) ∨
          (boxVec dirs eps a.objs = boxVec dirs eps b.objs ∧
            cornerDistE dirs eps a.objs < cornerDistE dirs eps b.objs))) := by
  rcases h with h | ⟨hc, hle, hlt⟩
  · exact Or.inl h
  · refine Or.inr ⟨hc, ?_⟩
    have hbox : BoxLe dirs eps a b := boxLe_of_allLe dirs eps _ _ (ha.len_eq hb) ha.2.2.2 hle
    by_cases hv : boxVec dirs eps a.objs = boxVec dirs eps b.objs
    · exact Or.inr ⟨hv, cornerDistE_lt dirs eps _ _ ha.1 hb.1 ha.2.2.1 ha.2.2.2 hle hlt hv⟩
    · exact Or.inl ⟨hbox, hv⟩

/-- ε-dominance never contradicts Pareto dominance -/
theorem eps_respects_pareto (c : Bool) (dirs : List Bool) (eps : List α) (a b : Sol α)
    (ha : WFe dirs eps a) (hb : WFe dirs eps b) :
    (paretoCompare c dirs a b = -1 → epsCmpE c dirs eps a b = -1) ∧
    (paretoCompare c dirs a b = 1 → epsCmpE c dirs eps a b = 1) := by
  constructor
  · intro h
    rw [pareto_neg_one_iff c dirs a b ha.wf hb.wf] at h
    rw [epsCompare_neg_one_iff c dirs eps a b ha hb]
    exact eps_neg_one_of_better c dirs eps a b ha hb h
  · intro h
    rw [pareto_one_iff c dirs a b ha.wf hb.wf] at h
    rw [epsCompare_one_iff c dirs eps a b ha hb]
    rcases eps_neg_one_of_better c dirs eps b a hb ha h with h | ⟨hc, h⟩
    · exact Or.inl h
    · refine Or.inr ⟨hc.imp id Eq.symm, ?_⟩
      rcases h with ⟨hle, hne⟩ | ⟨hv, hlt⟩
      · exact Or.inl ⟨hle, fun e => hne e.symm⟩
      · exact Or.inr ⟨hv.symm, not_lt.mpr hlt.le⟩

/-- a member whose box index is no larger is within one epsilon or better in that objective -/
theorem within_one_epsilon (e m x : α) (he : 0 < e) (h : ⌊m / e⌋ ≤ ⌊x / e⌋) : m < x + e := by
  have h1 : m / e < ((⌊m / e⌋ : Int) : α) + 1 := Int.lt_floor_add_one _
  have h2 : ((⌊m / e⌋ : Int) : α) ≤ ((⌊x / e⌋ : Int) : α) := Int.cast_le.mpr h
  have h3 : ((⌊x / e⌋ : Int) : α) ≤ x / e := Int.floor_le _
  have h4 : m / e < x / e + 1 := by linarith
  have h5 := mul_lt_mul_of_pos_right h4 he
  rw [div_mul_cancel₀ _ he.ne', add_mul, div_mul_cancel₀ _ he.ne', one_mul] at h5
  exact h5

/-! ### the archive, for every insertion history -/

section generic
variable {σ : Type}

theorem archiveAdd_accept_iff (cmp : σ → σ → Int) (arch : List σ) (s : σ) :
    (archiveAdd cmp arch s).2 = true ↔ ∀ m ∈ arch, ¬ cmp s m > 0 := by
  unfold archiveAdd
  split
  · rename_i hany
    simp only [List.any_eq_true, decide_eq_true_eq] at hany
    obtain ⟨m, hm, hgt⟩ := hany
    simp only [Bool.false_eq_true, false_iff, not_forall]
    exact ⟨m, hm, not_not.mpr hgt⟩
  · rename_i hany
    simp only [List.any_eq_true, decide_eq_true_eq, not_exists, not_and] at hany
    simp only [true_iff]
    exact hany

theorem archiveAdd_accept_contents (cmp : σ → σ → Int) (arch : List σ) (s : σ)
    (h : (archiveAdd cmp arch s).2 = true) :
    (archiveAdd cmp arch s).1 = arch.filter (fun m => decide (cmp s m = 0)) ++ [s] := by
  unfold archiveAdd at *
  split <;> simp_all

theorem epsArchiveAdd_of_reject (cmp : σ → σ → Int) (same : σ → σ → Bool) (st : List σ × Nat)
    (s : σ) (h : (archiveAdd cmp st.1 s).2 = false) : epsArchiveAdd cmp same st s = (st, false) := by
  unfold epsArchiveAdd
  simp only [h, Bool.false_eq_true, if_false]

theorem epsArchiveAdd_of_accept (cmp : σ → σ → Int) (same : σ → σ → Bool) (st : List σ × Nat)
    (s : σ) (h : (archiveAdd cmp st.1 s).2 = true) :
    epsArchiveAdd cmp same st s =
      (((archiveAdd cmp st.1 s).1, if st.1.all (fun m => !same s m) then st.2 + 1 else st.2),
        true) := by
  unfold epsArchiveAdd
  simp only [h, if_true]

theorem epsArchiveAdd_snd (cmp : σ → σ → Int) (same : σ → σ → Bool) (st : List σ × Nat) (s : σ) :
    (epsArchiveAdd cmp same st s).2 = (archiveAdd cmp st.1 s).2 := by
  cases h : (archiveAdd cmp st.1 s).2
  · rw [epsArchiveAdd_of_reject _ _ _ _ h]
  · rw [epsArchiveAdd_of_accept _ _ _ _ h]

theorem epsArchiveAdd_contents (cmp : σ → σ → Int) (same : σ → σ → Bool) (st : List σ × Nat)
    (s : σ) : (epsArchiveAdd cmp same st s).1.1 = (archiveAdd cmp st.1 s).1 := by
  cases h : (archiveAdd cmp st.1 s).2
  · rw [epsArchiveAdd_of_reject _ _ _ _ h, add_reject_unchanged cmp st.1 s h]
  · rw [epsArchiveAdd_of_accept _ _ _ _ h]

theorem epsArchiveAdd_counter (cmp : σ → σ → Int) (same : σ → σ → Bool) (st : List σ × Nat)
    (s : σ) : (epsArchiveAdd cmp same st s).1.2 =
      st.2 + (if (epsArchiveAdd cmp same st s).2 = true ∧ ∀ m ∈ st.1, same s m = false
        then 1 else 0) := by
  rw [epsArchiveAdd_snd]
  cases h : (archiveAdd cmp st.1 s).2
  · rw [epsArchiveAdd_of_reject _ _ _ _ h]
    simp
  · rw [epsArchiveAdd_of_accept _ _ _ _ h]
    by_cases hall : ∀ m ∈ st.1, same s m = false
    · have : st.1.all (fun m => !same s m) = true := by
        rw [List.all_eq_true]; intro m hm; simp [hall m hm]
      simp only [this, if_true, true_and, if_pos hall]
    · have : ¬ st.1.all (fun m => !same s m) = true := by
        rw [List.all_eq_true]; intro h'; apply hall; intro m hm; simpa using h' m hm
      simp only [true_and, if_neg hall, if_neg this, Nat.add_zero]

theorem epsArchiveOf_append_singleton (cmp : σ → σ → Int) (same : σ → σ → Bool) (pre : List σ)
    (s : σ) : epsArchiveOf cmp same (pre ++ [s]) =
      (epsArchiveAdd cmp same (epsArchiveOf cmp same pre) s).1 := by
  simp [epsArchiveOf, List.foldl_append]

/-- the contents of the ε-box archive are those of the plain archive with the same comparator -/
theorem epsArchiveOf_contents (cmp : σ → σ → Int) (same : σ → σ → Bool) (xs : List σ) :
    (epsArchiveOf cmp same xs).1 = archiveOf cmp xs := by
  induction xs using List.reverseRecOn with
  | nil => rfl
  | append_singleton pre s ih =>
    rw [epsArchiveOf_append_singleton, archiveOf_append_singleton, epsArchiveAdd_contents, ih]

theorem archiveOf_members_offered (cmp : σ → σ → Int) (xs : List σ) :
    ∀ m ∈ archiveOf cmp xs, m ∈ xs := by
  induction xs using List.reverseRecOn with
  | nil => simp [archiveOf]
  | append_singleton pre s ih =>
    intro m hm
    rw [archiveOf_append_singleton] at hm
    cases hacc : (archiveAdd cmp (archiveOf cmp pre) s).2 with
    | false =>
      rw [add_reject_unchanged _ _ _ hacc] at hm
      exact List.mem_append_left _ (ih m hm)
    | true =>
      rw [archiveAdd_accept_contents _ _ _ hacc] at hm
      rcases List.mem_append.mp hm with hm | hm
      · exact List.mem_append_left _ (ih m (List.mem_filter.mp hm).1)
      · exact List.mem_append_right _ hm

/-- members are pairwise "neither", for any comparator whose zero answer is symmetric on the
solutions offered -/
theorem archiveOf_pairwise_zero (cmp : σ → σ → Int) (P : σ → Prop)
    (hsymm : ∀ a b, P a → P b → cmp a b = 0 → cmp b a = 0) (xs : List σ) (hP : ∀ x ∈ xs, P x) :
    (archiveOf cmp xs).Pairwise (fun m n => cmp m n = 0 ∧ cmp n m = 0) := by
  induction xs using List.reverseRecOn with
  | nil => simp [archiveOf]
  | append_singleton pre s ih =>
    have hpre : ∀ x ∈ pre, P x := fun x hx => hP x (List.mem_append_left _ hx)
    have hs : P s := hP s (by simp)
    have ih' := ih hpre
    rw [archiveOf_append_singleton]
    cases hacc : (archiveAdd cmp (archiveOf cmp pre) s).2 with
    | false => rw [add_reject_unchanged _ _ _ hacc]; exact ih'
    | true =>
      rw [archiveAdd_accept_contents _ _ _ hacc, List.pairwise_append]
      refine ⟨ih'.sublist List.filter_sublist, List.pairwise_singleton _ _, ?_⟩
      intro m hm n hn
      have hn' : n = s := by simpa using hn
      subst hn'
      obtain ⟨hmem, h0⟩ := List.mem_filter.mp hm
      have h0' : cmp n m = 0 := by simpa using h0
      exact ⟨hsymm n m hs (hpre m (archiveOf_members_offered cmp pre m hmem)) h0', h0'⟩

/-- coverage for any comparator with answers in {-1,0,1} and a reflexive, transitive `Cov` that
contains "first is better" (`-1`) and the converse of "second is better" (`1`) -/
theorem archiveOf_coverage (cmp : σ → σ → Int) (P : σ → Prop) (Cov : σ → σ → Prop)
    (hrange : ∀ a b, cmp a b = -1 ∨ cmp a b = 0 ∨ cmp a b = 1)
    (hrefl : ∀ a, Cov a a) (htrans : ∀ a b d, Cov a b → Cov b d → Cov a d)
    (hneg : ∀ a b, P a → P b → cmp a b = -1 → Cov a b)
    (hone : ∀ a b, P a → P b → cmp a b = 1 → Cov b a)
    (xs : List σ) (hP : ∀ x ∈ xs, P x) :
    ∀ x ∈ xs, ∃ m ∈ archiveOf cmp xs, Cov m x := by
  induction xs using List.reverseRecOn with
  | nil => simp
  | append_singleton pre s ih =>
    have hpre : ∀ x ∈ pre, P x := fun x hx => hP x (List.mem_append_left _ hx)
    have hs : P s := hP s (by simp)
    have ih' := ih hpre
    have hmemP : ∀ m ∈ archiveOf cmp pre, P m :=
      fun m hm => hpre m (archiveOf_members_offered cmp pre m hm)
    intro x hx
    rw [archiveOf_append_singleton]
    cases hacc : (archiveAdd cmp (archiveOf cmp pre) s).2 with
    | false =>
      rw [add_reject_unchanged _ _ _ hacc]
      rcases List.mem_append.mp hx with hx | hx
      · exact ih' x hx
      · have hx' : x = s := by simpa using hx
        subst hx'
        have : ¬ ∀ m ∈ archiveOf cmp pre, ¬ cmp x m > 0 := by
          rw [← archiveAdd_accept_iff, hacc]; simp
        push Not at this
        obtain ⟨m, hm, hgt⟩ := this
        have h1 : cmp x m = 1 := by rcases hrange x m with h | h | h <;> omega
        exact ⟨m, hm, hone x m hs (hmemP m hm) h1⟩
    | true =>
      rw [archiveAdd_accept_contents _ _ _ hacc]
      have hno := (archiveAdd_accept_iff cmp _ s).mp hacc
      rcases List.mem_append.mp hx with hx | hx
      · obtain ⟨m, hm, hcov⟩ := ih' x hx
        by_cases h0 : cmp s m = 0
        · exact ⟨m, List.mem_append_left _ (List.mem_filter.mpr ⟨hm, by simpa using h0⟩), hcov⟩
        · have h1 : cmp s m = -1 := by
            have := hno m hm
            rcases hrange s m with h | h | h <;> omega
          exact ⟨s, List.mem_append_right _ (by simp),
            htrans s m x (hneg s m hs (hmemP m hm) h1) hcov⟩
      · have hx' : x = s := by simpa using hx
        subst hx'
        exact ⟨x, List.mem_append_right _ (by simp), hrefl x⟩

end generic

theorem covers_refl (c : Bool) (dirs : List Bool) (eps : List α) (a : Sol α) :
    Covers c dirs eps a a :=
  Or.inr ⟨Or.inr rfl, forall₂_le_refl _⟩

theorem covers_trans (c : Bool) (dirs : List Bool) (eps : List α) (a b d : Sol α) :
    Covers c dirs eps a b → Covers c dirs eps b d → Covers c dirs eps a d := by
  rintro (⟨hc, h⟩ | ⟨hc, hle⟩) (⟨hc', h'⟩ | ⟨hc', hle'⟩)
  · exact Or.inl ⟨hc, lt_trans h h'⟩
  · rcases hc' with hc' | hc'
    · rw [hc] at hc'; cases hc'
    · exact Or.inl ⟨hc, hc' ▸ h⟩
  · rcases hc with hc | hc
    · rw [hc'] at hc; cases hc
    · exact Or.inl ⟨hc', hc ▸ h'⟩
  · refine Or.inr ⟨?_, forall₂_le_trans _ _ _ hle hle'⟩
    rcases hc with hc | hc
    · exact Or.inl hc
    · rcases hc' with hc' | hc'
      · exact Or.inl hc'
      · exact Or.inr (hc.trans hc')

theorem covers_of_neg_one (c : Bool) (dirs : List Bool) (eps : List α) (a b : Sol α)
    (ha : WFe dirs eps a) (hb : WFe dirs eps b) (h : epsCmpE c dirs eps a b = -1) :
    Covers c dirs eps a b := by
  rcases (epsCompare_neg_one_iff c dirs eps a b ha hb).mp h with h | ⟨hc, h⟩
  · exact Or.inl h
  · refine Or.inr ⟨hc, ?_⟩
    rcases h with ⟨hle, _⟩ | ⟨hv, _⟩
    · exact hle
    · unfold BoxLe; rw [hv]; exact forall₂_le_refl _

theorem covers_of_one (c : Bool) (dirs : List Bool) (eps : List α) (a b : Sol α)
    (ha : WFe dirs eps a) (hb : WFe dirs eps b) (h : epsCmpE c dirs eps a b = 1) :
    Covers c dirs eps b a := by
  rcases (epsCompare_one_iff c dirs eps a b ha hb).mp h with h | ⟨hc, h⟩
  · exact Or.inl h
  · refine Or.inr ⟨hc.imp id Eq.symm, ?_⟩
    rcases h with ⟨hle, _⟩ | ⟨hv, _⟩
    · exact hle
    · unfold BoxLe; rw [hv]; exact forall₂_le_refl _

theorem epsCompare_zero_symm (c : Bool) (dirs : List Bool) (eps : List α) (a b : Sol α)
    (ha : WFe dirs eps a) (hb : WFe dirs eps b) (h : epsCmpE c dirs eps a b = 0) :
    epsCmpE c dirs eps b a = 0 := by
  rw [epsCompare_zero_iff c dirs eps a b ha hb] at h
  rw [epsCompare_zero_iff c dirs eps b a hb ha]
  exact ⟨h.1.imp id Eq.symm, h.2.2, h.2.1⟩

/-- members are pairwise incomparable in the ε-relation: no member's box dominates another's -/
theorem eps_members_incomparable (c : Bool) (dirs : List Bool) (eps : List α) (xs : List (Sol α))
    (hwf : ∀ x ∈ xs, WFe dirs eps x) :
    (epsArchiveOf (epsCmpE c dirs eps) (sameBoxE c dirs eps) xs).1.Pairwise
      (fun m n => epsCmpE c dirs eps m n = 0 ∧ epsCmpE c dirs eps n m = 0) := by
  rw [epsArchiveOf_contents]
  exact archiveOf_pairwise_zero _ (WFe dirs eps) (epsCompare_zero_symm c dirs eps) xs hwf

/-- members were offered -/
theorem eps_members_offered (c : Bool) (dirs : List Bool) (eps : List α) (xs : List (Sol α)) :
    ∀ m ∈ (epsArchiveOf (epsCmpE c dirs eps) (sameBoxE c dirs eps) xs).1, m ∈ xs := by
  rw [epsArchiveOf_contents]
  exact archiveOf_members_offered _ xs

/-- at most one solution per box -/
theorem eps_one_per_box (c : Bool) (dirs : List Bool) (eps : List α) (xs : List (Sol α))
    (hwf : ∀ x ∈ xs, WFe dirs eps x) :
    (epsArchiveOf (epsCmpE c dirs eps) (sameBoxE c dirs eps) xs).1.Pairwise
      (fun m n => sameBoxE c dirs eps m n = false) := by
  refine (eps_members_incomparable c dirs eps xs hwf).imp_of_mem ?_
  intro m n hm hn h
  have hm' := hwf m (eps_members_offered c dirs eps xs m hm)
  have hn' := hwf n (eps_members_offered c dirs eps xs n hn)
  rw [Bool.eq_false_iff]
  intro hsame
  rw [sameBox_iff c dirs eps m n hm' hn'] at hsame
  have := ((epsCompare_zero_iff c dirs eps m n hm' hn').mp h.1).2.1
  apply this
  unfold BoxLe; rw [hsame.2]; exact forall₂_le_refl _

/-- every solution ever offered is covered by some member -/
theorem eps_coverage (c : Bool) (dirs : List Bool) (eps : List α) (xs : List (Sol α))
    (hwf : ∀ x ∈ xs, WFe dirs eps x) :
    ∀ x ∈ xs, ∃ m ∈ (epsArchiveOf (epsCmpE c dirs eps) (sameBoxE c dirs eps) xs).1,
      Covers c dirs eps m x := by
  rw [epsArchiveOf_contents]
  exact archiveOf_coverage _ (WFe dirs eps) (Covers c dirs eps) (epsCompare_range c dirs eps)
    (covers_refl c dirs eps) (covers_trans c dirs eps) (covers_of_neg_one c dirs eps)
    (covers_of_one c dirs eps) xs hwf

/-- an insertion is accepted iff no member answers "member is better" -/
theorem eps_accept_iff (cmp : Sol α → Sol α → Int) (same : Sol α → Sol α → Bool)
    (st : List (Sol α) × Nat) (s : Sol α) :
    (epsArchiveAdd cmp same st s).2 = true ↔ ∀ m ∈ st.1, ¬ cmp s m > 0 := by
  rw [epsArchiveAdd_snd]; exact archiveAdd_accept_iff cmp st.1 s

/-- a rejected insertion leaves contents and counter untouched -/
theorem eps_reject_unchanged (cmp : Sol α → Sol α → Int) (same : Sol α → Sol α → Bool)
    (st : List (Sol α) × Nat) (s : Sol α) (h : (epsArchiveAdd cmp same st s).2 = false) :
    (epsArchiveAdd cmp same st s).1 = st := by
  rw [epsArchiveAdd_snd] at h
  rw [epsArchiveAdd_of_reject _ _ _ _ h]

/-- the improvement counter grows by one exactly at an accepted insertion that enters a box not
occupied at that moment, and never otherwise -/
theorem improvements_step (cmp : Sol α → Sol α → Int) (same : Sol α → Sol α → Bool)
    (pre : List (Sol α)) (s : Sol α) :
    (epsArchiveOf cmp same (pre ++ [s])).2 =
      (epsArchiveOf cmp same pre).2 +
        (if (epsArchiveAdd cmp same (epsArchiveOf cmp same pre) s).2 = true ∧
            ∀ m ∈ (epsArchiveOf cmp same pre).1, same s m = false then 1 else 0) := by
  rw [epsArchiveOf_append_singleton, epsArchiveAdd_counter]

theorem improvements_monotone (cmp : Sol α → Sol α → Int) (same : Sol α → Sol α → Bool)
    (pre post : List (Sol α)) :
    (epsArchiveOf cmp same pre).2 ≤ (epsArchiveOf cmp same (pre ++ post)).2 := by
  induction post using List.reverseRecOn with
  | nil => simp
  | append_singleton post s ih =>
    rw [← List.append_assoc, improvements_step]
    exact le_trans ih (Nat.le_add_right _ _)

/-! non-vacuity over ℚ: a same-box preference, a well-formed input, and a history with a rejection,
a same-box replacement (no improvement) and an eviction -/
example : epsCmpE (α := ℚ) false [false, true] [1/2] ⟨0, [3/4, 1], 0⟩ ⟨1, [7/8, 1], 0⟩ = -1 := by
  decide +kernel
example : WFe (α := ℚ) [false, true] [1/2] ⟨0, [3/4, 1], 0⟩ := by
  refine ⟨rfl, le_refl _, by simp, ?_⟩
  intro e he; simp at he; subst he; norm_num
example : (epsArchiveOf (epsCmpE (α := ℚ) false [false, false] [1]) (sameBoxE false [false, false] [1])
   [⟨0, [1/2, 5/2], 0⟩, ⟨1, [3/4, 9/4], 0⟩, ⟨2, [1/4, 9/4], 0⟩, ⟨3, [5/2, 1/2], 0⟩, ⟨4, [3, 3], 0⟩]).1.map (·.id) = [2, 3]
   ∧ (epsArchiveOf (epsCmpE (α := ℚ) false [false, false] [1]) (sameBoxE false [false, false] [1])
   [⟨0, [1/2, 5/2], 0⟩, ⟨1, [3/4, 9/4], 0⟩, ⟨2, [1/4, 9/4], 0⟩, ⟨3, [5/2, 1/2], 0⟩, ⟨4, [3, 3], 0⟩]).2 = 2 := by
  decide +kernel

end Platypus
