import PlatypusModel.Props.C16
set_option linter.unusedSectionVars false
/-!
# C10 for the distance indicators

Replacing a maximised objective by the minimised negation (any subset `S` of the objectives, both in the
reference set and in the evaluated set) leaves generational distance, inverted generational distance, the
additive ε-indicator (repaired code: directions respected) and spacing unchanged.  Exact arithmetic: any
linearly ordered field with numeric primitives satisfying `OpsOk`.  Hypervolume is `hypervolume_flip_invariant`
in `Props/C16.lean`.
-/
namespace Platypus

variable {α : Type} [Field α] [LinearOrder α] [IsStrictOrderedRing α]

/-- a solution with the objectives in `S` negated -/
def flipISol (S : List Bool) (s : ISol α) : ISol α := { s with objs := flipObjs S s.objs }

/-! ### helper lemmas -/

theorem c10i_isFeasible_flip (S : List Bool) (s : ISol α) : isFeasible (flipISol S s) = isFeasible s := rfl

theorem c10i_filter_flip (S : List Bool) (sols : List (ISol α)) :
    (sols.map (flipISol S)).filter isFeasible = (sols.filter isFeasible).map (flipISol S) := by
  rw [List.filter_map]; rfl

theorem c10i_foldl_min_neg (xs : List α) (x : α) :
    (xs.map Neg.neg).foldl min (-x) = -(xs.foldl max x) := by
  induction xs generalizing x with
  | nil => rfl
  | cons a t ih =>
    simp only [List.map_cons, List.foldl_cons]
    rw [show min (-x) (-a) = -(max x a) from (neg_sup x a).symm, ih]

theorem c10i_foldl_max_neg (xs : List α) (x : α) :
    (xs.map Neg.neg).foldl max (-x) = -(xs.foldl min x) := by
  induction xs generalizing x with
  | nil => rfl
  | cons a t ih =>
    simp only [List.map_cons, List.foldl_cons]
    rw [show max (-x) (-a) = -(min x a) from (neg_inf x a).symm, ih]

theorem c10i_pyMinList_neg (d d' : α) (l : List α) (hl : l ≠ []) :
    pyMinList d (l.map Neg.neg) = -(pyMaxList d' l) := by
  cases l with
  | nil => exact absurd rfl hl
  | cons a t => rw [List.map_cons, pyMinList_cons, pyMaxList_cons, c10i_foldl_min_neg]

theorem c10i_pyMaxList_neg (d d' : α) (l : List α) (hl : l ≠ []) :
    pyMaxList d (l.map Neg.neg) = -(pyMinList d' l) := by
  cases l with
  | nil => exact absurd rfl hl
  | cons a t => rw [List.map_cons, pyMinList_cons, pyMaxList_cons, c10i_foldl_max_neg]

theorem c10i_flipObjs_getD (S : List Bool) (xs : List α) (i : Nat) (hi : i < S.length) (hx : xs.length = S.length) :
    (flipObjs S xs).getD i 0 = if S[i] then -(xs.getD i 0) else xs.getD i 0 := by
  have hi' : i < xs.length := by omega
  have hl : i < (flipObjs S xs).length := by simp [flipObjs, hx, hi]
  rw [← List.getElem_eq_getD (h := hl) 0, ← List.getElem_eq_getD (h := hi') 0]
  simp [flipObjs]

/-- the column `i` of the flipped feasible members -/
theorem c10i_column_flip (S : List Bool) (feas : List (ISol α)) (i : Nat) (hi : i < S.length)
    (hf : ∀ s ∈ feas, s.objs.length = S.length) :
    (feas.map (flipISol S)).map (fun s => s.objs.getD i 0) =
      if S[i] then (feas.map (fun s => s.objs.getD i 0)).map Neg.neg else feas.map (fun s => s.objs.getD i 0) := by
  rw [List.map_map]
  split
  · rename_i hs
    rw [List.map_map]
    apply List.map_congr_left
    intro s hsm
    simp only [Function.comp, flipISol]
    rw [c10i_flipObjs_getD S s.objs i hi (hf s hsm), if_pos hs]
  · rename_i hs
    apply List.map_congr_left
    intro s hsm
    simp only [Function.comp, flipISol]
    rw [c10i_flipObjs_getD S s.objs i hi (hf s hsm), if_neg hs]

/-- the bounds of the flipped set are the flipped bounds: `min (-x) = - max x` -/
theorem boundsOf_flip (S : List Bool) (nobjs : Nat) (sols : List (ISol α)) (mn mx : List α)
    (hS : S.length = nobjs) (hsols : ∀ s ∈ sols, s.objs.length = nobjs)
    (h : boundsOf nobjs sols = .ok (mn, mx)) :
    boundsOf nobjs (sols.map (flipISol S)) = .ok (flipLo S mn mx, flipHi S mn mx) := by
  obtain ⟨hne, h1, h2⟩ := boundsOf_ok h
  subst h1 h2
  have hf : ∀ s ∈ sols.filter isFeasible, s.objs.length = S.length := by
    intro s hs
    rw [hS]
    exact hsols s (List.mem_of_mem_filter hs)
  unfold boundsOf
  simp only []
  rw [c10i_filter_flip, if_neg (by simpa [List.isEmpty_iff] using hne)]
  congr 1
  apply Prod.ext
  · simp only [flipLo]
    apply List.ext_getElem
    · simp [hS]
    · intro i hi1 hi2
      simp only [List.length_map, List.length_range] at hi1
      have hiS : i < S.length := by omega
      simp only [List.getElem_map, List.getElem_range, List.getElem_zipWith, List.getElem_zip]
      rw [c10i_column_flip S _ i hiS hf]
      have hcol : (sols.filter isFeasible).map (fun s => s.objs.getD i 0) ≠ [] := by simpa using hne
      cases hs : S[i]
      · simp
      · simp only [if_true]
        exact c10i_pyMinList_neg 0 0 _ hcol
  · simp only [flipHi]
    apply List.ext_getElem
    · simp [hS]
    · intro i hi1 hi2
      simp only [List.length_map, List.length_range] at hi1
      have hiS : i < S.length := by omega
      simp only [List.getElem_map, List.getElem_range, List.getElem_zipWith, List.getElem_zip]
      rw [c10i_column_flip S _ i hiS hf]
      have hcol : (sols.filter isFeasible).map (fun s => s.objs.getD i 0) ≠ [] := by simpa using hne
      cases hs : S[i]
      · simp
      · simp only [if_true]
        exact c10i_pyMaxList_neg 0 0 _ hcol

/-! ### distances depend on the coordinate-wise differences only -/

theorem c10i_euclid_eq (ops : NumOps α) (h : OpsOk ops) (x y : List α) :
    euclid ops x y = ops.sqrt (((List.zipWith (fun a b => a - b) x y).map (fun z => z * z)).sum) := by
  unfold euclid
  rw [h.sum_eq, List.map_zipWith]
  congr 3
  funext a b
  exact h.pow_two _

theorem c10i_sq_flipObjs (S : List Bool) (d : List α) (hl : d.length ≤ S.length) :
    (flipObjs S d).map (fun z => z * z) = d.map (fun z => z * z) := by
  apply List.ext_getElem
  · simp [flipObjs]; omega
  · intro i h1 h2
    simp only [flipObjs, List.getElem_map, List.getElem_zipWith]
    split <;> ring

theorem c10i_euclid_of_diff (ops : NumOps α) (h : OpsOk ops) (S : List Bool) (x y x' y' : List α)
    (hd : List.zipWith (fun a b => a - b) x' y' = flipObjs S (List.zipWith (fun a b => a - b) x y))
    (hl : (List.zipWith (fun a b => a - b) x y).length ≤ S.length) :
    euclid ops x' y' = euclid ops x y := by
  rw [c10i_euclid_eq ops h, c10i_euclid_eq ops h, hd, c10i_sq_flipObjs S _ hl]

theorem c10i_flipN_diff (S : List Bool) (x y : List α) (hx : x.length = S.length) (hy : y.length = S.length) :
    List.zipWith (fun a b => a - b) (List.zipWith (fun (f : Bool) n => if f then 1 - n else n) S x)
        (List.zipWith (fun (f : Bool) n => if f then 1 - n else n) S y) =
      flipObjs S (List.zipWith (fun a b => a - b) x y) := by
  apply List.ext_getElem
  · simp [flipObjs, hx, hy]
  · intro i h1 h2
    simp only [flipObjs, List.getElem_zipWith]
    split
    · ring
    · rfl

/-- the Euclidean distance of two normalised points does not see the flip `n ↦ 1 - n` -/
theorem euclid_flipN (ops : NumOps α) (h : OpsOk ops) (S : List Bool) (x y : List α)
    (hx : x.length = S.length) (hy : y.length = S.length) :
    euclid ops (List.zipWith (fun (f : Bool) n => if f then 1 - n else n) S x)
               (List.zipWith (fun (f : Bool) n => if f then 1 - n else n) S y) = euclid ops x y := by
  apply c10i_euclid_of_diff ops h S x y _ _ (c10i_flipN_diff S x y hx hy)
  simp [hx, hy]

/-- difference of two points normalised with the flipped bounds: the sign changes on the flipped objectives
(true also when a range is degenerate: both sides are then `0`) -/
theorem c10i_normDiff_flip (S : List Bool) (mn mx x y : List α) (k : Nat)
    (hS : S.length = k) (hmn : mn.length = k) (hmx : mx.length = k) (hx : x.length = k) (hy : y.length = k) :
    List.zipWith (fun a b => a - b)
        (normObjs (flipLo S mn mx) (flipHi S mn mx) (flipObjs S x))
        (normObjs (flipLo S mn mx) (flipHi S mn mx) (flipObjs S y)) =
      flipObjs S (List.zipWith (fun a b => a - b) (normObjs mn mx x) (normObjs mn mx y)) := by
  apply List.ext_getElem
  · simp [normObjs, flipLo, flipHi, flipObjs, hS, hmn, hmx, hx, hy]
  · intro i h1 h2
    simp only [normObjs, flipLo, flipHi, flipObjs, List.length_zipWith, List.length_zip] at h1 h2
    have hiS : i < S.length := by omega
    have himn : i < mn.length := by omega
    have himx : i < mx.length := by omega
    simp only [normObjs, flipLo, flipHi, flipObjs, List.getElem_zipWith, List.getElem_zip]
    cases S[i]
    · simp
    · simp only [if_true]
      rw [show -mn[i] - -mx[i] = mx[i] - mn[i] by ring, ← sub_div, ← sub_div, ← neg_div]
      congr 1
      ring

theorem c10i_normDiff_length (mn mx x y : List α) (k : Nat)
    (hmn : mn.length = k) (hmx : mx.length = k) (hx : x.length = k) (hy : y.length = k) :
    (List.zipWith (fun a b => a - b) (normObjs mn mx x) (normObjs mn mx y)).length = k := by
  simp [normObjs, hmn, hmx, hx, hy]

/-- Euclidean distance of two points normalised with the flipped bounds -/
theorem c10i_euclid_norm_flip (ops : NumOps α) (h : OpsOk ops) (S : List Bool) (mn mx x y : List α) (k : Nat)
    (hS : S.length = k) (hmn : mn.length = k) (hmx : mx.length = k) (hx : x.length = k) (hy : y.length = k) :
    euclid ops (normObjs (flipLo S mn mx) (flipHi S mn mx) (flipObjs S x))
        (normObjs (flipLo S mn mx) (flipHi S mn mx) (flipObjs S y)) =
      euclid ops (normObjs mn mx x) (normObjs mn mx y) := by
  apply c10i_euclid_of_diff ops h S _ _ _ _ (c10i_normDiff_flip S mn mx x y k hS hmn hmx hx hy)
  rw [c10i_normDiff_length mn mx x y k hmn hmx hx hy, hS]

/-- distance to the nearest member of a set, everything normalised with the flipped bounds -/
theorem c10i_dtn_flip (ops : NumOps α) (h : OpsOk ops) (S : List Bool) (mn mx x : List α) (R : List (ISol α)) (k : Nat)
    (hS : S.length = k) (hmn : mn.length = k) (hmx : mx.length = k) (hx : x.length = k)
    (hR : ∀ s ∈ R, s.objs.length = k) :
    distanceToNearest ops (normObjs (flipLo S mn mx) (flipHi S mn mx) (flipObjs S x))
        (R.map (fun s => normObjs (flipLo S mn mx) (flipHi S mn mx) (flipObjs S s.objs))) =
      distanceToNearest ops (normObjs mn mx x) (R.map (fun s => normObjs mn mx s.objs)) := by
  unfold distanceToNearest
  rw [List.isEmpty_map, List.isEmpty_map, List.map_map, List.map_map]
  congr 2
  apply List.map_congr_left
  intro s hs
  exact c10i_euclid_norm_flip ops h S mn mx x s.objs k hS hmn hmx hx (hR s hs)

/-! ### `refNormalize` of the flipped reference set -/

theorem c10i_boundsOf_flip_err (S : List Bool) (nobjs : Nat) (sols : List (ISol α)) (e : IErr)
    (h : boundsOf nobjs sols = .error e) : boundsOf nobjs (sols.map (flipISol S)) = .error e := by
  unfold boundsOf at h ⊢
  simp only [] at h ⊢
  rw [c10i_filter_flip, List.isEmpty_map]
  split at h
  · rename_i he
    rw [if_pos he]
    exact h
  · cases h

theorem c10i_refNormalize_flip_err (ops : NumOps α) (S : List Bool) (nobjs : Nat) (ref : List (ISol α)) (e : IErr)
    (hS : S.length = nobjs) (href : ∀ s ∈ ref, s.objs.length = nobjs)
    (h : refNormalize ops nobjs ref = .error e) : refNormalize ops nobjs (ref.map (flipISol S)) = .error e := by
  unfold refNormalize at h ⊢
  rw [List.isEmpty_map]
  split at h
  · rename_i he
    rw [if_pos he]
    exact h
  · rename_i he
    rw [if_neg he]
    cases hb : boundsOf nobjs ref with
    | error e' =>
      rw [c10i_boundsOf_flip_err S nobjs ref e' hb]
      simpa [hb, bind, Except.bind] using h
    | ok b =>
      obtain ⟨mn, mx⟩ := b
      obtain ⟨hmn, hmx⟩ := boundsOf_length hb
      rw [boundsOf_flip S nobjs ref mn mx hS href hb]
      simp only [hb, bind, Except.bind, pure, Except.pure] at h ⊢
      rw [checkRanges_flip ops.eps S mn mx (by omega) (by omega)]
      cases hc : checkRanges ops.eps mn mx with
      | error e' => simpa [hc] using h
      | ok u => simp [hc] at h

theorem c10i_refNormalize_flip_ok (ops : NumOps α) (S : List Bool) (nobjs : Nat) (ref : List (ISol α))
    (mn mx : List α) (refN : List (List α))
    (hS : S.length = nobjs) (href : ∀ s ∈ ref, s.objs.length = nobjs)
    (h : refNormalize ops nobjs ref = .ok ((mn, mx), refN)) :
    refNormalize ops nobjs (ref.map (flipISol S)) =
      .ok ((flipLo S mn mx, flipHi S mn mx),
        (ref.filter isFeasible).map (fun s => normObjs (flipLo S mn mx) (flipHi S mn mx) (flipObjs S s.objs))) := by
  obtain ⟨hb, hc, _⟩ := refNormalize_ok h
  obtain ⟨hmn, hmx⟩ := boundsOf_length hb
  have hne : ref.isEmpty = false := by
    unfold refNormalize at h
    split at h
    · cases h
    · rename_i he
      simpa using he
  unfold refNormalize
  rw [List.isEmpty_map, hne, boundsOf_flip S nobjs ref mn mx hS href hb]
  simp only [bind, Except.bind, pure, Except.pure]
  rw [checkRanges_flip ops.eps S mn mx (by omega) (by omega), hc, c10i_filter_flip, List.map_map]
  rfl

theorem c10i_map_flip {β : Type} (S : List Bool) (F : List (ISol α)) (N : List α → β) :
    (F.map (flipISol S)).map (fun s => N s.objs) = F.map (fun s => N (flipObjs S s.objs)) := by
  rw [List.map_map]; rfl

/-- the list of nearest-reference distances of the (normalised) set members -/
theorem c10i_gd_list_flip (ops : NumOps α) (h : OpsOk ops) (S : List Bool) (mn mx : List α) (F R : List (ISol α)) (k : Nat)
    (g : α → α)
    (hS : S.length = k) (hmn : mn.length = k) (hmx : mx.length = k)
    (hF : ∀ s ∈ F, s.objs.length = k) (hR : ∀ s ∈ R, s.objs.length = k) :
    (F.map (fun s => normObjs (flipLo S mn mx) (flipHi S mn mx) (flipObjs S s.objs))).map
        (fun x => g (distanceToNearest ops x
          (R.map (fun s => normObjs (flipLo S mn mx) (flipHi S mn mx) (flipObjs S s.objs))))) =
      (F.map (fun s => normObjs mn mx s.objs)).map
        (fun x => g (distanceToNearest ops x (R.map (fun s => normObjs mn mx s.objs)))) := by
  rw [List.map_map, List.map_map]
  apply List.map_congr_left
  intro s hs
  simp only [Function.comp]
  rw [c10i_dtn_flip ops h S mn mx s.objs R k hS hmn hmx (hF s hs) hR]

theorem gd_flip_invariant (ops : NumOps α) (h : OpsOk ops) (S : List Bool) (nobjs : Nat) (d : α)
    (ref set : List (ISol α)) (hS : S.length = nobjs)
    (href : ∀ s ∈ ref, s.objs.length = nobjs) (hset : ∀ s ∈ set, s.objs.length = nobjs) :
    generationalDistance ops nobjs d (ref.map (flipISol S)) (set.map (flipISol S)) =
      generationalDistance ops nobjs d ref set := by
  unfold generationalDistance
  cases hr : refNormalize ops nobjs ref with
  | error e =>
    rw [c10i_refNormalize_flip_err ops S nobjs ref e hS href hr]
    rfl
  | ok r =>
    obtain ⟨⟨mn, mx⟩, refN⟩ := r
    obtain ⟨hb, hc, hrefN⟩ := refNormalize_ok hr
    obtain ⟨hmn, hmx⟩ := boundsOf_length hb
    rw [c10i_refNormalize_flip_ok ops S nobjs ref mn mx refN hS href hr]
    simp only [bind, Except.bind, pure, Except.pure]
    rw [c10i_filter_flip, List.isEmpty_map, checkRanges_flip ops.eps S mn mx (by omega) (by omega), List.length_map, hc]
    simp only []
    subst hrefN
    rw [c10i_map_flip, c10i_gd_list_flip ops h S mn mx (set.filter isFeasible) (ref.filter isFeasible) nobjs (fun t => ops.pow t d)
      hS hmn hmx (fun s hs => hset s (List.mem_of_mem_filter hs)) (fun s hs => href s (List.mem_of_mem_filter hs))]

theorem igd_flip_invariant (ops : NumOps α) (h : OpsOk ops) (S : List Bool) (nobjs : Nat) (d : α)
    (ref set : List (ISol α)) (hS : S.length = nobjs)
    (href : ∀ s ∈ ref, s.objs.length = nobjs) (hset : ∀ s ∈ set, s.objs.length = nobjs) :
    invertedGenerationalDistance ops nobjs d (ref.map (flipISol S)) (set.map (flipISol S)) =
      invertedGenerationalDistance ops nobjs d ref set := by
  unfold invertedGenerationalDistance
  cases hr : refNormalize ops nobjs ref with
  | error e =>
    rw [c10i_refNormalize_flip_err ops S nobjs ref e hS href hr]
    rfl
  | ok r =>
    obtain ⟨⟨mn, mx⟩, refN⟩ := r
    obtain ⟨hb, hc, hrefN⟩ := refNormalize_ok hr
    obtain ⟨hmn, hmx⟩ := boundsOf_length hb
    rw [c10i_refNormalize_flip_ok ops S nobjs ref mn mx refN hS href hr]
    simp only [bind, Except.bind, pure, Except.pure]
    rw [c10i_filter_flip, List.isEmpty_map, checkRanges_flip ops.eps S mn mx (by omega) (by omega), List.length_map, hc]
    subst hrefN
    rw [c10i_map_flip, c10i_gd_list_flip ops h S mn mx (ref.filter isFeasible) (set.filter isFeasible) nobjs (fun t => ops.pow t d)
      hS hmn hmx (fun s hs => href s (List.mem_of_mem_filter hs)) (fun s hs => hset s (List.mem_of_mem_filter hs)),
      List.isEmpty_map, List.isEmpty_map, List.length_map]

/-! ### the additive ε-indicator -/

theorem c10i_epsTerm_eq (dirs : List Bool) (a r : List α) :
    List.zipWith (fun (dk : Bool × α) rk => if true && dk.1 then rk - dk.2 else dk.2 - rk) (dirs.zip a) r =
      flipObjs dirs (List.zipWith (fun a b => a - b) a r) := by
  apply List.ext_getElem
  · simp [flipObjs]
  · intro i h1 h2
    simp only [flipObjs, List.getElem_zipWith, List.getElem_zip, Bool.true_and]
    split
    · ring
    · rfl

theorem c10i_flipObjs_flipDirs (S dirs : List Bool) (z : List α) (hS : S.length = dirs.length) :
    flipObjs (flipDirs S dirs) (flipObjs S z) = flipObjs dirs z := by
  apply List.ext_getElem
  · simp [flipObjs, flipDirs, hS]
  · intro i h1 h2
    simp only [flipObjs, flipDirs, List.length_zipWith] at h1 h2
    have hiS : i < S.length := by omega
    have hid : i < dirs.length := by omega
    simp only [flipObjs, flipDirs, List.getElem_zipWith]
    cases S[i] <;> cases dirs[i] <;> simp

theorem c10i_epsDiff_flip (S dirs : List Bool) (mn mx a r : List α) (k : Nat)
    (hS : S.length = k) (hd : dirs.length = k) (hmn : mn.length = k) (hmx : mx.length = k)
    (ha : a.length = k) (hr : r.length = k) :
    pyMaxList 0 (List.zipWith (fun (dk : Bool × α) rk => if true && dk.1 then rk - dk.2 else dk.2 - rk)
        ((flipDirs S dirs).zip (normObjs (flipLo S mn mx) (flipHi S mn mx) (flipObjs S a)))
        (normObjs (flipLo S mn mx) (flipHi S mn mx) (flipObjs S r))) =
      pyMaxList 0 (List.zipWith (fun (dk : Bool × α) rk => if true && dk.1 then rk - dk.2 else dk.2 - rk)
        (dirs.zip (normObjs mn mx a)) (normObjs mn mx r)) := by
  rw [c10i_epsTerm_eq, c10i_epsTerm_eq, c10i_normDiff_flip S mn mx a r k hS hmn hmx ha hr,
    c10i_flipObjs_flipDirs S dirs _ (by omega)]

theorem epsIndicator_flip_invariant (ops : NumOps α) (h : OpsOk ops) (S dirs : List Bool) (nobjs : Nat)
    (ref set : List (ISol α)) (hS : S.length = nobjs) (hd : dirs.length = nobjs)
    (href : ∀ s ∈ ref, s.objs.length = nobjs) (hset : ∀ s ∈ set, s.objs.length = nobjs) :
    epsilonIndicator ops true (flipDirs S dirs) nobjs (ref.map (flipISol S)) (set.map (flipISol S)) =
      epsilonIndicator ops true dirs nobjs ref set := by
  have _ := h
  unfold epsilonIndicator
  cases hr : refNormalize ops nobjs ref with
  | error e =>
    rw [c10i_refNormalize_flip_err ops S nobjs ref e hS href hr]
    rfl
  | ok r =>
    obtain ⟨⟨mn, mx⟩, refN⟩ := r
    obtain ⟨hb, hc, hrefN⟩ := refNormalize_ok hr
    obtain ⟨hmn, hmx⟩ := boundsOf_length hb
    rw [c10i_refNormalize_flip_ok ops S nobjs ref mn mx refN hS href hr]
    simp only [bind, Except.bind, pure, Except.pure]
    rw [c10i_filter_flip, List.isEmpty_map, checkRanges_flip ops.eps S mn mx (by omega) (by omega), hc]
    subst hrefN
    have hlist : ((ref.filter isFeasible).map
          (fun s => normObjs (flipLo S mn mx) (flipHi S mn mx) (flipObjs S s.objs))).map
        (fun r => pyMinList 0
          ((((set.filter isFeasible).map (flipISol S)).map
              (fun s => normObjs (flipLo S mn mx) (flipHi S mn mx) s.objs)).map
            (fun a => pyMaxList 0 (List.zipWith
              (fun (dk : Bool × α) rk => if true && dk.1 then rk - dk.2 else dk.2 - rk)
              ((flipDirs S dirs).zip a) r)))) =
      ((ref.filter isFeasible).map (fun s => normObjs mn mx s.objs)).map
        (fun r => pyMinList 0
          (((set.filter isFeasible).map (fun s => normObjs mn mx s.objs)).map
            (fun a => pyMaxList 0 (List.zipWith
              (fun (dk : Bool × α) rk => if true && dk.1 then rk - dk.2 else dk.2 - rk)
              (dirs.zip a) r)))) := by
      simp only [List.map_map]
      apply List.map_congr_left
      intro sr hsr
      simp only [Function.comp]
      congr 1
      apply List.map_congr_left
      intro sa hsa
      exact c10i_epsDiff_flip S dirs mn mx sa.objs sr.objs nobjs hS hd hmn hmx
        (hset sa (List.mem_of_mem_filter hsa)) (href sr (List.mem_of_mem_filter hsr))
    rw [hlist, List.isEmpty_map, List.isEmpty_map]

/-! ### spacing -/

theorem c10i_manhattan_flip (ops : NumOps α) (S : List Bool) (x y : List α)
    (hx : x.length = S.length) (hy : y.length = S.length) :
    manhattan ops (flipObjs S x) (flipObjs S y) = manhattan ops x y := by
  unfold manhattan
  congr 1
  apply List.ext_getElem
  · simp [flipObjs, hx, hy]
  · intro i h1 h2
    simp only [flipObjs, List.getElem_zipWith]
    split
    · rw [absA_eq, absA_eq, ← abs_neg]
      congr 1
      ring
    · rfl

theorem c10i_spacing_ds (ops : NumOps α) (S : List Bool) (idx : List (List α × Nat))
    (hidx : ∀ p ∈ idx, p.1.length = S.length) :
    (idx.map (Prod.map (flipObjs S) id)).map
        (fun (x, i) => pyMinList 0 (((idx.map (Prod.map (flipObjs S) id)).filter
          (fun (q : List α × Nat) => q.2 != i)).map (fun (q : List α × Nat) => manhattan ops x q.1))) =
      idx.map (fun (x, i) => pyMinList 0 ((idx.filter (fun (q : List α × Nat) => q.2 != i)).map
          (fun (q : List α × Nat) => manhattan ops x q.1))) := by
  rw [List.map_map]
  apply List.map_congr_left
  rintro ⟨x, i⟩ hp
  simp only [Function.comp, Prod.map, id]
  rw [List.filter_map, List.map_map]
  have hfil : ((fun q : List α × Nat => q.2 != i) ∘ Prod.map (flipObjs S) id) =
      fun q => q.2 != i := rfl
  rw [hfil]
  congr 1
  apply List.map_congr_left
  intro q hq
  simp only [Function.comp, Prod.map]
  exact c10i_manhattan_flip ops S x q.1 (hidx (x, i) hp) (hidx q (List.mem_of_mem_filter hq))

theorem spacing_flip_invariant (ops : NumOps α) (h : OpsOk ops) (S : List Bool) (nobjs : Nat)
    (set : List (ISol α)) (hS : S.length = nobjs) (hset : ∀ s ∈ set, s.objs.length = nobjs) :
    spacing ops (set.map (flipISol S)) = spacing ops set := by
  have _ := h
  have hL : ((set.map (flipISol S)).filter isFeasible).map (·.objs) =
      ((set.filter isFeasible).map (·.objs)).map (flipObjs S) := by
    rw [c10i_filter_flip, List.map_map, List.map_map]; rfl
  have hLlen : ∀ p ∈ ((set.filter isFeasible).map (·.objs)).zipIdx, p.1.length = S.length := by
    intro p hp
    obtain ⟨s, hs, hsx⟩ := List.mem_map.mp (List.fst_mem_of_mem_zipIdx hp)
    rw [← hsx, hS]
    exact hset s (List.mem_of_mem_filter hs)
  unfold spacing
  simp only []
  rw [hL, List.length_map, List.zipIdx_map, c10i_spacing_ds ops S _ hLlen]

end Platypus
