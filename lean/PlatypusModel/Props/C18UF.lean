import PlatypusModel.Model.UF
import PlatypusModel.Props.C18
/-
C18, CEC 2009 part — no input with `x₁ ≥ 0` evaluates below the published Pareto front of UF1–UF4 and UF7
(reference implementations of `Model/UF.lean`, compared with platypus/problems.py on every run):
UF1–3: `f₂ ≥ 1 - √f₁`; UF4: `f₂ ≥ 1 - f₁²`; UF7: `f₂ ≥ 1 - f₁`.
-/
namespace Platypus.C18
open Platypus

variable {α : Type} [Field α] [LinearOrder α] [IsStrictOrderedRing α]

/-- what the proofs use about the functions besides `TrigOK` -/
structure UFOk (t : Trig α) (o : WOps α) : Prop where
  sqrt_mono : ∀ a b : α, 0 ≤ a → a ≤ b → t.sqrt a ≤ t.sqrt b
  exp_pos : ∀ x : α, 0 < t.exp x
  abs_nonneg : ∀ x : α, 0 ≤ o.abs x

/-! ### helpers -/

theorem c18u_neg_one_le_cos (t : Trig α) (h : TrigOK t) (x : α) : -1 ≤ t.cos x := by
  have h1 := h.pythag x
  nlinarith [mul_self_nonneg (t.sin x), mul_self_nonneg (t.cos x + 1)]

theorem c18u_prodL_bounds (l : List α) (hl : ∀ v ∈ l, -1 ≤ v ∧ v ≤ 1) : -1 ≤ prodL l ∧ prodL l ≤ 1 := by
  induction l with
  | nil => rw [c18_prodL_nil]; constructor <;> norm_num
  | cons a l ih =>
    rw [c18_prodL_cons]
    obtain ⟨ha1, ha2⟩ := hl a (by simp)
    obtain ⟨hp1, hp2⟩ := ih (fun v hv => hl v (by simp [hv]))
    have e1 := mul_nonneg (sub_nonneg.2 ha2) (sub_nonneg.2 hp2)
    have e2 := mul_nonneg (sub_nonneg.2 ha1) (sub_nonneg.2 hp1)
    have e3 := mul_nonneg (sub_nonneg.2 ha2) (sub_nonneg.2 hp1)
    have e4 := mul_nonneg (sub_nonneg.2 ha1) (sub_nonneg.2 hp2)
    constructor <;> nlinarith

theorem c18u_sumL_map_nonneg {β : Type} (l : List β) (f : β → α) (hf : ∀ j, 0 ≤ f j) : 0 ≤ sumL (l.map f) := by
  apply c18_sumL_nonneg
  intro v hv
  rw [List.mem_map] at hv
  obtain ⟨j, _, rfl⟩ := hv
  exact hf j

theorem c18u_sqrt_shape (t : Trig α) (o : WOps α) (hu : UFOk t o) (x1 A B : α) (hx : 0 ≤ x1) (hA : 0 ≤ A)
    (hB : 0 ≤ B) : 1 - t.sqrt (x1 + A) ≤ 1 - t.sqrt x1 + B := by
  have hs := hu.sqrt_mono x1 (x1 + A) hx (le_add_of_nonneg_right hA)
  linarith

theorem c18u_sq_shape (x1 A B : α) (hx : 0 ≤ x1) (hA : 0 ≤ A) (hB : 0 ≤ B) :
    1 - (x1 + A) * (x1 + A) ≤ 1 - x1 * x1 + B := by
  nlinarith [mul_nonneg hx hA, mul_nonneg hA hA]

theorem c18u_coef_nonneg (t : Trig α) (h : TrigOK t) (n : Nat) (r : α) (hr : 0 ≤ r) :
    0 ≤ t.ofNat 2 / t.ofNat n * r := by
  rw [h.ofNat_eq, h.ofNat_eq]
  exact mul_nonneg (div_nonneg (Nat.cast_nonneg _) (Nat.cast_nonneg _)) hr

theorem uf_lengths (t : Trig α) (o : WOps α) (x : List α) :
    (uf1 t x).length = 2 ∧ (uf2 t x).length = 2 ∧ (uf3 t x).length = 2 ∧ (uf4 t o x).length = 2 ∧
    (uf5 t o x).length = 2 ∧ (uf6 t o x).length = 2 ∧ (uf7 t x).length = 2 ∧
    (uf8 t x).length = 3 ∧ (uf9 t o x).length = 3 ∧ (uf10 t x).length = 3 := by
  refine ⟨rfl, rfl, rfl, rfl, rfl, rfl, rfl, rfl, rfl, rfl⟩

/-- `(2/|J|) Σ_{j∈J} term j ≥ 0` for non-negative terms -/
theorem meanTwice_nonneg (t : Trig α) (h : TrigOK t) (J : List Nat) (term : Nat → α) (hterm : ∀ j, 0 ≤ term j) :
    0 ≤ meanTwice t J term := by
  unfold meanTwice
  rw [h.ofNat_eq, h.ofNat_eq]
  exact div_nonneg (mul_nonneg (Nat.cast_nonneg _) (c18u_sumL_map_nonneg J term hterm)) (Nat.cast_nonneg _)

/-- `4 Σ y² - 2 Π cos(…) + 2 ≥ 0` -/
theorem rastLike_nonneg (t : Trig α) (h : TrigOK t) (J : List Nat) (y : Nat → α) : 0 ≤ rastLike t J y := by
  unfold rastLike
  rw [h.ofNat_eq, h.ofNat_eq]
  have h1 : 0 ≤ sumL (J.map fun j => y j * y j) := c18u_sumL_map_nonneg J _ (fun j => mul_self_nonneg (y j))
  have h2 := (c18u_prodL_bounds (J.map fun j => t.cos (t.ofNat 20 * y j * t.pi / t.sqrt (t.ofNat j))) (by
    intro v hv
    rw [List.mem_map] at hv
    obtain ⟨j, _, rfl⟩ := hv
    exact ⟨c18u_neg_one_le_cos t h _, c18_cos_le_one t h _⟩)).2
  push_cast
  linarith

theorem uf1_front (t : Trig α) (o : WOps α) (h : TrigOK t) (hu : UFOk t o) (x : List α) (hx : 0 ≤ xat x 1) :
    1 - t.sqrt ((uf1 t x).getD 0 0) ≤ (uf1 t x).getD 1 0 := by
  have hA := meanTwice_nonneg t h (idxSet 2 x.length 2 1)
    (fun j => (xat x j - phase t x j) * (xat x j - phase t x j)) (fun j => mul_self_nonneg _)
  have hB := meanTwice_nonneg t h (idxSet 2 x.length 2 0)
    (fun j => (xat x j - phase t x j) * (xat x j - phase t x j)) (fun j => mul_self_nonneg _)
  have hs := hu.sqrt_mono (xat x 1) _ hx (le_add_of_nonneg_right hA)
  show 1 - t.sqrt (xat x 1 + meanTwice t (idxSet 2 x.length 2 1) _)
    ≤ 1 - t.sqrt (xat x 1) + meanTwice t (idxSet 2 x.length 2 0) _
  linarith

theorem uf2_front (t : Trig α) (o : WOps α) (h : TrigOK t) (hu : UFOk t o) (x : List α) (hx : 0 ≤ xat x 1) :
    1 - t.sqrt ((uf2 t x).getD 0 0) ≤ (uf2 t x).getD 1 0 := by
  simp only [uf2, List.getD_cons_zero, List.getD_cons_succ]
  apply c18u_sqrt_shape t o hu _ _ _ hx
  · exact meanTwice_nonneg t h _ _ (fun j => mul_self_nonneg _)
  · exact meanTwice_nonneg t h _ _ (fun j => mul_self_nonneg _)

theorem uf3_front (t : Trig α) (o : WOps α) (h : TrigOK t) (hu : UFOk t o) (x : List α) (hx : 0 ≤ xat x 1) :
    1 - t.sqrt ((uf3 t x).getD 0 0) ≤ (uf3 t x).getD 1 0 := by
  simp only [uf3, List.getD_cons_zero, List.getD_cons_succ]
  apply c18u_sqrt_shape t o hu _ _ _ hx
  · exact c18u_coef_nonneg t h _ _ (rastLike_nonneg t h _ _)
  · exact c18u_coef_nonneg t h _ _ (rastLike_nonneg t h _ _)

theorem uf4_front (t : Trig α) (o : WOps α) (h : TrigOK t) (hu : UFOk t o) (x : List α) (hx : 0 ≤ xat x 1) :
    1 - (uf4 t o x).getD 0 0 * (uf4 t o x).getD 0 0 ≤ (uf4 t o x).getD 1 0 := by
  have hterm : ∀ j, 0 ≤ o.abs (xat x j - phase t x j)
      / (1 + t.exp (t.ofNat 2 * o.abs (xat x j - phase t x j))) := by
    intro j
    have h1 := hu.abs_nonneg (xat x j - phase t x j)
    have h2 := hu.exp_pos (t.ofNat 2 * o.abs (xat x j - phase t x j))
    exact div_nonneg h1 (by linarith)
  simp only [uf4, List.getD_cons_zero, List.getD_cons_succ]
  apply c18u_sq_shape _ _ _ hx
  · exact meanTwice_nonneg t h _ _ hterm
  · exact meanTwice_nonneg t h _ _ hterm

theorem uf7_front (t : Trig α) (h : TrigOK t) (x : List α) :
    1 - (uf7 t x).getD 0 0 ≤ (uf7 t x).getD 1 0 := by
  simp only [uf7, List.getD_cons_zero, List.getD_cons_succ]
  have hA := meanTwice_nonneg t h (idxSet 2 x.length 2 1)
    (fun j => (xat x j - phase t x j) * (xat x j - phase t x j)) (fun j => mul_self_nonneg _)
  have hB := meanTwice_nonneg t h (idxSet 2 x.length 2 0)
    (fun j => (xat x j - phase t x j) * (xat x j - phase t x j)) (fun j => mul_self_nonneg _)
  linarith

end Platypus.C18
