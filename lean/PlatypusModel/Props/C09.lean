import PlatypusModel.Model.Survival
import PlatypusModel.Props.C04
import PlatypusModel.Props.C05
import PlatypusModel.Lemmas.Survival
set_option linter.unusedSectionVars false
/-!
# C09 — elitist algorithms never lose their best solutions

Survival selections as functions of the merged parents-plus-offspring, for every merged population,
every population size; archive results for every insertion history; single-objective GA / ES for every
total preorder comparator.
-/
namespace Platypus

variable {σ : Type}

/-! ### rank-then-anything truncation (NSGA-II; NSGA-III's fronts that fit) -/

/-- Any truncation by a total transitive key that puts smaller rank first keeps the whole front 0 when
it fits, and otherwise keeps only members of front 0 -/
theorem rank_truncate_elitist (rank : σ → Nat) (le : σ → σ → Bool)
    (htotal : ∀ a b, le a b = true ∨ le b a = true)
    (htrans : ∀ a b c, le a b = true → le b c = true → le a c = true)
    (hrank : ∀ a b, rank a < rank b → le b a = false)
    (merged : List σ) (N : Nat) :
    ((merged.filter (fun x => rank x == 0)).length ≤ N →
        ∀ x ∈ merged, rank x = 0 → x ∈ truncateBy le merged N) ∧
    (N < (merged.filter (fun x => rank x == 0)).length →
        ∀ x ∈ truncateBy le merged N, rank x = 0) := by
  have hs := sorted_pairwise le htotal htrans merged
  have hperm := List.mergeSort_perm merged le
  have hsplit := eq_filter_append_of_pairwise (R := fun a b => le a b = true)
    (fun x => rank x == 0)
    (by
      intro a b ha hb hab
      have ha' : rank a ≠ 0 := by simpa using ha
      have hb' : rank b = 0 := by simpa using hb
      have := hrank b a (by omega)
      rw [hab] at this; cases this)
    (merged.mergeSort le) hs
  have hlen : ((merged.mergeSort le).filter (fun x => rank x == 0)).length =
      (merged.filter (fun x => rank x == 0)).length := (hperm.filter _).length_eq
  unfold truncateBy
  constructor
  · intro hfit x hx hr
    have hxA : x ∈ (merged.mergeSort le).filter (fun x => rank x == 0) :=
      List.mem_filter.mpr ⟨hperm.mem_iff.mpr hx, by simp [hr]⟩
    have hpre : (merged.mergeSort le).filter (fun x => rank x == 0) <+:
        (merged.mergeSort le).take N := by
      rw [List.prefix_take_iff]
      exact ⟨⟨_, hsplit.symm⟩, by omega⟩
    exact hpre.subset hxA
  · intro hlt x hx
    rw [hsplit, List.take_append_of_le_length (by omega)] at hx
    have := List.mem_of_mem_take hx
    simpa using (List.mem_filter.mp this).2

/-- NSGA-II's comparator (rank, then larger crowding distance) is such a key -/
theorem sortCmp_rank_first {κ : Type} [LinearOrder κ] [Neg κ] (a b : Ranked κ) (h : a.rank < b.rank) :
    decide (sortCmp b a ≤ 0) = false := by
  have h1 : (b.rank == a.rank) = false := by simp; omega
  have h2 : ¬ b.rank < a.rank := by omega
  unfold sortCmp
  simp [h1, h2, h]

/-! ### GDE3 -/

/-- the pairwise replacement only drops solutions that are dominated: every non-dominated member of
parents ∪ offspring survives it -/
theorem gde3_pairwise_keeps_nondominated {cmp : σ → σ → Int} (h : StrictCmp cmp)
    (offspring population : List σ) (hl : offspring.length = population.length) (x : σ)
    (hx : x ∈ offspring ++ population) (hnd : ∀ y ∈ offspring ++ population, ¬ cmp y x < 0) :
    x ∈ gde3Pairwise cmp offspring population := by
  induction offspring generalizing population with
  | nil =>
    cases population with
    | nil => simp at hx
    | cons p ps => simp at hl
  | cons o os ih =>
    cases population with
    | nil => simp at hl
    | cons p ps =>
      rw [mem_gde3_cons]
      have hanti := h.antisymm o p
      have hrec : x ∈ os ++ ps → x ∈ gde3Pairwise cmp os ps := fun hm =>
        ih ps (by simpa using hl) hm (fun y hy => hnd y (by
          rcases List.mem_append.mp hy with hy | hy <;> simp [hy]))
      have ho := hnd o (by simp)
      have hp := hnd p (by simp)
      simp only [List.cons_append, List.mem_cons, List.mem_append] at hx
      rcases hx with rfl | hx | rfl | hx
      · left; exact ⟨rfl, by omega⟩
      · right; right; exact hrec (List.mem_append_left _ hx)
      · right; left; exact ⟨rfl, by omega⟩
      · right; right; exact hrec (List.mem_append_right _ hx)

theorem gde3_pairwise_subset (cmp : σ → σ → Int) (offspring population : List σ) :
    ∀ x ∈ gde3Pairwise cmp offspring population, x ∈ offspring ++ population := by
  induction offspring generalizing population with
  | nil => intro x hx; simp [gde3Pairwise] at hx
  | cons o os ih =>
    cases population with
    | nil => intro x hx; simp [gde3Pairwise] at hx
    | cons p ps =>
      intro x hx
      rw [mem_gde3_cons] at hx
      rcases hx with ⟨rfl, _⟩ | ⟨rfl, _⟩ | hx
      · simp
      · simp
      · have := ih ps x hx
        rcases List.mem_append.mp this with h | h <;> simp [h]

/-- what it drops is dominated by something it keeps, so the non-dominated front is unchanged -/
theorem gde3_pairwise_dropped_dominated {cmp : σ → σ → Int} (h : StrictCmp cmp)
    (offspring population : List σ) (hl : offspring.length = population.length) (x : σ)
    (hx : x ∈ offspring ++ population) (hdrop : x ∉ gde3Pairwise cmp offspring population) :
    ∃ y ∈ gde3Pairwise cmp offspring population, cmp y x < 0 := by
  induction offspring generalizing population with
  | nil =>
    cases population with
    | nil => simp at hx
    | cons p ps => simp at hl
  | cons o os ih =>
    cases population with
    | nil => simp at hl
    | cons p ps =>
      have hanti := h.antisymm o p
      rw [mem_gde3_cons] at hdrop
      have hrec : x ∈ os ++ ps → ∃ y ∈ gde3Pairwise cmp (o :: os) (p :: ps), cmp y x < 0 := by
        intro hm
        obtain ⟨y, hy, hlt⟩ := ih ps (by simpa using hl) hm (fun hc => hdrop (Or.inr (Or.inr hc)))
        exact ⟨y, (mem_gde3_cons cmp o p os ps y).mpr (Or.inr (Or.inr hy)), hlt⟩
      simp only [List.cons_append, List.mem_cons, List.mem_append] at hx
      rcases hx with rfl | hx | rfl | hx
      · have hgt : ¬ cmp x p ≤ 0 := fun hc => hdrop (Or.inl ⟨rfl, hc⟩)
        exact ⟨p, (mem_gde3_cons cmp x p os ps p).mpr (Or.inr (Or.inl ⟨rfl, by omega⟩)), by omega⟩
      · exact hrec (List.mem_append_left _ hx)
      · have hlt : ¬ cmp o x ≥ 0 := fun hc => hdrop (Or.inr (Or.inl ⟨rfl, hc⟩))
        exact ⟨o, (mem_gde3_cons cmp o x os ps o).mpr (Or.inl ⟨rfl, by omega⟩), by omega⟩
      · exact hrec (List.mem_append_right _ hx)

/-- pruning by rank (GDE3, NSGA-III's split): front 0 is kept entirely when it fits, otherwise only
members of front 0 are kept.  `rank` values are contiguous from 0 (`fronts_nonempty`). -/
theorem prune_elitist {κ : Type} (rank : σ → Nat) (cd : List σ → List κ) (ge : κ → κ → Bool)
    (hcd : ∀ l, (cd l).length = l.length) (l : List σ) (N : Nat) (hN : 0 < N) :
    ((matchesRank rank l 0).length ≤ N → ∀ x ∈ l, rank x = 0 → x ∈ nondominatedPrune rank cd ge l N) ∧
    (N < (matchesRank rank l 0).length → ∀ x ∈ nondominatedPrune rank cd ge l N, rank x = 0) := by
  obtain ⟨r, hfirst, hfl, hlast⟩ := split_spec rank l N
  obtain ⟨kept, hres, hkept⟩ := prune_subperm rank cd ge hcd l N
  have hsub0 : 0 < r → ∀ x ∈ matchesRank rank l 0, x ∈ (nondominatedSplit rank l N).1 := by
    intro hr x hx
    rw [hfirst, List.mem_flatMap]
    exact ⟨0, List.mem_range.mpr hr, hx⟩
  have hlen0 : 0 < r → (matchesRank rank l 0).length ≤ (nondominatedSplit rank l N).1.length := by
    intro hr
    obtain ⟨n, rfl⟩ : ∃ n, r = n + 1 := ⟨r - 1, by omega⟩
    rw [hfirst, List.range_succ_eq_map, List.flatMap_cons, List.length_append]
    omega
  constructor
  · intro hfit x hx hrk
    have hx0 : x ∈ matchesRank rank l 0 := List.mem_filter.mpr ⟨hx, by simp [hrk]⟩
    have hr : 0 < r := by
      rcases Nat.eq_zero_or_pos r with h0 | h0
      · exfalso
        subst h0
        have hf0 : (nondominatedSplit rank l N).1.length = 0 := by rw [hfirst]; simp
        rcases hlast with ⟨_, hN' | hemp⟩ | ⟨h2, hlt⟩
        · omega
        · rw [hemp] at hx0; simp at hx0
        · rw [h2] at hlt; omega
      · exact h0
    rw [hres]
    exact List.mem_append_left _ (hsub0 hr x hx0)
  · intro hlt x hx
    have hr : r = 0 := by
      rcases Nat.eq_zero_or_pos r with h0 | h0
      · exact h0
      · have := hlen0 h0; omega
    subst hr
    have hf0 : (nondominatedSplit rank l N).1 = [] := by rw [hfirst]; simp
    rw [hres, hf0, List.nil_append] at hx
    have hx2 := hkept.subset hx
    rcases hlast with ⟨h2, _⟩ | ⟨h2, _⟩
    · rw [h2] at hx2; simp at hx2
    · rw [h2] at hx2
      simpa [matchesRank] using (List.mem_filter.mp hx2).2

/-! ### SPEA2 -/

/-- raw fitness 0 ⇔ non-dominated (so `fitness < 1 ⇔ non-dominated`, the density term lying in (0, ½]) -/
theorem spea2_raw_zero_iff {cmp : σ → σ → Int} (h : StrictCmp cmp) (sols : List σ) (x : σ) (hx : x ∈ sols) :
    spea2Raw cmp sols x = 0 ↔ ∀ y ∈ sols, ¬ cmp y x < 0 := by
  unfold spea2Raw
  rw [List.sum_eq_zero_iff_forall_eq_nat]
  constructor
  · intro hall y hy hlt
    have h0 := hall (spea2Strength cmp sols y)
      (List.mem_map.mpr ⟨y, List.mem_filter.mpr ⟨hy, by simpa using hlt⟩, rfl⟩)
    unfold spea2Strength at h0
    have hxm : x ∈ sols.filter (fun z => cmp y z < 0) :=
      List.mem_filter.mpr ⟨hx, by simpa using hlt⟩
    rw [List.length_eq_zero_iff] at h0
    rw [h0] at hxm; simp at hxm
  · intro hnd n hn
    obtain ⟨y, hy, _⟩ := List.mem_map.mp hn
    have := List.mem_filter.mp hy
    exact absurd (by simpa using this.2) (hnd y this.1)

/-- for every "most crowded" choice: all good (non-dominated) solutions survive if they fit, otherwise
only good ones survive; and exactly `min size n` survive -/
theorem spea2_truncate_elitist (good : σ → Bool) (le : σ → σ → Bool) (pick : List σ → Nat)
    (hpick : ∀ l : List σ, l ≠ [] → pick l < l.length) (sols : List σ) (size : Nat) :
    ((sols.filter good).length ≤ size → ∀ x ∈ sols, good x = true → x ∈ spea2Truncate good le pick sols size) ∧
    (size < (sols.filter good).length → ∀ x ∈ spea2Truncate good le pick sols size, good x = true) ∧
    (spea2Truncate good le pick sols size).length = min size sols.length := by
  have hsum := length_filter_add_not good sols
  unfold spea2Truncate
  by_cases hlt : (sols.filter good).length < size
  · simp only [hlt, if_true]
    refine ⟨?_, ?_, ?_⟩
    · intro _ x hx hg
      exact List.mem_append_left _ (List.mem_filter.mpr ⟨hx, hg⟩)
    · intro h; omega
    · rw [List.length_append, List.length_take, List.length_mergeSort]
      omega
  · simp only [hlt, if_false]
    obtain ⟨hsub, hlen⟩ := spea2Reduce_spec pick hpick size (sols.filter good).length
      (sols.filter good) (by omega)
    refine ⟨?_, ?_, ?_⟩
    · intro hfit x hx hg
      have hxs : x ∈ sols.filter good := List.mem_filter.mpr ⟨hx, hg⟩
      have heq : spea2Reduce pick (sols.filter good).length (sols.filter good) size =
          sols.filter good := hsub.eq_of_length (by rw [hlen]; omega)
      rw [heq]; exact hxs
    · intro _ x hx
      exact (List.mem_filter.mp (hsub.subset hx)).2
    · rw [hlen]; omega

/-! ### archives as results -/

/-- each member of an earlier Pareto-archive result is identical to, or dominated by, a member of every
later result -/
theorem archive_result_monotone {cmp : σ → σ → Int} (h : StrictCmp cmp) (xs ys : List σ) :
    ∀ m ∈ archiveOf cmp xs, m ∈ archiveOf cmp (xs ++ ys) ∨ ∃ m' ∈ archiveOf cmp (xs ++ ys), cmp m' m < 0 := by
  intro m hm
  have hmx := ((mem_archive_iff h xs m).mp hm).1
  exact archive_coverage h (xs ++ ys) m (List.mem_append_left _ hmx)

/-- the same for ε-box archives, in the archive's covering relation -/
theorem eps_archive_result_monotone {α : Type} [Field α] [LinearOrder α] [IsStrictOrderedRing α] [FloorRing α]
    (c : Bool) (dirs : List Bool) (eps : List α) (xs ys : List (Sol α)) (hwf : ∀ x ∈ xs ++ ys, WFe dirs eps x) :
    ∀ m ∈ (epsArchiveOf (epsCmpE c dirs eps) (sameBoxE c dirs eps) xs).1,
      ∃ m' ∈ (epsArchiveOf (epsCmpE c dirs eps) (sameBoxE c dirs eps) (xs ++ ys)).1, Covers c dirs eps m' m := by
  intro m hm
  have hmx := eps_members_offered c dirs eps xs m hm
  exact eps_coverage c dirs eps (xs ++ ys) hwf m (List.mem_append_left _ hmx)

/-! ### single-objective GA / ES -/

/-- GA: the new best is never worse than the old best -/
theorem ga_best_never_worse (le : σ → σ → Bool)
    (htotal : ∀ a b, le a b = true ∨ le b a = true)
    (htrans : ∀ a b c, le a b = true → le b c = true → le a c = true)
    (offspring : List σ) (fittest : σ) (N : Nat) (hN : 0 < N) :
    ∃ best, (gaSurvival le offspring fittest N).head? = some best ∧ le best fittest = true := by
  unfold gaSurvival
  exact truncate_head_le le htotal htrans _ N hN fittest (by simp)

/-- ES: the new best is never worse than any member of the old population -/
theorem es_best_never_worse (le : σ → σ → Bool)
    (htotal : ∀ a b, le a b = true ∨ le b a = true)
    (htrans : ∀ a b c, le a b = true → le b c = true → le a c = true)
    (offspring population : List σ) (N : Nat) (hN : 0 < N) (old : σ) (hold : old ∈ population) :
    ∃ best, (esSurvival le offspring population N).head? = some best ∧ le best old = true := by
  unfold esSurvival
  exact truncate_head_le le htotal htrans _ N hN old (List.mem_append_right _ hold)

end Platypus
