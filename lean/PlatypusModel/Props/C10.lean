import PlatypusModel.Model.Epsilon
import PlatypusModel.Model.Sorting
import PlatypusModel.Props.C03
set_option linter.unusedSectionVars false
/-!
# C10 — maximising an objective is equivalent to minimising its negation (comparisons, archives, ranks)

`S` marks the flipped objectives: their values are negated and their directions toggled.  Everything that
only looks at direction-adjusted values — Pareto comparison, ε-box comparison and `same_box`, archive
membership, non-dominated ranks — is unchanged, for every scalar type whose negation is an involution.
(The indicator clauses are in `C10Ind.lean`.)
-/
namespace Platypus

variable {α : Type}

def flipDirs (S dirs : List Bool) : List Bool := List.zipWith xor S dirs
def flipObjs [Neg α] (S : List Bool) (xs : List α) : List α := List.zipWith (fun f x => if f then -x else x) S xs
def flipSol [Neg α] (S : List Bool) (a : Sol α) : Sol α := { a with objs := flipObjs S a.objs }

section
variable [LT α] [DecidableLT α] [BEq α] [Neg α] [OfNat α 0]

/-- the direction-adjusted value does not change -/
theorem adj_flip (hneg : ∀ x : α, - -x = x) (f d : Bool) (x : α) :
    adj (xor f d) (if f then -x else x) = adj d x := by
  cases f <;> cases d <;> simp [adj, hneg]

theorem scan_flip_invariant (hneg : ∀ x : α, - -x = x) (S dirs : List Bool) (xs ys : List α)
    (hS : S.length = dirs.length) (hx : xs.length = dirs.length) (hy : ys.length = dirs.length) (d1 d2 : Bool) :
    scan (flipDirs S dirs) (flipObjs S xs) (flipObjs S ys) d1 d2 = scan dirs xs ys d1 d2 := by
  induction dirs generalizing S xs ys d1 d2 with
  | nil =>
    cases S <;> simp_all [flipDirs, flipObjs, scan]
  | cons d ds ih =>
    match S, xs, ys, hS, hx, hy with
    | f :: S, x :: xs, y :: ys, hS, hx, hy =>
      simp only [List.length_cons, Nat.add_right_cancel_iff] at hS hx hy
      have ih' := fun d1 d2 => ih S xs ys hS hx hy d1 d2
      simp only [flipDirs, flipObjs, List.zipWith_cons_cons] at ih' ⊢
      simp only [scan, adj_flip hneg, ih']

/-- every Pareto comparison is unchanged -/
theorem pareto_flip_invariant (hneg : ∀ x : α, - -x = x) (c : Bool) (S dirs : List Bool) (a b : Sol α)
    (hS : S.length = dirs.length) (ha : a.objs.length = dirs.length) (hb : b.objs.length = dirs.length) :
    paretoCompare c (flipDirs S dirs) (flipSol S a) (flipSol S b) = paretoCompare c dirs a b := by
  have h := scan_flip_invariant hneg S dirs a.objs b.objs hS ha hb false false
  simp only [paretoCompare, flipSol, h]
end

section
variable [LT α] [DecidableLT α] [BEq α] [Neg α] [OfNat α 0] [Sub α] [Mul α] [Div α] [Add α]

theorem boxScan_flip (hneg : ∀ x : α, - -x = x) (fl : α → α) (S dirs : List Bool) (eps xs ys : List α)
    (hS : S.length = dirs.length) (hx : xs.length = dirs.length) (hy : ys.length = dirs.length) (d1 d2 : Bool) :
    boxScan fl (flipDirs S dirs) eps (flipObjs S xs) (flipObjs S ys) d1 d2 = boxScan fl dirs eps xs ys d1 d2 := by
  induction dirs generalizing S eps xs ys d1 d2 with
  | nil =>
    cases S <;> simp_all [flipDirs, flipObjs, boxScan]
  | cons d ds ih =>
    match S, xs, ys, hS, hx, hy with
    | f :: S, x :: xs, y :: ys, hS, hx, hy =>
      simp only [List.length_cons, Nat.add_right_cancel_iff] at hS hx hy
      have ih' := fun eps d1 d2 => ih S eps xs ys hS hx hy d1 d2
      simp only [flipDirs, flipObjs, List.zipWith_cons_cons] at ih' ⊢
      cases eps with
      | nil => simp [boxScan]
      | cons e es => simp only [boxScan, adj_flip hneg, ih']

theorem cornerDist_flip (hneg : ∀ x : α, - -x = x) (fl sq : α → α) (S dirs : List Bool) (eps xs : List α)
    (hS : S.length = dirs.length) (hx : xs.length = dirs.length) (acc : α) :
    cornerDist fl sq (flipDirs S dirs) eps (flipObjs S xs) acc = cornerDist fl sq dirs eps xs acc := by
  induction dirs generalizing S eps xs acc with
  | nil =>
    cases S <;> simp_all [flipDirs, flipObjs, cornerDist]
  | cons d ds ih =>
    match S, xs, hS, hx with
    | f :: S, x :: xs, hS, hx =>
      simp only [List.length_cons, Nat.add_right_cancel_iff] at hS hx
      have ih' := fun eps acc => ih S eps xs hS hx acc
      simp only [flipDirs, flipObjs, List.zipWith_cons_cons] at ih' ⊢
      cases eps with
      | nil => simp [cornerDist]
      | cons e es => simp only [cornerDist, adj_flip hneg, ih']

/-- every ε-box comparison and `same_box` answer is unchanged (any floor / square functions) -/
theorem eps_flip_invariant (hneg : ∀ x : α, - -x = x) (fl sq : α → α) (c : Bool) (S dirs : List Bool) (eps : List α)
    (a b : Sol α) (hS : S.length = dirs.length) (ha : a.objs.length = dirs.length) (hb : b.objs.length = dirs.length) :
    epsCompare fl sq c (flipDirs S dirs) eps (flipSol S a) (flipSol S b) = epsCompare fl sq c dirs eps a b ∧
    sameBox fl c (flipDirs S dirs) eps (flipSol S a) (flipSol S b) = sameBox fl c dirs eps a b := by
  have h := boxScan_flip hneg fl S dirs eps a.objs b.objs hS ha hb false false
  have h1 := cornerDist_flip hneg fl sq S dirs eps a.objs hS ha 0
  have h2 := cornerDist_flip hneg fl sq S dirs eps b.objs hS hb 0
  constructor
  · simp only [epsCompare, flipSol, h, h1, h2]
  · simp only [sameBox, flipSol, h]

/-- the same for the repaired comparator (Pareto verdict first inside one box) -/
theorem epsP_flip_invariant (hneg : ∀ x : α, - -x = x) (fl sq : α → α) (c : Bool) (S dirs : List Bool) (eps : List α)
    (a b : Sol α) (hS : S.length = dirs.length) (ha : a.objs.length = dirs.length) (hb : b.objs.length = dirs.length) :
    epsCompareP fl sq c (flipDirs S dirs) eps (flipSol S a) (flipSol S b) = epsCompareP fl sq c dirs eps a b := by
  have h := boxScan_flip hneg fl S dirs eps a.objs b.objs hS ha hb false false
  have h1 := cornerDist_flip hneg fl sq S dirs eps a.objs hS ha 0
  have h2 := cornerDist_flip hneg fl sq S dirs eps b.objs hS hb 0
  have hp := pareto_flip_invariant hneg c S dirs a b hS ha hb
  simp only [flipSol] at hp
  simp only [epsCompareP, flipSol, h, h1, h2, hp]
end

/-! ### archives and ranks: any re-labelling that preserves all comparisons -/

variable {σ τ : Type}

theorem archiveAdd_mem (cmp : σ → σ → Int) (arch : List σ) (s a : σ)
    (h : a ∈ (archiveAdd cmp arch s).1) : a ∈ arch ∨ a = s := by
  unfold archiveAdd at h
  split at h
  · exact Or.inl h
  · simp only [List.mem_append, List.mem_filter, List.mem_singleton] at h
    rcases h with h | h
    · exact Or.inl h.1
    · exact Or.inr h

/-- one `add`, comparisons preserved only on a set `P` containing the archive and the newcomer -/
theorem archiveAdd_map_rel (P : σ → Prop) (cmp : σ → σ → Int) (cmp' : τ → τ → Int) (g : σ → τ)
    (hg : ∀ a b, P a → P b → cmp' (g a) (g b) = cmp a b) (arch : List σ) (s : σ)
    (hs : P s) (ha : ∀ a ∈ arch, P a) :
    archiveAdd cmp' (arch.map g) (g s) = ((archiveAdd cmp arch s).1.map g, (archiveAdd cmp arch s).2) := by
  have h1 : (arch.map g).any (fun m => decide (cmp' (g s) m > 0)) = arch.any (fun m => decide (cmp s m > 0)) := by
    rw [List.any_map]
    induction arch with
    | nil => rfl
    | cons m ms ih =>
      simp only [List.any_cons, Function.comp]
      rw [ih (fun a h => ha a (List.mem_cons_of_mem _ h)), hg s m hs (ha m List.mem_cons_self)]
  have h2 : (arch.map g).filter (fun m => decide (cmp' (g s) m = 0)) =
      (arch.filter (fun m => decide (cmp s m = 0))).map g := by
    rw [List.filter_map]
    congr 1
    apply List.filter_congr
    intro m hm
    simp only [Function.comp, hg s m hs (ha m hm)]
  unfold archiveAdd
  rw [h1, h2]
  split <;> simp

theorem archiveFold_map_rel (P : σ → Prop) (cmp : σ → σ → Int) (cmp' : τ → τ → Int) (g : σ → τ)
    (hg : ∀ a b, P a → P b → cmp' (g a) (g b) = cmp a b) (xs arch : List σ)
    (hx : ∀ a ∈ xs, P a) (ha : ∀ a ∈ arch, P a) :
    (xs.map g).foldl (fun a s => (archiveAdd cmp' a s).1) (arch.map g) =
      (xs.foldl (fun a s => (archiveAdd cmp a s).1) arch).map g := by
  induction xs generalizing arch with
  | nil => rfl
  | cons x xs ih =>
    simp only [List.map_cons, List.foldl_cons]
    rw [archiveAdd_map_rel P cmp cmp' g hg arch x (hx x List.mem_cons_self) ha]
    apply ih
    · exact fun a h => hx a (List.mem_cons_of_mem _ h)
    · intro a h
      rcases archiveAdd_mem cmp arch x a h with h | h
      · exact ha a h
      · exact h ▸ hx x List.mem_cons_self

theorem archive_map_commutes_rel (P : σ → Prop) (cmp : σ → σ → Int) (cmp' : τ → τ → Int) (g : σ → τ)
    (hg : ∀ a b, P a → P b → cmp' (g a) (g b) = cmp a b) (xs : List σ) (hx : ∀ a ∈ xs, P a) :
    archiveOf cmp' (xs.map g) = (archiveOf cmp xs).map g :=
  archiveFold_map_rel P cmp cmp' g hg xs [] hx (by simp)

/-- archive membership commutes with a comparison-preserving map (flip is one) -/
theorem archive_map_commutes (cmp : σ → σ → Int) (cmp' : τ → τ → Int) (g : σ → τ)
    (hg : ∀ a b, cmp' (g a) (g b) = cmp a b) (xs : List σ) :
    archiveOf cmp' (xs.map g) = (archiveOf cmp xs).map g := by
  exact archive_map_commutes_rel (fun _ => True) cmp cmp' g (fun a b _ _ => hg a b) xs (fun _ _ => trivial)

theorem removeIds_map (getId : σ → Nat) (getId' : τ → Nat) (g : σ → τ)
    (hid : ∀ a, getId' (g a) = getId a) (front l : List σ) :
    removeIds getId' (front.map g) (l.map g) = (removeIds getId front l).map g := by
  unfold removeIds
  rw [List.filter_map]
  congr 1
  apply List.filter_congr
  intro x _
  simp only [Function.comp_def, List.any_map, hid]

theorem peelFronts_map (cmp : σ → σ → Int) (cmp' : τ → τ → Int) (getId : σ → Nat) (getId' : τ → Nat) (g : σ → τ)
    (hg : ∀ a b, cmp' (g a) (g b) = cmp a b) (hid : ∀ a, getId' (g a) = getId a) (n : Nat) (xs : List σ) :
    peelFronts cmp' getId' n (xs.map g) = (peelFronts cmp getId n xs).map (List.map g) := by
  induction n generalizing xs with
  | zero => simp [peelFronts]
  | succ n ih =>
    cases xs with
    | nil => simp [peelFronts]
    | cons x xs =>
      have ha := archive_map_commutes cmp cmp' g hg (x :: xs)
      have hr := removeIds_map getId getId' g hid (archiveOf cmp (x :: xs)) (x :: xs)
      simp only [List.map_cons] at ha hr
      simp only [List.map_cons, peelFronts, ha, hr, ih]

/-- non-dominated fronts (hence ranks) commute with a comparison- and identity-preserving map -/
theorem fronts_map_commutes (cmp : σ → σ → Int) (cmp' : τ → τ → Int) (getId : σ → Nat) (getId' : τ → Nat) (g : σ → τ)
    (hg : ∀ a b, cmp' (g a) (g b) = cmp a b) (hid : ∀ a, getId' (g a) = getId a) (xs : List σ) :
    sortFronts cmp' getId' (xs.map g) = (sortFronts cmp getId xs).map (List.map g) := by
  unfold sortFronts
  rw [List.length_map]
  exact peelFronts_map cmp cmp' getId getId' g hg hid _ xs

theorem rank_map_invariant (cmp : σ → σ → Int) (cmp' : τ → τ → Int) (getId : σ → Nat) (getId' : τ → Nat) (g : σ → τ)
    (hg : ∀ a b, cmp' (g a) (g b) = cmp a b) (hid : ∀ a, getId' (g a) = getId a) (xs : List σ) (i : Nat) :
    rankIn getId' (sortFronts cmp' getId' (xs.map g)) i = rankIn getId (sortFronts cmp getId xs) i := by
  rw [fronts_map_commutes cmp cmp' getId getId' g hg hid xs]
  unfold rankIn
  rw [List.findIdx?_map]
  congr 1
  funext fr
  simp only [Function.comp_def, List.any_map, hid]

/-- the instance the property talks about: Pareto archives of flipped solutions -/
theorem pareto_archive_flip_commutes [LT α] [DecidableLT α] [BEq α] [Neg α] [OfNat α 0]
    (hneg : ∀ x : α, - -x = x) (c : Bool) (S dirs : List Bool) (xs : List (Sol α))
    (hS : S.length = dirs.length) (hx : ∀ x ∈ xs, x.objs.length = dirs.length) :
    (archiveOf (paretoCompare c (flipDirs S dirs)) (xs.map (flipSol S))).map (·.id) =
      (archiveOf (paretoCompare c dirs) xs).map (·.id) := by
  rw [archive_map_commutes_rel (fun x : Sol α => x.objs.length = dirs.length) (paretoCompare c dirs)
    (paretoCompare c (flipDirs S dirs)) (flipSol S)
    (fun a b ha hb => pareto_flip_invariant hneg c S dirs a b hS ha hb) xs hx, List.map_map]
  rfl

end Platypus
