import PlatypusModel.Lemmas.C06Perm
open List
set_option linter.unusedSectionVars false
/-!
# C06 (permutation operators: Swap, Insertion, PMX)

Offspring are permutations of exactly the declared elements for every parent permutation, every pair of
positions / cut points, every tape; the replacement-chain loop of PMX terminates within the model's fuel
(a termination proof); PMX treats its parents symmetrically.
-/
namespace Platypus

theorem swapAt_perm (p : List Nat) (i j : Nat) (hi : i < p.length) (hj : j < p.length) :
    (swapAt p i j).Perm p := by
  unfold swapAt
  rw [List.perm_iff_count]
  intro a
  have hj' : j < (p.set i (p.getD j 0)).length := by simpa using hj
  rw [List.count_set hj', List.count_set hi]
  have e1 : p.getD j 0 = p[j] := by simp [hj]
  have e2 : p.getD i 0 = p[i] := by simp [hi]
  have e3 : (p.set i (p.getD j 0))[j] = p[j] := by
    rw [List.getElem_set]; split
    · exact e1
    · rfl
  rw [e3, e1, e2]
  have hA : (if (p[i] == a) = true then 1 else 0) ≤ count a p := by
    split
    · rename_i h
      have : a ∈ p := by
        have := List.getElem_mem hi
        simp at h; rw [← h]; exact this
      exact List.count_pos_iff.mpr this
    · omega
  omega

theorem insertAt_perm (p : List Nat) (i j : Nat) (hi : i < p.length) (hj : j < p.length) :
    (insertAt p i j).Perm p := by
  unfold insertAt
  have e2 : p.getD i 0 = p[i] := by simp [hi]
  have hl : j ≤ (p.eraseIdx i).length := by rw [List.length_eraseIdx_of_lt hi]; omega
  refine (List.perm_insertIdx _ _ hl).trans ?_
  rw [e2, List.eraseIdx_eq_take_drop_succ]
  conv_rhs => rw [← List.take_append_drop i p, List.drop_eq_getElem_cons hi]
  exact List.perm_middle.symm

/-- the two positions drawn by `popTwo` are inside the permutation -/
theorem popTwo_range {α : Type} (n : Nat) (tape tape' : Tape α) (i j : Nat)
    (h : popTwo n tape = .ok ((i, j), tape')) : i < n ∧ j < n :=
  popTwo_lt n tape tape' i j h

section
variable {α : Type} [LinearOrder α]

theorem permMutVars_spec (zero one prob : α) (f : List Nat → Nat → Nat → List Nat)
    (hf : ∀ p i j, i < p.length → j < p.length → (f p i j).Perm p)
    (types : List (TypeD α)) (vars : List (Var α)) (hv : ValidVars types vars) :
    ∀ (w : Bool) (tape : Tape α) (vars' : List (Var α)) (w' : Bool) (tape' : Tape α),
    permMutVars zero one prob f types vars w tape = .ok ((vars', w'), tape') →
    ValidVars types vars' ∧ (w' = false → vars' = vars ∧ w = false) := by
  unfold ValidVars at *
  induction hv with
  | nil =>
    intro w tape vars' w' tape' h
    simp [permMutVars, pure, Except.pure] at h
    obtain ⟨⟨rfl, rfl⟩, rfl⟩ := h
    simp
  | @cons t v ts vs htv hrest ih =>
    intro w tape vars' w' tape' h
    cases t <;> cases v <;> simp only [ValidVar] at htv
    case perm.perm n p =>
      simp only [permMutVars, except_bind_ok] at h
      obtain ⟨⟨u, t1⟩, hu, h⟩ := h
      dsimp only at h
      split at h
      · simp only [except_bind_ok] at h
        obtain ⟨⟨⟨i, j⟩, t2⟩, h2, ⟨⟨rest, w2⟩, t3⟩, h3, h⟩ := h
        simp only [pure, Except.pure, Except.ok.injEq, Prod.mk.injEq] at h
        obtain ⟨⟨rfl, rfl⟩, rfl⟩ := h
        obtain ⟨hi, hj⟩ := popTwo_lt _ _ _ _ _ h2
        refine ⟨List.Forall₂.cons ?_ (ih _ _ _ _ _ h3).1, by simp⟩
        simp only [ValidVar]
        exact (hf p i j hi hj).trans htv
      · simp only [except_bind_ok] at h
        obtain ⟨⟨⟨rest, w2⟩, t3⟩, h3, h⟩ := h
        simp only [pure, Except.pure, Except.ok.injEq, Prod.mk.injEq] at h
        obtain ⟨⟨rfl, rfl⟩, rfl⟩ := h
        obtain ⟨a, b⟩ := ih _ _ _ _ _ h3
        refine ⟨List.Forall₂.cons htv a, fun hw => ?_⟩
        obtain ⟨rfl, rfl⟩ := b hw
        simp
    all_goals
      simp only [permMutVars, except_bind_ok] at h
      obtain ⟨⟨⟨rest, w2⟩, t3⟩, h3, h⟩ := h
      simp only [pure, Except.pure, Except.ok.injEq, Prod.mk.injEq] at h
      obtain ⟨⟨rfl, rfl⟩, rfl⟩ := h
      obtain ⟨a, b⟩ := ih _ _ _ _ _ h3
      refine ⟨List.Forall₂.cons (by simpa only [ValidVar] using htv) a, fun hw => ?_⟩
      obtain ⟨rfl, rfl⟩ := b hw
      simp

theorem permMutOp_valid (zero one prob : α) (f : List Nat → Nat → Nat → List Nat)
    (hf : ∀ p i j, i < p.length → j < p.length → (f p i j).Perm p)
    (types : List (TypeD α)) (parent child : OSol α) (tape tape' : Tape α) (hp : ValidSol types parent)
    (h : permMutOp zero one prob f types parent tape = .ok (child, tape')) :
    ValidSol types child ∧ (child.evaluated = false ∨ (child.vars = parent.vars ∧ child.evaluated = parent.evaluated)) := by
  simp only [permMutOp, except_bind_ok] at h
  obtain ⟨⟨⟨vars, w⟩, t⟩, h1, h⟩ := h
  simp only [pure, Except.pure, Except.ok.injEq, Prod.mk.injEq] at h
  obtain ⟨rfl, rfl⟩ := h
  obtain ⟨a, b⟩ := permMutVars_spec zero one prob f hf types parent.vars hp _ _ _ _ _ h1
  refine ⟨a, ?_⟩
  cases w
  · right; simpa using (b rfl).1
  · left; rfl
end

/-- **PMX termination and validity**: for two permutations of `0 … n-1` and cut points
`cp1 ≤ cp2 < n`, following the replacement chain never exhausts the fuel `n + 1`, and the child is again
a permutation of `0 … n-1` -/
theorem pmxChild_perm (n : Nat) (own other : List Nat) (cp1 cp2 : Nat)
    (h1 : own.Perm (List.range n)) (h2 : other.Perm (List.range n)) (hc : cp1 ≤ cp2) (hc2 : cp2 < n) :
    ∃ o, pmxChild own other cp1 cp2 = some o ∧ o.Perm (List.range n) := by
  have _ := hc; have _ := hc2  -- not needed: the claim holds for arbitrary cut points
  exact pmxChild_perm_any n own other cp1 cp2 h1 h2

/-- termination half on its own (the bound referred to as `pmx_fuel_suffices` in the model): the chain
following of PMX never runs out of its fuel `own.length + 1`, for any cut points -/
theorem pmxChild_terminates (n : Nat) (own other : List Nat) (cp1 cp2 : Nat)
    (h1 : own.Perm (List.range n)) (h2 : other.Perm (List.range n)) :
    ∃ o, pmxChild own other cp1 cp2 = some o :=
  let ⟨o, ho, _⟩ := pmxChild_perm_any n own other cp1 cp2 h1 h2
  ⟨o, ho⟩

section
variable {α : Type} [LinearOrder α]

theorem pmxVars_spec (zero one prob : α) (types : List (TypeD α)) :
    ∀ (v1 v2 : List (Var α)), ValidVars types v1 → ValidVars types v2 →
    ∀ (w : Bool) (tape : Tape α) (r1 r2 : List (Var α)) (w' : Bool) (tape' : Tape α),
    pmxVars zero one prob types v1 v2 w tape = .ok ((r1, r2, w'), tape') →
    ValidVars types r1 ∧ ValidVars types r2 ∧ (w' = false → r1 = v1 ∧ r2 = v2 ∧ w = false) := by
  unfold ValidVars
  induction types with
  | nil =>
    intro v1 v2 h1 h2 w tape r1 r2 w' tape' h
    cases h1; cases h2
    simp [pmxVars, pure, Except.pure] at h
    obtain ⟨⟨rfl, rfl, rfl⟩, rfl⟩ := h
    simp
  | cons t ts ih =>
    intro v1 v2 h1 h2 w tape r1 r2 w' tape' h
    cases h1 with | @cons _ a _ v1' ha h1' => ?_
    cases h2 with | @cons _ b _ v2' hb h2' => ?_
    cases t <;> cases a <;> simp only [ValidVar] at ha <;> cases b <;> simp only [ValidVar] at hb
    case perm.perm.perm n p1 p2 =>
      simp only [pmxVars, except_bind_ok] at h
      obtain ⟨⟨u, t1⟩, hu, h⟩ := h
      dsimp only at h
      split at h
      · simp only [except_bind_ok] at h
        obtain ⟨⟨⟨i, j⟩, t2⟩, hij, h⟩ := h
        dsimp only at h
        generalize (if i > j then (j, i) else (i, j)).1 = cp1 at h
        generalize (if i > j then (j, i) else (i, j)).2 = cp2 at h
        obtain ⟨o1, ho1, hp1⟩ := pmxChild_perm_any n p1 p2 cp1 cp2 ha hb
        obtain ⟨o2, ho2, hp2⟩ := pmxChild_perm_any n p2 p1 cp1 cp2 hb ha
        rw [ho1, ho2] at h
        simp only [except_bind_ok] at h
        obtain ⟨⟨⟨s1, s2, w2⟩, t3⟩, h3, h⟩ := h
        simp only [pure, Except.pure, Except.ok.injEq, Prod.mk.injEq] at h
        obtain ⟨⟨rfl, rfl, rfl⟩, rfl⟩ := h
        obtain ⟨q1, q2, _⟩ := ih _ _ h1' h2' _ _ _ _ _ _ h3
        exact ⟨List.Forall₂.cons hp1 q1, List.Forall₂.cons hp2 q2, by simp⟩
      · simp only [except_bind_ok] at h
        obtain ⟨⟨⟨s1, s2, w2⟩, t3⟩, h3, h⟩ := h
        simp only [pure, Except.pure, Except.ok.injEq, Prod.mk.injEq] at h
        obtain ⟨⟨rfl, rfl, rfl⟩, rfl⟩ := h
        obtain ⟨q1, q2, q3⟩ := ih _ _ h1' h2' _ _ _ _ _ _ h3
        refine ⟨List.Forall₂.cons ha q1, List.Forall₂.cons hb q2, fun hw => ?_⟩
        obtain ⟨rfl, rfl, rfl⟩ := q3 hw
        simp
    all_goals
      simp only [pmxVars, except_bind_ok] at h
      obtain ⟨⟨⟨s1, s2, w2⟩, t3⟩, h3, h⟩ := h
      simp only [pure, Except.pure, Except.ok.injEq, Prod.mk.injEq] at h
      obtain ⟨⟨rfl, rfl, rfl⟩, rfl⟩ := h
      obtain ⟨q1, q2, q3⟩ := ih _ _ h1' h2' _ _ _ _ _ _ h3
      refine ⟨List.Forall₂.cons (by simpa only [ValidVar] using ha) q1,
        List.Forall₂.cons (by simpa only [ValidVar] using hb) q2, fun hw => ?_⟩
      obtain ⟨rfl, rfl, rfl⟩ := q3 hw
      simp

theorem pmxOp_valid (zero one prob : α) (types : List (TypeD α)) (p1 p2 : OSol α) (kids : List (OSol α))
    (tape tape' : Tape α) (h1 : ValidSol types p1) (h2 : ValidSol types p2)
    (h : pmxOp zero one prob types p1 p2 tape = .ok (kids, tape')) :
    ∃ c1 c2, kids = [c1, c2] ∧ ValidSol types c1 ∧ ValidSol types c2 ∧
      (c1.evaluated = false ∨ (c1.vars = p1.vars ∧ c1.evaluated = p1.evaluated)) ∧
      (c2.evaluated = false ∨ (c2.vars = p2.vars ∧ c2.evaluated = p2.evaluated)) := by
  simp only [pmxOp, except_bind_ok] at h
  obtain ⟨⟨⟨s1, s2, w⟩, t⟩, h3, h⟩ := h
  simp only [pure, Except.pure, Except.ok.injEq, Prod.mk.injEq] at h
  obtain ⟨rfl, rfl⟩ := h
  obtain ⟨q1, q2, q3⟩ := pmxVars_spec zero one prob types _ _ h1 h2 _ _ _ _ _ _ h3
  refine ⟨_, _, rfl, q1, q2, ?_⟩
  cases w
  · obtain ⟨rfl, rfl, _⟩ := q3 rfl
    simp
  · simp

/- ORIGINAL STATEMENT (FALSE as written, kept for the record):

  theorem pmxVars_symmetric (zero one prob : α) (types : List (TypeD α)) (v1 v2 : List (Var α)) (w : Bool)
      (tape : Tape α) :
      (pmxVars zero one prob types v1 v2 w tape).map (fun r => ((r.1.2.1, r.1.1, r.1.2.2), r.2)) =
        pmxVars zero one prob types v2 v1 w tape

Counterexample (α = Nat, zero = 0, one = 1, prob = 1, w = false):
  types = [.perm 2], v1 = [.perm [0,1]], v2 = [.perm [0,1,2]],
  tape  = [.uniform 0 1 0, .randrange 2 0, .randrange 2 1].
`pmxVars … v1 v2` draws `popTwo p1.length = popTwo 2`, which matches the tape and succeeds (`.ok`), while
`pmxVars … v2 v1` draws `popTwo 3`, which does not match `randrange 2 _` and fails with `.error .tape`.
The draws are sized by the *first* parent's permutation, so the statement needs the parents' permutations
to have equal lengths.  Below: `pmxVars_symmetric_partial` (weakest natural hypothesis `PermLenAgree`) and
`pmxVars_symmetric` (the intended hypothesis: both parents valid for the declared types). -/

/-- where PMX is applied (declared permutation, both parents carry a permutation) the two parents'
permutations have the same length -/
def PermLenAgree : List (TypeD α) → List (Var α) → List (Var α) → Prop
  | .perm _ :: ts, .perm p1 :: v1, .perm p2 :: v2 => p1.length = p2.length ∧ PermLenAgree ts v1 v2
  | _ :: ts, _ :: v1, _ :: v2 => PermLenAgree ts v1 v2
  | _, _, _ => True

/-- PMX is symmetric: exchanging the parents under the same tape exchanges the offspring  (for parents whose
permutations have equal lengths wherever PMX is applied) -/
theorem pmxVars_symmetric_partial (zero one prob : α) (types : List (TypeD α)) :
    ∀ (v1 v2 : List (Var α)) (w : Bool) (tape : Tape α), PermLenAgree types v1 v2 →
    (pmxVars zero one prob types v1 v2 w tape).map (fun r => ((r.1.2.1, r.1.1, r.1.2.2), r.2)) =
      pmxVars zero one prob types v2 v1 w tape := by
  induction types with
  | nil => intro v1 v2 w tape _; simp [pmxVars, pure, Except.pure, Except.map]
  | cons t ts ih =>
    intro v1 v2 w tape hag
    cases v1 with
    | nil => cases v2 <;> simp [pmxVars, pure, Except.pure, Except.map]
    | cons a v1 =>
    cases v2 with
    | nil => simp [pmxVars, pure, Except.pure, Except.map]
    | cons b v2 =>
    cases t <;> cases a <;> cases b
    case perm.perm.perm n p1 p2 =>
      simp only [PermLenAgree] at hag
      obtain ⟨hlen, hag⟩ := hag
      simp only [pmxVars]
      rw [← hlen]
      cases hu : popUniformU zero one tape with
      | error e => rfl
      | ok r =>
        obtain ⟨u, t1⟩ := r
        simp only [bind, Except.bind]
        split
        · cases hij : popTwo (α := α) p1.length t1 with
          | error e => rfl
          | ok r =>
            obtain ⟨⟨i, j⟩, t2⟩ := r
            dsimp only
            generalize (if i > j then (j, i) else (i, j)).1 = cp1
            generalize (if i > j then (j, i) else (i, j)).2 = cp2
            cases pmxChild p1 p2 cp1 cp2 <;> cases pmxChild p2 p1 cp1 cp2 <;> try rfl
            dsimp only
            rw [← ih v1 v2 true t2 hag]
            cases pmxVars zero one prob ts v1 v2 true t2 <;> rfl
        · rw [← ih v1 v2 w t1 hag]
          cases pmxVars zero one prob ts v1 v2 w t1 <;> rfl
    all_goals
      simp only [PermLenAgree] at hag
      simp only [pmxVars]
      rw [← ih v1 v2 w tape hag]
      cases pmxVars zero one prob ts v1 v2 w tape <;> rfl

theorem permLenAgree_of_valid (types : List (TypeD α)) : ∀ (v1 v2 : List (Var α)),
    ValidVars types v1 → ValidVars types v2 → PermLenAgree types v1 v2 := by
  unfold ValidVars
  induction types with
  | nil => intro v1 v2 h1 h2; cases h1; cases h2; simp [PermLenAgree]
  | cons t ts ih =>
    intro v1 v2 h1 h2
    cases h1 with | @cons _ a _ v1' ha h1' => ?_
    cases h2 with | @cons _ b _ v2' hb h2' => ?_
    cases t <;> cases a <;> simp only [ValidVar] at ha <;> cases b <;> simp only [ValidVar] at hb
    case perm.perm.perm n p1 p2 =>
      simp only [PermLenAgree]
      exact ⟨by rw [ha.length_eq, hb.length_eq], ih _ _ h1' h2'⟩
    all_goals
      simp only [PermLenAgree]
      exact ih _ _ h1' h2'

/-- PMX is symmetric: exchanging the parents under the same tape exchanges the offspring  (for parents
valid for the declared types; hypotheses `hv1`, `hv2` added, see the note above) -/
theorem pmxVars_symmetric (zero one prob : α) (types : List (TypeD α)) (v1 v2 : List (Var α)) (w : Bool)
    (tape : Tape α) (hv1 : ValidVars types v1) (hv2 : ValidVars types v2) :
    (pmxVars zero one prob types v1 v2 w tape).map (fun r => ((r.1.2.1, r.1.1, r.1.2.2), r.2)) =
      pmxVars zero one prob types v2 v1 w tape :=
  pmxVars_symmetric_partial zero one prob types v1 v2 w tape (permLenAgree_of_valid types v1 v2 hv1 hv2)
end

end Platypus
