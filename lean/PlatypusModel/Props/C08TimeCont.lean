import PlatypusModel.Model.TimeCont

/-! Scheduling and decision of adaptive time continuation: when `check` is called, when a restart is forced, when none happens. -/
namespace Platypus

/-- the counters stay ordered (so the differences the code computes are never negative) -/
def ExtOrdered (e : ExtState) : Prop := e.lastRestart ≤ e.iteration ∧ e.lastInvocation ≤ e.iteration

theorem postStep_ordered (c : ExtCfg) (e : ExtState) (p a : Nat) (h : ExtOrdered e) : ExtOrdered (postStep c e p a).1 := by
  unfold postStep ExtOrdered at *
  by_cases hw : c.window ≤ e.iteration + 1 - e.lastInvocation
  · simp only [hw, if_true]
    by_cases hr : checkR c { e with iteration := e.iteration + 1 } p a = true
    · simp [hr]
    · simp [hr]; omega
  · simp only [hw, if_false]; omega

theorem startRun_ordered (e : ExtState) (h : ExtOrdered e) : ExtOrdered (startRun e) := by
  unfold startRun ExtOrdered at *; simp; omega

/-- **`check` is called exactly when `frequency` iterations have passed since the last call (or since the run began)** -/
theorem postStep_checked_iff (c : ExtCfg) (e : ExtState) (p a : Nat) :
    (postStep c e p a).2.1 = true ↔ c.window ≤ e.iteration + 1 - e.lastInvocation := by
  unfold postStep
  by_cases hw : c.window ≤ e.iteration + 1 - e.lastInvocation <;> simp [hw]

/-- a restart only ever follows a call of `check` -/
theorem postStep_restart_checked (c : ExtCfg) (e : ExtState) (p a : Nat) (h : (postStep c e p a).2.2 = true) :
    (postStep c e p a).2.1 = true := by
  unfold postStep at *
  by_cases hw : c.window ≤ e.iteration + 1 - e.lastInvocation <;> simp_all

/-- **the decision, spelled out**: a restart follows iff `check` is due and either `max_window_size` iterations have passed since
the last restart, or the target size lies within the allowed range and the population is off it by more than a quarter -/
theorem postStep_restart_iff (c : ExtCfg) (e : ExtState) (p a : Nat) :
    (postStep c e p a).2.2 = true ↔
      c.window ≤ e.iteration + 1 - e.lastInvocation ∧
      (c.maxWindow ≤ e.iteration + 1 - e.lastRestart ∨
        (c.minPop ≤ c.ratio * a ∧ c.ratio * a ≤ c.maxPop ∧
          c.ratio * a < 4 * (if c.ratio * a ≤ p then p - c.ratio * a else c.ratio * a - p))) := by
  unfold postStep checkR
  by_cases hw : c.window ≤ e.iteration + 1 - e.lastInvocation
  · by_cases hm : c.maxWindow ≤ e.iteration + 1 - e.lastRestart
    · simp [hw, hm]
    · by_cases hc : c.minPop ≤ c.ratio * a ∧ c.ratio * a ≤ c.maxPop ∧
          c.ratio * a < 4 * (if c.ratio * a ≤ p then p - c.ratio * a else c.ratio * a - p)
      · simp [hw, hm, hc]
      · simp [hw, hm, hc]
  · simp [hw]

/-- a population that already has the target size is left alone until the maximal window is used up -/
theorem no_restart_on_target (c : ExtCfg) (e : ExtState) (a : Nat) (hm : e.iteration + 1 - e.lastRestart < c.maxWindow) :
    (postStep c e (c.ratio * a) a).2.2 = false := by
  cases hb : (postStep c e (c.ratio * a) a).2.2 with
  | false => rfl
  | true =>
    exfalso
    obtain ⟨_, h⟩ := (postStep_restart_iff c e (c.ratio * a) a).mp hb
    rcases h with h | ⟨_, _, h⟩
    · omega
    · simp at h

/-- what holds between the iterations of one `run` call: the next `check` is less than `frequency` iterations away, and at the
last `check` fewer than `max_window_size` iterations had passed since the last restart -/
def ExtInv (c : ExtCfg) (e : ExtState) : Prop :=
  e.lastRestart ≤ e.lastInvocation ∧ e.lastInvocation ≤ e.iteration ∧ e.iteration - e.lastInvocation < c.window ∧
    e.lastInvocation - e.lastRestart < c.maxWindow

theorem postStep_inv (c : ExtCfg) (hw1 : 1 ≤ c.window) (hm1 : 1 ≤ c.maxWindow) (e : ExtState) (p a : Nat) (h : ExtInv c e) :
    ExtInv c (postStep c e p a).1 := by
  obtain ⟨h1, h2, h3, h4⟩ := h
  unfold postStep ExtInv
  by_cases hw : c.window ≤ e.iteration + 1 - e.lastInvocation
  · simp only [hw, if_true]
    by_cases hr : checkR c { e with iteration := e.iteration + 1 } p a = true
    · simp only [hr, if_true]; omega
    · simp only [hr]
      have hnot : ¬ c.maxWindow ≤ e.iteration + 1 - e.lastRestart := by
        intro hmw; apply hr; simp [checkR, hmw]
      simp only [Bool.false_eq_true, if_false]
      omega
  · simp only [hw, if_false]; omega

/-- **restarts cannot be postponed indefinitely**: within one `run` call, from the fresh extension, fewer than
`max_window_size + frequency − 1` iterations ever pass without a restart — whatever the population and archive sizes are -/
theorem restart_gap_bounded (c : ExtCfg) (hw1 : 1 ≤ c.window) (hm1 : 1 ≤ c.maxWindow) (sizes : List (Nat × Nat)) (e : ExtState)
    (h : ExtInv c e) :
    let e' := sizes.foldl (fun s pa => (postStep c s pa.1 pa.2).1) e
    ExtInv c e' ∧ e'.iteration - e'.lastRestart + 1 < c.maxWindow + c.window ∧ e'.iteration = e.iteration + sizes.length := by
  induction sizes generalizing e with
  | nil =>
    obtain ⟨h1, h2, h3, h4⟩ := h
    exact ⟨⟨h1, h2, h3, h4⟩, by simp only [List.foldl_nil]; omega, by simp⟩
  | cons pa rest ih =>
    have hi := postStep_inv c hw1 hm1 e pa.1 pa.2 h
    have hit : (postStep c e pa.1 pa.2).1.iteration = e.iteration + 1 := by
      unfold postStep; by_cases hw : c.window ≤ e.iteration + 1 - e.lastInvocation <;> simp [hw]
    obtain ⟨i1, i2, i3⟩ := ih (postStep c e pa.1 pa.2).1 hi
    refine ⟨i1, i2, ?_⟩
    simp only [List.foldl_cons, List.length_cons] at i3 ⊢
    omega

/-! non-vacuity, and the numbers of the traced configuration (window 3, max window 6, ratio 2, sizes 4..12) -/
example : ExtInv { window := 3, maxWindow := 6, ratio := 2, minPop := 4, maxPop := 12 } { iteration := 0, lastInvocation := 0, lastRestart := 0 } := by
  simp [ExtInv]

example : let c : ExtCfg := { window := 3, maxWindow := 6, ratio := 2, minPop := 4, maxPop := 12 }
    ((postStep c { iteration := 2, lastInvocation := 0, lastRestart := 0 } 6 3).2,      -- due, on target: no restart
     (postStep c { iteration := 2, lastInvocation := 0, lastRestart := 0 } 6 5).2,      -- due, target 10, off by 4 > 2.5: restart
     (postStep c { iteration := 1, lastInvocation := 0, lastRestart := 0 } 6 5).2,      -- not due
     (postStep c { iteration := 5, lastInvocation := 3, lastRestart := 0 } 6 3).2,      -- due, max window reached: restart
     (postStep c { iteration := 2, lastInvocation := 0, lastRestart := 0 } 6 8).2)      -- due, target 16 outside [4, 12]: no restart
    = ((true, false), (true, true), (false, false), (true, true), (true, false)) := by decide

end Platypus
