import PlatypusModel.Model.Grid
import PlatypusModel.Props.C03
import PlatypusModel.Props.C04
import PlatypusModel.Lemmas.Grid
import Mathlib.Data.List.Induction
import Mathlib.Data.List.Perm.Basic
import Mathlib.Data.List.Nodup
set_option linter.unusedSectionVars false
/-!
# C14 — adaptive grid archive: capacity, mutual non-dominance, occupancy bookkeeping

For every cell function (`cell`, the arithmetic of `find_index`, is a parameter), every comparator that
is antisymmetric with transitive dominance, every capacity ≥ 1, every insertion history of distinct
objects.  (Population-size clauses of C14 are checked on traces of real runs; see DESIGN.md.)
-/
namespace Platypus

variable {σ β : Type}

/-- occupancy the archive reports for the cell of `m` -/
def occ (cfg : GridCfg σ β) (g : GridArchive σ β) (m : σ) : Nat := densAt g.density (cfg.cell g.bounds m)

/-- the reported occupancy of every cell equals the number of members lying in it -/
def DensityCorrect (cfg : GridCfg σ β) (g : GridArchive σ β) : Prop :=
  g.density.length = cfg.ncells ∧
  ∀ c, c < cfg.ncells → g.density.getD c 0 = (g.contents.filter (fun m => cfg.cell g.bounds m == some c)).length

/-- every member lies inside the current grid -/
def MembersInside (cfg : GridCfg σ β) (g : GridArchive σ β) : Prop :=
  ∀ m ∈ g.contents, ∃ c, c < cfg.ncells ∧ cfg.cell g.bounds m = some c

/-- assumptions on the configuration -/
structure GoodCfg (cfg : GridCfg σ β) : Prop where
  cmp : StrictCmp cfg.cmp
  cap : 1 ≤ cfg.capacity
  fixed : cfg.adaptOnEvict = true
  /-- a freshly adapted grid contains all its members (true of `find_index`: bounds are the members'
  min/max, see `findIndex_inside`) -/
  inside : ∀ (contents : List σ) (m : σ), m ∈ contents →
    ∃ c, c < cfg.ncells ∧ cfg.cell (cfg.mkBounds contents) m = some c
  /-- the cell function only ever reports cells of the grid (true of `find_index`: every digit is
  `< divisions`).  Needed because `add` trusts `find_index` for the newcomer against the *old* bounds,
  which `inside` does not cover. -/
  range : ∀ (b : β) (m : σ) (c : Nat), cfg.cell b m = some c → c < cfg.ncells

/-- the state invariant -/
structure Inv (cfg : GridCfg σ β) (g : GridArchive σ β) : Prop where
  density : DensityCorrect cfg g
  inside : MembersInside cfg g
  capacity : g.contents.length ≤ cfg.capacity
  nondom : ∀ a ∈ g.contents, ∀ b ∈ g.contents, ¬ cfg.cmp a b < 0
  nodup : (g.contents.map cfg.getId).Nodup

theorem adaptGrid_density (cfg : GridCfg σ β) (h : GoodCfg cfg) (contents : List σ) :
    DensityCorrect cfg (adaptGrid cfg contents) ∧ MembersInside cfg (adaptGrid cfg contents) := by
  have hin := h.inside contents
  have hf := foldl_density (cfg.cell (cfg.mkBounds contents)) cfg.ncells contents hin
    (List.replicate cfg.ncells 0) (by simp)
  refine ⟨⟨hf.1, ?_⟩, hin⟩
  intro c hc
  have := hf.2 c hc
  have h0 : (List.replicate cfg.ncells 0).getD c 0 = 0 := by
    simp [List.getD_eq_getElem?_getD, hc]
  rw [h0, Nat.zero_add] at this
  exact this

/-! ### `remove` -/

theorem gridRemove_contents (cfg : GridCfg σ β) (g : GridArchive σ β) (p : σ) (hp : p ∈ g.contents) :
    (gridRemove cfg g p).contents = eraseId cfg.getId p g.contents := by
  have hany : g.contents.any (fun m => cfg.getId m == cfg.getId p) = true := by
    rw [List.any_eq_true]; exact ⟨p, hp, by simp⟩
  unfold gridRemove
  rw [if_pos hany]
  simp only
  split <;> rfl

theorem gridRemove_contents_sublist (cfg : GridCfg σ β) (g : GridArchive σ β) (p : σ) :
    (gridRemove cfg g p).contents.Sublist g.contents := by
  unfold gridRemove
  split
  · simp only
    split
    · exact eraseId_sublist ..
    · exact eraseId_sublist ..
  · exact List.Sublist.refl _

theorem gridRemove_density (cfg : GridCfg σ β) (h : GoodCfg cfg) (g : GridArchive σ β) (p : σ)
    (hp : p ∈ g.contents) (hd : DensityCorrect cfg g) (hi : MembersInside cfg g)
    (hn : (g.contents.map cfg.getId).Nodup) :
    DensityCorrect cfg (gridRemove cfg g p) ∧ MembersInside cfg (gridRemove cfg g p) := by
  have hany : g.contents.any (fun m => cfg.getId m == cfg.getId p) = true := by
    rw [List.any_eq_true]; exact ⟨p, hp, by simp⟩
  unfold gridRemove
  rw [if_pos hany]
  simp only
  split
  · obtain ⟨cp, hcp, hcell⟩ := hi p hp
    constructor
    · refine ⟨by simp [densUpd_length, hd.1], ?_⟩
      intro c hc
      show (densUpd g.density (cfg.cell g.bounds p) (· - 1)).getD c 0 =
        ((eraseId cfg.getId p g.contents).filter (fun m => cfg.cell g.bounds m == some c)).length
      rw [hcell]
      simp only [densUpd]
      rw [getD_modify_nat _ _ _ _ (by rw [hd.1]; exact hc), hd.2 c hc]
      have := eraseId_filter_length cfg.getId p g.contents hp hn
        (fun m => cfg.cell g.bounds m == some c)
      by_cases hcc : cp = c
      · subst hcc
        simp [hcell] at this
        simp; omega
      · simp [hcell, hcc] at this
        simp [hcc]; omega
    · intro m hm
      exact hi m ((eraseId_sublist ..).subset hm)
  · exact adaptGrid_density cfg h _

/-! ### the two intermediate states of `add` -/

/-- the archive after the members the newcomer dominates have left -/
def g1Of (cfg : GridCfg σ β) (g : GridArchive σ β) (s : σ) : GridArchive σ β :=
  if cfg.adaptOnEvict && (g.contents.filter (fun m => cfg.cmp s m = 0)).length < g.contents.length then
    adaptGrid cfg (g.contents.filter (fun m => cfg.cmp s m = 0))
  else { g with contents := g.contents.filter (fun m => cfg.cmp s m = 0) }

/-- the archive after the newcomer has been appended (before any truncation) -/
def g2Of (cfg : GridCfg σ β) (g1 : GridArchive σ β) (s : σ) : GridArchive σ β :=
  match cfg.cell g1.bounds s with
  | none => adaptGrid cfg (g1.contents ++ [s])
  | some i => { g1 with contents := g1.contents ++ [s], density := densUpd g1.density (some i) (· + 1) }

theorem gridAdd_eq (cfg : GridCfg σ β) (g : GridArchive σ β) (s : σ) :
    gridAdd cfg g s =
      if g.contents.any (fun m => cfg.cmp s m > 0) then (g, false)
      else if (g1Of cfg g s).contents.isEmpty then (adaptGrid cfg [s], true)
      else if ((g1Of cfg g s).contents ++ [s]).length ≤ cfg.capacity then (g2Of cfg (g1Of cfg g s) s, true)
      else if densAt (g2Of cfg (g1Of cfg g s) s).density (cfg.cell (g2Of cfg (g1Of cfg g s) s).bounds s)
          == densAt (g2Of cfg (g1Of cfg g s) s).density (findDensest cfg (g2Of cfg (g1Of cfg g s) s)) then
        (gridRemove cfg (g2Of cfg (g1Of cfg g s) s) s, false)
      else match pickFromDensest cfg (g2Of cfg (g1Of cfg g s) s) with
        | some p => (gridRemove cfg (g2Of cfg (g1Of cfg g s) s) p, true)
        | none => (g2Of cfg (g1Of cfg g s) s, true) := by
  unfold gridAdd
  split
  · rfl
  · simp only []
    rw [show (if (cfg.adaptOnEvict && decide ((g.contents.filter (fun m => cfg.cmp s m = 0)).length < g.contents.length)) = true
          then adaptGrid cfg (g.contents.filter (fun m => cfg.cmp s m = 0))
          else { g with contents := g.contents.filter (fun m => cfg.cmp s m = 0) }) = g1Of cfg g s from rfl]
    split
    · rfl
    · unfold g2Of
      cases hc : cfg.cell (g1Of cfg g s).bounds s with
      | none => rfl
      | some i => simp only [hc]; rfl

theorem g1Of_contents (cfg : GridCfg σ β) (g : GridArchive σ β) (s : σ) :
    (g1Of cfg g s).contents = g.contents.filter (fun m => cfg.cmp s m = 0) := by
  unfold g1Of; split <;> rfl

theorem g2Of_contents (cfg : GridCfg σ β) (g1 : GridArchive σ β) (s : σ) :
    (g2Of cfg g1 s).contents = g1.contents ++ [s] := by
  unfold g2Of; split <;> rfl

theorem g1Of_good (cfg : GridCfg σ β) (h : GoodCfg cfg) (g : GridArchive σ β) (s : σ)
    (hd : DensityCorrect cfg g) (hi : MembersInside cfg g) :
    DensityCorrect cfg (g1Of cfg g s) ∧ MembersInside cfg (g1Of cfg g s) := by
  unfold g1Of
  split
  · exact adaptGrid_density cfg h _
  · rename_i hc
    rw [h.fixed] at hc
    simp only [Bool.true_and, decide_eq_true_eq, Nat.not_lt] at hc
    have hle := List.length_filter_le (fun m => decide (cfg.cmp s m = 0)) g.contents
    have hk : g.contents.filter (fun m => decide (cfg.cmp s m = 0)) = g.contents :=
      List.filter_eq_self.mpr (List.length_filter_eq_length_iff.mp (by omega))
    rw [hk]
    exact ⟨hd, hi⟩

theorem g2Of_good (cfg : GridCfg σ β) (h : GoodCfg cfg) (g1 : GridArchive σ β) (s : σ)
    (hd : DensityCorrect cfg g1) (hi : MembersInside cfg g1) :
    DensityCorrect cfg (g2Of cfg g1 s) ∧ MembersInside cfg (g2Of cfg g1 s) := by
  unfold g2Of
  split
  · exact adaptGrid_density cfg h _
  · rename_i i hcell
    have hi' : i < cfg.ncells := h.range _ _ _ hcell
    constructor
    · refine ⟨by simp [densUpd_length, hd.1], ?_⟩
      intro c hc
      show (densUpd g1.density (some i) (· + 1)).getD c 0 =
        ((g1.contents ++ [s]).filter (fun m => cfg.cell g1.bounds m == some c)).length
      simp only [densUpd]
      rw [getD_modify_nat _ _ _ _ (by rw [hd.1]; exact hc), hd.2 c hc, List.filter_append,
        List.length_append]
      by_cases hcc : i = c
      · subst hcc; simp [hcell]
      · simp [hcell, hcc]
    · intro m hm
      rcases List.mem_append.mp hm with hm | hm
      · exact hi m hm
      · have : m = s := by simpa using hm
        subst this
        exact ⟨i, hi', hcell⟩

/-! ### one insertion -/

theorem inv_init (cfg : GridCfg σ β) (h : GoodCfg cfg) : Inv cfg (gridInit cfg) := by
  have := adaptGrid_density cfg h []
  exact ⟨this.1, this.2, Nat.zero_le _, by intro a ha; simp [gridInit, adaptGrid] at ha,
    by simp [gridInit, adaptGrid]⟩

theorem inv_singleton (cfg : GridCfg σ β) (h : GoodCfg cfg) (s : σ) : Inv cfg (adaptGrid cfg [s]) := by
  have := adaptGrid_density cfg h [s]
  refine ⟨this.1, this.2, h.cap, ?_, by simp [adaptGrid]⟩
  intro a ha b hb
  have ha' : a = s := by simpa [adaptGrid] using ha
  have hb' : b = s := by simpa [adaptGrid] using hb
  subst ha' hb'
  rw [h.cmp.irrefl]; omega

/-- the list `kept ++ [s]` is mutually non-dominated with distinct ids -/
theorem kept_snoc_facts (cfg : GridCfg σ β) (h : GoodCfg cfg) (g : GridArchive σ β) (s : σ)
    (hg : Inv cfg g) (hnew : ∀ m ∈ g.contents, cfg.getId m ≠ cfg.getId s)
    (hany : ¬ (g.contents.any (fun m => cfg.cmp s m > 0) = true)) :
    (∀ a ∈ g.contents.filter (fun m => cfg.cmp s m = 0) ++ [s],
      ∀ b ∈ g.contents.filter (fun m => cfg.cmp s m = 0) ++ [s], ¬ cfg.cmp a b < 0) ∧
    ((g.contents.filter (fun m => cfg.cmp s m = 0) ++ [s]).map cfg.getId).Nodup := by
  have hacc : ∀ m ∈ g.contents, ¬ cfg.cmp m s < 0 := by
    intro m hm hlt
    apply hany
    rw [List.any_eq_true]
    exact ⟨m, hm, decide_eq_true ((h.cmp.gt_iff s m).mpr hlt)⟩
  constructor
  · intro a ha b hb
    rcases List.mem_append.mp ha with ha | ha <;> rcases List.mem_append.mp hb with hb | hb
    · exact hg.nondom a (List.mem_filter.mp ha).1 b (List.mem_filter.mp hb).1
    · have : b = s := by simpa using hb
      subst this
      exact hacc a (List.mem_filter.mp ha).1
    · have : a = s := by simpa using ha
      subst this
      have := of_decide_eq_true (List.mem_filter.mp hb).2
      omega
    · have : a = s := by simpa using ha
      have : b = s := by simpa using hb
      subst_vars
      rw [h.cmp.irrefl]; omega
  · rw [List.map_append, List.nodup_append]
    refine ⟨(List.filter_sublist.map _).nodup hg.nodup, by simp, ?_⟩
    intro x hx y hy
    obtain ⟨m, hm, rfl⟩ := List.mem_map.mp hx
    have : y = cfg.getId s := by simpa using hy
    subst this
    exact hnew m (List.mem_filter.mp hm).1

/-- removing a member from an archive that is one over capacity -/
theorem inv_remove (cfg : GridCfg σ β) (h : GoodCfg cfg) (g2 : GridArchive σ β) (p : σ)
    (hp : p ∈ g2.contents) (hd : DensityCorrect cfg g2) (hi : MembersInside cfg g2)
    (hcap : g2.contents.length ≤ cfg.capacity + 1)
    (hnd : ∀ a ∈ g2.contents, ∀ b ∈ g2.contents, ¬ cfg.cmp a b < 0)
    (hn : (g2.contents.map cfg.getId).Nodup) : Inv cfg (gridRemove cfg g2 p) := by
  have hr := gridRemove_density cfg h g2 p hp hd hi hn
  have hsub := gridRemove_contents_sublist cfg g2 p
  refine ⟨hr.1, hr.2, ?_, fun a ha b hb => hnd a (hsub.subset ha) b (hsub.subset hb),
    (hsub.map _).nodup hn⟩
  rw [gridRemove_contents cfg g2 p hp]
  have := eraseId_length cfg.getId p g2.contents hp
  omega

/-- one insertion of an object not already held preserves the invariant -/
theorem inv_step (cfg : GridCfg σ β) (h : GoodCfg cfg) (g : GridArchive σ β) (s : σ) (hg : Inv cfg g)
    (hnew : ∀ m ∈ g.contents, cfg.getId m ≠ cfg.getId s) : Inv cfg (gridAdd cfg g s).1 := by
  rw [gridAdd_eq]
  split
  · exact hg
  rename_i hany
  split
  · exact inv_singleton cfg h s
  have hg1 := g1Of_good cfg h g s hg.density hg.inside
  have hg2 := g2Of_good cfg h (g1Of cfg g s) s hg1.1 hg1.2
  have hc2 : (g2Of cfg (g1Of cfg g s) s).contents = g.contents.filter (fun m => cfg.cmp s m = 0) ++ [s] := by
    rw [g2Of_contents, g1Of_contents]
  have hfacts := kept_snoc_facts cfg h g s hg hnew hany
  rw [← hc2] at hfacts
  have hlen : (g2Of cfg (g1Of cfg g s) s).contents.length ≤ cfg.capacity + 1 := by
    rw [hc2, List.length_append]
    have := List.length_filter_le (fun m => decide (cfg.cmp s m = 0)) g.contents
    have := hg.capacity
    simp; omega
  have hsmem : s ∈ (g2Of cfg (g1Of cfg g s) s).contents := by rw [hc2]; simp
  split
  · rename_i hfit
    refine ⟨hg2.1, hg2.2, ?_, hfacts.1, hfacts.2⟩
    rw [g2Of_contents]; exact hfit
  split
  · exact inv_remove cfg h _ s hsmem hg2.1 hg2.2 hlen hfacts.1 hfacts.2
  split
  · rename_i p hpick
    obtain ⟨p', hp', _, hpick', _⟩ := pick_spec cfg (g2Of cfg (g1Of cfg g s) s)
      (List.ne_nil_of_mem hsmem)
    have : p = p' := by rw [hpick'] at hpick; exact (Option.some.inj hpick).symm
    subst this
    exact inv_remove cfg h _ p hp' hg2.1 hg2.2 hlen hfacts.1 hfacts.2
  · rename_i hpick
    obtain ⟨p', _, _, hpick', _⟩ := pick_spec cfg (g2Of cfg (g1Of cfg g s) s)
      (List.ne_nil_of_mem hsmem)
    rw [hpick'] at hpick
    exact absurd hpick (by simp)

/-- members of the result were offered (or were members before) -/
theorem gridAdd_contents_subset (cfg : GridCfg σ β) (g : GridArchive σ β) (s : σ) :
    ∀ m ∈ (gridAdd cfg g s).1.contents, m ∈ g.contents ∨ m = s := by
  have hc2 : ∀ m ∈ (g2Of cfg (g1Of cfg g s) s).contents, m ∈ g.contents ∨ m = s := by
    intro m hm
    rw [g2Of_contents, g1Of_contents] at hm
    rcases List.mem_append.mp hm with hm | hm
    · exact Or.inl (List.mem_filter.mp hm).1
    · exact Or.inr (by simpa using hm)
  rw [gridAdd_eq]
  split
  · exact fun m hm => Or.inl hm
  split
  · intro m hm
    exact Or.inr (by simpa [adaptGrid] using hm)
  split
  · exact hc2
  split
  · exact fun m hm => hc2 m ((gridRemove_contents_sublist cfg _ _).subset hm)
  split
  · exact fun m hm => hc2 m ((gridRemove_contents_sublist cfg _ _).subset hm)
  · exact hc2

theorem gridRun_snoc (cfg : GridCfg σ β) (pre : List σ) (s : σ) :
    gridRun cfg (pre ++ [s]) = (gridAdd cfg (gridRun cfg pre) s).1 := by
  simp [gridRun, List.foldl_append]

/-- **every reachable state**: after any history of distinct objects the archive holds at most
`capacity` members, they are mutually non-dominated, and the occupancy it reports for every cell is
the number of members in that cell of its current grid -/
theorem aga_invariant (cfg : GridCfg σ β) (h : GoodCfg cfg) (xs : List σ)
    (hid : (xs.map cfg.getId).Nodup) : Inv cfg (gridRun cfg xs) := by
  suffices hs : Inv cfg (gridRun cfg xs) ∧ ∀ m ∈ (gridRun cfg xs).contents, m ∈ xs from hs.1
  induction xs using List.reverseRecOn with
  | nil =>
    refine ⟨inv_init cfg h, ?_⟩
    intro m hm
    simp [gridRun, gridInit, adaptGrid] at hm
  | append_singleton pre s ih =>
    rw [List.map_append, List.nodup_append] at hid
    obtain ⟨hinv, hmem⟩ := ih hid.1
    rw [gridRun_snoc]
    constructor
    · apply inv_step cfg h _ s hinv
      intro m hm
      exact hid.2.2 _ (List.mem_map_of_mem (hmem m hm)) _ (by simp)
    · intro m hm
      rcases gridAdd_contents_subset cfg _ s m hm with hm | hm
      · exact List.mem_append_left _ (hmem m hm)
      · subst hm; simp

theorem aga_capacity (cfg : GridCfg σ β) (h : GoodCfg cfg) (xs : List σ) (hid : (xs.map cfg.getId).Nodup) :
    (gridRun cfg xs).contents.length ≤ cfg.capacity := (aga_invariant cfg h xs hid).capacity

theorem aga_density_correct (cfg : GridCfg σ β) (h : GoodCfg cfg) (xs : List σ)
    (hid : (xs.map cfg.getId).Nodup) : DensityCorrect cfg (gridRun cfg xs) :=
  (aga_invariant cfg h xs hid).density

theorem aga_mutually_nondominated (cfg : GridCfg σ β) (h : GoodCfg cfg) (xs : List σ)
    (hid : (xs.map cfg.getId).Nodup) :
    ∀ a ∈ (gridRun cfg xs).contents, ∀ b ∈ (gridRun cfg xs).contents, ¬ cfg.cmp a b < 0 :=
  (aga_invariant cfg h xs hid).nondom

/-- a newcomer dominated by a member leaves the archive unchanged -/
theorem aga_dominated_newcomer_unchanged (cfg : GridCfg σ β) (h : GoodCfg cfg) (g : GridArchive σ β) (s : σ)
    (hd : ∃ m ∈ g.contents, cfg.cmp m s < 0) : gridAdd cfg g s = (g, false) := by
  obtain ⟨m, hm, hlt⟩ := hd
  have hany : g.contents.any (fun m => cfg.cmp s m > 0) = true := by
    rw [List.any_eq_true]
    exact ⟨m, hm, decide_eq_true ((h.cmp.gt_iff s m).mpr hlt)⟩
  unfold gridAdd
  rw [if_pos hany]

theorem not_any_of_nd (cfg : GridCfg σ β) (h : GoodCfg cfg) (g : GridArchive σ β) (s : σ)
    (hnd : ∀ m ∈ g.contents, ¬ cfg.cmp m s < 0) :
    ¬ (g.contents.any (fun m => cfg.cmp s m > 0) = true) := by
  rw [List.any_eq_true]
  rintro ⟨m, hm, hgt⟩
  exact hnd m hm ((h.cmp.gt_iff s m).mp (of_decide_eq_true hgt))

theorem kept_eq (cfg : GridCfg σ β) (h : GoodCfg cfg) (g : GridArchive σ β) (s : σ)
    (hnd : ∀ m ∈ g.contents, ¬ cfg.cmp m s < 0) :
    g.contents.filter (fun m => cfg.cmp s m = 0) =
      g.contents.filter (fun m => decide (¬ cfg.cmp s m < 0)) := by
  apply List.filter_congr
  intro m hm
  exact decide_eq_decide.mpr ⟨fun h0 => ((h.cmp.zero_iff s m).mp h0).1,
    fun hn => (h.cmp.zero_iff s m).mpr ⟨hn, hnd m hm⟩⟩

/-- a non-dominated newcomer that fits is added while every member it dominates leaves (and no other) -/
theorem aga_fitting_newcomer (cfg : GridCfg σ β) (h : GoodCfg cfg) (g : GridArchive σ β) (s : σ)
    (hnd : ∀ m ∈ g.contents, ¬ cfg.cmp m s < 0)
    (hfit : (g.contents.filter (fun m => decide (¬ cfg.cmp s m < 0))).length + 1 ≤ cfg.capacity) :
    (gridAdd cfg g s).2 = true ∧
    (gridAdd cfg g s).1.contents = g.contents.filter (fun m => decide (¬ cfg.cmp s m < 0)) ++ [s] := by
  rw [← kept_eq cfg h g s hnd] at hfit ⊢
  rw [gridAdd_eq, if_neg (not_any_of_nd cfg h g s hnd)]
  split
  · rename_i hemp
    rw [g1Of_contents, List.isEmpty_iff] at hemp
    rw [hemp]
    exact ⟨rfl, rfl⟩
  · rw [if_pos (by rw [g1Of_contents, List.length_append]; exact hfit)]
    exact ⟨rfl, by rw [g2Of_contents, g1Of_contents]⟩

/-- on overflow exactly one solution is dropped, taken from a cell of maximal occupancy -/
theorem aga_overflow_drops_one (cfg : GridCfg σ β) (h : GoodCfg cfg) (g : GridArchive σ β) (s : σ)
    (hg : Inv cfg g) (hnew : ∀ m ∈ g.contents, cfg.getId m ≠ cfg.getId s)
    (hnd : ∀ m ∈ g.contents, ¬ cfg.cmp m s < 0)
    (hover : cfg.capacity < (g.contents.filter (fun m => decide (¬ cfg.cmp s m < 0))).length + 1) :
    ∃ (g2 : GridArchive σ β) (p : σ),
      g2.contents = g.contents.filter (fun m => decide (¬ cfg.cmp s m < 0)) ++ [s] ∧
      DensityCorrect cfg g2 ∧ MembersInside cfg g2 ∧ p ∈ g2.contents ∧
      (∀ m ∈ g2.contents, occ cfg g2 m ≤ occ cfg g2 p) ∧
      (gridAdd cfg g s).1.contents = eraseId cfg.getId p g2.contents ∧
      ((gridAdd cfg g s).2 = false ↔ cfg.getId p = cfg.getId s) := by
  rw [← kept_eq cfg h g s hnd] at hover ⊢
  have hany := not_any_of_nd cfg h g s hnd
  have hg1 := g1Of_good cfg h g s hg.density hg.inside
  have hcap := h.cap
  have hnemp : ¬ ((g1Of cfg g s).contents.isEmpty = true) := by
    rw [g1Of_contents, List.isEmpty_iff]
    intro he; rw [he] at hover; simp at hover; omega
  have hnfit : ¬ (((g1Of cfg g s).contents ++ [s]).length ≤ cfg.capacity) := by
    rw [g1Of_contents, List.length_append]; simp; omega
  have hadd := gridAdd_eq cfg g s
  rw [if_neg hany, if_neg hnemp, if_neg hnfit] at hadd
  obtain ⟨g2, hg2def⟩ : ∃ g2, g2 = g2Of cfg (g1Of cfg g s) s := ⟨_, rfl⟩
  rw [← hg2def] at hadd
  have hg2 : DensityCorrect cfg g2 ∧ MembersInside cfg g2 := by
    rw [hg2def]; exact g2Of_good cfg h (g1Of cfg g s) s hg1.1 hg1.2
  have hc2 : g2.contents = g.contents.filter (fun m => cfg.cmp s m = 0) ++ [s] := by
    rw [hg2def, g2Of_contents, g1Of_contents]
  have hfacts := kept_snoc_facts cfg h g s hg hnew hany
  rw [← hc2] at hfacts
  have hsmem : s ∈ g2.contents := by rw [hc2]; simp
  clear hg2def
  obtain ⟨p, hp, hmax, hpick, hfind⟩ := pick_spec cfg g2 (List.ne_nil_of_mem hsmem)
  rw [hfind, hpick] at hadd
  by_cases hbr : (densAt g2.density (cfg.cell g2.bounds s) == densAt g2.density (cfg.cell g2.bounds p)) = true
  · rw [if_pos hbr] at hadd
    have hbr' : densAt g2.density (cfg.cell g2.bounds s) = densAt g2.density (cfg.cell g2.bounds p) := by
      simpa using hbr
    refine ⟨g2, s, hc2, hg2.1, hg2.2, hsmem, ?_, ?_, ?_⟩
    · intro m hm
      unfold occ
      rw [hbr']; exact hmax m hm
    · rw [hadd]; exact gridRemove_contents cfg g2 s hsmem
    · rw [hadd]; simp
  · rw [if_neg hbr] at hadd
    refine ⟨g2, p, hc2, hg2.1, hg2.2, hp, hmax, ?_, ?_⟩
    · rw [hadd]; exact gridRemove_contents cfg g2 p hp
    · rw [hadd]
      simp only [Bool.true_eq_false, false_iff]
      intro hid
      have hps : p = s := List.inj_on_of_nodup_map hfacts.2 hp hsmem hid
      apply hbr
      rw [hps]; simp

/-! ### population sizes of the generational algorithms (survival = stable sort + take) -/

/-- NSGA-II / ES / SPEA2-style survival: truncating the merged parents-plus-offspring (at least `N` of
them) to `N` yields exactly `N` -/
theorem generational_survivors_size {τ : Type} (le : τ → τ → Bool) (merged : List τ) (N : Nat)
    (h : N ≤ merged.length) : (truncateBy le merged N).length = N := by
  rw [truncate_length]; exact Nat.min_eq_left h

/-- the GA keeps `min N (offspring + 1)`: never more than `N`, and exactly `N` unless it was given
fewer offspring than parents -/
theorem ga_population_size {τ : Type} (le : τ → τ → Bool) (offspring : List τ) (fittest : τ) (N : Nat) :
    (truncateBy le (offspring ++ [fittest]) N).length ≤ N ∧
    (N ≤ offspring.length + 1 → (truncateBy le (offspring ++ [fittest]) N).length = N) := by
  rw [truncate_length]
  constructor
  · exact Nat.min_le_left _ _
  · intro h; simp; omega

end Platypus
