import PlatypusModel.Model.Crowding
import Mathlib.Algebra.Order.Field.Basic
import Mathlib.Data.List.Perm.Basic
import Mathlib.Data.List.Sort
import Mathlib.Tactic.Linarith
set_option linter.unusedSectionVars false
/-!
# C04 — the crowding distance is the textbook one (over any ordered field)

`Model/Crowding.lean` transcribes `crowding_distance` generically (`none` = +infinity); its Float instance is compared
with the implementation bit for bit and its Rat instance with an exact oracle on every run.  Here, for every front of
solutions with pairwise different objective vectors (what `unique` leaves), over any ordered field:

* the per-objective order is a stable sort: a rearrangement of the front, non-decreasing in that objective;
* fewer than three members: everybody gets +infinity;
* at least three: for every objective the first and the last member of its order get +infinity (and keep it);
* a member that is interior in every objective's order gets exactly the sum over the objectives of
  (value of its successor − value of its predecessor) / (largest − smallest value), provided every objective's range is
  at least `eps` (the collapsed-range rule gives +infinity instead);
* one value per member of the front.
-/
namespace Platypus

section
variable {α : Type} [Field α] [LinearOrder α] [IsStrictOrderedRing α]

/-- the value of objective `k` -/
def objKey (k : Nat) (s : Nat × List α) : α := s.2.getD k 0

/-- the front with positions attached, as `crowdingG` builds it -/
def indexed (front : List (List α)) : List (Nat × List α) := (List.range front.length).zip front

/-- position of member `i` in the order of objective `k` -/
def posIn (u : List (Nat × List α)) (k i : Nat) : Nat := (sortByObj u k).findIdx (fun s => s.1 == i)

/-- (successor − predecessor) / (largest − smallest) of member `i` in objective `k` -/
def neighbourGap (u : List (Nat × List α)) (k i : Nat) : α :=
  let sorted := sortByObj u k
  let j := posIn u k i
  (((sorted[j + 1]?).map (objKey k)).getD 0 - ((sorted[j - 1]?).map (objKey k)).getD 0) /
    (((sorted.getLast?).map (objKey k)).getD 0 - ((sorted.head?).map (objKey k)).getD 0)

/-- the per-objective order is a rearrangement of the members … -/
theorem sortByObj_perm (u : List (Nat × List α)) (k : Nat) : (sortByObj u k).Perm u := by
  unfold sortByObj
  exact List.mergeSort_perm _ _

/-- … that is non-decreasing in that objective -/
theorem sortByObj_sorted (u : List (Nat × List α)) (k : Nat) :
    (sortByObj u k).Pairwise (fun a b => objKey k a ≤ objKey k b) := by
  unfold sortByObj
  have h := List.pairwise_mergeSort (le := fun (a b : Nat × List α) => decide (a.2.getD k 0 ≤ b.2.getD k 0))
    (by intro a b c hab hbc; simp only [decide_eq_true_eq] at *; exact le_trans hab hbc)
    (by intro a b; simp only [Bool.or_eq_true, decide_eq_true_eq]; exact le_total _ _) u
  refine h.imp ?_
  intro a b hab
  simpa [objKey] using hab

def cdg_all (cds : List (Nat × Option α)) (i : Nat) (v : Option α) : Prop :=
  ∀ p ∈ cds, p.1 = i → p.2 = v

theorem cdg_mem_update {cds : List (Nat × Option α)} {j : Nat} {f : Option α → Option α} {p : Nat × Option α}
    (hp : p ∈ cdUpdate cds j f) : ∃ q ∈ cds, p.1 = q.1 ∧ ((q.1 = j ∧ p.2 = f q.2) ∨ (q.1 ≠ j ∧ p.2 = q.2)) := by
  unfold cdUpdate at hp
  rw [List.mem_map] at hp
  obtain ⟨q, hq, rfl⟩ := hp
  refine ⟨q, hq, ?_⟩
  obtain ⟨a, b⟩ := q
  by_cases h : a = j
  · simp [h]
  · simp [h]

theorem cdg_all_update_same {cds : List (Nat × Option α)} {i : Nat} {v : Option α} (f : Option α → Option α)
    (h : cdg_all cds i v) : cdg_all (cdUpdate cds i f) i (f v) := by
  intro p hp hpi
  obtain ⟨q, hq, h1, h2⟩ := cdg_mem_update hp
  rcases h2 with ⟨h2, h3⟩ | ⟨h2, h3⟩
  · rw [h3, h q hq h2]
  · exact absurd (h1 ▸ hpi) h2

theorem cdg_all_update_other {cds : List (Nat × Option α)} {i j : Nat} {v : Option α} (f : Option α → Option α)
    (hji : j ≠ i) (h : cdg_all cds i v) : cdg_all (cdUpdate cds j f) i v := by
  intro p hp hpi
  obtain ⟨q, hq, h1, h2⟩ := cdg_mem_update hp
  rcases h2 with ⟨h2, h3⟩ | ⟨h2, h3⟩
  · exact absurd (h2.symm.trans (h1 ▸ hpi)) hji
  · rw [h3]; exact h q hq (h1 ▸ hpi)

theorem cdg_all_update_none {cds : List (Nat × Option α)} {i : Nat} (j : Nat) {f : Option α → Option α}
    (hf : f none = none) (h : cdg_all cds i none) : cdg_all (cdUpdate cds j f) i none := by
  intro p hp hpi
  obtain ⟨q, hq, h1, h2⟩ := cdg_mem_update hp
  rcases h2 with ⟨h2, h3⟩ | ⟨h2, h3⟩
  · rw [h3, h q hq (h1 ▸ hpi), hf]
  · rw [h3]; exact h q hq (h1 ▸ hpi)

theorem cdg_all_update_const {cds : List (Nat × Option α)} {i : Nat} {f : Option α → Option α}
    (hf : ∀ x, f x = none) : cdg_all (cdUpdate cds i f) i none := by
  intro p hp hpi
  obtain ⟨q, hq, h1, h2⟩ := cdg_mem_update hp
  rcases h2 with ⟨h2, h3⟩ | ⟨h2, h3⟩
  · rw [h3, hf]
  · exact absurd (h1 ▸ hpi) h2

theorem cdg_update_keys (cds : List (Nat × Option α)) (j : Nat) (f : Option α → Option α) :
    (cdUpdate cds j f).map (·.1) = cds.map (·.1) := by
  unfold cdUpdate
  rw [List.map_map]
  apply List.map_congr_left
  intro p _
  obtain ⟨a, b⟩ := p
  by_cases h : a = j <;> simp [h]

theorem cdg_foldl_keys {β : Type} (step : List (Nat × Option α) → β → List (Nat × Option α))
    (h : ∀ cds b, (step cds b).map (·.1) = cds.map (·.1)) (l : List β) (cds : List (Nat × Option α)) :
    (l.foldl step cds).map (·.1) = cds.map (·.1) := by
  induction l generalizing cds with
  | nil => rfl
  | cons a l ih => rw [List.foldl_cons, ih, h]

theorem cdg_foldl_pres {β : Type} (step : List (Nat × Option α) → β → List (Nat × Option α)) (i : Nat)
    (hpres : ∀ cds b, cdg_all cds i none → cdg_all (step cds b) i none) (l : List β)
    (cds : List (Nat × Option α)) (h : cdg_all cds i none) : cdg_all (l.foldl step cds) i none := by
  induction l generalizing cds with
  | nil => exact h
  | cons a l ih => rw [List.foldl_cons]; exact ih _ (hpres _ _ h)

theorem cdg_foldl_none {β : Type} (step : List (Nat × Option α) → β → List (Nat × Option α)) (i : Nat)
    (hpres : ∀ cds b, cdg_all cds i none → cdg_all (step cds b) i none) (b0 : β)
    (hset : ∀ cds, cdg_all (step cds b0) i none) (l : List β) (hb : b0 ∈ l)
    (cds : List (Nat × Option α)) : cdg_all (l.foldl step cds) i none := by
  induction l generalizing cds with
  | nil => cases hb
  | cons a l ih =>
    rw [List.foldl_cons]
    rcases List.mem_cons.1 hb with rfl | hb
    · exact cdg_foldl_pres step i hpres l _ (hset _)
    · exact ih hb _

theorem cdg_foldl_unchanged {β : Type} (step : List (Nat × Option α) → β → List (Nat × Option α)) (i : Nat)
    (l : List β) (hother : ∀ b ∈ l, ∀ cds v, cdg_all cds i v → cdg_all (step cds b) i v)
    (cds : List (Nat × Option α)) (v : Option α) (h : cdg_all cds i v) : cdg_all (l.foldl step cds) i v := by
  induction l generalizing cds with
  | nil => exact h
  | cons a l ih =>
    rw [List.foldl_cons]
    exact ih (fun b hb => hother b (List.mem_cons_of_mem _ hb)) _ (hother a List.mem_cons_self _ _ h)

theorem cdg_foldl_exact {β : Type} (step : List (Nat × Option α) → β → List (Nat × Option α)) (i : Nat)
    (F : Option α → Option α) (b0 : β)
    (l : List β) (hnd : l.Nodup) (hb : b0 ∈ l)
    (hother : ∀ b ∈ l, b ≠ b0 → ∀ cds v, cdg_all cds i v → cdg_all (step cds b) i v)
    (hsame : ∀ cds v, cdg_all cds i v → cdg_all (step cds b0) i (F v))
    (cds : List (Nat × Option α)) (v : Option α) (h : cdg_all cds i v) :
    cdg_all (l.foldl step cds) i (F v) := by
  induction l generalizing cds with
  | nil => cases hb
  | cons a l ih =>
    rw [List.foldl_cons]
    rw [List.nodup_cons] at hnd
    rcases List.mem_cons.1 hb with rfl | hb
    · apply cdg_foldl_unchanged step i l _ _ _ (hsame _ _ h)
      intro b hbl
      exact hother b (List.mem_cons_of_mem _ hbl) (by rintro rfl; exact hnd.1 hbl)
    · apply ih hnd.2 hb (fun b hbl => hother b (List.mem_cons_of_mem _ hbl))
      exact hother a List.mem_cons_self (by rintro rfl; exact hnd.1 hb) _ _ h

/-- one interior step of the pass -/
def cdg_step (eps : α) (sorted : List (Nat × List α)) (k : Nat) (minV maxV : α)
    (cds : List (Nat × Option α)) (j0 : Nat) : List (Nat × Option α) :=
  match sorted[j0 + 1]?, sorted[j0 + 1 + 1]?, sorted[j0 + 1 - 1]? with
  | some s, some nx, some pv =>
    if maxV - minV < eps then cdUpdate cds s.1 (fun _ => none)
    else cdUpdate cds s.1 (cdAdd · (some ((objKey k nx - objKey k pv) / (maxV - minV))))
  | _, _, _ => cds

theorem cdg_pass_eq (eps : α) (u : List (Nat × List α)) (k : Nat) (cds : List (Nat × Option α))
    (first last : Nat × List α) (hf : (sortByObj u k).head? = some first)
    (hl : (sortByObj u k).getLast? = some last) :
    crowdingPassG eps u k cds =
      (List.range ((sortByObj u k).length - 2)).foldl
        (cdg_step eps (sortByObj u k) k (objKey k first) (objKey k last))
        (cdUpdate (cdUpdate cds first.1 (cdAdd · none)) last.1 (cdAdd · none)) := by
  unfold crowdingPassG
  simp only [hf, hl]
  rfl

theorem cdg_pass_nil (eps : α) (u : List (Nat × List α)) (k : Nat) (cds : List (Nat × Option α))
    (h : sortByObj u k = []) : crowdingPassG eps u k cds = cds := by
  unfold crowdingPassG
  simp only [h]
  rfl

theorem cdg_cdAdd_none_left (x : Option α) : cdAdd none x = none := by
  cases x <;> rfl

theorem cdg_cdAdd_none_right (x : Option α) : cdAdd x none = none := by
  cases x <;> rfl

theorem cdg_step_keys (eps : α) (sorted : List (Nat × List α)) (k : Nat) (minV maxV : α)
    (cds : List (Nat × Option α)) (j0 : Nat) :
    (cdg_step eps sorted k minV maxV cds j0).map (·.1) = cds.map (·.1) := by
  unfold cdg_step
  split
  · split <;> exact cdg_update_keys _ _ _
  · rfl

theorem cdg_step_pres (eps : α) (sorted : List (Nat × List α)) (k : Nat) (minV maxV : α) (i : Nat)
    (cds : List (Nat × Option α)) (j0 : Nat) (h : cdg_all cds i none) :
    cdg_all (cdg_step eps sorted k minV maxV cds j0) i none := by
  unfold cdg_step
  split
  · split
    · exact cdg_all_update_none _ rfl h
    · exact cdg_all_update_none _ (cdg_cdAdd_none_left _) h
  · exact h

theorem cdg_step_eq (eps : α) (sorted : List (Nat × List α)) (k : Nat) (minV maxV : α)
    (cds : List (Nat × Option α)) (j0 : Nat) (s nx pv : Nat × List α)
    (hs : sorted[j0 + 1]? = some s) (hnx : sorted[j0 + 1 + 1]? = some nx) (hpv : sorted[j0 + 1 - 1]? = some pv) :
    cdg_step eps sorted k minV maxV cds j0 =
      if maxV - minV < eps then cdUpdate cds s.1 (fun _ => none)
      else cdUpdate cds s.1 (cdAdd · (some ((objKey k nx - objKey k pv) / (maxV - minV)))) := by
  unfold cdg_step
  simp only [hs, hnx, hpv]

/-- head and last exist when the list is nonempty -/
theorem cdg_head_last (l : List (Nat × List α)) (h : l ≠ []) :
    ∃ first last, l.head? = some first ∧ l.getLast? = some last := by
  cases l with
  | nil => exact absurd rfl h
  | cons a l => exact ⟨a, (a :: l).getLast h, rfl, List.getLast?_eq_some_getLast h⟩

theorem cdg_pass_keys (eps : α) (u : List (Nat × List α)) (k : Nat) (cds : List (Nat × Option α)) :
    (crowdingPassG eps u k cds).map (·.1) = cds.map (·.1) := by
  by_cases h : sortByObj u k = []
  · rw [cdg_pass_nil eps u k cds h]
  · obtain ⟨first, last, hf, hl⟩ := cdg_head_last _ h
    rw [cdg_pass_eq eps u k cds first last hf hl, cdg_foldl_keys _ (cdg_step_keys _ _ _ _ _),
      cdg_update_keys, cdg_update_keys]

theorem cdg_pass_pres (eps : α) (u : List (Nat × List α)) (k : Nat) (i : Nat) (cds : List (Nat × Option α))
    (hn : cdg_all cds i none) : cdg_all (crowdingPassG eps u k cds) i none := by
  by_cases h : sortByObj u k = []
  · rw [cdg_pass_nil eps u k cds h]; exact hn
  · obtain ⟨first, last, hf, hl⟩ := cdg_head_last _ h
    rw [cdg_pass_eq eps u k cds first last hf hl]
    apply cdg_foldl_pres _ i (fun cds b => cdg_step_pres _ _ _ _ _ _ cds b)
    exact cdg_all_update_none _ (cdg_cdAdd_none_left _) (cdg_all_update_none _ (cdg_cdAdd_none_left _) hn)

theorem cdg_pass_first (eps : α) (u : List (Nat × List α)) (k : Nat) (cds : List (Nat × Option α))
    (first : Nat × List α) (hf : (sortByObj u k).head? = some first) :
    cdg_all (crowdingPassG eps u k cds) first.1 none := by
  have h : sortByObj u k ≠ [] := by intro h; rw [h] at hf; cases hf
  obtain ⟨first', last, hf', hl⟩ := cdg_head_last _ h
  obtain rfl : first' = first := Option.some.inj (hf'.symm.trans hf)
  rw [cdg_pass_eq eps u k cds first' last hf hl]
  apply cdg_foldl_pres _ _ (fun cds b => cdg_step_pres _ _ _ _ _ _ cds b)
  exact cdg_all_update_none _ (cdg_cdAdd_none_left _) (cdg_all_update_const cdg_cdAdd_none_right)

theorem cdg_pass_last (eps : α) (u : List (Nat × List α)) (k : Nat) (cds : List (Nat × Option α))
    (last : Nat × List α) (hl : (sortByObj u k).getLast? = some last) :
    cdg_all (crowdingPassG eps u k cds) last.1 none := by
  have h : sortByObj u k ≠ [] := by intro h; rw [h] at hl; cases hl
  obtain ⟨first, last', hf, hl'⟩ := cdg_head_last _ h
  obtain rfl : last' = last := Option.some.inj (hl'.symm.trans hl)
  rw [cdg_pass_eq eps u k cds first last' hf hl]
  apply cdg_foldl_pres _ _ (fun cds b => cdg_step_pres _ _ _ _ _ _ cds b)
  exact cdg_all_update_const cdg_cdAdd_none_right

theorem cdg_id_inj (l : List (Nat × List α)) (hnd : (l.map (·.1)).Nodup) (a b : Nat) (x y : Nat × List α)
    (hx : l[a]? = some x) (hy : l[b]? = some y) (hxy : x.1 = y.1) : a = b := by
  obtain ⟨ha, hxa⟩ := List.getElem?_eq_some_iff.1 hx
  obtain ⟨hb, hyb⟩ := List.getElem?_eq_some_iff.1 hy
  have ha' : a < (l.map (·.1)).length := by simpa using ha
  have hb' : b < (l.map (·.1)).length := by simpa using hb
  have : (l.map (·.1))[a] = (l.map (·.1))[b] := by
    simp only [List.getElem_map, hxa, hyb, hxy]
  exact (hnd.getElem_inj_iff (hi := ha') (hj := hb')).1 this

theorem cdg_pass_collapsed (eps : α) (u : List (Nat × List α)) (k : Nat) (cds : List (Nat × Option α))
    (hcol : ((sortByObj u k).getLast?.map (objKey k)).getD 0 - ((sortByObj u k).head?.map (objKey k)).getD 0 < eps)
    (s : Nat × List α) (hs : s ∈ sortByObj u k) :
    cdg_all (crowdingPassG eps u k cds) s.1 none := by
  have h : sortByObj u k ≠ [] := by intro h; rw [h] at hs; cases hs
  obtain ⟨first, last, hf, hl⟩ := cdg_head_last _ h
  obtain ⟨j, hj, hjs⟩ := List.getElem_of_mem hs
  by_cases hj0 : j = 0
  · subst hj0
    have : (sortByObj u k).head? = some s := by
      rw [List.head?_eq_getElem?, List.getElem?_eq_getElem hj, hjs]
    exact cdg_pass_first eps u k cds s this
  by_cases hjn : j = (sortByObj u k).length - 1
  · subst hjn
    have : (sortByObj u k).getLast? = some s := by
      rw [List.getLast?_eq_getElem?, List.getElem?_eq_getElem hj, hjs]
    exact cdg_pass_last eps u k cds s this
  rw [cdg_pass_eq eps u k cds first last hf hl]
  simp only [hf, hl, Option.map_some, Option.getD_some] at hcol
  apply cdg_foldl_none _ _ (fun cds b => cdg_step_pres _ _ _ _ _ _ cds b) (j - 1)
  · intro cds'
    have h1 : j - 1 + 1 = j := by omega
    have hs1 : (sortByObj u k)[j - 1 + 1]? = some s := by
      rw [h1, List.getElem?_eq_getElem hj, hjs]
    have hs2 : (sortByObj u k)[j - 1 + 1 + 1]? = some ((sortByObj u k)[j - 1 + 1 + 1]'(by omega)) :=
      List.getElem?_eq_getElem _
    have hs3 : (sortByObj u k)[j - 1 + 1 - 1]? = some ((sortByObj u k)[j - 1 + 1 - 1]'(by omega)) :=
      List.getElem?_eq_getElem _
    rw [cdg_step_eq eps _ k _ _ cds' (j - 1) s _ _ hs1 hs2 hs3, if_pos hcol]
    exact cdg_all_update_const (fun _ => rfl)
  · rw [List.mem_range]; omega

theorem cdg_pass_interior (eps : α) (u : List (Nat × List α)) (k : Nat) (cds : List (Nat × Option α))
    (hnd : ((sortByObj u k).map (·.1)).Nodup)
    (hrange : ¬ (((sortByObj u k).getLast?.map (objKey k)).getD 0 -
      ((sortByObj u k).head?.map (objKey k)).getD 0 < eps))
    (j0 : Nat) (hj : j0 + 2 < (sortByObj u k).length) (s : Nat × List α)
    (hs : (sortByObj u k)[j0 + 1]? = some s) (v : Option α) (hv : cdg_all cds s.1 v) :
    cdg_all (crowdingPassG eps u k cds) s.1
      (cdAdd v (some (((((sortByObj u k)[j0 + 1 + 1]?).map (objKey k)).getD 0 -
          (((sortByObj u k)[j0 + 1 - 1]?).map (objKey k)).getD 0) /
        (((sortByObj u k).getLast?.map (objKey k)).getD 0 -
          ((sortByObj u k).head?.map (objKey k)).getD 0)))) := by
  have h : sortByObj u k ≠ [] := by intro h; rw [h] at hs; cases hs
  obtain ⟨first, last, hf, hl⟩ := cdg_head_last _ h
  rw [cdg_pass_eq eps u k cds first last hf hl]
  have hs2 : (sortByObj u k)[j0 + 1 + 1]? = some ((sortByObj u k)[j0 + 1 + 1]'(by omega)) :=
    List.getElem?_eq_getElem _
  have hs3 : (sortByObj u k)[j0 + 1 - 1]? = some ((sortByObj u k)[j0 + 1 - 1]'(by omega)) :=
    List.getElem?_eq_getElem _
  simp only [hf, hl, hs2, hs3, Option.map_some, Option.getD_some] at hrange ⊢
  have hf0 : (sortByObj u k)[0]? = some first := by rw [← List.head?_eq_getElem?]; exact hf
  have hln : (sortByObj u k)[(sortByObj u k).length - 1]? = some last := by
    rw [← List.getLast?_eq_getElem?]; exact hl
  have hfirst : first.1 ≠ s.1 := by
    intro hc
    have := cdg_id_inj _ hnd _ _ _ _ hf0 hs hc
    omega
  have hlast : last.1 ≠ s.1 := by
    intro hc
    have := cdg_id_inj _ hnd _ _ _ _ hln hs hc
    omega
  apply cdg_foldl_exact _ s.1 (fun x => cdAdd x (some ((objKey k ((sortByObj u k)[j0 + 1 + 1]'(by omega)) -
      objKey k ((sortByObj u k)[j0 + 1 - 1]'(by omega))) / (objKey k last - objKey k first))))
    j0 _ List.nodup_range (List.mem_range.2 (by omega))
  · intro b hb hbj cds' v' hv'
    rw [List.mem_range] at hb
    have hb1 : (sortByObj u k)[b + 1]? = some ((sortByObj u k)[b + 1]'(by omega)) :=
      List.getElem?_eq_getElem _
    have hb2 : (sortByObj u k)[b + 1 + 1]? = some ((sortByObj u k)[b + 1 + 1]'(by omega)) :=
      List.getElem?_eq_getElem _
    have hb3 : (sortByObj u k)[b + 1 - 1]? = some ((sortByObj u k)[b + 1 - 1]'(by omega)) :=
      List.getElem?_eq_getElem _
    have hne : ((sortByObj u k)[b + 1]'(by omega)).1 ≠ s.1 := by
      intro hc
      have := cdg_id_inj _ hnd _ _ _ _ hb1 hs hc
      omega
    rw [cdg_step_eq eps _ k _ _ cds' b _ _ _ hb1 hb2 hb3]
    split
    · exact cdg_all_update_other _ hne hv'
    · exact cdg_all_update_other _ hne hv'
  · intro cds' v' hv'
    rw [cdg_step_eq eps _ k _ _ cds' j0 s _ _ hs hs2 hs3, if_neg hrange]
    exact cdg_all_update_same (fun x => cdAdd x (some _)) hv'
  · exact cdg_all_update_other _ hlast (cdg_all_update_other _ hfirst hv)

theorem cdg_unique_id (l : List (Nat × List α)) (seen : List (List α))
    (hp : (l.map (·.2)).Pairwise (· ≠ ·)) (hs : ∀ s ∈ l, s.2 ∉ seen) : uniqueG l seen = l := by
  induction l generalizing seen with
  | nil => rfl
  | cons s rest ih =>
    rw [List.map_cons, List.pairwise_cons] at hp
    have h1 : seen.any (fun k => k == s.2) = false := by
      rw [List.any_eq_false]
      intro x hx hxs
      rw [beq_iff_eq] at hxs
      exact hs s List.mem_cons_self (hxs ▸ hx)
    rw [uniqueG, h1]
    simp only [Bool.false_eq_true, if_false]
    rw [ih (s.2 :: seen) hp.2]
    intro t ht htm
    rcases List.mem_cons.1 htm with h | h
    · exact hp.1 t.2 (List.mem_map_of_mem ht) h.symm
    · exact hs t (List.mem_cons_of_mem _ ht) h

theorem cdg_indexed_fst (front : List (List α)) : (indexed front).map (·.1) = List.range front.length := by
  unfold indexed
  exact List.map_fst_zip (by simp)

theorem cdg_indexed_snd (front : List (List α)) : (indexed front).map (·.2) = front := by
  unfold indexed
  exact List.map_snd_zip (by simp)

theorem cdg_indexed_length (front : List (List α)) : (indexed front).length = front.length := by
  have := congrArg List.length (cdg_indexed_fst front)
  simpa using this

theorem cdg_unique_indexed (front : List (List α)) (hd : front.Pairwise (· ≠ ·)) :
    uniqueG (indexed front) [] = indexed front := by
  apply cdg_unique_id
  · rw [cdg_indexed_snd]; exact hd
  · intro s _ h; cases h

theorem cdg_indexed_mem (front : List (List α)) (i : Nat) (hi : i < front.length) :
    ∃ s ∈ indexed front, s.1 = i := by
  have : i ∈ (indexed front).map (·.1) := by rw [cdg_indexed_fst]; exact List.mem_range.2 hi
  obtain ⟨s, hs, h⟩ := List.mem_map.1 this
  exact ⟨s, hs, h⟩

/-- the starting association list -/
def cdg_cds0 (front : List (List α)) : List (Nat × Option α) :=
  (indexed front).map fun (i, _) => (i, some 0)

theorem cdg_cds0_keys (front : List (List α)) : (cdg_cds0 front).map (·.1) = List.range front.length := by
  unfold cdg_cds0
  rw [List.map_map, ← cdg_indexed_fst]
  apply List.map_congr_left
  intro p _
  rfl

theorem cdg_cds0_all (front : List (List α)) (i : Nat) : cdg_all (cdg_cds0 front) i (some 0) := by
  intro p hp _
  unfold cdg_cds0 at hp
  obtain ⟨q, _, rfl⟩ := List.mem_map.1 hp
  rfl

/-- the association list `crowdingG` computes -/
def cdg_cds (eps : α) (nobjs : Nat) (front : List (List α)) : List (Nat × Option α) :=
  if (uniqueG (indexed front) []).length < 3 then
    (uniqueG (indexed front) []).foldl (fun cds s => cdUpdate cds s.1 (fun _ => none)) (cdg_cds0 front)
  else (List.range nobjs).foldl (fun cds k => crowdingPassG eps (uniqueG (indexed front) []) k cds) (cdg_cds0 front)

theorem cdg_crowdingG_eq (eps : α) (nobjs : Nat) (front : List (List α)) :
    crowdingG eps nobjs front = (cdg_cds eps nobjs front).map (·.2) := rfl

theorem cdg_cds_keys (eps : α) (nobjs : Nat) (front : List (List α)) :
    (cdg_cds eps nobjs front).map (·.1) = List.range front.length := by
  unfold cdg_cds
  split
  · rw [cdg_foldl_keys _ (fun cds s => cdg_update_keys cds _ _), cdg_cds0_keys]
  · rw [cdg_foldl_keys _ (fun cds k => cdg_pass_keys eps _ k cds), cdg_cds0_keys]

theorem cdg_read (cds : List (Nat × Option α)) (n : Nat) (hk : cds.map (·.1) = List.range n) (i : Nat)
    (hi : i < n) (v : Option α) (hv : cdg_all cds i v) : (cds.map (·.2))[i]? = some v := by
  have hlen : cds.length = n := by
    have := congrArg List.length hk
    simpa using this
  have hi' : i < cds.length := by omega
  have h1 : (cds[i]).1 = i := by
    have : (cds.map (·.1))[i]'(by simpa using hi') = (List.range n)[i]'(by simpa using hi) := by
      simp only [hk]
    simpa using this
  rw [List.getElem?_map, List.getElem?_eq_getElem hi']
  simp only [Option.map_some]
  rw [hv _ (List.getElem_mem hi') h1]

theorem cdg_sorted_ids (front : List (List α)) (k : Nat) :
    ((sortByObj (indexed front) k).map (·.1)).Nodup := by
  have hp := (sortByObj_perm (indexed front) k).map (·.1)
  rw [hp.nodup_iff, cdg_indexed_fst]
  exact List.nodup_range

theorem cdg_sorted_length (u : List (Nat × List α)) (k : Nat) : (sortByObj u k).length = u.length :=
  (sortByObj_perm u k).length_eq

theorem cdg_pos (u : List (Nat × List α)) (k i : Nat) (h : ∃ s ∈ u, s.1 = i) :
    ∃ s, (sortByObj u k)[posIn u k i]? = some s ∧ s.1 = i ∧ posIn u k i < (sortByObj u k).length := by
  have hlt : posIn u k i < (sortByObj u k).length := by
    unfold posIn
    rw [List.findIdx_lt_length]
    obtain ⟨s, hs, hsi⟩ := h
    exact ⟨s, (sortByObj_perm u k).mem_iff.2 hs, by simp [hsi]⟩
  refine ⟨(sortByObj u k)[posIn u k i], List.getElem?_eq_getElem hlt, ?_, hlt⟩
  have := List.findIdx_getElem (p := fun (s : Nat × List α) => s.1 == i) (xs := sortByObj u k) (w := hlt)
  rw [beq_iff_eq] at this
  exact this

theorem cdg_cds_big (eps : α) (nobjs : Nat) (front : List (List α)) (hd : front.Pairwise (· ≠ ·))
    (hlen : 3 ≤ front.length) :
    cdg_cds eps nobjs front =
      (List.range nobjs).foldl (fun cds k => crowdingPassG eps (indexed front) k cds) (cdg_cds0 front) := by
  unfold cdg_cds
  rw [cdg_unique_indexed front hd, cdg_indexed_length, if_neg (by omega)]

theorem cdg_outer_none (eps : α) (nobjs : Nat) (front : List (List α)) (hd : front.Pairwise (· ≠ ·))
    (hlen : 3 ≤ front.length) (i : Nat) (hi : i < front.length) (k : Nat) (hk : k < nobjs)
    (hpass : ∀ cds, cdg_all (crowdingPassG eps (indexed front) k cds) i none) :
    (crowdingG eps nobjs front)[i]? = some none := by
  rw [cdg_crowdingG_eq]
  apply cdg_read _ _ (cdg_cds_keys eps nobjs front) i hi
  rw [cdg_cds_big eps nobjs front hd hlen]
  exact cdg_foldl_none _ i (fun cds b h => cdg_pass_pres eps _ b i cds h) k hpass _ (List.mem_range.2 hk) _

/-- one value per member of the front -/
theorem crowdingG_length (eps : α) (nobjs : Nat) (front : List (List α)) :
    (crowdingG eps nobjs front).length = front.length := by
  rw [cdg_crowdingG_eq, List.length_map]
  have := congrArg List.length (cdg_cds_keys eps nobjs front)
  simpa using this

/-- fewer than three (pairwise different) members: everybody gets +infinity -/
theorem crowdingG_small (eps : α) (nobjs : Nat) (front : List (List α)) (hd : front.Pairwise (· ≠ ·))
    (hlen : front.length < 3) : ∀ v ∈ crowdingG eps nobjs front, v = none := by
  intro v hv
  rw [cdg_crowdingG_eq] at hv
  obtain ⟨p, hp, rfl⟩ := List.mem_map.1 hv
  have hpk : p.1 ∈ (cdg_cds eps nobjs front).map (·.1) := List.mem_map_of_mem hp
  rw [cdg_cds_keys, List.mem_range] at hpk
  obtain ⟨s, hs, hsi⟩ := cdg_indexed_mem front p.1 hpk
  have hall : cdg_all (cdg_cds eps nobjs front) p.1 none := by
    unfold cdg_cds
    rw [cdg_unique_indexed front hd, cdg_indexed_length, if_pos hlen]
    apply cdg_foldl_none _ _ _ s _ _ hs
    · intro cds b h
      exact cdg_all_update_none _ rfl h
    · intro cds
      rw [hsi]
      exact cdg_all_update_const (fun _ => rfl)
  exact hall p hp rfl

/-- at least three pairwise different members: the first and the last of every objective's order get +infinity -/
theorem crowdingG_extremes (eps : α) (nobjs : Nat) (front : List (List α)) (hd : front.Pairwise (· ≠ ·))
    (hlen : 3 ≤ front.length) (k : Nat) (hk : k < nobjs) (i : Nat) (hi : i < front.length)
    (hext : posIn (indexed front) k i = 0 ∨ posIn (indexed front) k i = front.length - 1) :
    (crowdingG eps nobjs front)[i]? = some none := by
  apply cdg_outer_none eps nobjs front hd hlen i hi k hk
  intro cds
  obtain ⟨s, hs, hsi, _⟩ := cdg_pos (indexed front) k i (cdg_indexed_mem front i hi)
  rcases hext with h | h
  · rw [h, ← List.head?_eq_getElem?] at hs
    rw [← hsi]
    exact cdg_pass_first eps _ k cds s hs
  · rw [h, ← cdg_indexed_length front, ← cdg_sorted_length (indexed front) k, ← List.getLast?_eq_getElem?] at hs
    rw [← hsi]
    exact cdg_pass_last eps _ k cds s hs

/-- a member that is interior in every objective's order gets the sum of its neighbour gaps divided by the ranges,
provided no objective's range is below `eps` -/
theorem crowdingG_interior (eps : α) (nobjs : Nat) (front : List (List α)) (hd : front.Pairwise (· ≠ ·))
    (hlen : 3 ≤ front.length) (i : Nat) (hi : i < front.length)
    (hint : ∀ k, k < nobjs → 0 < posIn (indexed front) k i ∧ posIn (indexed front) k i + 1 < front.length)
    (hrange : ∀ k, k < nobjs →
      ¬ (((sortByObj (indexed front) k).getLast?.map (objKey k)).getD 0 -
         ((sortByObj (indexed front) k).head?.map (objKey k)).getD 0 < eps)) :
    (crowdingG eps nobjs front)[i]? =
      some (some ((List.range nobjs).foldl (fun acc k => acc + neighbourGap (indexed front) k i) 0)) := by
  rw [cdg_crowdingG_eq]
  apply cdg_read _ _ (cdg_cds_keys eps nobjs front) i hi
  rw [cdg_cds_big eps nobjs front hd hlen]
  have key : ∀ m, m ≤ nobjs →
      cdg_all ((List.range m).foldl (fun cds k => crowdingPassG eps (indexed front) k cds) (cdg_cds0 front)) i
        (some ((List.range m).foldl (fun acc k => acc + neighbourGap (indexed front) k i) 0)) := by
    intro m
    induction m with
    | zero => intro _; exact cdg_cds0_all front i
    | succ m ih =>
      intro hm
      have ihm := ih (by omega)
      rw [List.range_succ, List.foldl_append, List.foldl_append, List.foldl_cons, List.foldl_nil,
        List.foldl_cons, List.foldl_nil]
      obtain ⟨s, hs, hsi, _⟩ := cdg_pos (indexed front) m i (cdg_indexed_mem front i hi)
      obtain ⟨h0, h1⟩ := hint m (by omega)
      obtain ⟨j0, hj0⟩ : ∃ j0, posIn (indexed front) m i = j0 + 1 := ⟨posIn (indexed front) m i - 1, by omega⟩
      have hlen' : j0 + 2 < (sortByObj (indexed front) m).length := by
        rw [cdg_sorted_length, cdg_indexed_length]; omega
      rw [hj0] at hs
      have := cdg_pass_interior eps (indexed front) m _ (cdg_sorted_ids front m) (hrange m (by omega)) j0 hlen' s hs
        _ (hsi ▸ ihm)
      rw [hsi] at this
      have hgap : neighbourGap (indexed front) m i =
          ((((sortByObj (indexed front) m)[j0 + 1 + 1]?).map (objKey m)).getD 0 -
            (((sortByObj (indexed front) m)[j0 + 1 - 1]?).map (objKey m)).getD 0) /
          (((sortByObj (indexed front) m).getLast?.map (objKey m)).getD 0 -
            ((sortByObj (indexed front) m).head?.map (objKey m)).getD 0) := by
        unfold neighbourGap
        simp only [hj0]
      rw [hgap]
      exact this
  exact key nobjs le_rfl

/-- the collapsed-range rule: an interior member of an objective whose range is below `eps` gets +infinity -/
theorem crowdingG_collapsed (eps : α) (nobjs : Nat) (front : List (List α)) (hd : front.Pairwise (· ≠ ·))
    (hlen : 3 ≤ front.length) (i : Nat) (hi : i < front.length) (k : Nat) (hk : k < nobjs)
    (hcol : ((sortByObj (indexed front) k).getLast?.map (objKey k)).getD 0 -
         ((sortByObj (indexed front) k).head?.map (objKey k)).getD 0 < eps) :
    (crowdingG eps nobjs front)[i]? = some none := by
  apply cdg_outer_none eps nobjs front hd hlen i hi k hk
  intro cds
  obtain ⟨s, hs, hsi⟩ := cdg_indexed_mem front i hi
  rw [← hsi]
  exact cdg_pass_collapsed eps _ k cds hcol s ((sortByObj_perm _ k).mem_iff.2 hs)
end

theorem cdg_ex_sort0 :
    sortByObj (α := Rat) [(0, [0, 2]), (1, [1, 1]), (2, [2, 0])] 0 = [(0, [0, 2]), (1, [1, 1]), (2, [2, 0])] := by
  simp [sortByObj, List.mergeSort, List.MergeSort.Internal.splitInTwo]

theorem cdg_ex_sort1 :
    sortByObj (α := Rat) [(0, [0, 2]), (1, [1, 1]), (2, [2, 0])] 1 = [(2, [2, 0]), (1, [1, 1]), (0, [0, 2])] := by
  simp [sortByObj, List.mergeSort, List.MergeSort.Internal.splitInTwo]

/-- non-vacuity / sanity: three points on a line over the rationals — the ends get +infinity, the middle one the sum of the
two normalised gaps, (2 − 0)/2 + (2 − 0)/2 = 2 -/
example : crowdingG (α := Rat) (1 / 1000) 2 [[0, 2], [1, 1], [2, 0]] = [none, some 2, none] := by
  simp [crowdingG, uniqueG, crowdingPassG, cdg_ex_sort0, cdg_ex_sort1, cdUpdate, cdAdd, List.range, List.range.loop]
  norm_num

end Platypus
