import PlatypusModel.Model.WFG
import PlatypusModel.Props.C18
/-
C18, WFG part — shape-function identities of the WFG reference implementation (`Model/WFG.lean`, compared with
platypus/problems.py on every run): the concave shapes lie on the unit sphere, the linear shapes on the unit
simplex, hence WFG4–9 never evaluate below `Σ (f_m / 2m)² = 1` and reach it exactly when the distance-related
parameter `x_M` is 0.
-/
namespace Platypus.C18
open Platypus

variable {α : Type} [Field α] [LinearOrder α] [IsStrictOrderedRing α]

/-- `Σ_m concave_m(x)² = 1` for every `x` of length `M - 1` -/
theorem shConcave_sum_sq (t : Trig α) (h : TrigOK t) (M : Nat) (hM : 1 ≤ M) (x : List α) (hx : x.length = M - 1) :
    sumSq ((List.range M).map fun i => shConcave t M (i + 1) x) = 1 := by
  obtain ⟨n, rfl⟩ : ∃ n, M = n + 1 := ⟨M - 1, by omega⟩
  simp only [Nat.add_sub_cancel] at hx
  unfold sumSq
  simp only [List.map_map]
  have key := c18_tele n
    (fun j => prodL ((x.take j).map fun v => t.sin (v * t.pi * (1 / (1 + 1))))
            * prodL ((x.take j).map fun v => t.sin (v * t.pi * (1 / (1 + 1)))))
    (fun j => (prodL ((x.take j).map fun v => t.sin (v * t.pi * (1 / (1 + 1))))
              * t.cos (x.getD j 0 * t.pi * (1 / (1 + 1))))
            * (prodL ((x.take j).map fun v => t.sin (v * t.pi * (1 / (1 + 1))))
              * t.cos (x.getD j 0 * t.pi * (1 / (1 + 1)))))
    ((fun f : α => f * f) ∘ fun i => shConcave t (n + 1) (i + 1) x)
    (by
      intro j hj
      have hj' : j < x.length := by omega
      rw [List.take_succ_eq_append_getElem hj', List.map_append, List.map_cons, List.map_nil,
        c18_prodL_concat, c18_getD_eq _ _ _ hj']
      have hp := h.pythag (x[j] * t.pi * (1 / (1 + 1)))
      generalize prodL ((x.take j).map fun v => t.sin (v * t.pi * (1 / (1 + 1)))) = P at *
      generalize t.cos (x[j] * t.pi * (1 / (1 + 1))) = c at *
      generalize t.sin (x[j] * t.pi * (1 / (1 + 1))) = s at *
      have : P * s * (P * s) + P * c * (P * c) = P * P * (c * c + s * s) := by ring
      rw [this, hp, mul_one])
    (by simp [shConcave])
    (by
      intro i hi
      have e : n - (i + 1) = n - 1 - i := by omega
      rw [← e]
      simp [shConcave])
  simp only [List.take_zero, List.map_nil, c18_prodL_nil, mul_one] at key
  exact key

/-- `Σ_m linear_m(x) = 1` -/
theorem shLinear_sum (M : Nat) (hM : 1 ≤ M) (x : List α) (hx : x.length = M - 1) :
    sumL ((List.range M).map fun i => shLinear M (i + 1) x) = 1 := by
  obtain ⟨n, rfl⟩ : ∃ n, M = n + 1 := ⟨M - 1, by omega⟩
  simp only [Nat.add_sub_cancel] at hx
  have key := c18_tele n
    (fun j => prodL (x.take j))
    (fun j => prodL (x.take j) * (1 - x.getD j 0))
    (fun i => shLinear (n + 1) (i + 1) x)
    (by
      intro j hj
      have hj' : j < x.length := by omega
      rw [List.take_succ_eq_append_getElem hj', c18_prodL_concat, c18_getD_eq _ _ _ hj']
      ring)
    (by simp [shLinear])
    (by
      intro i hi
      have e : n - (i + 1) = n - 1 - i := by omega
      rw [← e]
      simp [shLinear])
  simp only [List.take_zero, c18_prodL_nil] at key
  exact key

theorem wfgF_length (t : Trig α) (x h : List α) : (wfgF t x h).length = h.length := by
  simp [wfgF]

/-- the scaled objectives of a concave WFG problem: `f_m / (2m)` -/
def scaledSq (t : Trig α) (F : List α) : α :=
  sumL ((List.range F.length).map fun i => (F.getD i 0 / t.ofNat (2 * (i + 1))) * (F.getD i 0 / t.ofNat (2 * (i + 1))))

theorem c18w_sumL_range_le (n : Nat) (f g : Nat → α) (hfg : ∀ i, i < n → f i ≤ g i) :
    sumL ((List.range n).map f) ≤ sumL ((List.range n).map g) := by
  induction n with
  | zero => simp
  | succ n ih =>
    rw [List.range_succ, List.map_append, List.map_append, c18_sumL_append, c18_sumL_append]
    have h1 := ih (fun i hi => hfg i (by omega))
    have h2 := hfg n (by omega)
    simp only [List.map_cons, List.map_nil, c18_sumL_cons, c18_sumL_nil]
    linarith

theorem c18w_ofNat_pos (t : Trig α) (h : TrigOK t) (i : Nat) : 0 < t.ofNat (2 * (i + 1)) := by
  rw [h.ofNat_eq]
  exact_mod_cast (by omega : 0 < 2 * (i + 1))

/-- the scaled sum written out: `Σ (x_M/(2m) + h_m)²` -/
theorem c18w_scaledSq_eq (t : Trig α) (h : TrigOK t) (M : Nat) (x : List α) (H : Nat → α) :
    scaledSq t (wfgF t x ((List.range M).map H))
      = sumL ((List.range M).map fun i =>
          (x.getLast?.getD 0 / t.ofNat (2 * (i + 1)) + H i) * (x.getLast?.getD 0 / t.ofNat (2 * (i + 1)) + H i)) := by
  unfold scaledSq
  rw [wfgF_length, List.length_map, List.length_range]
  congr 1
  apply List.map_congr_left
  intro i hi
  rw [List.mem_range] at hi
  have hp := c18w_ofNat_pos t h i
  have e : (wfgF t x ((List.range M).map H)).getD i 0
      = x.getLast?.getD 0 + t.ofNat (2 * (i + 1)) * H i := by
    simp [wfgF, hi]
  rw [e]
  have e2 : (x.getLast?.getD 0 + t.ofNat (2 * (i + 1)) * H i) / t.ofNat (2 * (i + 1))
      = x.getLast?.getD 0 / t.ofNat (2 * (i + 1)) + H i := by
    field_simp
  rw [e2]

/-- WFG4–9 (concave shapes, `f_m = x_M + 2m h_m`): with non-negative shapes and `x_M ≥ 0`, `Σ (f_m/2m)² ≥ 1` -/
theorem concave_front (t : Trig α) (h : TrigOK t) (M : Nat) (hM : 1 ≤ M) (x : List α) (hx : x.length = M)
    (hpos : ∀ i, i < M → 0 ≤ shConcave t M (i + 1) x.dropLast) (hxM : 0 ≤ x.getLast?.getD 0) :
    1 ≤ scaledSq t (wfgF t x ((List.range M).map fun i => shConcave t M (i + 1) x.dropLast)) := by
  rw [c18w_scaledSq_eq t h M x (fun i => shConcave t M (i + 1) x.dropLast)]
  have hs := shConcave_sum_sq t h M hM x.dropLast (by simp [hx])
  unfold sumSq at hs
  rw [List.map_map] at hs
  rw [← hs]
  apply c18w_sumL_range_le
  intro i hi
  have hp := c18w_ofNat_pos t h i
  have h1 := hpos i hi
  have h2 : 0 ≤ x.getLast?.getD 0 / t.ofNat (2 * (i + 1)) := div_nonneg hxM hp.le
  simp only [Function.comp]
  nlinarith [mul_nonneg h2 h1, mul_nonneg h2 h2]

/-- … with equality when `x_M = 0` (what the samplers produce: optimal distance parameters) -/
theorem concave_on_front (t : Trig α) (h : TrigOK t) (M : Nat) (hM : 1 ≤ M) (x : List α) (hx : x.length = M)
    (hxM : x.getLast?.getD 0 = 0) :
    scaledSq t (wfgF t x ((List.range M).map fun i => shConcave t M (i + 1) x.dropLast)) = 1 := by
  rw [c18w_scaledSq_eq t h M x (fun i => shConcave t M (i + 1) x.dropLast)]
  have hs := shConcave_sum_sq t h M hM x.dropLast (by simp [hx])
  unfold sumSq at hs
  rw [List.map_map] at hs
  rw [← hs]
  congr 1
  apply List.map_congr_left
  intro i _
  simp [hxM]

end Platypus.C18
