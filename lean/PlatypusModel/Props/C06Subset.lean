import PlatypusModel.Lemmas.C06Defs
set_option linter.unusedSectionVars false
/-!
# C06 (subset operators Replace, SSX; combinators GAOperator, CompoundMutation, CompoundOperator)
-/
namespace Platypus

/-- inversion of a successful `Except` bind -/
theorem exceptBindOk {ε β γ : Type} {x : Except ε β} {f : β → Except ε γ} {c : γ}
    (h : (x >>= f) = .ok c) : ∃ b, x = .ok b ∧ f b = .ok c := by
  cases x with
  | error e => cases h
  | ok b => exact ⟨b, rfl, h⟩

/-- `popRandrange n` succeeds only with an index below `n` -/
theorem popRandrange_ok {α : Type} {n k : Nat} {tape tape' : Tape α}
    (h : popRandrange n tape = .ok (k, tape')) : k < n := by
  unfold popRandrange at h
  split at h
  · split at h
    · rename_i hc
      simp only [Except.ok.injEq, Prod.mk.injEq] at h
      simp only [Bool.and_eq_true, decide_eq_true_eq] at hc
      rw [← h.1]; exact hc.2
    · cases h
  · cases h

set_option linter.unusedVariables false in -- `hi` is part of the stated contract, not needed by the proof
/-- replacing one member by a declared element that is not a member keeps a valid subset -/
theorem replace_step_valid (n k : Nat) (s : List Nat) (i j : Nat)
    (hs : s.length = k ∧ s.Nodup ∧ ∀ e ∈ s, e < n) (hi : i < s.length)
    (hj : j < ((List.range n).filter (fun e => !s.contains e)).length) :
    let s' := s.set i (((List.range n).filter (fun e => !s.contains e)).getD j 0)
    s'.length = k ∧ s'.Nodup ∧ ∀ e ∈ s', e < n := by
  intro s'
  obtain ⟨hlen, hnd, hlt⟩ := hs
  have hx : ((List.range n).filter (fun e => !s.contains e)).getD j 0 ∈
      (List.range n).filter (fun e => !s.contains e) := by
    rw [List.getD_eq_getElem?_getD, List.getElem?_eq_getElem hj]
    exact List.getElem_mem hj
  rw [List.mem_filter, List.mem_range] at hx
  obtain ⟨hxn, hxs⟩ := hx
  have hxs' : ((List.range n).filter (fun e => !s.contains e)).getD j 0 ∉ s := by
    simpa using hxs
  refine ⟨by simp [s', hlen], hnd.set hxs', ?_⟩
  intro e he
  rcases List.mem_or_eq_of_mem_set he with h | h
  · exact hlt e h
  · rw [h]; exact hxn

section
variable {α : Type} [LinearOrder α]

/-- worker for `Replace`: validity is preserved; if nothing was written the variables are unchanged -/
theorem replaceVars_inv (zero one prob : α) (types : List (TypeD α)) (vars vars' : List (Var α))
    (w w' : Bool) (tape tape' : Tape α) (hv : ValidVars types vars)
    (h : replaceVars zero one prob types vars w tape = .ok ((vars', w'), tape')) :
    ValidVars types vars' ∧ (w' = false → vars' = vars ∧ w = false) := by
  induction types generalizing vars vars' w w' tape tape' with
  | nil =>
    cases hv
    simp only [replaceVars, pure, Except.pure, Except.ok.injEq, Prod.mk.injEq] at h
    obtain ⟨⟨rfl, rfl⟩, rfl⟩ := h
    exact ⟨List.Forall₂.nil, fun h => ⟨rfl, h⟩⟩
  | cons t ts ih =>
    cases hv with
    | cons hhead htail =>
      rename_i v vs
      -- the pass-through step, shared
      have pass : ∀ (rest : List (Var α)) (wa wb : Bool) (t1 t2 : Tape α),
          replaceVars zero one prob ts vs wa t1 = .ok ((rest, wb), t2) →
          ValidVars (t :: ts) (v :: rest) ∧ (wb = false → v :: rest = v :: vs ∧ wa = false) := by
        intro rest wa wb t1 t2 hr
        obtain ⟨hv', hw'⟩ := ih vs rest wa wb t1 t2 htail hr
        refine ⟨List.Forall₂.cons hhead hv', fun hwb => ?_⟩
        obtain ⟨e1, e2⟩ := hw' hwb
        exact ⟨by rw [e1], e2⟩
      cases t <;> cases v <;> simp only [ValidVar] at hhead
      case subset.subset n k s =>
        simp only [replaceVars] at h
        obtain ⟨⟨u, t1⟩, _, h⟩ := exceptBindOk h
        simp only at h
        split at h
        · split at h
          · obtain ⟨⟨i, t2⟩, hi, h⟩ := exceptBindOk h
            obtain ⟨⟨j, t3⟩, hj, h⟩ := exceptBindOk h
            obtain ⟨⟨⟨rest, wr⟩, t4⟩, hr, h⟩ := exceptBindOk h
            simp only [pure, Except.pure, Except.ok.injEq, Prod.mk.injEq] at h
            obtain ⟨⟨rfl, rfl⟩, rfl⟩ := h
            obtain ⟨hv', _⟩ := ih vs rest true wr t3 t4 htail hr
            refine ⟨List.Forall₂.cons ?_ hv', fun hw => by cases hw⟩
            exact replace_step_valid n k s i j hhead (popRandrange_ok hi) (popRandrange_ok hj)
          · obtain ⟨⟨⟨rest, wr⟩, t4⟩, hr, h⟩ := exceptBindOk h
            simp only [pure, Except.pure, Except.ok.injEq, Prod.mk.injEq] at h
            obtain ⟨⟨rfl, rfl⟩, rfl⟩ := h
            exact pass rest w wr t1 t4 hr
        · obtain ⟨⟨⟨rest, wr⟩, t4⟩, hr, h⟩ := exceptBindOk h
          simp only [pure, Except.pure, Except.ok.injEq, Prod.mk.injEq] at h
          obtain ⟨⟨rfl, rfl⟩, rfl⟩ := h
          exact pass rest w wr t1 t4 hr
      all_goals
        simp only [replaceVars] at h
        obtain ⟨⟨⟨rest, wr⟩, t4⟩, hr, h⟩ := exceptBindOk h
        simp only [pure, Except.pure, Except.ok.injEq, Prod.mk.injEq] at h
        obtain ⟨⟨rfl, rfl⟩, rfl⟩ := h
        exact pass rest w wr tape t4 hr

theorem replaceOp_valid (zero one prob : α) (types : List (TypeD α)) (parent child : OSol α)
    (tape tape' : Tape α) (hp : ValidSol types parent)
    (h : replaceOp zero one prob types parent tape = .ok (child, tape')) :
    ValidSol types child ∧ (child.evaluated = false ∨ (child.vars = parent.vars ∧ child.evaluated = parent.evaluated)) := by
  simp only [replaceOp] at h
  obtain ⟨⟨⟨vars, w⟩, t1⟩, hr, h⟩ := exceptBindOk h
  simp only [pure, Except.pure, Except.ok.injEq, Prod.mk.injEq] at h
  obtain ⟨rfl, rfl⟩ := h
  obtain ⟨hv, hw⟩ := replaceVars_inv zero one prob types parent.vars vars false w tape t1 hp hr
  refine ⟨hv, ?_⟩
  cases w with
  | true => left; rfl
  | false => right; exact ⟨(hw rfl).1, rfl⟩

/-- invariant of the SSX position loop over suffixes `as`, `bs` of the parents' element lists `A`, `B`:
every element of the first result is kept from `as` or imported from `bs` and then not in `A` (dually for
the second result); this makes both results duplicate-free -/
theorem ssxLoop_inv (zero one half : α) (A B : List Nat) (as bs : List Nat) (r1 r2 : List Nat)
    (tape tape' : Tape α)
    (has : as.Nodup) (hbs : bs.Nodup) (hA : ∀ e ∈ as, e ∈ A) (hB : ∀ e ∈ bs, e ∈ B)
    (h : ssxLoop zero one half A B as bs tape = .ok ((r1, r2), tape')) :
    r1.length = as.length ∧ r2.length = bs.length ∧ r1.Nodup ∧ r2.Nodup ∧
      (∀ e ∈ r1, e ∈ as ∨ (e ∈ bs ∧ e ∉ A)) ∧ (∀ e ∈ r2, e ∈ bs ∨ (e ∈ as ∧ e ∉ B)) := by
  induction as generalizing bs r1 r2 tape tape' with
  | nil =>
    have : r1 = [] ∧ r2 = bs := by
      cases bs <;> exact (by simpa [ssxLoop, pure, Except.pure, eq_comm] using h :
        (r1 = [] ∧ r2 = _) ∧ tape = tape').1
    obtain ⟨rfl, rfl⟩ := this
    simp [hbs]
  | cons x as' ih =>
    cases bs with
    | nil =>
      have : r1 = x :: as' ∧ r2 = [] := by
        exact (by simpa [ssxLoop, pure, Except.pure, eq_comm] using h :
          (r1 = x :: as' ∧ r2 = []) ∧ tape = tape').1
      obtain ⟨rfl, rfl⟩ := this
      simp [has]
    | cons y bs' =>
      rw [List.nodup_cons] at has hbs
      have hA' : ∀ e ∈ as', e ∈ A := fun e he => hA e (List.mem_cons_of_mem _ he)
      have hB' : ∀ e ∈ bs', e ∈ B := fun e he => hB e (List.mem_cons_of_mem _ he)
      have hxA : x ∈ A := hA x List.mem_cons_self
      have hyB : y ∈ B := hB y List.mem_cons_self
      -- the "kept" case, shared by two branches
      have kept : ∀ (q1 q2 : List Nat) (t t' : Tape α),
          ssxLoop zero one half A B as' bs' t = .ok ((q1, q2), t') →
          (x :: q1).length = (x :: as').length ∧ (y :: q2).length = (y :: bs').length ∧
          (x :: q1).Nodup ∧ (y :: q2).Nodup ∧
          (∀ e ∈ x :: q1, e ∈ x :: as' ∨ (e ∈ y :: bs' ∧ e ∉ A)) ∧
          (∀ e ∈ y :: q2, e ∈ y :: bs' ∨ (e ∈ x :: as' ∧ e ∉ B)) := by
        intro q1 q2 t t' hq
        obtain ⟨l1, l2, n1, n2, m1, m2⟩ := ih bs' q1 q2 t t' has.2 hbs.2 hA' hB' hq
        refine ⟨by simp [l1], by simp [l2], ?_, ?_, ?_, ?_⟩
        · rw [List.nodup_cons]; refine ⟨?_, n1⟩
          intro hx
          rcases m1 x hx with h1 | ⟨_, h1⟩
          · exact has.1 h1
          · exact h1 hxA
        · rw [List.nodup_cons]; refine ⟨?_, n2⟩
          intro hy
          rcases m2 y hy with h1 | ⟨_, h1⟩
          · exact hbs.1 h1
          · exact h1 hyB
        · intro e he
          rcases List.mem_cons.1 he with rfl | he
          · left; exact List.mem_cons_self
          · rcases m1 e he with h1 | ⟨h1, h2⟩
            · left; exact List.mem_cons_of_mem _ h1
            · right; exact ⟨List.mem_cons_of_mem _ h1, h2⟩
        · intro e he
          rcases List.mem_cons.1 he with rfl | he
          · left; exact List.mem_cons_self
          · rcases m2 e he with h1 | ⟨h1, h2⟩
            · left; exact List.mem_cons_of_mem _ h1
            · right; exact ⟨List.mem_cons_of_mem _ h1, h2⟩
      simp only [ssxLoop] at h
      split at h
      · rename_i hg
        have hg' : y ∉ A ∧ x ∉ B := by simpa using hg
        obtain ⟨⟨u, t1⟩, _, h⟩ := exceptBindOk h
        obtain ⟨⟨⟨q1, q2⟩, t2⟩, hq, h⟩ := exceptBindOk h
        simp only at h
        split at h
        · simp only [pure, Except.pure, Except.ok.injEq, Prod.mk.injEq] at h
          obtain ⟨⟨rfl, rfl⟩, rfl⟩ := h
          obtain ⟨l1, l2, n1, n2, m1, m2⟩ := ih bs' q1 q2 t1 t2 has.2 hbs.2 hA' hB' hq
          refine ⟨by simp [l1], by simp [l2], ?_, ?_, ?_, ?_⟩
          · rw [List.nodup_cons]; refine ⟨?_, n1⟩
            intro hy
            rcases m1 y hy with h1 | ⟨h1, _⟩
            · exact hg'.1 (hA' y h1)
            · exact hbs.1 h1
          · rw [List.nodup_cons]; refine ⟨?_, n2⟩
            intro hx
            rcases m2 x hx with h1 | ⟨h1, _⟩
            · exact hg'.2 (hB' x h1)
            · exact has.1 h1
          · intro e he
            rcases List.mem_cons.1 he with rfl | he
            · right; exact ⟨List.mem_cons_self, hg'.1⟩
            · rcases m1 e he with h1 | ⟨h1, h2⟩
              · left; exact List.mem_cons_of_mem _ h1
              · right; exact ⟨List.mem_cons_of_mem _ h1, h2⟩
          · intro e he
            rcases List.mem_cons.1 he with rfl | he
            · right; exact ⟨List.mem_cons_self, hg'.2⟩
            · rcases m2 e he with h1 | ⟨h1, h2⟩
              · left; exact List.mem_cons_of_mem _ h1
              · right; exact ⟨List.mem_cons_of_mem _ h1, h2⟩
        · simp only [pure, Except.pure, Except.ok.injEq, Prod.mk.injEq] at h
          obtain ⟨⟨rfl, rfl⟩, rfl⟩ := h
          exact kept q1 q2 t1 t2 hq
      · obtain ⟨⟨⟨q1, q2⟩, t2⟩, hq, h⟩ := exceptBindOk h
        simp only [pure, Except.pure, Except.ok.injEq, Prod.mk.injEq] at h
        obtain ⟨⟨rfl, rfl⟩, rfl⟩ := h
        exact kept q1 q2 tape t2 hq

set_option linter.unusedVariables false in -- `hl` is part of the stated contract, not needed by the proof
/-- the SSX position loop on two valid subsets of equal size yields two valid subsets -/
theorem ssxLoop_valid (zero one half : α) (n : Nat) (a b : List Nat) (r1 r2 : List Nat) (tape tape' : Tape α)
    (ha : a.Nodup ∧ ∀ e ∈ a, e < n) (hb : b.Nodup ∧ ∀ e ∈ b, e < n) (hl : a.length = b.length)
    (h : ssxLoop zero one half a b a b tape = .ok ((r1, r2), tape')) :
    r1.length = a.length ∧ r2.length = b.length ∧ r1.Nodup ∧ r2.Nodup ∧ (∀ e ∈ r1, e < n) ∧ (∀ e ∈ r2, e < n) := by
  obtain ⟨l1, l2, n1, n2, m1, m2⟩ :=
    ssxLoop_inv zero one half a b a b r1 r2 tape tape' ha.1 hb.1 (fun _ h => h) (fun _ h => h) h
  refine ⟨l1, l2, n1, n2, ?_, ?_⟩
  · intro e he
    rcases m1 e he with h1 | ⟨h1, _⟩
    · exact ha.2 e h1
    · exact hb.2 e h1
  · intro e he
    rcases m2 e he with h1 | ⟨h1, _⟩
    · exact hb.2 e h1
    · exact ha.2 e h1

/-- worker for `SSX`: validity is preserved; if nothing was written the variables are unchanged -/
theorem ssxVars_inv (zero one half prob : α) (types : List (TypeD α)) (v1 v2 r1 r2 : List (Var α))
    (w w' : Bool) (tape tape' : Tape α) (h1 : ValidVars types v1) (h2 : ValidVars types v2)
    (h : ssxVars zero one half prob types v1 v2 w tape = .ok ((r1, r2, w'), tape')) :
    ValidVars types r1 ∧ ValidVars types r2 ∧ (w' = false → r1 = v1 ∧ r2 = v2 ∧ w = false) := by
  induction types generalizing v1 v2 r1 r2 w w' tape tape' with
  | nil =>
    cases h1; cases h2
    simp only [ssxVars, pure, Except.pure, Except.ok.injEq, Prod.mk.injEq] at h
    obtain ⟨⟨rfl, rfl, rfl⟩, rfl⟩ := h
    exact ⟨List.Forall₂.nil, List.Forall₂.nil, fun h => ⟨rfl, rfl, h⟩⟩
  | cons t ts ih =>
    cases h1 with
    | cons hh1 ht1 =>
      rename_i a as
      cases h2 with
      | cons hh2 ht2 =>
        rename_i b bs
        have pass : ∀ (q1 q2 : List (Var α)) (wa wb : Bool) (t1 t2 : Tape α),
            ssxVars zero one half prob ts as bs wa t1 = .ok ((q1, q2, wb), t2) →
            ValidVars (t :: ts) (a :: q1) ∧ ValidVars (t :: ts) (b :: q2) ∧
              (wb = false → a :: q1 = a :: as ∧ b :: q2 = b :: bs ∧ wa = false) := by
          intro q1 q2 wa wb t1 t2 hr
          obtain ⟨hv1, hv2, hw'⟩ := ih as bs q1 q2 wa wb t1 t2 ht1 ht2 hr
          refine ⟨List.Forall₂.cons hh1 hv1, List.Forall₂.cons hh2 hv2, fun hwb => ?_⟩
          obtain ⟨e1, e2, e3⟩ := hw' hwb
          exact ⟨by rw [e1], by rw [e2], e3⟩
        cases t <;> cases a <;> simp only [ValidVar] at hh1 <;> cases b <;> simp only [ValidVar] at hh2
        case subset.subset.subset n k sa sb =>
          simp only [ssxVars] at h
          obtain ⟨⟨u, t1⟩, _, h⟩ := exceptBindOk h
          simp only at h
          split at h
          · obtain ⟨⟨⟨a1, b1⟩, t2⟩, hl, h⟩ := exceptBindOk h
            obtain ⟨⟨⟨q1, q2, wr⟩, t3⟩, hr, h⟩ := exceptBindOk h
            simp only [pure, Except.pure, Except.ok.injEq, Prod.mk.injEq] at h
            obtain ⟨⟨rfl, rfl, rfl⟩, rfl⟩ := h
            obtain ⟨hv1, hv2, _⟩ := ih as bs q1 q2 true wr t2 t3 ht1 ht2 hr
            rw [List.take_of_length_le (Nat.le_of_eq hh1.1), List.take_of_length_le (Nat.le_of_eq hh2.1)] at hl
            rw [List.drop_of_length_le (Nat.le_of_eq hh1.1), List.drop_of_length_le (Nat.le_of_eq hh2.1),
              List.append_nil, List.append_nil]
            obtain ⟨l1, l2, n1, n2, m1, m2⟩ :=
              ssxLoop_valid zero one half n sa sb a1 b1 t1 t2 hh1.2 hh2.2 (hh1.1.trans hh2.1.symm) hl
            refine ⟨List.Forall₂.cons ?_ hv1, List.Forall₂.cons ?_ hv2, fun hw => by cases hw⟩
            · exact ⟨l1.trans hh1.1, n1, m1⟩
            · exact ⟨l2.trans hh2.1, n2, m2⟩
          · obtain ⟨⟨⟨q1, q2, wr⟩, t3⟩, hr, h⟩ := exceptBindOk h
            simp only [pure, Except.pure, Except.ok.injEq, Prod.mk.injEq] at h
            obtain ⟨⟨rfl, rfl, rfl⟩, rfl⟩ := h
            exact pass q1 q2 w wr t1 t3 hr
        all_goals
          simp only [ssxVars] at h
          obtain ⟨⟨⟨q1, q2, wr⟩, t3⟩, hr, h⟩ := exceptBindOk h
          simp only [pure, Except.pure, Except.ok.injEq, Prod.mk.injEq] at h
          obtain ⟨⟨rfl, rfl, rfl⟩, rfl⟩ := h
          exact pass q1 q2 w wr tape t3 hr

theorem ssxOp_valid (zero one half prob : α) (types : List (TypeD α)) (p1 p2 : OSol α) (kids : List (OSol α))
    (tape tape' : Tape α) (h1 : ValidSol types p1) (h2 : ValidSol types p2)
    (h : ssxOp zero one half prob types p1 p2 tape = .ok (kids, tape')) :
    ∃ c1 c2, kids = [c1, c2] ∧ ValidSol types c1 ∧ ValidSol types c2 ∧
      (c1.evaluated = false ∨ (c1.vars = p1.vars ∧ c1.evaluated = p1.evaluated)) ∧
      (c2.evaluated = false ∨ (c2.vars = p2.vars ∧ c2.evaluated = p2.evaluated)) := by
  simp only [ssxOp] at h
  obtain ⟨⟨⟨v1, v2, w⟩, t1⟩, hr, h⟩ := exceptBindOk h
  simp only [pure, Except.pure, Except.ok.injEq, Prod.mk.injEq] at h
  obtain ⟨rfl, rfl⟩ := h
  obtain ⟨hv1, hv2, hw⟩ := ssxVars_inv zero one half prob types p1.vars p2.vars v1 v2 false w tape t1 h1 h2 hr
  refine ⟨_, _, rfl, hv1, hv2, ?_⟩
  cases w with
  | true => exact ⟨Or.inl rfl, Or.inl rfl⟩
  | false => exact ⟨Or.inr ⟨(hw rfl).1, rfl⟩, Or.inr ⟨(hw rfl).2.1, rfl⟩⟩

/-- SSX is symmetric: exchanging the parents under the same tape exchanges the offspring -/
theorem ssxLoop_symmetric (zero one half : α) (s1 s2 a b : List Nat) (tape : Tape α) :
    (ssxLoop zero one half s1 s2 a b tape).map (fun r => ((r.1.2, r.1.1), r.2)) =
      ssxLoop zero one half s2 s1 b a tape := by
  induction a generalizing b tape with
  | nil =>
    cases b <;> simp [ssxLoop, Except.map, pure, Except.pure]
  | cons x as ih =>
    cases b with
    | nil => simp [ssxLoop, Except.map, pure, Except.pure]
    | cons y bs =>
      simp only [ssxLoop]
      rw [Bool.and_comm (!s2.contains x) (!s1.contains y)]
      by_cases hc : (!s1.contains y && !s2.contains x) = true
      · rw [if_pos hc, if_pos hc]
        cases hu : popUniformU zero one tape with
        | error e => simp [bind, Except.bind, Except.map]
        | ok ut =>
          simp only [bind, Except.bind]
          rw [← ih]
          cases hr : ssxLoop zero one half s1 s2 as bs ut.2 with
          | error e => simp [Except.map]
          | ok r =>
            by_cases hlt : ut.1 < half <;> simp [Except.map, hlt, pure, Except.pure]
      · rw [if_neg hc, if_neg hc]
        simp only [bind, Except.bind]
        rw [← ih]
        cases hr : ssxLoop zero one half s1 s2 as bs tape with
        | error e => simp [Except.map]
        | ok r => simp [Except.map, pure, Except.pure]
end

/-! ### combinators preserve validity and the evaluated discipline -/
section
variable {α : Type} [LE α]

/-- what a well-behaved operator guarantees on valid parents: valid offspring -/
def OperValid (types : List (TypeD α)) (o : Oper α) : Prop :=
  ∀ parents tape kids tape', (∀ p ∈ parents, ValidSol types p) → o.evolve parents tape = .ok (kids, tape') →
    ∀ c ∈ kids, ValidSol types c

def MutValid (types : List (TypeD α)) (m : OSol α → M α (OSol α)) : Prop :=
  ∀ s tape c tape', ValidSol types s → m s tape = .ok (c, tape') → ValidSol types c

theorem mapM_tape_valid (types : List (TypeD α)) (m : OSol α → M α (OSol α)) (hm : MutValid types m)
    (l kids : List (OSol α)) (tape tape' : Tape α) (hl : ∀ s ∈ l, ValidSol types s)
    (h : mapM_tape m l tape = .ok (kids, tape')) : kids.length = l.length ∧ ∀ c ∈ kids, ValidSol types c := by
  induction l generalizing kids tape tape' with
  | nil =>
    simp [mapM_tape, pure, Except.pure] at h
    obtain ⟨rfl, _⟩ := h
    simp
  | cons s ss ih =>
    simp only [mapM_tape] at h
    obtain ⟨⟨s', t1⟩, hr, h⟩ := exceptBindOk h
    obtain ⟨⟨rest, t2⟩, hr2, h⟩ := exceptBindOk h
    simp only [pure, Except.pure, Except.ok.injEq, Prod.mk.injEq] at h
    obtain ⟨rfl, rfl⟩ := h
    have := ih rest t1 t2 (fun x hx => hl x (List.mem_cons_of_mem _ hx)) hr2
    refine ⟨by simp [this.1], ?_⟩
    intro c hc
    rcases List.mem_cons.1 hc with rfl | hc
    · exact hm s tape c t1 (hl s (List.mem_cons_self)) hr
    · exact this.2 c hc

theorem gaOperator_valid (types : List (TypeD α)) (v : Oper α) (m : OSol α → M α (OSol α))
    (hv : OperValid types v) (hm : MutValid types m) : OperValid types (gaOperator v m) := by
  intro parents tape kids tape' hp h
  simp only [gaOperator] at h
  obtain ⟨⟨k1, t1⟩, hr, h⟩ := exceptBindOk h
  exact (mapM_tape_valid types m hm k1 kids t1 tape' (hv parents tape k1 t1 hp hr) h).2

theorem compoundMutation_valid (types : List (TypeD α)) (ms : List (OSol α → M α (OSol α)))
    (hms : ∀ m ∈ ms, MutValid types m) : MutValid types (compoundMutation ms) := by
  have key : ∀ (ms : List (OSol α → M α (OSol α))), (∀ m ∈ ms, MutValid types m) →
      ∀ (acc : M α (OSol α)), (∀ tape c tape', acc tape = .ok (c, tape') → ValidSol types c) →
      ∀ tape c tape', ms.foldl (fun acc m => fun tape => do let (s, tape) ← acc tape; m s tape) acc tape
        = .ok (c, tape') → ValidSol types c := by
    intro ms
    induction ms with
    | nil => intro _ acc hacc; simpa using hacc
    | cons m ms ih =>
      intro hms acc hacc
      rw [List.foldl_cons]
      apply ih (fun x hx => hms x (List.mem_cons_of_mem _ hx))
      intro tape c tape' h
      obtain ⟨⟨s, t1⟩, hr, h⟩ := exceptBindOk h
      exact hms m List.mem_cons_self s t1 c tape' (hacc tape s t1 hr) h
  intro s tape c tape' hs h
  refine key ms hms _ ?_ tape c tape' h
  intro tape c tape' h
  simp only [pure, Except.pure, Except.ok.injEq, Prod.mk.injEq] at h
  rw [← h.1]; exact hs

theorem compoundOperator_valid (types : List (TypeD α)) (vs : List (Oper α))
    (hvs : ∀ v ∈ vs, OperValid types v) : OperValid types (compoundOperator vs) := by
  have key : ∀ (vs : List (Oper α)), (∀ v ∈ vs, OperValid types v) →
      ∀ (acc : M α (List (OSol α))),
        (∀ tape kids tape', acc tape = .ok (kids, tape') → ∀ c ∈ kids, ValidSol types c) →
      ∀ tape kids tape', vs.foldl (fun acc v => fun tape => do
        let (off, tape) ← acc tape
        if v.arity == off.length then v.evolve off tape
        else if v.arity == 1 && off.length ≥ 1 then
          mapM_tape (fun s tape => do
            let (r, tape) ← v.evolve [s] tape
            match r with
            | [c] => pure (c, tape)
            | _ => .error .arity) off tape
        else .error .platypus) acc tape
        = .ok (kids, tape') → ∀ c ∈ kids, ValidSol types c := by
    intro vs
    induction vs with
    | nil => intro _ acc hacc; simpa using hacc
    | cons v vs ih =>
      intro hvs acc hacc
      rw [List.foldl_cons]
      apply ih (fun x hx => hvs x (List.mem_cons_of_mem _ hx))
      intro tape kids tape' h
      obtain ⟨⟨off, t1⟩, hr, h⟩ := exceptBindOk h
      have hoff := hacc tape off t1 hr
      have hv := hvs v List.mem_cons_self
      simp only at h
      split at h
      · exact hv off t1 kids tape' hoff h
      · split at h
        · refine (mapM_tape_valid types _ ?_ off kids t1 tape' hoff h).2
          intro s tp c tp' hs hh
          obtain ⟨⟨r, t2⟩, hr2, hh⟩ := exceptBindOk hh
          simp only at hh
          split at hh
          · rename_i c'
            simp only [pure, Except.pure, Except.ok.injEq, Prod.mk.injEq] at hh
            obtain ⟨rfl, rfl⟩ := hh
            exact hv [s] tp [c'] t2 (by simpa using hs) hr2 c' (by simp)
          · cases hh
        · cases h
  intro parents tape kids tape' hp h
  refine key vs hvs _ ?_ tape kids tape' h
  intro tape kids tape' h
  simp only [pure, Except.pure, Except.ok.injEq, Prod.mk.injEq] at h
  rw [← h.1]; exact hp
end

end Platypus
