import PlatypusModel.Model.Problems
import Mathlib.Algebra.Order.Field.Basic
import Mathlib.Data.List.Forall2
import Mathlib.Tactic.Linarith
import Mathlib.Tactic.Ring
import Mathlib.Tactic.Positivity
import Mathlib.Tactic.FieldSimp
/-
C18 — benchmark problems: the published front inequalities / equations of the DTLZ and ZDT reference
implementations (`Model/Problems.lean`, which the correspondence check compares with platypus/problems.py on
every run), the fact that points satisfying a front equation are mutually non-dominated, and the arity
consequence of `FixedLengthArray`'s slice assignment.

All statements are over an arbitrary linearly ordered field `α` and an arbitrary `Trig α` whose functions
satisfy the listed identities (`TrigOK`); ℝ with the real functions is such an instance.  The `Float`
instance run by the driver is *not*: rounding is the gap, closed only by the 1e-9 tolerance of the check.
-/
namespace Platypus.C18
open Platypus

variable {α : Type} [Field α] [LinearOrder α] [IsStrictOrderedRing α]

/-- what the proofs use about the transcendental functions -/
structure TrigOK (t : Trig α) : Prop where
  pythag : ∀ x, t.cos x * t.cos x + t.sin x * t.sin x = 1
  cos_zero : t.cos 0 = 1
  ofNat_eq : ∀ n : Nat, t.ofNat n = (n : α)
  pow_nonneg : ∀ x y, 0 ≤ x → 0 ≤ t.pow x y

def sumSq (l : List α) : α := sumL (l.map fun f => f * f)

/-! ### helper lemmas about `sumL` / `prodL` -/

theorem c18_foldl_add (l : List α) (a : α) :
    l.foldl (· + ·) a = a + l.foldl (· + ·) 0 := by
  induction l generalizing a with
  | nil => simp
  | cons x l ih =>
    simp only [List.foldl_cons]
    rw [ih (a + x), ih (0 + x)]; ring

theorem c18_foldl_mul (l : List α) (a : α) :
    l.foldl (· * ·) a = a * l.foldl (· * ·) 1 := by
  induction l generalizing a with
  | nil => simp
  | cons x l ih =>
    simp only [List.foldl_cons]
    rw [ih (a * x), ih (1 * x)]; ring

theorem c18_sumL_nil : sumL ([] : List α) = 0 := rfl

theorem c18_sumL_cons (a : α) (l : List α) : sumL (a :: l) = a + sumL l := by
  unfold sumL
  simp only [List.foldl_cons]
  rw [c18_foldl_add]; ring

theorem c18_sumL_append (l₁ l₂ : List α) : sumL (l₁ ++ l₂) = sumL l₁ + sumL l₂ := by
  induction l₁ with
  | nil => simp [c18_sumL_nil]
  | cons a l ih => rw [List.cons_append, c18_sumL_cons, c18_sumL_cons, ih]; ring

theorem c18_prodL_nil : prodL ([] : List α) = 1 := rfl

theorem c18_prodL_cons (a : α) (l : List α) : prodL (a :: l) = a * prodL l := by
  unfold prodL
  simp only [List.foldl_cons]
  rw [c18_foldl_mul]; ring

theorem c18_prodL_concat (l : List α) (a : α) : prodL (l ++ [a]) = prodL l * a := by
  unfold prodL
  simp [List.foldl_append]

theorem c18_sumL_nonneg (l : List α) (h : ∀ v ∈ l, 0 ≤ v) : 0 ≤ sumL l := by
  induction l with
  | nil => simp [c18_sumL_nil]
  | cons a l ih =>
    rw [c18_sumL_cons]
    have h1 := h a (by simp)
    have h2 := ih (fun v hv => h v (by simp [hv]))
    linarith

theorem c18_sumL_map_ge {β : Type} (l : List β) (f : β → α) (c : α) (h : ∀ v ∈ l, c ≤ f v) :
    (l.length : α) * c ≤ sumL (l.map f) := by
  induction l with
  | nil => simp [c18_sumL_nil]
  | cons a l ih =>
    rw [List.map_cons, c18_sumL_cons, List.length_cons]
    have h1 := h a (by simp)
    have h2 := ih (fun v hv => h v (by simp [hv]))
    push_cast
    linarith

theorem c18_sumL_map_const {β : Type} (l : List β) (f : β → α) (c : α) (h : ∀ v ∈ l, f v = c) :
    sumL (l.map f) = (l.length : α) * c := by
  induction l with
  | nil => simp [c18_sumL_nil]
  | cons a l ih =>
    rw [List.map_cons, c18_sumL_cons, List.length_cons, h a (by simp),
      ih (fun v hv => h v (by simp [hv]))]
    push_cast
    ring

theorem c18_cos_le_one (t : Trig α) (h : TrigOK t) (x : α) : t.cos x ≤ 1 := by
  have h1 := h.pythag x
  nlinarith [mul_self_nonneg (t.sin x), mul_self_nonneg (t.cos x - 1)]

theorem c18_getD_eq {β : Type} (l : List β) (i : Nat) (d : β) (h : i < l.length) : l.getD i d = l[i] := by
  simp [h]

theorem c18_half : (1 : α) / (1 + 1) = 1 / 2 := by norm_num

/-! ### the telescoping sums -/

theorem c18_tele_rev (n : Nat) (A B : Nat → α) (h : ∀ j, j < n → A (j + 1) + B j = A j) :
    A n + sumL ((List.range n).map fun i => B (n - 1 - i)) = A 0 := by
  induction n with
  | zero => simp [c18_sumL_nil]
  | succ n ih =>
    rw [List.range_succ_eq_map, List.map_cons, List.map_map, c18_sumL_cons]
    have e : ((fun i => B (n + 1 - 1 - i)) ∘ Nat.succ) = fun i => B (n - 1 - i) := by
      funext i
      simp only [Function.comp, Nat.succ_eq_add_one]
      congr 1
      omega
    rw [e, ← ih (fun j hj => h j (by omega)), ← h n (by omega)]
    simp only [Nat.add_sub_cancel, Nat.sub_zero]
    ring

theorem c18_tele (n : Nat) (A B F : Nat → α) (h : ∀ j, j < n → A (j + 1) + B j = A j)
    (h0 : F 0 = A n) (hF : ∀ i, i < n → F (i + 1) = B (n - 1 - i)) :
    sumL ((List.range (n + 1)).map F) = A 0 := by
  rw [List.range_succ_eq_map, List.map_cons, List.map_map, c18_sumL_cons, h0,
    ← c18_tele_rev n A B h]
  congr 2
  apply List.map_congr_left
  intro i hi
  rw [List.mem_range] at hi
  exact hF i hi

/-! ### arity of the reference implementations -/

theorem sphereShape_length (t : Trig α) (M : Nat) (r : α) (y : List α) : (sphereShape t M r y).length = M := by
  simp [sphereShape]

theorem dtlz1_length (t : Trig α) (M : Nat) (x : List α) : (dtlz1 t M x).length = M := by
  simp [dtlz1]

theorem dtlz7_length (t : Trig α) (M : Nat) (x : List α) (hM : 1 ≤ M) (hx : M - 1 ≤ x.length) :
    (dtlz7 t M x).length = M := by
  simp only [dtlz7, List.length_append, List.length_take, List.length_cons, List.length_nil]
  omega

/-! ### DTLZ2–4: `Σ fᵢ² = (1+g)²`, `g ≥ 0`, hence never below the unit sphere -/

theorem sphereShape_sum_sq (t : Trig α) (h : TrigOK t) (M : Nat) (hM : 1 ≤ M) (r : α) (y : List α)
    (hy : M - 1 ≤ y.length) : sumSq (sphereShape t M r y) = r * r := by
  obtain ⟨n, rfl⟩ : ∃ n, M = n + 1 := ⟨M - 1, by omega⟩
  simp only [Nat.add_sub_cancel] at hy
  unfold sumSq sphereShape
  simp only [List.map_map, Nat.add_sub_cancel]
  have key := c18_tele n
    (fun j => (r * prodL ((y.take j).map fun v => t.cos (1 / (1 + 1) * t.pi * v)))
            * (r * prodL ((y.take j).map fun v => t.cos (1 / (1 + 1) * t.pi * v))))
    (fun j => (r * prodL ((y.take j).map fun v => t.cos (1 / (1 + 1) * t.pi * v))
              * t.sin (1 / (1 + 1) * t.pi * y.getD j 0))
            * (r * prodL ((y.take j).map fun v => t.cos (1 / (1 + 1) * t.pi * v))
              * t.sin (1 / (1 + 1) * t.pi * y.getD j 0)))
    ((fun f : α => f * f) ∘ fun i =>
      let p := prodL ((y.take (n - i)).map fun v => t.cos (1 / (1 + 1) * t.pi * v))
      let f := r * p
      if i = 0 then f else f * t.sin (1 / (1 + 1) * t.pi * y.getD (n - i) 0))
    (by
      intro j hj
      have hj' : j < y.length := by omega
      rw [List.take_succ_eq_append_getElem hj', List.map_append, List.map_cons, List.map_nil,
        c18_prodL_concat, c18_getD_eq _ _ _ hj']
      have hp := h.pythag (1 / (1 + 1) * t.pi * y[j])
      generalize prodL ((y.take j).map fun v => t.cos (1 / (1 + 1) * t.pi * v)) = P at *
      generalize t.cos (1 / (1 + 1) * t.pi * y[j]) = c at *
      generalize t.sin (1 / (1 + 1) * t.pi * y[j]) = s at *
      have : r * (P * c) * (r * (P * c)) + r * P * s * (r * P * s)
          = r * P * (r * P) * (c * c + s * s) := by ring
      rw [this, hp, mul_one])
    (by simp)
    (by
      intro i hi
      have e : n - (i + 1) = n - 1 - i := by omega
      rw [← e]
      simp)
  simp only [List.take_zero, List.map_nil, c18_prodL_nil, mul_one] at key
  exact key

theorem gSphere_nonneg (xm : List α) : 0 ≤ gSphere xm := by
  unfold gSphere
  apply c18_sumL_nonneg
  intro v hv
  rw [List.mem_map] at hv
  obtain ⟨x, _, rfl⟩ := hv
  exact mul_self_nonneg _

theorem gRastrigin_nonneg (t : Trig α) (h : TrigOK t) (xm : List α) : 0 ≤ gRastrigin t xm := by
  unfold gRastrigin
  simp only [h.ofNat_eq]
  have hb := c18_sumL_map_ge xm
    (fun x => (x - 1 / (1 + 1)) * (x - 1 / (1 + 1)) - t.cos (((20 : ℕ) : α) * t.pi * (x - 1 / (1 + 1)))) (-1)
    (by
      intro v _
      have h1 := c18_cos_le_one t h (((20 : ℕ) : α) * t.pi * (v - 1 / (1 + 1)))
      have h2 := mul_self_nonneg (v - 1 / (1 + 1))
      linarith)
  apply mul_nonneg
  · exact Nat.cast_nonneg _
  · linarith

theorem dtlz2_front (t : Trig α) (h : TrigOK t) (M : Nat) (hM : 1 ≤ M) (x : List α) (hx : M - 1 ≤ x.length) :
    1 ≤ sumSq (dtlz2 t M x) := by
  unfold dtlz2
  rw [sphereShape_sum_sq t h M hM _ x hx]
  have := gSphere_nonneg (List.drop (M - 1) x)
  nlinarith

theorem dtlz3_front (t : Trig α) (h : TrigOK t) (M : Nat) (hM : 1 ≤ M) (x : List α) (hx : M - 1 ≤ x.length) :
    1 ≤ sumSq (dtlz3 t M x) := by
  unfold dtlz3
  rw [sphereShape_sum_sq t h M hM _ x hx]
  have := gRastrigin_nonneg t h (List.drop (M - 1) x)
  nlinarith

theorem dtlz4_front (t : Trig α) (h : TrigOK t) (M : Nat) (hM : 1 ≤ M) (a : α) (x : List α) (hx : M - 1 ≤ x.length) :
    1 ≤ sumSq (dtlz4 t M a x) := by
  unfold dtlz4
  rw [sphereShape_sum_sq t h M hM _ _ (by simpa using hx)]
  have := gSphere_nonneg (List.drop (M - 1) x)
  nlinarith

/-! ### DTLZ1: `Σ fᵢ = (1+g)/2 ≥ 1/2` -/

theorem dtlz1_sum (t : Trig α) (M : Nat) (hM : 1 ≤ M) (x : List α) (hx : M - 1 ≤ x.length) :
    sumL (dtlz1 t M x) = (1 + gRastrigin t (x.drop (M - 1))) / 2 := by
  obtain ⟨n, rfl⟩ : ∃ n, M = n + 1 := ⟨M - 1, by omega⟩
  simp only [Nat.add_sub_cancel] at hx ⊢
  unfold dtlz1
  simp only [Nat.add_sub_cancel]
  generalize gRastrigin t (x.drop n) = g
  have key := c18_tele n
    (fun j => 1 / (1 + 1) * (1 + g) * prodL (x.take j))
    (fun j => 1 / (1 + 1) * (1 + g) * prodL (x.take j) * (1 - x.getD j 0))
    (fun i =>
      let p := prodL (x.take (n - i))
      let f := 1 / (1 + 1) * (1 + g) * p
      if i = 0 then f else f * (1 - x.getD (n - i) 0))
    (by
      intro j hj
      have hj' : j < x.length := by omega
      rw [List.take_succ_eq_append_getElem hj', c18_prodL_concat, c18_getD_eq _ _ _ hj']
      ring)
    (by simp)
    (by
      intro i hi
      have e : n - (i + 1) = n - 1 - i := by omega
      rw [← e]
      simp)
  simp only [List.take_zero, c18_prodL_nil, mul_one] at key
  rw [key]
  norm_num
  ring

theorem dtlz1_front (t : Trig α) (h : TrigOK t) (M : Nat) (hM : 1 ≤ M) (x : List α) (hx : M - 1 ≤ x.length) :
    1 / 2 ≤ sumL (dtlz1 t M x) := by
  rw [dtlz1_sum t M hM x hx]
  have := gRastrigin_nonneg t h (List.drop (M - 1) x)
  linarith

/-! ### the Pareto samplers (`random()`: distance variables at ½) land on the front -/

theorem gSphere_opt (xm : List α) (h : ∀ v ∈ xm, v = 1 / 2) : gSphere xm = 0 := by
  unfold gSphere
  rw [c18_sumL_map_const xm _ 0]
  · simp
  · intro v hv
    rw [h v hv]
    norm_num

theorem gRastrigin_opt (t : Trig α) (ht : TrigOK t) (xm : List α) (h : ∀ v ∈ xm, v = 1 / 2) : gRastrigin t xm = 0 := by
  simp only [gRastrigin]
  rw [c18_sumL_map_const xm _ (-1)]
  · rw [ht.ofNat_eq xm.length]; ring
  · intro v hv
    rw [h v hv]
    have e : (1 : α) / 2 - 1 / (1 + 1) = 0 := by norm_num
    rw [e, mul_zero, mul_zero, ht.cos_zero]
    ring

theorem dtlz2_sampler_on_front (t : Trig α) (h : TrigOK t) (M : Nat) (hM : 1 ≤ M) (x : List α) (hx : M - 1 ≤ x.length)
    (hopt : ∀ v ∈ x.drop (M - 1), v = 1 / 2) : sumSq (dtlz2 t M x) = 1 := by
  unfold dtlz2
  rw [sphereShape_sum_sq t h M hM _ x hx, gSphere_opt _ hopt]
  ring

theorem dtlz3_sampler_on_front (t : Trig α) (h : TrigOK t) (M : Nat) (hM : 1 ≤ M) (x : List α) (hx : M - 1 ≤ x.length)
    (hopt : ∀ v ∈ x.drop (M - 1), v = 1 / 2) : sumSq (dtlz3 t M x) = 1 := by
  unfold dtlz3
  rw [sphereShape_sum_sq t h M hM _ x hx, gRastrigin_opt t h _ hopt]
  ring

theorem dtlz4_sampler_on_front (t : Trig α) (h : TrigOK t) (M : Nat) (hM : 1 ≤ M) (a : α) (x : List α) (hx : M - 1 ≤ x.length)
    (hopt : ∀ v ∈ x.drop (M - 1), v = 1 / 2) : sumSq (dtlz4 t M a x) = 1 := by
  unfold dtlz4
  rw [sphereShape_sum_sq t h M hM _ _ (by simpa using hx), gSphere_opt _ hopt]
  ring

theorem dtlz1_sampler_on_front (t : Trig α) (h : TrigOK t) (M : Nat) (hM : 1 ≤ M) (x : List α) (hx : M - 1 ≤ x.length)
    (hopt : ∀ v ∈ x.drop (M - 1), v = 1 / 2) : sumL (dtlz1 t M x) = 1 / 2 := by
  rw [dtlz1_sum t M hM x hx, gRastrigin_opt t h _ hopt]
  ring

/-! ### points on one front surface are mutually non-dominated

(minimisation) if `a` is no worse than `b` everywhere and both satisfy the same front equation then `a = b`,
so neither dominates the other.  `w` are the positive weights `1/(2i)²` of the WFG4–9 ellipsoid; all ones for
the DTLZ sphere. -/

theorem c18_sumL_le_of_forall₂ (a b : List α) (hle : List.Forall₂ (· ≤ ·) a b) : sumL a ≤ sumL b := by
  induction hle with
  | nil => exact le_refl _
  | cons hxy _ ih => rw [c18_sumL_cons, c18_sumL_cons]; linarith

theorem simplex_nondominated (a b : List α) (hle : List.Forall₂ (· ≤ ·) a b) (hs : sumL a = sumL b) : a = b := by
  induction hle with
  | nil => rfl
  | @cons x y a b hxy hab ih =>
    rw [c18_sumL_cons, c18_sumL_cons] at hs
    have h1 := c18_sumL_le_of_forall₂ a b hab
    have hx : x = y := by linarith
    have hl : sumL a = sumL b := by linarith
    rw [hx, ih hl]

theorem c18_wsum_le (w a b : List α) (hw : ∀ v ∈ w, 0 < v)
    (ha : ∀ v ∈ a, 0 ≤ v) (hle : List.Forall₂ (· ≤ ·) a b) :
    sumL (List.zipWith (fun c v => c * (v * v)) w a) ≤ sumL (List.zipWith (fun c v => c * (v * v)) w b) := by
  induction hle generalizing w with
  | nil => simp
  | @cons x y a b hxy hab ih =>
    cases w with
    | nil => simp
    | cons c w =>
      simp only [List.zipWith_cons_cons, c18_sumL_cons]
      have hc := hw c (by simp)
      have hx := ha x (by simp)
      have h1 := ih w (fun v hv => hw v (by simp [hv])) (fun v hv => ha v (by simp [hv]))
      have h2 : x * x ≤ y * y := mul_le_mul hxy hxy hx (le_trans hx hxy)
      have h3 : c * (x * x) ≤ c * (y * y) := mul_le_mul_of_nonneg_left h2 hc.le
      linarith

theorem ellipsoid_nondominated (w a b : List α) (hw : ∀ v ∈ w, 0 < v) (hlen : w.length = a.length)
    (ha : ∀ v ∈ a, 0 ≤ v) (hle : List.Forall₂ (· ≤ ·) a b)
    (hs : sumL (List.zipWith (fun c v => c * (v * v)) w a) = sumL (List.zipWith (fun c v => c * (v * v)) w b)) :
    a = b := by
  induction hle generalizing w with
  | nil => rfl
  | @cons x y a b hxy hab ih =>
    cases w with
    | nil => simp at hlen
    | cons c w =>
      simp only [List.zipWith_cons_cons, c18_sumL_cons] at hs
      simp only [List.length_cons, Nat.add_right_cancel_iff] at hlen
      have hc := hw c (by simp)
      have hx := ha x (by simp)
      have hw' : ∀ v ∈ w, 0 < v := fun v hv => hw v (by simp [hv])
      have ha' : ∀ v ∈ a, 0 ≤ v := fun v hv => ha v (by simp [hv])
      have h1 := c18_wsum_le w a b hw' ha' hab
      have h2 : x * x ≤ y * y := mul_le_mul hxy hxy hx (le_trans hx hxy)
      have h3 : c * (x * x) ≤ c * (y * y) := mul_le_mul_of_nonneg_left h2 hc.le
      have h4 : c * (x * x) = c * (y * y) := by linarith
      have h5 : x * x = y * y := mul_left_cancel₀ hc.ne' h4
      have hxy' : x = y := (mul_self_inj hx (le_trans hx hxy)).1 h5
      have hl : sumL (List.zipWith (fun c v => c * (v * v)) w a)
          = sumL (List.zipWith (fun c v => c * (v * v)) w b) := by linarith
      rw [hxy', ih w hw' hlen ha' hl]

theorem sphere_nondominated (a b : List α) (ha : ∀ v ∈ a, 0 ≤ v) (hle : List.Forall₂ (· ≤ ·) a b)
    (hs : sumSq a = sumSq b) : a = b := by
  have e : ∀ l : List α, sumSq l = sumL (List.zipWith (fun c v => c * (v * v)) (List.replicate l.length 1) l) := by
    intro l
    unfold sumSq
    induction l with
    | nil => simp
    | cons x l ih =>
      simp only [List.map_cons, List.length_cons, List.replicate_succ, List.zipWith_cons_cons,
        c18_sumL_cons, ih, one_mul]
  have hl := hle.length_eq
  rw [e a, e b, ← hl] at hs
  exact ellipsoid_nondominated (List.replicate a.length 1) a b
    (by intro v hv; rw [List.mem_replicate] at hv; rw [hv.2]; exact one_pos)
    (by simp) ha hle hs

/-! ### ZDT: `g ≥ 1` on in-bounds inputs; ZDT2-shaped fronts -/

theorem zdtG_ge_one (t : Trig α) (h : TrigOK t) (x : List α) (hx : ∀ v ∈ x, 0 ≤ v) : 1 ≤ zdtG t x := by
  unfold zdtG
  rw [h.ofNat_eq, h.ofNat_eq]
  have h1 : 0 ≤ sumL (x.drop 1) := c18_sumL_nonneg _ (fun v hv => hx v (List.mem_of_mem_drop hv))
  have h2 : 0 ≤ ((9 : ℕ) : α) * sumL (x.drop 1) / ((x.length - 1 : ℕ) : α) :=
    div_nonneg (mul_nonneg (Nat.cast_nonneg _) h1) (Nat.cast_nonneg _)
  linarith

theorem zdt4G_ge_one (t : Trig α) (h : TrigOK t) (x : List α) : 1 ≤ zdt4G t x := by
  unfold zdt4G
  simp only [h.ofNat_eq]
  have hb := c18_sumL_map_ge (x.drop 1)
    (fun v => v * v - ((10 : ℕ) : α) * t.cos (((4 : ℕ) : α) * t.pi * v)) (-10)
    (by
      intro v _
      have h1 := c18_cos_le_one t h (((4 : ℕ) : α) * t.pi * v)
      have h2 := mul_self_nonneg v
      push_cast at h1 ⊢
      linarith)
  rw [List.length_drop] at hb
  push_cast at hb ⊢
  linarith

theorem zdt6G_ge_one (t : Trig α) (h : TrigOK t) (x : List α) (hx : ∀ v ∈ x, 0 ≤ v) : 1 ≤ zdt6G t x := by
  unfold zdt6G
  simp only [h.ofNat_eq]
  have h1 : 0 ≤ sumL (x.drop 1) := c18_sumL_nonneg _ (fun v hv => hx v (List.mem_of_mem_drop hv))
  have h2 : 0 ≤ sumL (x.drop 1) / ((x.length - 1 : ℕ) : α) := div_nonneg h1 (Nat.cast_nonneg _)
  have h3 := h.pow_nonneg _ (1 / ((4 : ℕ) : α)) h2
  have h4 : 0 ≤ ((9 : ℕ) : α) * t.pow (sumL (x.drop 1) / ((x.length - 1 : ℕ) : α)) (1 / ((4 : ℕ) : α)) :=
    mul_nonneg (Nat.cast_nonneg _) h3
  linarith

/-- `f₂ = g (1 - (f₁/g)²) ≥ 1 - f₁²` whenever `g ≥ 1` (ZDT2, ZDT6) -/
theorem zdt2_shape_front (f1 g : α) (hg : 1 ≤ g) : 1 - f1 * f1 ≤ g * (1 - (f1 / g) * (f1 / g)) := by
  have hg0 : 0 < g := lt_of_lt_of_le one_pos hg
  have e : g * (1 - (f1 / g) * (f1 / g)) = g - f1 * f1 / g := by
    field_simp
  have h1 : f1 * f1 / g ≤ f1 * f1 := div_le_self (mul_self_nonneg f1) hg
  rw [e]
  linarith

theorem zdt2_front (t : Trig α) (h : TrigOK t) (x : List α) (hx : ∀ v ∈ x, 0 ≤ v) :
    1 - x.getD 0 0 * x.getD 0 0 ≤ (zdt2 t x).getD 1 0 := by
  show 1 - x.getD 0 0 * x.getD 0 0 ≤ zdtG t x * (1 - (x.getD 0 0 / zdtG t x) * (x.getD 0 0 / zdtG t x))
  exact zdt2_shape_front _ _ (zdtG_ge_one t h x hx)

theorem c18_zdt5_len_le (l : List (List Bool)) :
    l.length ≤ (l.map fun b => if (b.filter id).length < 5 then 2 + (b.filter id).length else 1).sum := by
  induction l with
  | nil => simp
  | cons b l ih =>
    simp only [List.map_cons, List.sum_cons, List.length_cons]
    split <;> omega

/-- ZDT5: `g = Σ v(u(xᵢ)) ≥ n - 1`, so with the eleven declared variables `f₂ = g / f₁ ≥ 10 / f₁` -/
theorem zdt5_g_ge (x : List (List Bool)) : x.length - 1 ≤ (zdt5 x).2.1 := by
  have := c18_zdt5_len_le (x.drop 1)
  rw [List.length_drop] at this
  exact this

theorem zdt5_f1_pos (x : List (List Bool)) : 1 ≤ (zdt5 x).1 ∧ (zdt5 x).2.2 = (zdt5 x).1 := by
  refine ⟨?_, rfl⟩
  simp only [zdt5]
  omega

/-! ### `solution.objectives[:] = value` stores as many scalars as declared iff `value` has that many entries -/

theorem sliceAssign_length (data : List PV) (start stop : Nat) (v : PV) :
    (sliceAssign data start stop v).length = data.length := by
  simp [sliceAssign]

/-- assigning a list of `n` scalars to all `n` positions stores exactly those scalars -/
theorem sliceAssign_all_matching (data vs : List PV) (hlen : vs.length = data.length) :
    sliceAssign data 0 data.length (.list vs) = vs := by
  apply List.ext_getElem
  · simp [sliceAssign, hlen]
  · intro i h1 h2
    simp [sliceAssign, hlen] at h1 ⊢
    simp [h1, h2]

/-- assigning a list of the wrong length (the CF8–CF10 defect: `[f1, f2]` into three objectives) stores the list
itself in every position: no entry is a scalar -/
theorem sliceAssign_all_mismatch (data vs : List PV) (hlen : vs.length ≠ data.length) :
    sliceAssign data 0 data.length (.list vs) = List.replicate data.length (.list vs) := by
  apply List.ext_getElem
  · simp [sliceAssign]
  · intro i h1 h2
    simp [sliceAssign, hlen] at h1 ⊢
    simp [h1]

theorem sliceAssign_scalars_iff (data vs : List PV) (hpos : 0 < data.length) (hvs : ∀ v ∈ vs, v.isScalar = true) :
    (∀ e ∈ sliceAssign data 0 data.length (.list vs), e.isScalar = true) ↔ vs.length = data.length := by
  constructor
  · intro h
    by_contra hne
    rw [sliceAssign_all_mismatch data vs hne] at h
    have := h (.list vs) (List.mem_replicate.2 ⟨by omega, rfl⟩)
    simp [PV.isScalar] at this
  · intro h
    rw [sliceAssign_all_matching data vs h]
    exact hvs

/-! ### non-vacuity: a concrete instance of the slice theorems -/

example : sliceAssign [.scalar 0, .scalar 0, .scalar 0] 0 3 (.list [.scalar 1, .scalar 2])
    = [.list [.scalar 1, .scalar 2], .list [.scalar 1, .scalar 2], .list [.scalar 1, .scalar 2]] := by
  rfl

end Platypus.C18
