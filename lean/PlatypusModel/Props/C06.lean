import PlatypusModel.Props.C06Real
import PlatypusModel.Props.C06Perm
import PlatypusModel.Props.C06Subset
/-!
# C06 — variation operators return valid offspring and never modify their parents

The property theorems are in `C06Real.lean` (clip incl. NaN, PM / UM / UniformMutation /
NonUniformMutation, SBX, DE, PCX / UNDX / SPX, BitFlip, HUX), `C06Perm.lean` (Swap, Insertion, PMX incl.
termination of the replacement chain) and `C06Subset.lean` (Replace, SSX, GAOperator, CompoundMutation,
CompoundOperator).  "Never modifies its parents" holds by construction: the operator models are functions
of immutable parent values; that the Python operators behave like these functions — including leaving
the parent objects untouched — is what the correspondence check compares on every run.
"Returns without error" is proved for the combinatorial operators (no error branch other than a tape
mismatch exists in their models; PMX's fuel is shown sufficient) and is tied by correspondence with
extreme draws for the real-valued kernels.
-/
