import PlatypusModel.Model.Sorting
import PlatypusModel.Props.C03
import Mathlib.Data.List.Induction
import Mathlib.Data.List.Perm.Basic
set_option linter.unusedSectionVars false
/-!
# C04 — non-dominated sorting ranks by domination depth; truncation respects rank

Ranks: for any comparator that is antisymmetric with a transitive "dominates" relation
(`StrictCmp`, e.g. the proved Pareto comparator), any finite population of distinct objects
(equal objective vectors allowed).  Truncation: for any total transitive key order.
The numeric value of the crowding distance is tied by bit-exact correspondence (`crowdingF`).
-/
namespace Platypus

variable {σ : Type}

/-! ### ranks -/

/-- termination of the peeling loop: a non-empty population has a non-empty first front -/
theorem peel_nonempty {cmp : σ → σ → Int} (h : StrictCmp cmp) (l : List σ) (hl : l ≠ []) :
    archiveOf cmp l ≠ [] := by
  obtain ⟨x, hx⟩ := List.exists_mem_of_ne_nil l hl
  rcases archive_coverage h l x hx with hm | ⟨m, hm, _⟩
  · exact List.ne_nil_of_mem hm
  · exact List.ne_nil_of_mem hm

theorem id_inj {getId : σ → Nat} {R : List σ} (hid : (R.map getId).Nodup) {x y : σ}
    (hx : x ∈ R) (hy : y ∈ R) (e : getId y = getId x) : y = x := by
  induction R with
  | nil => simp at hx
  | cons a R ih =>
    rw [List.map_cons, List.nodup_cons] at hid
    rcases List.mem_cons.mp hx with rfl | hx' <;> rcases List.mem_cons.mp hy with rfl | hy'
    · rfl
    · exact absurd (e ▸ List.mem_map_of_mem hy') hid.1
    · exact absurd (e ▸ List.mem_map_of_mem hx') hid.1
    · exact ih hid.2 hx' hy'

theorem rankIn_cons (getId : σ → Nat) (F : List σ) (rest : List (List σ)) (i : Nat) :
    rankIn getId (F :: rest) i =
      if F.any (fun y => getId y == i) = true then some 0
      else (rankIn getId rest i).map (fun j => j + 1) := by
  simp [rankIn, List.findIdx?_cons]

theorem peel_step (cmp : σ → σ → Int) (getId : σ → Nat) (f : Nat) (R : List σ) (hR : R ≠ []) :
    peelFronts cmp getId (f + 1) R =
      archiveOf cmp R :: peelFronts cmp getId f (removeIds getId (archiveOf cmp R) R) := by
  cases R with
  | nil => exact absurd rfl hR
  | cons a as => rfl

theorem rest_length_lt {cmp : σ → σ → Int} (h : StrictCmp cmp) (getId : σ → Nat) (R : List σ)
    (hR : R ≠ []) : (removeIds getId (archiveOf cmp R) R).length < R.length := by
  obtain ⟨z, hz⟩ := List.exists_mem_of_ne_nil _ (peel_nonempty h R hR)
  unfold removeIds
  rw [List.length_filter_lt_length_iff_exists]
  refine ⟨z, ((mem_archive_iff h R z).mp hz).1, ?_⟩
  have hany : (archiveOf cmp R).any (fun y => getId y == getId z) = true :=
    List.any_eq_true.mpr ⟨z, hz, by simp⟩
  simp [hany]

theorem rest_sublist (cmp : σ → σ → Int) (getId : σ → Nat) (R : List σ) :
    (removeIds getId (archiveOf cmp R) R).Sublist R := List.filter_sublist

theorem rest_nodup (cmp : σ → σ → Int) (getId : σ → Nat) (R : List σ)
    (hid : (R.map getId).Nodup) : ((removeIds getId (archiveOf cmp R) R).map getId).Nodup :=
  List.Nodup.sublist ((rest_sublist cmp getId R).map getId) hid

theorem any_front_iff {cmp : σ → σ → Int} (h : StrictCmp cmp) (getId : σ → Nat) (R : List σ)
    (hid : (R.map getId).Nodup) (x : σ) (hx : x ∈ R) :
    (archiveOf cmp R).any (fun y => getId y == getId x) = true ↔ ∀ y ∈ R, ¬ cmp y x < 0 := by
  rw [List.any_eq_true]
  constructor
  · rintro ⟨y, hy, e⟩
    have hyR := ((mem_archive_iff h R y).mp hy).1
    have : y = x := id_inj hid hx hyR (by simpa using e)
    subst this
    exact ((mem_archive_iff h R y).mp hy).2
  · intro hu
    exact ⟨x, (mem_archive_iff h R x).mpr ⟨hx, hu⟩, by simp⟩

theorem mem_rest_iff {cmp : σ → σ → Int} (h : StrictCmp cmp) (getId : σ → Nat) (R : List σ)
    (hid : (R.map getId).Nodup) (x : σ) :
    x ∈ removeIds getId (archiveOf cmp R) R ↔ x ∈ R ∧ ∃ y ∈ R, cmp y x < 0 := by
  unfold removeIds
  rw [List.mem_filter]
  constructor
  · rintro ⟨hx, hn⟩
    refine ⟨hx, ?_⟩
    have : ¬ ∀ y ∈ R, ¬ cmp y x < 0 := by
      rw [← any_front_iff h getId R hid x hx]; simpa using hn
    push Not at this; exact this
  · rintro ⟨hx, y, hy, hyx⟩
    refine ⟨hx, ?_⟩
    have : ¬ ((archiveOf cmp R).any (fun y => getId y == getId x) = true) := by
      rw [any_front_iff h getId R hid x hx]; exact fun hu => hu y hy hyx
    simpa using this

/-- one peeling step, seen from a member `y` of the current population -/
theorem rank_step {cmp : σ → σ → Int} (h : StrictCmp cmp) (getId : σ → Nat) (f : Nat) (R : List σ)
    (hid : (R.map getId).Nodup) (y : σ) (hy : y ∈ R) :
    ((∀ z ∈ R, ¬ cmp z y < 0) ∧
        rankIn getId (peelFronts cmp getId (f + 1) R) (getId y) = some 0) ∨
    ((∃ z ∈ R, cmp z y < 0) ∧ y ∈ removeIds getId (archiveOf cmp R) R ∧
        rankIn getId (peelFronts cmp getId (f + 1) R) (getId y) =
          (rankIn getId (peelFronts cmp getId f (removeIds getId (archiveOf cmp R) R))
            (getId y)).map (fun j => j + 1)) := by
  rw [peel_step cmp getId f R (List.ne_nil_of_mem hy), rankIn_cons]
  by_cases hu : ∀ z ∈ R, ¬ cmp z y < 0
  · left
    exact ⟨hu, by rw [if_pos ((any_front_iff h getId R hid y hy).mpr hu)]⟩
  · right
    have hd : ∃ z ∈ R, cmp z y < 0 := by push Not at hu; exact hu
    refine ⟨hd, (mem_rest_iff h getId R hid y).mpr ⟨hy, hd⟩, ?_⟩
    rw [if_neg (fun ha => hu ((any_front_iff h getId R hid y hy).mp ha))]

theorem rank_zero_gen {cmp : σ → σ → Int} (h : StrictCmp cmp) (getId : σ → Nat) (f : Nat)
    (R : List σ) (hid : (R.map getId).Nodup) (x : σ) (hx : x ∈ R) :
    rankIn getId (peelFronts cmp getId (f + 1) R) (getId x) = some 0 ↔
      ∀ y ∈ R, ¬ cmp y x < 0 := by
  rcases rank_step h getId f R hid x hx with ⟨hu, e⟩ | ⟨hd, _, e⟩
  · exact ⟨fun _ => hu, fun _ => e⟩
  · rw [e]
    constructor
    · intro h0; simp at h0
    · intro hu; obtain ⟨z, hz, hzx⟩ := hd; exact absurd hzx (hu z hz)

theorem assigns_gen {cmp : σ → σ → Int} (h : StrictCmp cmp) (getId : σ → Nat) :
    ∀ (f : Nat) (R : List σ), R.length ≤ f → ∀ x ∈ R,
      ∃ r, rankIn getId (peelFronts cmp getId f R) (getId x) = some r := by
  intro f
  induction f with
  | zero =>
    intro R hlen x hx
    have : R = [] := List.eq_nil_of_length_eq_zero (by omega)
    subst this; simp at hx
  | succ f ih =>
    intro R hlen x hx
    have hR := List.ne_nil_of_mem hx
    rw [peel_step cmp getId f R hR, rankIn_cons]
    by_cases ha : (archiveOf cmp R).any (fun y => getId y == getId x) = true
    · exact ⟨0, by rw [if_pos ha]⟩
    · rw [if_neg ha]
      have hmem : x ∈ removeIds getId (archiveOf cmp R) R := by
        unfold removeIds; rw [List.mem_filter]; exact ⟨hx, by simpa using ha⟩
      have hl := rest_length_lt h getId R hR
      obtain ⟨r, hr⟩ := ih _ (by omega) x hmem
      exact ⟨r + 1, by rw [hr]; rfl⟩

theorem fronts_nonempty_gen {cmp : σ → σ → Int} (h : StrictCmp cmp) (getId : σ → Nat) :
    ∀ (f : Nat) (R : List σ), ∀ fr ∈ peelFronts cmp getId f R, fr ≠ [] := by
  intro f
  induction f with
  | zero => intro R fr hfr; simp [peelFronts] at hfr
  | succ f ih =>
    intro R fr hfr
    cases R with
    | nil => simp [peelFronts] at hfr
    | cons a as =>
      rw [peel_step cmp getId f (a :: as) (by simp)] at hfr
      rcases List.mem_cons.mp hfr with rfl | hfr'
      · exact peel_nonempty h _ (by simp)
      · exact ih _ fr hfr'

theorem rank_succ_gen {cmp : σ → σ → Int} (h : StrictCmp cmp) (getId : σ → Nat) :
    ∀ (f : Nat) (R : List σ), R.length ≤ f → (R.map getId).Nodup → ∀ (r : Nat) (x : σ), x ∈ R →
      (rankIn getId (peelFronts cmp getId f R) (getId x) = some (r + 1) ↔
        ((∀ y ∈ R, cmp y x < 0 →
            ∃ q, q ≤ r ∧ rankIn getId (peelFronts cmp getId f R) (getId y) = some q) ∧
         (∃ y ∈ R, cmp y x < 0 ∧ rankIn getId (peelFronts cmp getId f R) (getId y) = some r))) := by
  intro f
  induction f with
  | zero =>
    intro R hlen _ r x hx
    have : R = [] := List.eq_nil_of_length_eq_zero (by omega)
    subst this; simp at hx
  | succ f ih =>
    intro R hlen hid r x hx
    have hR := List.ne_nil_of_mem hx
    have hl := rest_length_lt h getId R hR
    have hid' := rest_nodup cmp getId R hid
    have hstep := fun y hy => rank_step h getId f R hid y hy
    have hmemR : ∀ y, y ∈ removeIds getId (archiveOf cmp R) R → y ∈ R :=
      fun y hy => ((mem_rest_iff h getId R hid y).mp hy).1
    rcases hstep x hx with ⟨hu, e⟩ | ⟨hd, hxR', e⟩
    · -- x undominated: rank 0, both sides false
      rw [e]
      constructor
      · intro h0; simp at h0
      · rintro ⟨_, y, hy, hyx, _⟩; exact absurd hyx (hu y hy)
    · rw [e]
      -- abbreviations
      generalize hR' : removeIds getId (archiveOf cmp R) R = R' at *
      have hlen' : R'.length ≤ f := by omega
      have hLHS : Option.map (fun j => j + 1) (rankIn getId (peelFronts cmp getId f R') (getId x))
          = some (r + 1) ↔ rankIn getId (peelFronts cmp getId f R') (getId x) = some r := by
        cases rankIn getId (peelFronts cmp getId f R') (getId x) <;> simp
      rw [hLHS]
      cases r with
      | zero =>
        -- f ≥ 1 since x ∈ R'
        cases f with
        | zero =>
          have : R' = [] := List.eq_nil_of_length_eq_zero (by omega)
          subst this; simp at hxR'
        | succ f' =>
          rw [rank_zero_gen h getId f' R' hid' x hxR']
          constructor
          · intro hu'
            constructor
            · intro y hy hyx
              rcases hstep y hy with ⟨_, ey⟩ | ⟨_, hyR', _⟩
              · exact ⟨0, Nat.le_refl _, ey⟩
              · exact absurd hyx (hu' y hyR')
            · obtain ⟨y, hy, hyx⟩ := hd
              refine ⟨y, hy, hyx, ?_⟩
              rcases hstep y hy with ⟨_, ey⟩ | ⟨_, hyR', _⟩
              · exact ey
              · exact absurd hyx (hu' y hyR')
          · rintro ⟨hall, _⟩ y hyR' hyx
            obtain ⟨q, hq, eq⟩ := hall y (hmemR y hyR') hyx
            rcases hstep y (hmemR y hyR') with ⟨huy, _⟩ | ⟨_, _, ey⟩
            · obtain ⟨_, z, hz, hzy⟩ := (mem_rest_iff h getId R hid y).mp (hR' ▸ hyR')
              exact huy z hz hzy
            · have hq0 : q = 0 := by omega
              subst hq0
              rw [ey] at eq; simp at eq
      | succ r =>
        rw [ih R' hlen' hid' r x hxR']
        constructor
        · rintro ⟨hall, y, hyR', hyx, ey'⟩
          constructor
          · intro y hy hyx
            rcases hstep y hy with ⟨_, ey⟩ | ⟨_, hyR', ey⟩
            · exact ⟨0, Nat.zero_le _, ey⟩
            · obtain ⟨q, hq, eq⟩ := hall y hyR' hyx
              exact ⟨q + 1, by omega, by rw [ey, eq]; rfl⟩
          · refine ⟨y, hmemR y hyR', hyx, ?_⟩
            rcases hstep y (hmemR y hyR') with ⟨huy, _⟩ | ⟨_, _, ey⟩
            · obtain ⟨_, z, hz, hzy⟩ := (mem_rest_iff h getId R hid y).mp (hR' ▸ hyR')
              exact absurd hzy (huy z hz)
            · rw [ey, ey']; rfl
        · rintro ⟨hall, y, hy, hyx, ey'⟩
          constructor
          · intro y hyR' hyx
            obtain ⟨q, hq, eq⟩ := hall y (hmemR y hyR') hyx
            rcases hstep y (hmemR y hyR') with ⟨huy, _⟩ | ⟨_, _, ey⟩
            · obtain ⟨_, z, hz, hzy⟩ := (mem_rest_iff h getId R hid y).mp (hR' ▸ hyR')
              exact absurd hzy (huy z hz)
            · rw [ey] at eq
              cases hrk : rankIn getId (peelFronts cmp getId f R') (getId y) with
              | none => rw [hrk] at eq; simp at eq
              | some q' =>
                rw [hrk] at eq; simp at eq
                exact ⟨q', by omega, rfl⟩
          · rcases hstep y hy with ⟨_, ey⟩ | ⟨_, hyR', ey⟩
            · rw [ey] at ey'; simp at ey'
            · refine ⟨y, hyR', hyx, ?_⟩
              rw [ey] at ey'
              cases hrk : rankIn getId (peelFronts cmp getId f R') (getId y) with
              | none => rw [hrk] at ey'; simp at ey'
              | some q' =>
                rw [hrk] at ey'; simp at ey'
                rw [ey']

/-- every member of the population receives a rank (the fuel `length` suffices) -/
theorem sort_assigns_rank {cmp : σ → σ → Int} (h : StrictCmp cmp) (getId : σ → Nat) (sols : List σ)
    (x : σ) (hx : x ∈ sols) : ∃ r, rankIn getId (sortFronts cmp getId sols) (getId x) = some r :=
  assigns_gen h getId sols.length sols (Nat.le_refl _) x hx

/-- every peeled front is non-empty (ranks are contiguous from 0) -/
theorem fronts_nonempty {cmp : σ → σ → Int} (h : StrictCmp cmp) (getId : σ → Nat) (sols : List σ) :
    ∀ fr ∈ sortFronts cmp getId sols, fr ≠ [] :=
  fronts_nonempty_gen h getId sols.length sols

/-- rank 0 ⇔ non-dominated in the whole population -/
theorem rank_zero_iff {cmp : σ → σ → Int} (h : StrictCmp cmp) (getId : σ → Nat) (sols : List σ)
    (hid : (sols.map getId).Nodup) (x : σ) (hx : x ∈ sols) :
    rankIn getId (sortFronts cmp getId sols) (getId x) = some 0 ↔ ∀ y ∈ sols, ¬ cmp y x < 0 := by
  unfold sortFronts
  obtain ⟨n, hn⟩ : ∃ n, sols.length = n + 1 :=
    ⟨sols.length - 1, by have := List.length_pos_of_mem hx; omega⟩
  rw [hn]
  exact rank_zero_gen h getId n sols hid x hx

/-- rank r+1 ⇔ every dominator has rank ≤ r and some dominator has rank exactly r -/
theorem rank_succ_iff {cmp : σ → σ → Int} (h : StrictCmp cmp) (getId : σ → Nat) (sols : List σ)
    (hid : (sols.map getId).Nodup) (x : σ) (hx : x ∈ sols) (r : Nat) :
    rankIn getId (sortFronts cmp getId sols) (getId x) = some (r + 1) ↔
      ((∀ y ∈ sols, cmp y x < 0 →
          ∃ q, q ≤ r ∧ rankIn getId (sortFronts cmp getId sols) (getId y) = some q) ∧
       (∃ y ∈ sols, cmp y x < 0 ∧ rankIn getId (sortFronts cmp getId sols) (getId y) = some r)) :=
  rank_succ_gen h getId sols.length sols (Nat.le_refl _) hid r x hx

/-! ### truncation by any total, transitive key order -/

/-- exactly `min k n` solutions are returned (k = 0 and k ≥ n included) -/
theorem truncate_length (le : σ → σ → Bool) (l : List σ) (k : Nat) :
    (truncateBy le l k).length = min k l.length := by
  simp [truncateBy, List.length_take, List.length_mergeSort]

/-- the kept solutions together with the discarded ones are a permutation of the input: distinct
members of the input, nothing invented, nothing duplicated -/
theorem truncate_perm (le : σ → σ → Bool) (l : List σ) (k : Nat) :
    (truncateBy le l k ++ (l.mergeSort le).drop k).Perm l := by
  unfold truncateBy
  rw [List.take_append_drop]
  exact List.mergeSort_perm l le

/-- nothing kept is worse (in the key order) than anything discarded -/
theorem truncate_monotone (le : σ → σ → Bool)
    (htotal : ∀ a b, le a b = true ∨ le b a = true)
    (htrans : ∀ a b c, le a b = true → le b c = true → le a c = true)
    (l : List σ) (k : Nat) :
    ∀ x ∈ truncateBy le l k, ∀ y ∈ (l.mergeSort le).drop k, le x y = true := by
  have hs := List.pairwise_mergeSort (le := le) htrans
    (fun a b => by rcases htotal a b with h | h <;> simp [h]) l
  rw [← List.take_append_drop k (l.mergeSort le), List.pairwise_append] at hs
  exact hs.2.2

theorem sortCmp_le_iff {κ : Type} [LinearOrder κ] [Neg κ]
    (hneg : ∀ a b : κ, -a < -b ↔ b < a) (x y : Ranked κ) :
    sortCmp x y ≤ 0 ↔ x.rank < y.rank ∨ (x.rank = y.rank ∧ y.cd ≤ x.cd) := by
  unfold sortCmp
  by_cases hr : x.rank = y.rank
  · simp only [hr, beq_self_eq_true, if_true, true_and, gt_iff_lt, hneg]
    rcases lt_trichotomy x.cd y.cd with hc | hc | hc
    · have h1 : ¬ y.cd < x.cd := not_lt.mpr hc.le
      simp [h1, hc]
    · simp [hc]
    · simp [hc, hc.le]
  · have : (x.rank == y.rank) = false := by simpa using hr
    simp only [this, hr, false_and, or_false]
    rcases Nat.lt_or_gt_of_ne hr with hlt | hgt
    · simp [hlt]
    · have : ¬ x.rank < y.rank := by omega
      simp [this, hgt]

/-- `nondominated_truncate`: never keeps a solution while discarding one of strictly smaller rank, nor,
within the cut front, one of larger crowding distance -/
theorem nondominatedTruncate_rank_monotone {κ : Type} [LinearOrder κ] [Neg κ]
    (hneg : ∀ a b : κ, -a < -b ↔ b < a) (l : List (Ranked κ)) (k : Nat) :
    ∀ x ∈ nondominatedTruncate l k,
      ∀ y ∈ (l.mergeSort (fun a b => decide (sortCmp a b ≤ 0))).drop k,
        x.rank ≤ y.rank ∧ (x.rank = y.rank → y.cd ≤ x.cd) := by
  intro x hx y hy
  have hm := truncate_monotone (fun a b : Ranked κ => decide (sortCmp a b ≤ 0))
    (by
      intro a b
      simp only [decide_eq_true_eq, sortCmp_le_iff hneg]
      rcases Nat.lt_trichotomy a.rank b.rank with h | h | h
      · exact Or.inl (Or.inl h)
      · rcases le_total a.cd b.cd with hc | hc
        · exact Or.inr (Or.inr ⟨h.symm, hc⟩)
        · exact Or.inl (Or.inr ⟨h, hc⟩)
      · exact Or.inr (Or.inl h))
    (by
      intro a b c
      simp only [decide_eq_true_eq, sortCmp_le_iff hneg]
      rintro (h1 | ⟨h1, c1⟩) (h2 | ⟨h2, c2⟩)
      · exact Or.inl (by omega)
      · exact Or.inl (by omega)
      · exact Or.inl (by omega)
      · exact Or.inr ⟨by omega, le_trans c2 c1⟩)
    l k x hx y hy
  simp only [decide_eq_true_eq, sortCmp_le_iff hneg] at hm
  rcases hm with h | ⟨h, hc⟩
  · exact ⟨by omega, fun e => by omega⟩
  · exact ⟨by omega, fun _ => hc⟩

theorem nondominatedTruncate_length {κ : Type} [LinearOrder κ] [Neg κ] (l : List (Ranked κ)) (k : Nat) :
    (nondominatedTruncate l k).length = min k l.length := by
  exact truncate_length _ l k

/-! ### split and prune -/

theorem countP_lt_succ (rank : σ → Nat) (l : List σ) (r : Nat) :
    l.countP (fun x => decide (rank x < r + 1)) =
      l.countP (fun x => decide (rank x < r)) + l.countP (fun x => rank x == r) := by
  induction l with
  | nil => rfl
  | cons a l ih =>
    simp only [List.countP_cons, ih]
    by_cases h1 : rank a < r
    · have : rank a < r + 1 := by omega
      have h3 : ¬ rank a = r := by omega
      simp [h1, this, h3]; omega
    · by_cases h2 : rank a = r
      · simp [h2]; omega
      · have : ¬ rank a < r + 1 := by omega
        simp [h1, this, h2]

theorem length_flatMap_matches (rank : σ → Nat) (l : List σ) (r : Nat) :
    ((List.range r).flatMap (matchesRank rank l)).length =
      l.countP (fun x => decide (rank x < r)) := by
  induction r with
  | zero => simp
  | succ r ih =>
    rw [List.range_succ, List.flatMap_append, List.length_append, ih, countP_lt_succ]
    simp [matchesRank, List.countP_eq_length_filter]

theorem splitLoop_spec (rank : σ → Nat) (l : List σ) (k : Nat) :
    ∀ (fuel r : Nat) (result : List σ),
      result = (List.range r).flatMap (matchesRank rank l) → result.length ≤ k →
      r ≤ result.length → l.length + 1 ≤ fuel + r →
      ∃ r', (splitLoop rank l k fuel r result).1 = (List.range r').flatMap (matchesRank rank l) ∧
        (splitLoop rank l k fuel r result).1.length ≤ k ∧
        ((splitLoop rank l k fuel r result).2 = [] ∧
            ((splitLoop rank l k fuel r result).1.length = k ∨ matchesRank rank l r' = []) ∨
         ((splitLoop rank l k fuel r result).2 = matchesRank rank l r' ∧
            k < (splitLoop rank l k fuel r result).1.length +
              (splitLoop rank l k fuel r result).2.length)) := by
  intro fuel
  induction fuel with
  | zero =>
    intro r result hres hk hr hfuel
    exfalso
    have : result.length ≤ l.length := by
      rw [hres, length_flatMap_matches]; exact List.countP_le_length
    omega
  | succ fuel ih =>
    intro r result hres hk hr hfuel
    unfold splitLoop
    by_cases hlt : result.length < k
    · rw [if_pos hlt]
      dsimp only
      by_cases hemp : (matchesRank rank l r).isEmpty = true
      · rw [if_pos hemp]
        exact ⟨r, hres, hk, Or.inl ⟨rfl, Or.inr (List.isEmpty_iff.mp hemp)⟩⟩
      · rw [if_neg hemp]
        by_cases hfit : result.length + (matchesRank rank l r).length ≤ k
        · rw [if_pos hfit]
          have hne : (matchesRank rank l r).length ≠ 0 := by
            intro h0; exact hemp (by simpa using h0)
          apply ih
          · rw [List.range_succ, List.flatMap_append, ← hres]; simp
          · simpa using hfit
          · simp; omega
          · omega
        · rw [if_neg hfit]
          exact ⟨r, hres, hk, Or.inr ⟨rfl, by simp; omega⟩⟩
    · rw [if_neg hlt]
      exact ⟨r, hres, hk, Or.inl ⟨rfl, Or.inl (by simp; omega)⟩⟩

/-- `nondominated_split`: the first component is fronts `0 … r-1` in rank order and fits; the second is
empty, or is the whole front `r`, which does not fit any more -/
theorem split_spec (rank : σ → Nat) (l : List σ) (k : Nat) :
    ∃ r, (nondominatedSplit rank l k).1 = (List.range r).flatMap (matchesRank rank l) ∧
      (nondominatedSplit rank l k).1.length ≤ k ∧
      ((nondominatedSplit rank l k).2 = [] ∧
          ((nondominatedSplit rank l k).1.length = k ∨ matchesRank rank l r = []) ∨
       ((nondominatedSplit rank l k).2 = matchesRank rank l r ∧
          k < (nondominatedSplit rank l k).1.length + (nondominatedSplit rank l k).2.length)) := by
  unfold nondominatedSplit
  exact splitLoop_spec rank l k (l.length + 1) 0 [] (by simp) (by simp) (by simp) (by omega)

theorem pruneLoop_spec {κ : Type} (cd : List σ → List κ) (ge : κ → κ → Bool)
    (hcd : ∀ l, (cd l).length = l.length) (resLen size : Nat) :
    ∀ (fuel : Nat) (rem : List σ), rem.length ≤ fuel →
      (pruneLoop cd ge resLen size fuel rem).length = min rem.length (size - resLen) ∧
      (pruneLoop cd ge resLen size fuel rem).Subperm rem := by
  intro fuel
  induction fuel with
  | zero =>
    intro rem hlen
    have : rem = [] := List.eq_nil_of_length_eq_zero (by omega)
    subst this
    simp [pruneLoop]
  | succ fuel ih =>
    intro rem hlen
    unfold pruneLoop
    by_cases hgt : resLen + rem.length > size
    · rw [if_pos hgt]
      dsimp only
      have hzl : (rem.zip (cd rem)).length = rem.length := by simp [List.length_zip, hcd]
      have hnl : ((((rem.zip (cd rem)).mergeSort (fun a b => ge a.2 b.2)).take (rem.length - 1)).map
          (·.1)).length = rem.length - 1 := by
        simp [List.length_take, List.length_mergeSort, hzl]
      have hsub : ((((rem.zip (cd rem)).mergeSort (fun a b => ge a.2 b.2)).take (rem.length - 1)).map
          (·.1)).Subperm rem := by
        have h1 : ((((rem.zip (cd rem)).mergeSort (fun a b => ge a.2 b.2)).take (rem.length - 1)).map
          (·.1)).Sublist (((rem.zip (cd rem)).mergeSort (fun a b => ge a.2 b.2)).map (·.1)) :=
          (List.take_sublist _ _).map _
        have h2 : (((rem.zip (cd rem)).mergeSort (fun a b => ge a.2 b.2)).map (·.1)).Perm rem := by
          have := (List.mergeSort_perm (rem.zip (cd rem)) (fun a b => ge a.2 b.2)).map (·.1)
          rwa [List.map_fst_zip (Nat.le_of_eq (hcd rem).symm)] at this
        exact h1.subperm.trans h2.subperm
      obtain ⟨ih1, ih2⟩ := ih _ (by rw [hnl]; omega)
      refine ⟨?_, ih2.trans hsub⟩
      rw [ih1, hnl]; omega
    · rw [if_neg hgt]
      exact ⟨by omega, List.Subperm.refl _⟩

/-- `nondominated_prune` returns the fitting fronts plus part of the cut front, `min` of the target
size and what the split delivered -/
theorem prune_length {κ : Type} (rank : σ → Nat) (cd : List σ → List κ) (ge : κ → κ → Bool)
    (hcd : ∀ l, (cd l).length = l.length) (l : List σ) (k : Nat) :
    (nondominatedPrune rank cd ge l k).length =
      min k ((nondominatedSplit rank l k).1.length + (nondominatedSplit rank l k).2.length) := by
  obtain ⟨_, _, hk, _⟩ := split_spec rank l k
  unfold nondominatedPrune
  rcases hs : nondominatedSplit rank l k with ⟨result, remaining⟩
  rw [hs] at hk
  simp only [List.length_append]
  rw [(pruneLoop_spec cd ge hcd result.length k remaining.length remaining (Nat.le_refl _)).1]
  simp at hk
  omega

/-- … and what it returns from the cut front is a sub-multiset of that front -/
theorem prune_subperm {κ : Type} (rank : σ → Nat) (cd : List σ → List κ) (ge : κ → κ → Bool)
    (hcd : ∀ l, (cd l).length = l.length) (l : List σ) (k : Nat) :
    ∃ kept, nondominatedPrune rank cd ge l k = (nondominatedSplit rank l k).1 ++ kept ∧
      kept.Subperm (nondominatedSplit rank l k).2 := by
  unfold nondominatedPrune
  rcases hs : nondominatedSplit rank l k with ⟨result, remaining⟩
  exact ⟨_, rfl, (pruneLoop_spec cd ge hcd result.length k remaining.length remaining (Nat.le_refl _)).2⟩

end Platypus
