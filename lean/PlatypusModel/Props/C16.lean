import PlatypusModel.Model.Indicators
import PlatypusModel.Props.C10
import PlatypusModel.Lemmas.Indicators
import Mathlib.Algebra.Order.Field.Basic
import Mathlib.Algebra.Order.BigOperators.Group.List
import Mathlib.Tactic.Linarith
import Mathlib.Data.List.Forall2
set_option linter.unusedSectionVars false
/-!
# C16 — GD, IGD, additive ε and spacing: consequences of their definitions; C10 for the indicators

Exact arithmetic: any linearly ordered field, with the numeric primitives constrained only by the
properties listed in `OpsOk` (true of the real `sqrt`, `pow`, `Σ`).  The model functions are the ones the
driver runs at `Float`, bit for bit against the implementation.
-/
namespace Platypus

variable {α : Type} [Field α] [LinearOrder α] [IsStrictOrderedRing α]

/-- what the theorems need from the numeric primitives -/
structure OpsOk (ops : NumOps α) : Prop where
  sum_eq : ∀ l, ops.sum l = l.sum
  sqrt_nonneg : ∀ x, 0 ≤ ops.sqrt x
  sqrt_zero : ops.sqrt 0 = 0
  sqrt_mono : ∀ x y, 0 ≤ x → x ≤ y → ops.sqrt x ≤ ops.sqrt y
  pow_nonneg : ∀ x y, 0 ≤ x → 0 ≤ ops.pow x y
  pow_zero : ∀ y, 0 < y → ops.pow 0 y = 0
  pow_two : ∀ x, ops.pow x (1 + 1) = x * x
  inf_pos : 0 < ops.inf


/-! ### distances -/

theorem euclid_nonneg {ops : NumOps α} (h : OpsOk ops) (x y : List α) : 0 ≤ euclid ops x y := h.sqrt_nonneg _

theorem euclid_self {ops : NumOps α} (h : OpsOk ops) (x : List α) : euclid ops x x = 0 := by
  unfold euclid
  have : List.zipWith (fun a b => ops.pow (a - b) (1 + 1)) x x = x.map (fun _ => (0 : α)) := by
    rw [List.zipWith_self]
    apply List.map_congr_left
    intro a _
    rw [h.pow_two]; simp
  rw [this, h.sum_eq]
  have : (x.map (fun _ => (0 : α))).sum = 0 := by
    apply List.sum_eq_zero
    intro a ha
    simp only [List.mem_map] at ha
    obtain ⟨_, _, rfl⟩ := ha
    rfl
  rw [this, h.sqrt_zero]

theorem distanceToNearest_nonneg {ops : NumOps α} (h : OpsOk ops) (x : List α) (set : List (List α)) :
    0 ≤ distanceToNearest ops x set := by
  unfold distanceToNearest
  split
  · exact h.inf_pos.le
  · rename_i hne
    apply le_pyMinList
    · simpa [List.isEmpty_iff] using hne
    · intro e he
      simp only [List.mem_map] at he
      obtain ⟨y, _, rfl⟩ := he
      exact euclid_nonneg h x y

theorem distanceToNearest_self {ops : NumOps α} (h : OpsOk ops) (x : List α) (set : List (List α)) (hx : x ∈ set) :
    distanceToNearest ops x set = 0 := by
  apply le_antisymm _ (distanceToNearest_nonneg h x set)
  unfold distanceToNearest
  have hne : set ≠ [] := List.ne_nil_of_mem hx
  rw [if_neg (by simpa [List.isEmpty_iff] using hne)]
  rw [← euclid_self h x]
  exact pyMinList_le _ (List.mem_map.mpr ⟨x, hx, rfl⟩)

theorem sum_pow_nonneg {ops : NumOps α} (h : OpsOk ops) (d : α) (f : List α → α) (hf : ∀ x, 0 ≤ f x) (l : List (List α)) :
    0 ≤ ops.sum (l.map (fun x => ops.pow (f x) d)) := by
  rw [h.sum_eq]
  apply List.sum_nonneg
  intro a ha
  simp only [List.mem_map] at ha
  obtain ⟨x, _, rfl⟩ := ha
  exact h.pow_nonneg _ _ (hf x)

/-! ### normalisation under a flip (C10) -/

/-- bounds of the flipped problem: negated and exchanged on the flipped objectives -/
def flipLo (S : List Bool) (mn mx : List α) : List α :=
  List.zipWith (fun (f : Bool) (p : α × α) => if f then -p.2 else p.1) S (mn.zip mx)
def flipHi (S : List Bool) (mn mx : List α) : List α :=
  List.zipWith (fun (f : Bool) (p : α × α) => if f then -p.1 else p.2) S (mn.zip mx)

/-- a flipped objective's normalised value is `1 - n`, the others are unchanged -/
theorem normObjs_flip (S : List Bool) (mn mx objs : List α)
    (hS : S.length = objs.length) (hmn : mn.length = objs.length) (hmx : mx.length = objs.length)
    (hr : ∀ p ∈ mn.zip mx, p.1 ≠ p.2) :
    normObjs (flipLo S mn mx) (flipHi S mn mx) (flipObjs S objs) =
      List.zipWith (fun (f : Bool) n => if f then 1 - n else n) S (normObjs mn mx objs) := by
  unfold normObjs flipLo flipHi flipObjs
  apply List.ext_getElem
  · simp [hS, hmn, hmx]
  · intro i h1 h2
    simp only [List.length_zipWith, List.length_zip] at h1 h2
    simp only [List.getElem_zipWith, List.getElem_zip]
    have hne : mn[i] ≠ mx[i] := by
      apply hr (mn[i], mx[i])
      rw [← List.getElem_zip (l := mn) (l' := mx) (h := by simp; omega)]
      exact List.getElem_mem _
    have hne' : mx[i] - mn[i] ≠ 0 := sub_ne_zero.mpr (Ne.symm hne)
    cases S[i]
    · simp
    · simp only [if_true]
      rw [show -mn[i] - -mx[i] = mx[i] - mn[i] by ring, div_eq_iff hne', sub_mul, div_mul_cancel₀ _ hne']
      ring

/-- the effect of a flip on a normalised objective vector -/
def flipN (S : List Bool) (n : List α) : List α := List.zipWith (fun (f : Bool) n => if f then 1 - n else n) S n

theorem flipDirs_length (S dirs : List Bool) (hS : S.length = dirs.length) : (flipDirs S dirs).length = dirs.length := by
  simp [flipDirs, hS]

theorem hvKeep_flip (S dirs : List Bool) (n : List α) (hS : S.length = dirs.length) (hn : n.length = dirs.length) :
    hvKeep true (flipDirs S dirs) (flipN S n) = hvKeep true dirs n := by
  induction S generalizing dirs n with
  | nil =>
    cases dirs with
    | nil => rfl
    | cons d dirs => simp at hS
  | cons f S ih =>
    cases dirs with
    | nil => simp at hS
    | cons d dirs =>
      cases n with
      | nil => simp at hn
      | cons x n =>
        have ih' := ih dirs n (by simpa using hS) (by simpa using hn)
        simp only [hvKeep, flipDirs, flipN] at ih' ⊢
        simp only [List.zipWith_cons_cons, List.zip_cons_cons, List.all_cons, ih']
        congr 1
        cases f <;> cases d <;> simp

theorem hvInvert_flip (S dirs : List Bool) (n : List α) (hS : S.length = dirs.length) (hn : n.length = dirs.length) :
    hvInvert true (flipDirs S dirs) (flipN S n) = hvInvert true dirs n := by
  induction S generalizing dirs n with
  | nil =>
    cases dirs with
    | nil => rfl
    | cons d dirs => simp at hS
  | cons f S ih =>
    cases dirs with
    | nil => simp at hS
    | cons d dirs =>
      cases n with
      | nil => simp at hn
      | cons x n =>
        have ih' := ih dirs n (by simpa using hS) (by simpa using hn)
        simp only [hvInvert, flipDirs, flipN, clip_eq] at ih' ⊢
        simp only [List.zipWith_cons_cons, ih']
        congr 1
        cases f <;> cases d <;> simp [clip_one_sub]

theorem checkRanges_flip (eps : α) (S : List Bool) (mn mx : List α) (hmn : mn.length = S.length) (hmx : mx.length = S.length) :
    checkRanges eps (flipLo S mn mx) (flipHi S mn mx) = checkRanges eps mn mx := by
  have : ((flipLo S mn mx).zip (flipHi S mn mx)).any (fun p => absA (p.2 - p.1) < eps) =
      (mn.zip mx).any (fun p => absA (p.2 - p.1) < eps) := by
    induction S generalizing mn mx with
    | nil =>
      cases mn with
      | nil => rfl
      | cons a mn => simp at hmn
    | cons f S ih =>
      cases mn with
      | nil => simp at hmn
      | cons a mn =>
        cases mx with
        | nil => simp at hmx
        | cons b mx =>
          have ih' := ih mn mx (by simpa using hmn) (by simpa using hmx)
          simp only [flipLo, flipHi] at ih' ⊢
          simp only [List.zipWith_cons_cons, List.zip_cons_cons, List.any_cons, ih']
          congr 1
          cases f <;> simp [neg_add_eq_sub]
  unfold checkRanges
  rw [this]

theorem normObjs_length (mn mx objs : List α) (k : Nat) (hmn : mn.length = k) (hmx : mx.length = k) (ho : objs.length = k) :
    (normObjs mn mx objs).length = k := by
  simp [normObjs, hmn, hmx, ho]

theorem hv_pts_flip (S dirs : List Bool) (mn mx : List α) (set : List (ISol α))
    (hS : S.length = dirs.length) (hmn : mn.length = dirs.length) (hmx : mx.length = dirs.length)
    (hset : ∀ s ∈ set, s.objs.length = dirs.length) (hr : ∀ p ∈ mn.zip mx, p.1 ≠ p.2) :
    ((((set.map fun s => ({ s with objs := flipObjs S s.objs } : ISol α)).filter isFeasible).map
        (fun s => normObjs (flipLo S mn mx) (flipHi S mn mx) s.objs)).filter (hvKeep true (flipDirs S dirs))) =
    ((((set.filter isFeasible).map (fun s => normObjs mn mx s.objs)).filter (hvKeep true dirs))).map (flipN S) := by
  have hfeas : (set.map fun s => ({ s with objs := flipObjs S s.objs } : ISol α)).filter isFeasible =
      (set.filter isFeasible).map fun s => ({ s with objs := flipObjs S s.objs } : ISol α) := by
    rw [List.filter_map]; rfl
  have hmap : ((set.filter isFeasible).map fun s => ({ s with objs := flipObjs S s.objs } : ISol α)).map
        (fun s => normObjs (flipLo S mn mx) (flipHi S mn mx) s.objs) =
      ((set.filter isFeasible).map (fun s => normObjs mn mx s.objs)).map (flipN S) := by
    rw [List.map_map, List.map_map]
    apply List.map_congr_left
    intro s hs
    have hl := hset s (List.mem_of_mem_filter hs)
    exact normObjs_flip S mn mx s.objs (by omega) (by omega) (by omega) hr
  rw [hfeas, hmap, List.filter_map]
  congr 1
  apply List.filter_congr
  intro n hn
  simp only [List.mem_map] at hn
  obtain ⟨s, hs, rfl⟩ := hn
  have hl := hset s (List.mem_of_mem_filter hs)
  exact hvKeep_flip S dirs _ hS (normObjs_length mn mx s.objs _ hmn hmx hl)

/-- hypervolume is unchanged by flipping any subset of objectives (repaired code) -/
theorem hypervolume_flip_invariant (eps : α) (S dirs : List Bool) (mn mx : List α) (set : List (ISol α))
    (hS : S.length = dirs.length) (hmn : mn.length = dirs.length) (hmx : mx.length = dirs.length)
    (hset : ∀ s ∈ set, s.objs.length = dirs.length) (hr : ∀ p ∈ mn.zip mx, p.1 ≠ p.2) :
    hypervolume eps true (flipDirs S dirs) (flipLo S mn mx) (flipHi S mn mx)
        (set.map fun s => { s with objs := flipObjs S s.objs }) =
      hypervolume eps true dirs mn mx set := by
  have hfe : ((set.map fun s => ({ s with objs := flipObjs S s.objs } : ISol α)).filter isFeasible).isEmpty =
      (set.filter isFeasible).isEmpty := by
    rw [List.filter_map]; simp only [List.isEmpty_map]; rfl
  have hinv : ((((set.filter isFeasible).map (fun s => normObjs mn mx s.objs)).filter (hvKeep true dirs)).map (flipN S)).map
        (fun p => (hvInvert true (flipDirs S dirs) p).toArray) =
      (((set.filter isFeasible).map (fun s => normObjs mn mx s.objs)).filter (hvKeep true dirs)).map
        (fun p => (hvInvert true dirs p).toArray) := by
    rw [List.map_map]
    apply List.map_congr_left
    intro n hn
    have hn := List.mem_of_mem_filter hn
    simp only [List.mem_map] at hn
    obtain ⟨s, hs, rfl⟩ := hn
    have hl := hset s (List.mem_of_mem_filter hs)
    simp only [Function.comp]
    rw [hvInvert_flip S dirs _ hS (normObjs_length mn mx s.objs _ hmn hmx hl)]
  unfold hypervolume
  simp only []
  rw [hv_pts_flip S dirs mn mx set hS hmn hmx hset hr, hfe, checkRanges_flip eps S mn mx (by omega) (by omega),
    hinv, flipDirs_length S dirs hS, List.isEmpty_map]

/-! ### consequences of the definitions (C16) -/

theorem gd_nonneg (ops : NumOps α) (h : OpsOk ops) (nobjs : Nat) (d : α) (hd : 0 < d) (ref set : List (ISol α)) (v : α)
    (hv : generationalDistance ops nobjs d ref set = .ok v) : 0 ≤ v := by
  obtain ⟨mn, mx, refN, _, hcase⟩ := gd_ok hv
  rcases hcase with ⟨_, rfl⟩ | ⟨_, rfl⟩
  · exact h.inf_pos.le
  · apply div_nonneg _ (ofNatA_nonneg _)
    apply h.pow_nonneg
    exact sum_pow_nonneg h d (fun x => distanceToNearest ops x refN) (fun x => distanceToNearest_nonneg h x refN) _

theorem igd_nonneg (ops : NumOps α) (h : OpsOk ops) (nobjs : Nat) (d : α) (hd : 0 < d) (ref set : List (ISol α)) (v : α)
    (hv : invertedGenerationalDistance ops nobjs d ref set = .ok v) : 0 ≤ v := by
  obtain ⟨mn, mx, refN, _, rfl⟩ := igd_ok hv
  apply div_nonneg _ (ofNatA_nonneg _)
  apply h.pow_nonneg
  exact sum_pow_nonneg h d (fun r => distanceToNearest ops r _) (fun r => distanceToNearest_nonneg h r _) _

theorem spacing_nonneg (ops : NumOps α) (h : OpsOk ops) (set : List (ISol α)) : 0 ≤ spacing ops set := by
  unfold spacing
  simp only []
  split
  · exact le_refl _
  · exact h.sqrt_nonneg _

/-- a set without a feasible member: GD and the ε-indicator are +∞ -/
theorem gd_no_feasible (ops : NumOps α) (nobjs : Nat) (d : α) (ref set : List (ISol α))
    (hset : ∀ s ∈ set, isFeasible s = false) (v : α) (hv : generationalDistance ops nobjs d ref set = .ok v) :
    v = ops.inf := by
  obtain ⟨mn, mx, refN, _, hcase⟩ := gd_ok hv
  rcases hcase with ⟨_, rfl⟩ | ⟨hne, _⟩
  · rfl
  · exact absurd (filter_feasible_nil set hset) hne

theorem eps_no_feasible (ops : NumOps α) (dirs : List Bool) (nobjs : Nat) (ref set : List (ISol α))
    (hset : ∀ s ∈ set, isFeasible s = false) (v : α) (hv : epsilonIndicator ops true dirs nobjs ref set = .ok v) :
    v = ops.inf := by
  obtain ⟨mn, mx, refN, _, hcase⟩ := eps_ok hv
  rcases hcase with ⟨_, rfl⟩ | ⟨hne, _⟩
  · rfl
  · exact absurd (filter_feasible_nil set hset) hne

/-- the reference set against itself: GD, IGD and the additive ε are 0 -/
theorem gd_self_zero (ops : NumOps α) (h : OpsOk ops) (nobjs : Nat) (d : α) (hd : 0 < d) (ref : List (ISol α)) (v : α)
    (hv : generationalDistance ops nobjs d ref ref = .ok v) : v = 0 := by
  obtain ⟨mn, mx, refN, hr, hcase⟩ := gd_ok hv
  obtain ⟨hb, _, hrefN⟩ := refNormalize_ok hr
  obtain ⟨hne, _, _⟩ := boundsOf_ok hb
  rcases hcase with ⟨he, _⟩ | ⟨_, rfl⟩
  · exact absurd he hne
  · rw [← hrefN]
    have hz : refN.map (fun x => ops.pow (distanceToNearest ops x refN) d) = refN.map (fun _ => (0 : α)) := by
      apply List.map_congr_left
      intro x hx
      rw [distanceToNearest_self h x refN hx, h.pow_zero d hd]
    have hs : (refN.map (fun _ => (0 : α))).sum = 0 := by
      apply List.sum_eq_zero
      intro a ha
      simp only [List.mem_map] at ha
      obtain ⟨_, _, rfl⟩ := ha
      rfl
    rw [hz, h.sum_eq, hs, h.pow_zero _ (by positivity), zero_div]

theorem list_exists_min {β : Type} (f : β → α) (l : List β) (hl : l ≠ []) : ∃ x ∈ l, ∀ y ∈ l, f x ≤ f y := by
  have hm := pyMinList_mem (0 : α) (l := l.map f) (by simpa using hl)
  obtain ⟨x, hx, hfx⟩ := List.mem_map.mp hm
  refine ⟨x, hx, fun y hy => ?_⟩
  rw [hfx]
  exact pyMinList_le 0 (List.mem_map.mpr ⟨y, hy, rfl⟩)

/-- the per-pair value of the additive ε indicator (repaired code) -/
def epsDiff (dirs : List Bool) (a r : List α) : α :=
  pyMaxList 0 (List.zipWith (fun (dk : Bool × α) rk => if dk.1 then rk - dk.2 else dk.2 - rk) (dirs.zip a) r)

theorem epsDiff_self (dirs : List Bool) (r : List α) : epsDiff dirs r r = 0 := by
  unfold epsDiff
  by_cases hl : List.zipWith (fun (dk : Bool × α) rk => if dk.1 then rk - dk.2 else dk.2 - rk) (dirs.zip r) r = []
  · rw [hl]; rfl
  · have hm := pyMaxList_mem (0 : α) hl
    rw [List.mem_iff_getElem] at hm
    obtain ⟨i, hi, hieq⟩ := hm
    rw [← hieq]
    simp only [List.getElem_zipWith, List.getElem_zip]
    split <;> simp

theorem boundsOf_length {nobjs : Nat} {sols : List (ISol α)} {mn mx : List α} (h : boundsOf nobjs sols = .ok (mn, mx)) :
    mn.length = nobjs ∧ mx.length = nobjs := by
  obtain ⟨_, h1, h2⟩ := boundsOf_ok h
  subst h1 h2
  simp

theorem eps_self_zero (ops : NumOps α) (h : OpsOk ops) (dirs : List Bool) (nobjs : Nat) (ref : List (ISol α)) (v : α)
    (hdl : dirs.length = nobjs) (hn : 0 < nobjs) (hlen : ∀ s ∈ ref, s.objs.length = nobjs)
    (hv : epsilonIndicator ops true dirs nobjs ref ref = .ok v) : v = 0 := by
  obtain ⟨mn, mx, refN, hr, hcase⟩ := eps_ok hv
  obtain ⟨hb, _, hrefN⟩ := refNormalize_ok hr
  obtain ⟨hne, _, _⟩ := boundsOf_ok hb
  obtain ⟨hmn, hmx⟩ := boundsOf_length hb
  rcases hcase with ⟨he, _⟩ | ⟨_, hrne, hveq⟩
  · exact absurd he hne
  · rw [← hrefN] at hveq
    change v = pyMaxList 0 (refN.map (fun r => pyMinList 0 (refN.map (fun a => epsDiff dirs a r)))) at hveq
    have hlenN : ∀ a ∈ refN, a.length = nobjs := by
      intro a ha
      rw [hrefN] at ha
      obtain ⟨s, hs, rfl⟩ := List.mem_map.mp ha
      exact normObjs_length mn mx s.objs nobjs hmn hmx (hlen s (List.mem_of_mem_filter hs))
    subst hveq
    apply le_antisymm
    · apply pyMaxList_le
      · simpa using hrne
      · intro e he
        obtain ⟨r, hr, rfl⟩ := List.mem_map.mp he
        exact (pyMinList_le 0 (List.mem_map.mpr ⟨r, hr, rfl⟩)).trans (epsDiff_self dirs r).le
    · -- a reference point that is extremal in the first objective
      obtain ⟨d0, dt, rfl⟩ : ∃ d0 dt, dirs = d0 :: dt := by
        cases dirs with
        | nil => simp at hdl; omega
        | cons d0 dt => exact ⟨d0, dt, rfl⟩
      obtain ⟨r0, hr0, hmin⟩ := list_exists_min (fun a : List α => if d0 then -(a.headD 0) else a.headD 0) refN hrne
      have hge : ∀ a ∈ refN, 0 ≤ epsDiff (d0 :: dt) a r0 := by
        intro a ha
        have hla := hlenN a ha
        have hlr := hlenN r0 hr0
        have hm := hmin a ha
        cases a with
        | nil => simp at hla; omega
        | cons a0 at' =>
          cases r0 with
          | nil => simp at hlr; omega
          | cons r00 rt =>
            unfold epsDiff
            simp only [List.zip_cons_cons, List.zipWith_cons_cons]
            refine le_trans ?_ (le_pyMaxList 0 List.mem_cons_self)
            simp only [List.headD_cons] at hm
            cases d0
            · simpa using hm
            · simpa using hm
      refine le_trans ?_ (le_pyMaxList 0 (List.mem_map.mpr ⟨r0, hr0, rfl⟩))
      apply le_pyMinList
      · simpa using hrne
      · intro e he
        obtain ⟨a, ha, rfl⟩ := List.mem_map.mp he
        exact hge a ha

theorem boundsOf_le {nobjs : Nat} {sols : List (ISol α)} {mn mx : List α} (h : boundsOf nobjs sols = .ok (mn, mx)) :
    ∀ p ∈ mn.zip mx, p.1 ≤ p.2 := by
  obtain ⟨hne, h1, h2⟩ := boundsOf_ok h
  subst h1 h2
  intro p hp
  rw [List.zip_map'] at hp
  obtain ⟨i, _, rfl⟩ := List.mem_map.mp hp
  have hne' : (sols.filter isFeasible).map (fun s => s.objs.getD i 0) ≠ [] := by simpa using hne
  exact le_pyMaxList 0 (pyMinList_mem 0 hne')

/-- worse (or equal) in every declared direction -/
def Worse (dirs : List Bool) (s s' : ISol α) : Prop :=
  s.cv = s'.cv ∧ s.objs.length = s'.objs.length ∧
    ∀ q ∈ dirs.zip (s.objs.zip s'.objs), if q.1 then q.2.2 ≤ q.2.1 else q.2.1 ≤ q.2.2

theorem epsDiff_mono (dirs : List Bool) (mn mx r : List α) (hb : ∀ p ∈ mn.zip mx, p.1 ≤ p.2) (s s' : ISol α)
    (hw : Worse dirs s s') :
    epsDiff dirs (normObjs mn mx s.objs) r ≤ epsDiff dirs (normObjs mn mx s'.objs) r := by
  obtain ⟨_, hl, hq⟩ := hw
  unfold epsDiff
  apply pyMaxList_mono
  rw [List.forall₂_iff_get]
  refine ⟨by simp [normObjs, hl], ?_⟩
  intro i h1 h2
  simp only [List.length_zipWith, List.length_zip, normObjs] at h1 h2
  simp only [List.get_eq_getElem, normObjs, List.getElem_zipWith, List.getElem_zip]
  have hmm : mn[i] ≤ mx[i] := by
    apply hb (mn[i], mx[i])
    rw [← List.getElem_zip (l := mn) (l' := mx) (h := by simp; omega)]
    exact List.getElem_mem _
  have hmm' : 0 ≤ mx[i] - mn[i] := sub_nonneg.mpr hmm
  have hqi := hq (dirs[i], (s.objs[i], s'.objs[i])) (by
    rw [← List.getElem_zip (l := s.objs) (l' := s'.objs) (h := by simp; omega),
      ← List.getElem_zip (l := dirs) (h := by simp; omega)]
    exact List.getElem_mem _)
  simp only at hqi
  cases hd : dirs[i]
  · simp only [hd] at hqi
    simp only [Bool.false_eq_true, if_false]
    exact sub_le_sub_right (div_le_div_of_nonneg_right (sub_le_sub_right hqi _) hmm') _
  · simp only [hd, if_true] at hqi
    simp only [if_true]
    exact sub_le_sub_left (div_le_div_of_nonneg_right (sub_le_sub_right hqi _) hmm') _

theorem worse_filter (dirs : List Bool) (set set' : List (ISol α)) (h : List.Forall₂ (Worse dirs) set set') :
    List.Forall₂ (Worse dirs) (set.filter isFeasible) (set'.filter isFeasible) := by
  apply List.rel_filter _ h
  intro s s' hw
  simp only [isFeasible, hw.1]

/-- making members of the set worse in their declared directions never decreases the additive ε -/
theorem eps_monotone (ops : NumOps α) (dirs : List Bool) (nobjs : Nat) (ref set set' : List (ISol α)) (v v' : α)
    (hlen : set.length = set'.length)
    (hworse : ∀ p ∈ set.zip set', p.1.cv = p.2.cv ∧ p.1.objs.length = p.2.objs.length ∧
      ∀ q ∈ dirs.zip (p.1.objs.zip p.2.objs), if q.1 then q.2.2 ≤ q.2.1 else q.2.1 ≤ q.2.2)
    (hv : epsilonIndicator ops true dirs nobjs ref set = .ok v)
    (hv' : epsilonIndicator ops true dirs nobjs ref set' = .ok v') : v ≤ v' := by
  have hW : List.Forall₂ (Worse dirs) set set' := by
    rw [List.forall₂_iff_zip]
    exact ⟨hlen, fun {a b} hab => hworse (a, b) hab⟩
  have hWf := worse_filter dirs set set' hW
  obtain ⟨mn, mx, refN, hr, hcase⟩ := eps_ok hv
  obtain ⟨mn', mx', refN', hr', hcase'⟩ := eps_ok hv'
  rw [hr] at hr'
  injection hr' with hr'
  injection hr' with h1 h2
  injection h1 with h3 h4
  subst h2 h3 h4
  obtain ⟨hb, _, _⟩ := refNormalize_ok hr
  have hble := boundsOf_le hb
  rcases hcase with ⟨he, rfl⟩ | ⟨hne, hrne, rfl⟩
  · rcases hcase' with ⟨_, rfl⟩ | ⟨hne', _, _⟩
    · exact le_refl _
    · rw [he] at hWf
      exact absurd (List.forall₂_nil_left_iff.mp hWf) hne'
  · rcases hcase' with ⟨he', _⟩ | ⟨_, _, rfl⟩
    · rw [he'] at hWf
      exact absurd (List.forall₂_nil_right_iff.mp hWf) hne
    · apply pyMaxList_mono
      rw [List.forall₂_map_left_iff, List.forall₂_map_right_iff, List.forall₂_same]
      intro r _
      apply pyMinList_mono
      rw [List.map_map, List.map_map, List.forall₂_map_left_iff, List.forall₂_map_right_iff]
      exact hWf.imp (fun s s' hw => epsDiff_mono dirs mn mx r hble s s' hw)

end Platypus
