import PlatypusModel.Lemmas.C17Base
import PlatypusModel.Lemmas.GrayAdj
/-!
# C17 — Integer variables round-trip through Gray-coded bits and never leave range

Property theorems only (proofs are in Lemmas/C17Base.lean and Lemmas/GrayAdj.lean).
`w = max_value - min_value`; the offset `min_value` is added after `decode` / subtracted before
`encode` by the Python code and plays no role.  All statements are for unbounded `Nat`.
-/
namespace Platypus.C17

/-- integer/binary conversions are mutually inverse, every value and every length -/
theorem bin2int_int2bin (n k : Nat) : bin2int (int2bin n k) = n := Platypus.bin2int_int2bin n k
theorem int2bin_bin2int (bits : List Bool) : int2bin (bin2int bits) bits.length = bits :=
  Platypus.int2bin_bin2int bits

/-- binary/Gray conversions are mutually inverse for every length ≥ 1 (empty list = error branch) -/
theorem gray2bin_bin2gray (bits : List Bool) (h : bits ≠ []) : gray2bin (bin2gray bits) = some bits :=
  Platypus.gray2bin_bin2gray bits h
theorem bin2gray_gray2bin (g : List Bool) (h : g ≠ []) : (gray2bin g).map bin2gray = some g :=
  Platypus.bin2gray_gray2bin g h
theorem gray2bin_nil : gray2bin [] = none := rfl

theorem encode_length (w v : Nat) (hv : v ≤ w) : (encode w v).length = nbits w :=
  Platypus.encode_length w v hv

/-- encoding any in-range integer and decoding it returns the same integer -/
theorem decode_encode (w v : Nat) (hv : v ≤ w) : decode w (encode w v) = some v :=
  Platypus.decode_encode w v hv

/-- every bit string of the variable's length decodes to a value inside the range -/
theorem decode_in_range (w : Nat) (hw : 1 ≤ w) (bits : List Bool) (hl : bits.length = nbits w) :
    ∃ v, decode w bits = some v ∧ v ≤ w := Platypus.decode_in_range w hw bits hl

/-- every value of the range is produced by at least one bit string -/
theorem decode_surjective (w v : Nat) (hv : v ≤ w) :
    ∃ bits, bits.length = nbits w ∧ decode w bits = some v := Platypus.decode_surjective w v hv

/-- consecutive integers have encodings that differ in exactly one bit -/
theorem gray_adjacent (w v : Nat) (hv : v < w) : hamming (encode w v) (encode w (v + 1)) = 1 :=
  Platypus.gray_adjacent_aux w v hv

-- non-vacuity
example : decode 5 (encode 5 5) = some 5 := decode_encode 5 5 (by decide)
example : nbits 5 = 3 ∧ decode 5 [true, false, false] = some 2 ∧
    decode 5 [true, false, true] = some 1 := by decide
example : hamming (encode 5 3) (encode 5 4) = 1 := gray_adjacent 5 3 (by decide)

end Platypus.C17
