import PlatypusModel.Model.Directions
/-!
# C02 / C10 / C15 — "all direction assignments": every spelling of a declaration means the same

For every list of directions, every starting content of `problem.directions` of the right length and every
style of value (enum member, legacy int, string), declaring by one slice assignment, by one assignment per
index, or by a broadcast followed by one-slot slices, leaves exactly the declared directions in the array
(model of `Direction.to_direction` + `FixedLengthArray.__setitem__`, compared with the real classes on
random assignment sequences by the C02 check).
-/
namespace Platypus

theorem toDirAtom_atomOf (style : Nat) (d : Bool) : toDirAtom (atomOf style d) = some d := by
  have h := Nat.mod_lt style (by decide : 0 < 3)
  unfold atomOf
  rcases hm : style % 3 with _ | _ | _ | k
  · rfl
  · cases d <;> rfl
  · cases d <;> rfl
  · omega

theorem c02d_mapM_atomOf (style : Nat) (dirs : List Bool) :
    (dirs.map (atomOf style)).mapM toDirAtom = some dirs := by
  induction dirs with
  | nil => rfl
  | cons d ds ih =>
    simp only [List.map_cons, List.mapM_cons, toDirAtom_atomOf, ih]
    rfl

theorem c02d_toDir_seq (style : Nat) (dirs : List Bool) :
    toDir (.seq (dirs.map (atomOf style))) = some (.l dirs) := by
  simp only [toDir, c02d_mapM_atomOf, Option.map_some]

theorem c02d_toDir_atom (style : Nat) (d : Bool) :
    toDir (.atom (atomOf style d)) = some (.d d) := by
  simp only [toDir, toDirAtom_atomOf, Option.map_some]

theorem spellSlice_ok (style : Nat) (dirs : List Bool) (init : List Slot) (h : init.length = dirs.length) :
    dirRun init (spellSlice style dirs) = some (dirs.map Slot.d) := by
  simp only [spellSlice, dirRun, dirSet, c02d_toDir_seq, h, Nat.min_self, Nat.sub_zero, Nat.zero_le, true_and,
    if_true, Option.bind_some, Option.some.injEq]
  apply List.ext_getElem
  · simp
  · intro i h1 h2
    simp only [List.length_map, List.length_range] at h1
    simp [h1, List.getD_eq_getElem?_getD]

theorem c02d_dirSet_idx (style : Nat) (d : Bool) (arr : List Slot) (i : Nat) (hi : i < arr.length) :
    dirSet arr (.idx i) (.atom (atomOf style d)) = some (arr.set i (.d d)) := by
  simp only [dirSet, c02d_toDir_atom, hi, if_true]

theorem c02d_index_run (style : Nat) (dirs : List Bool) : ∀ (pre init : List Slot), init.length = dirs.length →
    dirRun (pre ++ init) ((dirs.zipIdx pre.length).map fun (d, i) => (Sel.idx i, DArg.atom (atomOf style d)))
      = some (pre ++ dirs.map Slot.d) := by
  induction dirs with
  | nil =>
    intro pre init h
    have : init = [] := List.eq_nil_of_length_eq_zero h
    subst this
    rfl
  | cons d ds ih =>
    intro pre init h
    cases init with
    | nil => simp at h
    | cons s init' =>
      simp only [List.length_cons, Nat.add_right_cancel_iff] at h
      simp only [List.zipIdx_cons, List.map_cons, dirRun]
      rw [c02d_dirSet_idx _ _ _ _ (by simp)]
      simp only [Option.bind_some]
      have e : (pre ++ s :: init').set pre.length (Slot.d d) = (pre ++ [Slot.d d]) ++ init' := by
        simp
      rw [e]
      have := ih (pre ++ [Slot.d d]) init' h
      simp only [List.length_append, List.length_cons, List.length_nil, Nat.zero_add] at this
      rw [this]
      simp

theorem spellIndex_ok (style : Nat) (dirs : List Bool) (init : List Slot) (h : init.length = dirs.length) :
    dirRun init (spellIndex style dirs) = some (dirs.map Slot.d) := by
  have := c02d_index_run style dirs [] init h
  simpa [spellIndex] using this

theorem c02d_dirSet_slice1 (style : Nat) (arr : List Slot) (i : Nat) (hi : i < arr.length) :
    dirSet arr (.slice i (i + 1)) (.atom (atomOf style true)) = some (arr.set i (.d true)) := by
  simp only [dirSet, c02d_toDir_atom, Option.some.injEq]
  have hm : min (i + 1) arr.length = i + 1 := by omega
  rw [hm]
  apply List.ext_getElem
  · simp
  · intro j h1 h2
    simp only [List.length_map, List.length_range] at h1
    simp only [List.getElem_map, List.getElem_range, List.getElem_set]
    by_cases hj : i = j
    · subst hj; simp
    · have : ¬ (i ≤ j ∧ j < i + 1) := by omega
      simp [this, hj, h1, List.getD_eq_getElem?_getD]

theorem c02d_dirSet_bcast (style : Nat) (arr : List Slot) :
    dirSet arr (.slice 0 arr.length) (.atom (atomOf style false)) = some (List.replicate arr.length (.d false)) := by
  simp only [dirSet, c02d_toDir_atom, Option.some.injEq, Nat.min_self]
  apply List.ext_getElem
  · simp
  · intro j h1 h2
    simp only [List.length_map, List.length_range] at h1
    simp [h1]

theorem c02d_bcast_run (style : Nat) (dirs : List Bool) : ∀ (pre : List Slot),
    dirRun (pre ++ List.replicate dirs.length (Slot.d false))
      (((dirs.zipIdx pre.length).filter (·.1)).map fun (_, i) => (Sel.slice i (i + 1), DArg.atom (atomOf style true)))
      = some (pre ++ dirs.map Slot.d) := by
  induction dirs with
  | nil => intro pre; rfl
  | cons d ds ih =>
    intro pre
    have := ih (pre ++ [Slot.d d])
    simp only [List.length_append, List.length_cons, List.length_nil, Nat.zero_add] at this
    cases d with
    | false =>
      simp only [List.zipIdx_cons, List.filter_cons, Bool.false_eq_true, if_false, List.length_cons,
        List.replicate_succ, List.map_cons]
      simpa using this
    | true =>
      simp only [List.zipIdx_cons, List.filter_cons, if_true, List.length_cons,
        List.replicate_succ, List.map_cons, dirRun]
      rw [c02d_dirSet_slice1 _ _ _ (by simp)]
      simp only [Option.bind_some]
      have e : (pre ++ Slot.d false :: List.replicate ds.length (Slot.d false)).set pre.length (Slot.d true)
          = (pre ++ [Slot.d true]) ++ List.replicate ds.length (Slot.d false) := by
        simp
      rw [e, this]
      simp

theorem spellBroadcast_ok (style : Nat) (dirs : List Bool) (init : List Slot) (h : init.length = dirs.length) :
    dirRun init (spellBroadcast style dirs) = some (dirs.map Slot.d) := by
  simp only [spellBroadcast, dirRun]
  rw [← h, c02d_dirSet_bcast, h]
  simp only [Option.bind_some]
  have := c02d_bcast_run style dirs []
  simpa using this

theorem c02d_isMax_map (dirs : List Bool) : (dirs.map Slot.d).map Slot.isMax = dirs := by
  induction dirs with
  | nil => rfl
  | cons d ds ih => simp only [List.map_cons, ih, Slot.isMax]

/-- what readers see: `isMax` of every slot is the declared direction -/
theorem declared_isMax (style : Nat) (dirs : List Bool) (init : List Slot) (h : init.length = dirs.length)
    (spell : List (Sel × DArg)) (hs : spell = spellSlice style dirs ∨ spell = spellIndex style dirs ∨ spell = spellBroadcast style dirs) :
    (dirRun init spell).map (fun d => d.map Slot.isMax) = some dirs := by
  have e := c02d_isMax_map dirs
  rcases hs with hs | hs | hs
  · rw [hs, spellSlice_ok style dirs init h, Option.map_some, e]
  · rw [hs, spellIndex_ok style dirs init h, Option.map_some, e]
  · rw [hs, spellBroadcast_ok style dirs init h, Option.map_some, e]

theorem c02d_mapM_dir (bs : List Bool) : (bs.map DAtom.dir).mapM toDirAtom = some bs := by
  induction bs with
  | nil => rfl
  | cons d ds ih =>
    simp only [List.map_cons, List.mapM_cons, toDirAtom, ih]
    rfl

/-- a sequence of the wrong length assigned to a slice does not declare anything: every selected slot then reads as
"minimise" whatever the sequence said (the broadcast branch stores the sequence itself) -/
theorem mismatched_sequence_reads_minimise (init : List Slot) (bs : List Bool) (hlen : bs.length ≠ init.length) :
    (dirSet init (.slice 0 init.length) (.seq (bs.map DAtom.dir))).map (fun d => d.map Slot.isMax)
      = some (List.replicate init.length false) := by
  simp only [dirSet, toDir, c02d_mapM_dir, Option.map_some, Nat.min_self, Nat.sub_zero, hlen, if_false,
    Option.some.injEq]
  apply List.ext_getElem
  · simp
  · intro j h1 h2
    simp only [List.length_map, List.length_range] at h1
    simp [h1, Slot.isMax]

end Platypus
