import PlatypusModel.Props.C05Fix
/-
C05 — the archive theorems of `Props/C05.lean` are stated for the ε-archive built with the pinned comparator
`epsCompare`.  The code now runs the repaired comparator `epsCompareP`; over exact arithmetic the two agree on
well-formed solutions (`epsCompareP_eq`), hence build the same archive from every history of well-formed
solutions.  This file transfers the archive-level theorems to the repaired comparator.
-/
namespace Platypus
open Platypus

section generic
variable {σ : Type}

/-- `archiveAdd` only consults the comparator on (newcomer, member) pairs -/
theorem c05t_archiveAdd_congr (cmp cmp' : σ → σ → Int) (arch : List σ) (s : σ)
    (h : ∀ m ∈ arch, cmp s m = cmp' s m) : archiveAdd cmp arch s = archiveAdd cmp' arch s := by
  have h1 : arch.any (fun m => decide (cmp s m > 0)) = arch.any (fun m => decide (cmp' s m > 0)) := by
    induction arch with
    | nil => rfl
    | cons a t ih =>
      rw [List.any_cons, List.any_cons, h a List.mem_cons_self,
        ih (fun m hm => h m (List.mem_cons_of_mem _ hm))]
  have h2 : arch.filter (fun m => decide (cmp s m = 0)) = arch.filter (fun m => decide (cmp' s m = 0)) := by
    apply List.filter_congr
    intro m hm
    rw [h m hm]
  unfold archiveAdd
  rw [h1, h2]

theorem c05t_epsArchiveAdd_congr (cmp cmp' : σ → σ → Int) (same : σ → σ → Bool) (st : List σ × Nat) (s : σ)
    (h : ∀ m ∈ st.1, cmp s m = cmp' s m) : epsArchiveAdd cmp same st s = epsArchiveAdd cmp' same st s := by
  unfold epsArchiveAdd
  rw [c05t_archiveAdd_congr cmp cmp' st.1 s h]

/-- two comparators that agree on all pairs of offered solutions build the same ε-archive (contents and counter) -/
theorem epsArchiveOf_congr (cmp cmp' : σ → σ → Int) (same : σ → σ → Bool) (xs : List σ)
    (h : ∀ x ∈ xs, ∀ y ∈ xs, cmp x y = cmp' x y) :
    epsArchiveOf cmp same xs = epsArchiveOf cmp' same xs := by
  induction xs using List.reverseRecOn with
  | nil => rfl
  | append_singleton pre s ih =>
    have ih' := ih (fun x hx y hy => h x (List.mem_append_left _ hx) y (List.mem_append_left _ hy))
    rw [epsArchiveOf_append_singleton, epsArchiveOf_append_singleton, ← ih']
    rw [c05t_epsArchiveAdd_congr cmp cmp' same _ s]
    intro m hm
    rw [epsArchiveOf_contents] at hm
    exact h s (List.mem_append_right _ List.mem_cons_self) m
      (List.mem_append_left _ (archiveOf_members_offered cmp pre m hm))
end generic

section exact
variable {α : Type} [Field α] [LinearOrder α] [IsStrictOrderedRing α] [FloorRing α]

abbrev epsCmpPE (c : Bool) (dirs : List Bool) (eps : List α) : Sol α → Sol α → Int :=
  epsCompareP flE sqE c dirs eps

/-- for every history of well-formed solutions the archive of the repaired comparator is the archive of the
pinned comparator -/
theorem epsArchiveOf_P_eq (c : Bool) (dirs : List Bool) (eps : List α) (xs : List (Sol α))
    (hwf : ∀ x ∈ xs, WFe dirs eps x) :
    epsArchiveOf (epsCmpPE c dirs eps) (sameBoxE c dirs eps) xs
      = epsArchiveOf (epsCmpE c dirs eps) (sameBoxE c dirs eps) xs := by
  apply epsArchiveOf_congr
  intro x hx y hy
  exact epsCompareP_eq c dirs eps x y (hwf x hx) (hwf y hy)

/-- at most one solution per box (repaired comparator) -/
theorem epsP_one_per_box (c : Bool) (dirs : List Bool) (eps : List α) (xs : List (Sol α))
    (hwf : ∀ x ∈ xs, WFe dirs eps x) :
    (epsArchiveOf (epsCmpPE c dirs eps) (sameBoxE c dirs eps) xs).1.Pairwise
      (fun m n => sameBoxE c dirs eps m n = false) := by
  rw [epsArchiveOf_P_eq c dirs eps xs hwf]
  exact eps_one_per_box c dirs eps xs hwf

/-- members are mutually incomparable (repaired comparator) -/
theorem epsP_members_incomparable (c : Bool) (dirs : List Bool) (eps : List α) (xs : List (Sol α))
    (hwf : ∀ x ∈ xs, WFe dirs eps x) :
    (epsArchiveOf (epsCmpPE c dirs eps) (sameBoxE c dirs eps) xs).1.Pairwise
      (fun m n => epsCmpPE c dirs eps m n = 0 ∧ epsCmpPE c dirs eps n m = 0) := by
  rw [epsArchiveOf_P_eq c dirs eps xs hwf]
  refine (eps_members_incomparable c dirs eps xs hwf).imp_of_mem ?_
  intro m n hm hn hmn
  have hm' := hwf m (eps_members_offered c dirs eps xs m hm)
  have hn' := hwf n (eps_members_offered c dirs eps xs n hn)
  show epsCompareP flE sqE c dirs eps m n = 0 ∧ epsCompareP flE sqE c dirs eps n m = 0
  rw [epsCompareP_eq c dirs eps m n hm' hn', epsCompareP_eq c dirs eps n m hn' hm']
  exact hmn

/-- every solution ever offered is covered by some member (repaired comparator) -/
theorem epsP_coverage (c : Bool) (dirs : List Bool) (eps : List α) (xs : List (Sol α))
    (hwf : ∀ x ∈ xs, WFe dirs eps x) :
    ∀ x ∈ xs, ∃ m ∈ (epsArchiveOf (epsCmpPE c dirs eps) (sameBoxE c dirs eps) xs).1,
      Covers c dirs eps m x := by
  rw [epsArchiveOf_P_eq c dirs eps xs hwf]
  exact eps_coverage c dirs eps xs hwf
end exact

end Platypus
