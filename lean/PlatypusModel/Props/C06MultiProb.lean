import PlatypusModel.Model.Operators
import Mathlib.Algebra.Order.Field.Basic
import Mathlib.Algebra.BigOperators.Group.List.Basic
import Mathlib.Algebra.Order.BigOperators.Group.List
import Mathlib.Tactic.FieldSimp
import Mathlib.Tactic.Linarith
set_option linter.unusedSectionVars false
/-!
# C06 (Multimethod): the adapted probabilities are a probability distribution

Over any ordered field (the rationals, the reals): the probabilities `counts[i] / sum(counts)` that `select()` installs sum
to exactly one, there is one per variator and each lies in (0, 1] (counts start at one); the initial `1 / n` sum to one.
On doubles the sum is one up to rounding; the check compares the doubles bit for bit with the model and judges
`|sum - 1| ≤ 1e-9`.
-/

namespace Platypus
section
variable {α : Type} [Field α] [LinearOrder α] [IsStrictOrderedRing α]

theorem c06m_sum_map_div (l : List α) (d : α) : (l.map (· / d)).sum = l.sum / d := by
  induction l with
  | nil => simp
  | cons a l ih => simp [ih, add_div]

theorem c06m_sum_div_cast (l : List Nat) (d : α) : (l.map fun (c : Nat) => (Nat.cast c : α) / d).sum = (Nat.cast l.sum : α) / d := by
  induction l with
  | nil => simp
  | cons a l ih =>
    simp only [List.map_cons, List.sum_cons, Nat.cast_add, ih]
    rw [add_div]

/-- the adapted probabilities are a distribution: over any ordered field they sum to exactly one … -/
theorem mmProbs_sum (counts : List Nat) (h : counts.sum ≠ 0) :
    (mmProbs (fun n : Nat => (n : α)) counts).sum = 1 := by
  unfold mmProbs
  show (counts.map fun (c : Nat) => (Nat.cast c : α) / (Nat.cast counts.sum : α)).sum = 1
  rw [c06m_sum_div_cast]
  exact div_self (by exact_mod_cast h)

/-- … have one entry per variator, and every entry lies in (0, 1] when every count is at least one (counts start at 1) -/
theorem mmProbs_entries (counts : List Nat) (hpos : ∀ c ∈ counts, 1 ≤ c) :
    (mmProbs (fun n : Nat => (n : α)) counts).length = counts.length ∧
      ∀ p ∈ mmProbs (fun n : Nat => (n : α)) counts, 0 < p ∧ p ≤ 1 := by
  refine ⟨by simp [mmProbs], ?_⟩
  intro p hp
  unfold mmProbs at hp
  simp only [List.mem_map] at hp
  obtain ⟨c, hc, rfl⟩ := hp
  have h1 : 1 ≤ c := hpos c hc
  have hle : c ≤ counts.sum := List.le_sum_of_mem hc
  have hs : (0 : α) < ((counts.sum : Nat) : α) := by exact_mod_cast (by omega : 0 < counts.sum)
  have hcpos : (0 : α) < (c : α) := by exact_mod_cast (by omega : 0 < c)
  refine ⟨div_pos hcpos hs, ?_⟩
  rw [div_le_one hs]
  exact_mod_cast hle

/-- the initial probabilities `1/n` sum to one -/
theorem mmInitProbsG_sum (n : Nat) (hn : n ≠ 0) :
    (mmInitProbsG (1 : α) (fun k : Nat => (k : α)) n).sum = 1 := by
  unfold mmInitProbsG
  rw [List.sum_replicate, nsmul_eq_mul]
  field_simp
end
end Platypus
