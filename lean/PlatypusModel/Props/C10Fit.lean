import PlatypusModel.Model.HVFit
import Mathlib.Algebra.Ring.Basic
import Mathlib.Algebra.Group.Basic
import Mathlib.Tactic.NormNum
import Mathlib.Data.Rat.Defs
import Mathlib.Algebra.Order.Field.Rat
/-!
# C10 — the hypervolume-based fitness of IBEA does not depend on how a direction is encoded

Normalisation maps an objective and its mirrored, maximised twin to `n` and `1 - n` (theorem `normalize_flip` in
`Props/C10Ind.lean`).  `hvFit` (the repaired `HypervolumeFitnessEvaluator.hypervolume`) is shown to depend on a solution only
through its coordinates in "smaller is better" orientation, hence to be unchanged when any set of coordinates is mirrored and
declared maximised — for every pair of solutions, the reference point included, every depth of the recursion and every `rho`.
-/
namespace Platypus

variable {α : Type} [Ring α] [Div α] [LT α] [DecidableLT α]

/-- mirroring a coordinate and toggling its direction leaves the oriented coordinate unchanged -/
theorem hvAdj_flip (mx : Bool) (v : α) : hvAdj (!mx) (1 - v) = hvAdj mx v := by
  cases mx <;> simp [hvAdj]

theorem hvAdj_false (v : α) : hvAdj false v = v := by simp [hvAdj]

/-- flip the coordinates selected by `S` -/
def fitFlipDirs (S : Nat → Bool) (maxs : Nat → Bool) : Nat → Bool := fun i => if S i then !maxs i else maxs i
def fitFlipNorm (S : Nat → Bool) (n : Nat → α) : Nat → α := fun i => if S i then 1 - n i else n i

theorem hvAdj_flipped (S maxs : Nat → Bool) (n : Nat → α) (i : Nat) :
    hvAdj (fitFlipDirs S maxs i) (fitFlipNorm S n i) = hvAdj (maxs i) (n i) := by
  unfold fitFlipDirs fitFlipNorm
  cases S i
  · simp
  · simpa using hvAdj_flip (maxs i) (n i)

/-- **the fitness indicator depends only on the oriented coordinates** -/
theorem hvFit_oriented (rho : α) (maxs : Nat → Bool) (n1 : Nat → α) (n2 : Option (Nat → α)) (d : Nat) :
    hvFit rho maxs n1 n2 d =
      hvFit rho (fun _ => false) (fun i => hvAdj (maxs i) (n1 i)) (n2.map fun f i => hvAdj (maxs i) (f i)) d := by
  induction d generalizing n2 with
  | zero => simp [hvFit]
  | succ d ih =>
    have e1 := ih none
    have e2 := ih n2
    cases n2 with
    | none =>
      simp only [hvFit, Option.map_none] at e1 ⊢
      rw [e1]
      simp only [hvAdj_false]
    | some f =>
      simp only [hvFit, Option.map_some, Option.map_none] at e1 e2 ⊢
      rw [e1, e2]
      simp only [hvAdj_false]

/-- **C10 for IBEA's fitness**: mirror any set of objectives and declare them maximised — the indicator of every pair of
solutions (and of a solution against the reference point) is unchanged -/
theorem hvFit_flip (rho : α) (S maxs : Nat → Bool) (n1 : Nat → α) (n2 : Option (Nat → α)) (d : Nat) :
    hvFit rho (fitFlipDirs S maxs) (fitFlipNorm S n1) (n2.map (fitFlipNorm S)) d = hvFit rho maxs n1 n2 d := by
  rw [hvFit_oriented rho (fitFlipDirs S maxs), hvFit_oriented rho maxs]
  congr 1
  · funext i; exact hvAdj_flipped S maxs n1 i
  · cases n2 with
    | none => rfl
    | some f => simp only [Option.map]; congr 1; funext i; exact hvAdj_flipped S maxs f i

/-- a concrete instance where the orientation matters (2 objectives, the first maximised): the code before the repair turned
the reference point `rho = 2` into `1 - 2 = -1` for the maximised coordinate and returned 5/32 here -/
example : hvFit (2 : Rat) (fun i => i == 0) (fun i => if i = 0 then 3/4 else 1/4) (some fun i => if i = 0 then 1/4 else 3/4) 2 = 3/8 := by
  norm_num [hvFit, hvAdj]
